// matdrv: workload generator + oracle for property C15 (dense matrix library obeys its algebra).
//
//   matdrv <subcheck> <seed> <first_case> <n_cases> [stride] [--maxdim D] [--allk K] [--budget N]
//   matdrv <subcheck> count [--maxdim D]          -> prints the number of cases of the sub-check
//   sub-checks: exhaustive | random | history | conform | leak
//
// Case i of a sub-check depends only on (seed, i, parameters).  Before a case is executed the line
// "C <i> <key>" is written to stderr, so a sanitizer abort identifies its case.  stdout:
//   V <key> | <description> | <witness: subcheck seed case 1 1 params>   one line per violation (max 3 per key)
//   K <class> <count>     evaluations per class          R <name> <max error/tolerance>
//   F <key> <count>       non-finite results without exception on singular / ill-conditioned operands (not judged)
//   S <text>              sample cases                   DONE <cases>
// The oracle is long-double arithmetic with naive loops written from the definitions (no matvec code).
// Ill-conditioned (kappa 1e8..1e14) and singular operands are only watched for sanitizer reports / crashes.
// Tolerances (eps = DBL_EPSILON): exact for small-integer operands; 100*n*eps*kappa*scale for identities
// on well-conditioned operands (kappa <= 1e4 by construction); products (k+2)*2*eps*sum|a||b|.
#include <cstdio>
#include <cstdarg>
#include <cstdlib>
#include <cstring>
#include <cmath>
#include <cfloat>
#include <stdint.h>
#include <string>
#include <vector>
#include <map>
#include <functional>
#include <sstream>
#include <memory>
#include <algorithm>
#include <matvec/matvec.h>
#include <matvec/symmat.h>
#include <matvec/covmat.h>
#include <matvec/bandmat.h>
#include <matvec/svd.h>
#include <matvec/pinv.h>
#include <matvec/gso.h>
#include <matvec/sortvec.h>

typedef long double LD;
typedef GNU_gama::Exception::matvec Exc;
typedef GNU_gama::MatBase<double, int, Exc> GMB;
typedef GNU_gama::Mat<double, int, Exc> GM;
typedef GNU_gama::Vec<double, int, Exc> GV;
typedef GNU_gama::SymMat<double, int, Exc> GS;
typedef GNU_gama::BandMat<double, int, Exc> GB;
typedef GNU_gama::CovMat<double, int, Exc> GC;
typedef GNU_gama::TransMat<double, int, Exc> GT;
typedef GNU_gama::TransVec<double, int, Exc> GTV;
typedef GNU_gama::SVD<double, int, Exc> GSVD;
using GNU_gama::trans;

static const LD EPS = DBL_EPSILON;

// ---------------------------------------------------------------------------------------------
// deterministic random numbers
struct Rng {
  uint64_t s;
  explicit Rng(uint64_t seed) : s(seed) {}
  uint64_t next() { uint64_t z = (s += 0x9E3779B97F4A7C15ULL); z = (z ^ (z >> 30)) * 0xBF58476D1CE4E5B9ULL;
    z = (z ^ (z >> 27)) * 0x94D049BB133111EBULL; return z ^ (z >> 31); }
  int uni(int lo, int hi) { return lo + int(next() % uint64_t(hi - lo + 1)); }   // inclusive
  LD u01() { return LD(next() >> 11) / LD(9007199254740992.0); }
  LD gauss() { LD u = u01(), v = u01(); if (u < 1e-300L) u = 1e-300L; return sqrtl(-2 * logl(u)) * cosl(6.283185307179586476925L * v); }
};
static uint64_t mix(uint64_t a, uint64_t b, uint64_t c) { Rng r(a * 1000003ULL + b * 7919ULL + 17); r.next(); r.s ^= c * 0x2545F4914F6CDD1DULL; return r.next(); }

// ---------------------------------------------------------------------------------------------
// reporting
static std::map<std::string, long> Kc;
static std::map<std::string, double> Rm, Rprinted;
static std::map<std::string, int> Vn;
static std::string g_wit;                 // witness of the running case
static long g_sab = 0, g_cmp = 0;         // sensitivity self-test: corrupt the g_sab-th observed value
static int g_samples = 0;

static std::string fmt(const char* f, ...) __attribute__((format(printf, 1, 2)));
static std::string fmt(const char* f, ...) { char b[600]; va_list ap; va_start(ap, f); vsnprintf(b, sizeof b, f, ap); va_end(ap); return b; }

static void viol(const std::string& key, const std::string& what)
{
  if (++Vn[key] <= 3) { printf("V %s | %s | %s\n", key.c_str(), what.c_str(), g_wit.c_str()); fflush(stdout); }
}
// non-finite results on ill-conditioned / singular operands: the property says nothing about them, so they
// are counted in the evidence ("F" lines) and not reported
static std::map<std::string, long> Fc;
static void nonfin(const std::string& key, const std::string&) { Fc[key]++; }
static void kc(const std::string& cls, long n = 1) { Kc[cls] += n; }
static std::map<std::string, long> Kx;    // classes observed without being an evaluation of their own
static void kcls(const std::string& cls, long n = 1) { Kx[cls] += n; }
static void ratio(const std::string& name, LD err, LD tol)
{
  double r = tol > 0 ? double(err / tol) : (err == 0 ? 0.0 : HUGE_VAL);
  if (!(r == r)) r = HUGE_VAL;
  std::map<std::string, double>::iterator it = Rm.find(name);
  if (it == Rm.end() || r > it->second) Rm[name] = r;
}
static void sample(const std::string& s) { if (g_samples < 3) { printf("S %s\n", s.c_str()); g_samples++; } }
static void flush_counters()
{
  for (std::map<std::string, long>::iterator i = Kc.begin(); i != Kc.end(); ++i) printf("K %s %ld\n", i->first.c_str(), i->second);
  Kc.clear();
  for (std::map<std::string, long>::iterator i = Kx.begin(); i != Kx.end(); ++i) printf("k %s %ld\n", i->first.c_str(), i->second);
  Kx.clear();
  for (std::map<std::string, long>::iterator i = Fc.begin(); i != Fc.end(); ++i) printf("F %s %ld\n", i->first.c_str(), i->second);
  Fc.clear();
  for (std::map<std::string, double>::iterator i = Rm.begin(); i != Rm.end(); ++i) {
    std::map<std::string, double>::iterator p = Rprinted.find(i->first);
    if (p == Rprinted.end() || i->second > p->second) { printf("R %s %.6g\n", i->first.c_str(), i->second); Rprinted[i->first] = i->second; }
  }
  fflush(stdout);
}
// every value observed from gama passes here (sabotage hook)
static inline double obs(double x) { if (g_sab > 0 && ++g_cmp == g_sab) return x + 1.0; return x; }

// ---------------------------------------------------------------------------------------------
// reference model: dense long-double matrices (0-based)
struct RM {
  int r, c; std::vector<LD> a;
  RM() : r(0), c(0) {}
  RM(int r_, int c_) : r(r_), c(c_), a(size_t(r_ > 0 ? r_ : 0) * size_t(c_ > 0 ? c_ : 0), 0.0L) {}
  LD& operator()(int i, int j) { return a[size_t(i) * c + j]; }
  LD operator()(int i, int j) const { return a[size_t(i) * c + j]; }
};
typedef std::vector<LD> RV;
static RM rtrans(const RM& A) { RM T(A.c, A.r); for (int i = 0; i < A.r; i++) for (int j = 0; j < A.c; j++) T(j, i) = A(i, j); return T; }
static RM radd(const RM& A, const RM& B, LD sb = 1) { RM T(A.r, A.c); for (size_t i = 0; i < T.a.size(); i++) T.a[i] = A.a[i] + sb * B.a[i]; return T; }
static RM rscale(const RM& A, LD f) { RM T(A.r, A.c); for (size_t i = 0; i < T.a.size(); i++) T.a[i] = A.a[i] * f; return T; }
static RM rmul(const RM& A, const RM& B) { RM T(A.r, B.c); for (int i = 0; i < A.r; i++) for (int j = 0; j < B.c; j++) { LD s = 0; for (int k = 0; k < A.c; k++) s += A(i, k) * B(k, j); T(i, j) = s; } return T; }
static RM rabsmul(const RM& A, const RM& B) { RM T(A.r, B.c); for (int i = 0; i < A.r; i++) for (int j = 0; j < B.c; j++) { LD s = 0; for (int k = 0; k < A.c; k++) s += fabsl(A(i, k) * B(k, j)); T(i, j) = s; } return T; }
static RM rident(int n) { RM T(n, n); for (int i = 0; i < n; i++) T(i, i) = 1; return T; }
static RM rcol(const RV& v) { RM T(int(v.size()), 1); for (size_t i = 0; i < v.size(); i++) T.a[i] = v[i]; return T; }
static LD rmaxabs(const RM& A) { LD m = 0; for (size_t i = 0; i < A.a.size(); i++) m = std::max(m, fabsl(A.a[i])); return m; }
static LD rmaxdiff(const RM& A, const RM& B) { LD m = 0; for (size_t i = 0; i < A.a.size(); i++) { LD d = fabsl(A.a[i] - B.a[i]); if (!(d == d)) return HUGE_VALL; m = std::max(m, d); } return m; }
static bool rfinite(const RM& A) { for (size_t i = 0; i < A.a.size(); i++) if (!std::isfinite((double)A.a[i])) return false; return true; }
// Gauss-Jordan inverse with partial pivoting in long double; returns false if a pivot is exactly 0
static bool rinv(RM A, RM& X)
{
  int n = A.r; X = rident(n);
  for (int k = 0; k < n; k++) {
    int p = k; for (int i = k + 1; i < n; i++) if (fabsl(A(i, k)) > fabsl(A(p, k))) p = i;
    if (A(p, k) == 0) return false;
    if (p != k) for (int j = 0; j < n; j++) { std::swap(A(p, j), A(k, j)); std::swap(X(p, j), X(k, j)); }
    LD d = A(k, k);
    for (int j = 0; j < n; j++) { A(k, j) /= d; X(k, j) /= d; }
    for (int i = 0; i < n; i++) if (i != k) { LD f = A(i, k); if (f != 0) for (int j = 0; j < n; j++) { A(i, j) -= f * A(k, j); X(i, j) -= f * X(k, j); } }
  }
  return true;
}
// cyclic Jacobi eigenvalues of a symmetric matrix (ascending)
static RV reig(RM A)
{
  int n = A.r;
  for (int sweep = 0; sweep < 60; sweep++) {
    LD off = 0, dg = 0; for (int i = 0; i < n; i++) for (int j = 0; j < n; j++) (i == j ? dg : off) += A(i, j) * A(i, j);
    if (off <= 1e-38L * dg || off == 0) break;
    for (int p = 0; p < n; p++) for (int q = p + 1; q < n; q++) {
      if (A(p, q) == 0) continue;
      LD th = (A(q, q) - A(p, p)) / (2 * A(p, q));
      LD t = (th >= 0 ? 1 : -1) / (fabsl(th) + sqrtl(th * th + 1)), c = 1 / sqrtl(t * t + 1), s = t * c;
      for (int k = 0; k < n; k++) { LD x = A(k, p), y = A(k, q); A(k, p) = c * x - s * y; A(k, q) = s * x + c * y; }
      for (int k = 0; k < n; k++) { LD x = A(p, k), y = A(q, k); A(p, k) = c * x - s * y; A(q, k) = s * x + c * y; }
    }
  }
  RV e(n); for (int i = 0; i < n; i++) e[i] = A(i, i); std::sort(e.begin(), e.end()); return e;
}
// exact determinant of a small-integer matrix (fraction-free Bareiss elimination)
static long long idet(const RM& A)
{
  int n = A.r; if (n == 0) return 1; std::vector<std::vector<long long> > m(n, std::vector<long long>(n));
  for (int i = 0; i < n; i++) for (int j = 0; j < n; j++) m[i][j] = (long long)llroundl(A(i, j));
  long long prev = 1, sign = 1;
  for (int k = 0; k < n - 1; k++) {
    if (m[k][k] == 0) { int p = -1; for (int i = k + 1; i < n; i++) if (m[i][k] != 0) { p = i; break; } if (p < 0) return 0; std::swap(m[k], m[p]); sign = -sign; }
    for (int i = k + 1; i < n; i++) for (int j = k + 1; j < n; j++) m[i][j] = (m[i][j] * m[k][k] - m[i][k] * m[k][j]) / prev;
    prev = m[k][k];
  }
  return sign * m[n - 1][n - 1];
}
// positive definite? (all LDL' pivots > 0, exact for small integers in long double)
static bool rposdef(RM A)
{
  int n = A.r;
  for (int k = 0; k < n; k++) { if (!(A(k, k) > 1e-12L)) return false;
    for (int i = k + 1; i < n; i++) { LD f = A(i, k) / A(k, k); for (int j = k + 1; j < n; j++) A(i, j) -= f * A(k, j); } }
  return true;
}
// n x p matrix with orthonormal columns (Gaussian + twice-iterated modified Gram-Schmidt)
static RM rortho(int n, int p, Rng& g)
{
  RM Q(n, p);
  for (int j = 0; j < p; j++) {
    for (;;) {
      for (int i = 0; i < n; i++) Q(i, j) = g.gauss();
      for (int pass = 0; pass < 3; pass++) for (int k = 0; k < j; k++) { LD d = 0; for (int i = 0; i < n; i++) d += Q(i, k) * Q(i, j); for (int i = 0; i < n; i++) Q(i, j) -= d * Q(i, k); }
      LD nn = 0; for (int i = 0; i < n; i++) nn += Q(i, j) * Q(i, j); nn = sqrtl(nn);
      if (nn < 1e-3L) continue;
      for (int i = 0; i < n; i++) Q(i, j) /= nn;
      break;
    }
  }
  return Q;
}

// ---------------------------------------------------------------------------------------------
// observation of gama objects
static RM toRM(const GMB& G) { RM T(G.rows(), G.cols()); for (int i = 0; i < T.r; i++) for (int j = 0; j < T.c; j++) T(i, j) = obs(G(i + 1, j + 1)); return T; }
template <class VV> static RV toRV(const VV& v) { RV t(v.dim() > 0 ? v.dim() : 0); for (size_t i = 0; i < t.size(); i++) t[i] = obs(v(int(i) + 1)); return t; }
static void fromRM(GMB& G, const RM& A) { for (int i = 0; i < A.r; i++) for (int j = 0; j < A.c; j++) G(i + 1, j + 1) = double(A(i, j)); }
static RM rounded(RM A) { for (size_t i = 0; i < A.a.size(); i++) A.a[i] = double(A.a[i]); return A; }

// compare a gama matrix with the reference; tol is absolute (0 = exact)
static bool cmpM(const std::string& key, const GMB& G, const RM& ref, LD tol = 0, const char* rname = 0, const RM* tolm = 0)
{
  if (G.rows() != ref.r || G.cols() != ref.c) { viol(key + ":dims", fmt("result is %dx%d, expected %dx%d", G.rows(), G.cols(), ref.r, ref.c)); return false; }
  LD worst = 0; bool ok = true;
  for (int i = 0; i < ref.r; i++) for (int j = 0; j < ref.c; j++) {
    LD g = obs(G(i + 1, j + 1)), t = tolm ? (*tolm)(i, j) : tol, d = fabsl(g - ref(i, j));
    if (!(d <= t)) { if (ok) viol(key, fmt("element (%d,%d) of %dx%d result = %.17Lg, expected %.17Lg (tolerance %.3Lg)", i + 1, j + 1, ref.r, ref.c, g, ref(i, j), t)); ok = false; }
    if (t > 0) worst = std::max(worst, d / t); else if (d != 0) worst = HUGE_VALL;
  }
  if (rname) ratio(rname, worst, 1);
  return ok;
}
template <class VV> static bool cmpV(const std::string& key, const VV& v, const RV& ref, LD tol = 0, const char* rname = 0)
{
  if (v.dim() != int(ref.size())) { viol(key + ":dims", fmt("result has dim %d, expected %d", v.dim(), int(ref.size()))); return false; }
  LD worst = 0; bool ok = true;
  for (size_t i = 0; i < ref.size(); i++) {
    LD g = obs(v(int(i) + 1)), d = fabsl(g - ref[i]);
    if (!(d <= tol)) { if (ok) viol(key, fmt("element %d of %d = %.17Lg, expected %.17Lg (tolerance %.3Lg)", int(i) + 1, int(ref.size()), g, ref[i], tol)); ok = false; }
    if (tol > 0) worst = std::max(worst, d / tol); else if (d != 0) worst = HUGE_VALL;
  }
  if (rname) ratio(rname, worst, 1);
  return ok;
}
static bool cmpS(const std::string& key, double got, LD ref, LD tol = 0, const char* rname = 0)
{
  LD g = obs(got), d = fabsl(g - ref);
  if (rname) ratio(rname, d, tol > 0 ? tol : (d == 0 ? 1 : 0));
  if (!(d <= tol)) { viol(key, fmt("value %.17Lg, expected %.17Lg (tolerance %.3Lg)", g, ref, tol)); return false; }
  return true;
}

// ---------------------------------------------------------------------------------------------
// cases
struct Case { std::string key, cls; int k; std::function<void(const int*)> run; std::function<void()> run0; };
static std::vector<Case> cases;
static int g_maxdim = 3, g_allk = 8; static long g_budget = 4096;
static uint64_t g_seed = 1;

// value enumeration for the exhaustive sub-check: entries in {-1,0,1,2}
static const int VALS[4] = {-1, 0, 1, 2};
static long run_enum(const Case& c, uint64_t caseid)
{
  std::vector<int> v(c.k + 1, 0);
  long n = 0;
  if (c.k <= g_allk) {
    uint64_t total = 1ULL << (2 * c.k);
    for (uint64_t t = 0; t < total; t++) { uint64_t x = t; for (int i = 0; i < c.k; i++) { v[i] = VALS[x & 3]; x >>= 2; } c.run(v.data()); n++; }
  } else {
    Rng g(mix(g_seed, 11, caseid));
    for (long t = 0; t < g_budget; t++) {
      if (t < 4) for (int i = 0; i < c.k; i++) v[i] = VALS[t];
      else if (t < 8) for (int i = 0; i < c.k; i++) v[i] = VALS[(i + t) & 3];
      else for (int i = 0; i < c.k; i++) v[i] = VALS[g.next() >> 62];
      c.run(v.data()); n++;
    }
  }
  return n;
}

// ---------------------------------------------------------------------------------------------
// operands: a gama object together with its dense long-double mirror, filled from small integers
struct OM { GM g; RM r; OM(int rows, int cols, const int*& v) : g(rows, cols), r(rows, cols) { for (int i = 0; i < rows; i++) for (int j = 0; j < cols; j++) { g(i + 1, j + 1) = *v; r(i, j) = *v++; } } };
// TransMat operand with logical dimensions rows x cols, built with its own constructor and element writes
struct OT { GT g; RM r; OT(int rows, int cols, const int*& v) : g(cols, rows), r(rows, cols) { for (int i = 0; i < rows; i++) for (int j = 0; j < cols; j++) { g(i + 1, j + 1) = *v; r(i, j) = *v++; } } };
struct OV { GV g; RV r; OV(int n, const int*& v) : g(n), r(n) { for (int i = 0; i < n; i++) { g(i + 1) = *v; r[i] = *v++; } } };
struct OTV { GTV g; RV r; OTV(int n, const int*& v) : g(n), r(n) { for (int i = 0; i < n; i++) { g(i + 1) = *v; r[i] = *v++; } } };
static int symK(int n) { return n * (n + 1) / 2; }
struct OS { GS g; RM r; OS(int n, const int*& v) : g(n), r(n, n) { for (int i = 0; i < n; i++) for (int j = 0; j <= i; j++) { if ((i + j) & 1) g(j + 1, i + 1) = *v; else g(i + 1, j + 1) = *v; r(i, j) = r(j, i) = *v++; } } };
static int bandK(int n, int b) { int k = 0; for (int i = 0; i < n; i++) for (int j = i; j < n && j <= i + b; j++) k++; return k; }
template <class T> struct OBand { T g; RM r; int n, b;
  OBand(int n_, int b_, const int*& v) : g(n_, b_), r(n_, n_), n(n_), b(b_) { for (int i = 0; i < n; i++) for (int j = i; j < n && j <= i + b; j++) { if ((i + j) & 1) g(j + 1, i + 1) = *v; else g(i + 1, j + 1) = *v; r(i, j) = r(j, i) = *v++; } } };
typedef OBand<GB> OB; typedef OBand<GC> OC;
static RV rmulv(const RM& A, const RV& x) { RV y(A.r, 0.0L); for (int i = 0; i < A.r; i++) for (int j = 0; j < A.c; j++) y[i] += A(i, j) * x[j]; return y; }
static RM usv(const RM& U, const RV& s, const RM& V);
static RV rvmul(const RV& x, const RM& A) { RV y(A.c, 0.0L); for (int j = 0; j < A.c; j++) for (int i = 0; i < A.r; i++) y[j] += x[i] * A(i, j); return y; }

static void addX(const std::string& op, const std::string& type, const std::vector<int>& dims, int k, std::function<void(const int*)> f, const std::string& extra = "")
{
  bool empty = false; int mx = 0; for (size_t i = 0; i < dims.size(); i++) { if (dims[i] == 0) empty = true; mx = std::max(mx, dims[i]); }
  Case c; c.key = "exhaustive:" + op + (empty ? ":empty" : "");
  c.cls = "exhaustive/" + type + "/" + op + "/" + (empty ? std::string("empty") : fmt("dim%d", mx)) + extra; c.k = k; c.run = f;
  cases.push_back(c);
}
static double scal(int v) { return double(v); }
static double nzscal(int v) { return v == 0 ? 4.0 : double(v); }   // divisors: -1,4,1,2 (exact reciprocals)

// LL' (SymMat) and LDL' (BandMat/CovMat) factors as stored by cholDec -> reconstructed matrix
static RM recon_LL(const GS& F) { int n = F.dim(); RM L(n, n); for (int i = 0; i < n; i++) for (int j = 0; j <= i; j++) L(i, j) = obs(F(i + 1, j + 1)); return rmul(L, rtrans(L)); }
static RM recon_LDL(const GMB& F) { int n = F.rows(); RM L(n, n), D(n, n); for (int i = 0; i < n; i++) { L(i, i) = 1; D(i, i) = obs(F(i + 1, i + 1)); for (int j = 0; j < i; j++) L(i, j) = obs(F(j + 1, i + 1)); } return rmul(rmul(L, D), rtrans(L)); }
static bool vfinite(const GV& v) { for (int i = 1; i <= v.dim(); i++) if (!std::isfinite(v(i))) return false; return true; }
static bool mfinite(const GMB& m) { for (int i = 1; i <= m.rows(); i++) for (int j = 1; j <= m.cols(); j++) if (!std::isfinite(m(i, j))) return false; return true; }

template <class T> static void io_roundtrip(const std::string& key, const T& A, T& B, const RM& ref)
{
  std::ostringstream os; os.precision(17); os << A;
  std::istringstream is(os.str()); is >> B;
  if (!is) { viol(key + ":stream", "reading back the written text failed: [" + os.str().substr(0, 80) + "]"); return; }
  cmpM(key, B, ref);
}

template <class OBT, class BT> static void band_families(const char* T, int D)
{
  std::string t = T;
  for (int n = 0; n <= D; n++) for (int b = 0; b <= std::max(0, n - 1); b++) {
    std::string ex = fmt("b%d", b); int k = bandK(n, b);
    addX(t + ".access", t, {n}, k, [=](const int* v) {
      OBT A(n, b, v); const BT& c = A.g; std::string key = "exhaustive:" + t + ".access";
      if (c.dim() != n || c.rows() != n || c.cols() != n || c.bandWidth() != b) viol(key + ":dims", fmt("dim %d rows %d cols %d band %d, expected %d/%d", c.dim(), c.rows(), c.cols(), c.bandWidth(), n, b));
      for (int i = 1; i <= n; i++) for (int j = 1; j <= n; j++) {
        double g = obs(c(i, j)); bool in = std::abs(i - j) <= b;
        if (g != double(A.r(i - 1, j - 1))) { viol(key + (in ? ":read-in-band" : ":read-outside-band"), fmt("n=%d band=%d const (%d,%d) = %g, dense mirror %Lg", n, b, i, j, g, A.r(i - 1, j - 1))); return; }
        if (!in) { bool thrown = false; try { A.g(i, j) = 7; } catch (const Exc&) { thrown = true; }
          if (!thrown) { viol(key + ":write-outside-band", fmt("n=%d band=%d non-const (%d,%d) outside the band did not throw", n, b, i, j)); return; } }
      }
      for (int i = 1; i <= n; i++) for (int m = 0; m <= b && i + m <= n; m++) if (obs(A.g[i][m]) != double(A.r(i - 1, i + m - 1))) { viol(key + ":operator[]", fmt("n=%d band=%d [%d][%d] = %g, mirror %Lg", n, b, i, m, A.g[i][m], A.r(i - 1, i + m - 1))); return; }
    }, ex);
    addX(t + "*Vec", t, {n}, k + n, [=](const int* v) { OBT A(n, b, v); OV x(n, v); GV y = A.g * x.g; cmpV("exhaustive:" + t + "*Vec", y, rmulv(A.r, x.r)); }, ex);
    addX("MatBase*Vec(" + t + ")", t, {n}, k + n, [=](const int* v) { OBT A(n, b, v); OV x(n, v); const GMB& a = A.g; GV y = a * x.g; cmpV("exhaustive:MatBase*Vec(" + t + ")", y, rmulv(A.r, x.r)); }, ex);
    addX("TransVec*MatBase(" + t + ")", t, {n}, k + n, [=](const int* v) { OBT A(n, b, v); OTV x(n, v); const GMB& a = A.g; GTV y = x.g * a; cmpV("exhaustive:TransVec*MatBase(" + t + ")", y, rvmul(x.r, A.r)); }, ex);
    addX("MatBase+-*MatBase(" + t + ")", t, {n}, 2 * k, [=](const int* v) { OBT A(n, b, v); OBT B(n, b, v); const GMB &a = A.g, &c = B.g;
      { GM s = a + c; cmpM("exhaustive:MatBase+MatBase(" + t + ")", s, radd(A.r, B.r)); } { GM s = a - c; cmpM("exhaustive:MatBase-MatBase(" + t + ")", s, radd(A.r, B.r, -1)); }
      { GM s = a * c; cmpM("exhaustive:MatBase*MatBase(" + t + ")", s, rmul(A.r, B.r)); } }, ex);
    addX(t + ".set", t, {n}, 1, [=](const int* v) { BT A(n, b); RM z(n, n), d(n, n), al(n, n); for (int i = 0; i < n; i++) { d(i, i) = v[0]; for (int j = 0; j < n; j++) if (std::abs(i - j) <= b) al(i, j) = v[0]; }
      A.set_all(v[0]); cmpM("exhaustive:" + t + ".set_all", A, al); A.set_zero(); cmpM("exhaustive:" + t + ".set_zero", A, z);
      A.set_diagonal(v[0]); cmpM("exhaustive:" + t + ".set_diagonal", A, d); A.set_all(5); A.set_identity(); cmpM("exhaustive:" + t + ".set_identity", A, rident(n)); }, ex);
    addX(t + ".io", t, {n}, k, [=](const int* v) { OBT A(n, b, v); BT B; io_roundtrip("exhaustive:" + t + ".io", A.g, B, A.r); }, ex);
    addX(t + ".cholDec+solve", t, {n}, k + n, [=](const int* v) {
      OBT A(n, b, v); OV x(n, v); std::string key = "exhaustive:" + t + ".cholDec";
      bool pd = n > 0 && rposdef(A.r);
      kcls("exhaustive/" + t + "/cholDec/" + (n == 0 ? "empty" : pd ? "posdef" : "not-posdef"));
      try { A.g.cholDec(); } catch (const Exc&) { if (pd) viol(key + ":posdef-rejected", fmt("n=%d band=%d positive definite small-integer matrix rejected", n, b)); return; }
      if (n == 0) { viol(key + ":empty:no-exception", "cholDec of a 0x0 matrix did not throw (the library states BadRank)"); return; }
      if (!pd) { if (!mfinite(A.g)) nonfin(key + ":not-posdef:nonfinite", fmt("n=%d band=%d: no exception and a non-finite factor", n, b)); return; }
      RV e = reig(A.r); LD kappa = e[n - 1] / e[0], tol = 100 * n * EPS * kappa * std::max<LD>(1, rmaxabs(A.r));
      RM rec = recon_LDL(A.g); LD d = rmaxdiff(rec, A.r); ratio("exhaustive_chol_recon", d, tol);
      if (!(d <= tol)) viol(key + ":LDL'", fmt("n=%d band=%d: L*D*L' differs from A by %.3Lg (tolerance %.3Lg)", n, b, d, tol));
      RV rhs = rmulv(A.r, x.r); GV y(n); for (int i = 0; i < n; i++) y(i + 1) = double(rhs[i]);
      A.g.solve(y); LD xs = 1; for (int i = 0; i < n; i++) xs = std::max(xs, fabsl(x.r[i]));
      cmpV("exhaustive:" + t + ".solve", y, x.r, 100 * n * EPS * kappa * xs, "exhaustive_chol_solve");
    }, ex);
  }
}

static void build_exhaustive(int D)
{
  const std::string X = "exhaustive:";
  // ---- Mat / TransMat, r x c
  for (int r = 0; r <= D; r++) for (int c = 0; c <= D; c++) {
    int n = r * c;
    addX("Mat+Mat", "Mat", {r, c}, 2 * n, [=](const int* v) { OM A(r, c, v), B(r, c, v); GM C = A.g + B.g; cmpM(X + "Mat+Mat", C, radd(A.r, B.r)); });
    addX("Mat-Mat", "Mat", {r, c}, 2 * n, [=](const int* v) { OM A(r, c, v), B(r, c, v); GM C = A.g - B.g; cmpM(X + "Mat-Mat", C, radd(A.r, B.r, -1)); });
    addX("MatBase+-MatBase", "Mat", {r, c}, 2 * n, [=](const int* v) { OM A(r, c, v), B(r, c, v); const GMB &a = A.g, &b = B.g;
      { GM C = a + b; cmpM(X + "MatBase+MatBase", C, radd(A.r, B.r)); } { GM C = a - b; cmpM(X + "MatBase-MatBase", C, radd(A.r, B.r, -1)); } });
    addX("Mat*scalar", "Mat", {r, c}, n + 1, [=](const int* v) { OM A(r, c, v); double f = scal(*v);
      { GM C = A.g * f; cmpM(X + "Mat*scalar", C, rscale(A.r, f)); } { GM C = f * A.g; cmpM(X + "scalar*Mat", C, rscale(A.r, f)); }
      { GM C(r, c); fromRM(C, A.r); C *= f; cmpM(X + "Mat*=scalar", C, rscale(A.r, f)); }
      { GM C(r, c); fromRM(C, A.r); double q = nzscal(v[0]); C /= q; cmpM(X + "Mat/=scalar", C, rscale(A.r, 1 / LD(q))); } });
    addX("trans(Mat)", "TransMat", {r, c}, n, [=](const int* v) { OM A(r, c, v); RM At = rtrans(A.r);
      GT t = trans(A.g); cmpM(X + "trans(Mat)", t, At);
      GM b(t); cmpM(X + "Mat(TransMat)", b, At);
      GM d = trans(t); cmpM(X + "trans(TransMat)", d, A.r);
      A.g.transpose(); cmpM(X + "Mat.transpose()", A.g, At); });
    addX("TransMat(r,c)", "TransMat", {r, c}, n, [=](const int* v) { OT T(r, c, v); cmpM(X + "TransMat(r,c)", T.g, T.r); GM b(T.g); cmpM(X + "Mat(TransMat(r,c))", b, T.r); GM d = trans(T.g); cmpM(X + "trans(TransMat(r,c))", d, rtrans(T.r)); });
    addX("TransMat+-TransMat", "TransMat", {r, c}, 2 * n, [=](const int* v) { OT A(r, c, v), B(r, c, v);
      { GT C = A.g + B.g; cmpM(X + "TransMat+TransMat", C, radd(A.r, B.r)); } { GT C = A.g - B.g; cmpM(X + "TransMat-TransMat", C, radd(A.r, B.r, -1)); } });
    addX("Mat+-TransMat", "TransMat", {r, c}, 2 * n, [=](const int* v) { OM A(r, c, v); OT B(r, c, v);
      { GM C = A.g + B.g; cmpM(X + "Mat+TransMat", C, radd(A.r, B.r)); } { GM C = A.g - B.g; cmpM(X + "Mat-TransMat", C, radd(A.r, B.r, -1)); }
      { GM C = B.g + A.g; cmpM(X + "TransMat+Mat", C, radd(B.r, A.r)); } { GM C = B.g - A.g; cmpM(X + "TransMat-Mat", C, radd(B.r, A.r, -1)); } });
    addX("Mat.set", "Mat", {r, c}, 1, [=](const int* v) { GM A(r, c); RM z(r, c), d(r, c), al(r, c), id(r, c); for (int i = 0; i < r; i++) for (int j = 0; j < c; j++) { al(i, j) = v[0]; if (i == j) { d(i, j) = v[0]; id(i, j) = 1; } }
      A.set_all(v[0]); cmpM(X + "Mat.set_all", A, al); A.set_zero(); cmpM(X + "Mat.set_zero", A, z); A.set_diagonal(v[0]); cmpM(X + "Mat.set_diagonal", A, d);
      A.set_all(5); A.set_identity(); cmpM(X + "Mat.set_identity", A, id);
      if (A.min_rc() != std::min(r, c) || A.max_rc() != std::max(r, c)) viol(X + "Mat.min_rc", "min_rc/max_rc wrong"); });
    addX("Mat*Vec", "Mat", {r, c}, n + c, [=](const int* v) { OM A(r, c, v); OV x(c, v); RV y = rmulv(A.r, x.r); const GMB& a = A.g;
      { GV g = A.g * x.g; cmpV(X + "Mat*Vec", g, y); } { GV g = a * x.g; cmpV(X + "MatBase*Vec", g, y); } });
    addX("TransMat*Vec", "TransMat", {r, c}, n + c, [=](const int* v) { OT A(r, c, v); OV x(c, v); RV y = rmulv(A.r, x.r); const GMB& a = A.g;
      { GV g = A.g * x.g; cmpV(X + "TransMat*Vec", g, y); } { GV g = a * x.g; cmpV(X + "MatBase*Vec(TransMat)", g, y); } });
    // Vec * TransMat returns a TransVec after checking A.rows()==b.dim(): the only conforming reading is b' * A
    addX("Vec*TransMat", "TransMat", {r, c}, n + r, [=](const int* v) { OT A(r, c, v); OV x(r, v); GTV g = x.g * A.g; cmpV(X + "Vec*TransMat", g, rvmul(x.r, A.r)); });
    addX("TransVec*Mat", "TransVec", {r, c}, n + r, [=](const int* v) { OM A(r, c, v); OTV x(r, v); RV y = rvmul(x.r, A.r); GTV g = x.g * A.g; cmpV(X + "TransVec*Mat", g, y); });
    addX("TransVec*MatBase(Mat)", "TransVec", {r, c}, n + r, [=](const int* v) { OM A(r, c, v); OTV x(r, v); const GMB& a = A.g; GTV g = x.g * a; cmpV(X + "TransVec*MatBase(Mat)", g, rvmul(x.r, A.r)); });
    addX("TransVec*MatBase(TransMat)", "TransVec", {r, c}, n + r, [=](const int* v) { OT A(r, c, v); OTV x(r, v); GTV g = x.g * A.g; cmpV(X + "TransVec*MatBase(TransMat)", g, rvmul(x.r, A.r)); });
    addX("Mat.io", "Mat", {r, c}, n, [=](const int* v) { OM A(r, c, v); GM B; io_roundtrip(X + "Mat.io", A.g, B, A.r); });
    addX("Mat*SymMat", "SymMat", {r, c}, n + symK(c), [=](const int* v) { OM A(r, c, v); OS S(c, v); GM C = A.g * S.g; cmpM(X + "Mat*SymMat", C, rmul(A.r, S.r)); });
    addX("SymMat*Mat", "SymMat", {r, c}, n + symK(r), [=](const int* v) { OS S(r, v); OM A(r, c, v); GM C = S.g * A.g; cmpM(X + "SymMat*Mat", C, rmul(S.r, A.r)); });
  }
  // ---- SVD / pinv of tiny integer matrices (exact rank, singular values from the Jacobi reference)
  for (int r = 0; r <= D; r++) for (int c = 0; c <= D; c++)
    addX("SVD+pinv", "Mat", {r, c}, r * c, [=](const int* v) { OM A(r, c, v); int N = std::max(r, c); RV ev = reig(rmul(rtrans(A.r), A.r)); LD smax = 0, smin = 0; int rank = 0;
      for (int i = 0; i < c; i++) { LD sv = ev[i] > 0 ? sqrtl(ev[i]) : 0; if (sv > 1e-7L) { rank++; if (smin == 0 || sv < smin) smin = sv; } smax = std::max(smax, sv); }
      LD kappa = rank ? smax / smin : 1, tol = 100 * N * EPS * kappa; kcls(fmt("exhaustive/Mat/SVD+pinv/%s", rank == std::min(r, c) ? "full-rank" : rank == 0 ? "zero-matrix" : "rank-deficient"));
      { GSVD svd(A.g); svd.decompose(); RM U = toRM(svd.SVD_U()), V = toRM(svd.SVD_V()); RV W = toRV(svd.SVD_W());
        if (U.r != r || U.c != c || V.r != c || V.c != c || int(W.size()) != c) { viol(X + "SVD:dims", "dimensions of U, W, V wrong"); return; }
        LD e1 = rmaxdiff(usv(U, W, V), A.r), e2 = rmaxdiff(rmul(rtrans(V), V), rident(c)); ratio("exhaustive_svd", std::max(e1 / std::max<LD>(1, smax), e2), tol);
        if (!(e1 <= tol * std::max<LD>(1, smax))) viol(X + "SVD:reconstruct", fmt("%dx%d rank %d: max|U*W*V'-A| = %.3Lg > %.3Lg", r, c, rank, e1, tol * std::max<LD>(1, smax)));
        if (!(e2 <= tol)) viol(X + "SVD:V-orthonormal", fmt("%dx%d rank %d: max|V'V-I| = %.3Lg", r, c, rank, e2));
        if (r >= c) { LD e3 = rmaxdiff(rmul(rtrans(U), U), rident(c)); if (!(e3 <= tol)) viol(X + "SVD:U-orthonormal", fmt("%dx%d rank %d: max|U'U-I| = %.3Lg", r, c, rank, e3)); }
        for (int i = 0; i < c; i++) if (!(W[i] >= 0)) { viol(X + "SVD:W>=0", "negative singular value"); break; }
        if (svd.nullity() != c - rank) viol(X + "SVD:nullity", fmt("%dx%d rank %d: nullity() = %d", r, c, rank, svd.nullity())); }
      { GM P = GNU_gama::pinv(A.g); if (P.rows() != c || P.cols() != r) { viol(X + "pinv:dims", "dimensions wrong"); return; } RM Xr = toRM(P), AX = rmul(A.r, Xr), XA = rmul(Xr, A.r); LD pn = rank ? 1 / smin : 1, sc = std::max<LD>(1, smax);
        LD e1 = rmaxdiff(rmul(AX, A.r), A.r), e2 = rmaxdiff(rmul(XA, Xr), Xr), e3 = rmaxdiff(rtrans(AX), AX), e4 = rmaxdiff(rtrans(XA), XA); ratio("exhaustive_pinv", std::max(std::max(e1 / sc, e2 / pn), std::max(e3, e4)), tol);
        std::string w = fmt("%dx%d rank %d", r, c, rank);
        if (!(e1 <= tol * sc)) viol(X + "pinv:MP1", w + fmt(": max|A*A+*A-A| = %.3Lg", e1)); if (!(e2 <= tol * pn)) viol(X + "pinv:MP2", w + fmt(": max|A+*A*A+-A+| = %.3Lg", e2));
        if (!(e3 <= tol)) viol(X + "pinv:MP3", w + fmt(": max|(A*A+)'-A*A+| = %.3Lg", e3)); if (!(e4 <= tol)) viol(X + "pinv:MP4", w + fmt(": max|(A+*A)'-A+*A| = %.3Lg", e4)); } });
  // ---- products r x m x c
  for (int r = 0; r <= D; r++) for (int m = 0; m <= D; m++) for (int c = 0; c <= D; c++) {
    int k = r * m + m * c;
    addX("Mat*Mat", "Mat", {r, m, c}, k, [=](const int* v) { OM A(r, m, v), B(m, c, v); RM P = rmul(A.r, B.r); const GMB &a = A.g, &b = B.g;
      { GM C = A.g * B.g; cmpM(X + "Mat*Mat", C, P); } { GM C = a * b; cmpM(X + "MatBase*MatBase", C, P); } });
    addX("TransMat*Mat", "TransMat", {r, m, c}, k, [=](const int* v) { OT A(r, m, v); OM B(m, c, v); GM C = A.g * B.g; cmpM(X + "TransMat*Mat", C, rmul(A.r, B.r)); });
    addX("Mat*TransMat", "TransMat", {r, m, c}, k, [=](const int* v) { OM A(r, m, v); OT B(m, c, v); GM C = A.g * B.g; cmpM(X + "Mat*TransMat", C, rmul(A.r, B.r)); });
    addX("TransMat*TransMat", "TransMat", {r, m, c}, k, [=](const int* v) { OT A(r, m, v), B(m, c, v); GM C = A.g * B.g; cmpM(X + "TransMat*TransMat", C, rmul(A.r, B.r)); });
  }
  // ---- Vec / TransVec
  for (int n = 0; n <= D + 2; n++) {
    addX("Vec+-Vec", "Vec", {n}, 2 * n, [=](const int* v) { OV a(n, v), b(n, v); RV s(n), d(n); LD dot = 0; for (int i = 0; i < n; i++) { s[i] = a.r[i] + b.r[i]; d[i] = a.r[i] - b.r[i]; dot += a.r[i] * b.r[i]; }
      { GV g = a.g + b.g; cmpV(X + "Vec+Vec", g, s); } { GV g = a.g - b.g; cmpV(X + "Vec-Vec", g, d); }
      { GV g(n); for (int i = 1; i <= n; i++) g(i) = a.g(i); g += b.g; cmpV(X + "Vec+=Vec", g, s); g -= b.g; cmpV(X + "Vec-=Vec", g, a.r); }
      cmpS(X + "Vec.dot", a.g.dot(b.g), dot);
      { GTV t(n); for (int i = 1; i <= n; i++) t(i) = a.g(i); cmpS(X + "TransVec*Vec", t * b.g, dot);
        GTV u(n); for (int i = 1; i <= n; i++) u(i) = b.g(i); { GTV g = t + u; cmpV(X + "TransVec+TransVec", g, s); } { GTV g = t - u; cmpV(X + "TransVec-TransVec", g, d); } } });
    addX("Vec*scalar", "Vec", {n}, n + 1, [=](const int* v) { OV a(n, v); double f = scal(*v), q = nzscal(*v); RV s(n), dv(n); for (int i = 0; i < n; i++) { s[i] = a.r[i] * f; dv[i] = a.r[i] / q; }
      { GV g = a.g * f; cmpV(X + "Vec*scalar", g, s); } { GV g = f * a.g; cmpV(X + "scalar*Vec", g, s); }
      { GV g(n); for (int i = 1; i <= n; i++) g(i) = a.g(i); g *= f; cmpV(X + "Vec*=scalar", g, s); }
      { GV g(n); for (int i = 1; i <= n; i++) g(i) = a.g(i); g /= q; cmpV(X + "Vec/=scalar", g, dv); }
      { GTV t(n); for (int i = 1; i <= n; i++) t(i) = a.g(i); { GTV g = t * f; cmpV(X + "TransVec*scalar", g, s); } { GTV g = f * t; cmpV(X + "scalar*TransVec", g, s); } } });
    addX("Vec.norms", "Vec", {n}, n, [=](const int* v) { OV a(n, v); LD l1 = 0, l2 = 0, li = 0; for (int i = 0; i < n; i++) { l1 += fabsl(a.r[i]); l2 += a.r[i] * a.r[i]; li = std::max(li, fabsl(a.r[i])); }
      cmpS(X + "Vec.norm_L1", a.g.norm_L1(), l1); cmpS(X + "Vec.norm_Linf", a.g.norm_Linf(), li); cmpS(X + "Vec.norm_L2", a.g.norm_L2(), sqrtl(l2), 4 * EPS * sqrtl(l2), "exhaustive_norm_L2");
      if (a.g.dim() != n) viol(X + "Vec.dim", "dim() wrong");
      { double f = n ? double(a.r[0]) : 1.0; GV g(n); g.set_all(f); cmpV(X + "Vec.set_all", g, RV(n, LD(f))); g.set_zero(); cmpV(X + "Vec.set_zero", g, RV(n, 0)); } });
    addX("sort(Vec)", "Vec", {n}, n, [=](const int* v) { OV a(n, v); RV s = a.r; std::sort(s.begin(), s.end()); GNU_gama::sort(a.g); cmpV(X + "sort(Vec)", a.g, s); });
    addX("trans(Vec)", "TransVec", {n}, n, [=](const int* v) { OV a(n, v); GTV t = trans(a.g); cmpV(X + "trans(Vec)", t, a.r); GV b = trans(t); cmpV(X + "trans(TransVec)", b, a.r); GV c(a.g); cmpV(X + "Vec(Vec)", c, a.r); });
    addX("Vec.io", "Vec", {n}, n, [=](const int* v) { OV a(n, v); std::ostringstream os; os.precision(17); os << a.g; std::istringstream is(os.str()); GV b; is >> b;
      if (!is) viol(X + "Vec.io:stream", "reading back failed"); else cmpV(X + "Vec.io", b, a.r); });
  }
  // ---- square: Mat.invert, SymMat
  for (int n = 0; n <= D; n++) {
    addX("Mat.invert", "Mat", {n}, n * n, [=](const int* v) { OM A(n, n, v); RM Xr; bool reg = idet(A.r) != 0 && rinv(A.r, Xr);
      kcls(std::string("exhaustive/Mat/invert/") + (n == 0 ? "empty" : reg ? "regular" : "singular"));
      try { GM I = GNU_gama::inv(A.g);
        if (reg) { LD kappa = std::max<LD>(1, rmaxabs(A.r) * rmaxabs(Xr) * n), tol = 100 * n * EPS * kappa * std::max<LD>(1, rmaxabs(Xr)); cmpM(X + "inv(Mat)", I, Xr, tol, "exhaustive_inv"); }
        else if (!mfinite(I)) nonfin(X + "inv(Mat):singular:nonfinite", fmt("n=%d singular small-integer matrix: no exception and a non-finite inverse", n));
      } catch (const Exc& e) { if (reg) viol(X + "inv(Mat):regular-rejected", fmt("n=%d regular small-integer matrix (|det|>=1) rejected: %s", n, e.what())); } });
    int k = symK(n);
    addX("SymMat.access", "SymMat", {n}, k, [=](const int* v) { OS S(n, v); const GS& s = S.g; if (s.dim() != n || s.rows() != n || s.cols() != n) viol(X + "SymMat.access:dims", "dim/rows/cols wrong");
      for (int i = 1; i <= n; i++) for (int j = 1; j <= n; j++) if (obs(s(i, j)) != double(S.r(i - 1, j - 1)) || obs(S.g(i, j)) != double(S.r(i - 1, j - 1))) { viol(X + "SymMat.access", fmt("n=%d (%d,%d) = %g, mirror %Lg", n, i, j, s(i, j), S.r(i - 1, j - 1))); return; }
      cmpM(X + "SymMat.access:virtual", S.g, S.r);
      { GM q = GNU_gama::Square(S.g); cmpM(X + "Square(SymMat)", q, S.r); }
      RM lo(n, n), up(n, n); for (int i = 0; i < n; i++) for (int j = 0; j < n; j++) { if (i >= j) lo(i, j) = S.r(i, j); if (i <= j) up(i, j) = S.r(i, j); }
      { GM q = GNU_gama::Lower(S.g); cmpM(X + "Lower(SymMat)", q, lo); } { GM q = GNU_gama::Upper(S.g); cmpM(X + "Upper(SymMat)", q, up); }
      cmpM(X + "trans(SymMat)", trans(s), S.r);
      { GS B; io_roundtrip(X + "SymMat.io", S.g, B, S.r); } });
    addX("Lower/Upper(Mat)", "SymMat", {n}, n * n, [=](const int* v) { OM A(n, n, v); RM lo(n, n), up(n, n); for (int i = 0; i < n; i++) for (int j = 0; j < n; j++) { lo(i, j) = A.r(std::max(i, j), std::min(i, j)); up(i, j) = A.r(std::min(i, j), std::max(i, j)); }
      { GS s = GNU_gama::Lower(A.g); cmpM(X + "Lower(Mat)", s, lo); } { GS s = GNU_gama::Upper(A.g); cmpM(X + "Upper(Mat)", s, up); } });
    addX("SymMat+-SymMat", "SymMat", {n}, 2 * k, [=](const int* v) { OS A(n, v), B(n, v); RM s = radd(A.r, B.r), d = radd(A.r, B.r, -1);
      { GS C = A.g + B.g; cmpM(X + "SymMat+SymMat", C, s); } { GS C = A.g - B.g; cmpM(X + "SymMat-SymMat", C, d); }
      { GS C = GNU_gama::operator+<double, int, Exc>(A.g, B.g); cmpM(X + "operator+(SymMat,SymMat)", C, s); } { GS C = GNU_gama::operator-<double, int, Exc>(A.g, B.g); cmpM(X + "operator-(SymMat,SymMat)", C, d); }
      { GS C(n); fromRM(C, A.r); C += B.g; cmpM(X + "SymMat+=SymMat", C, s); C -= B.g; cmpM(X + "SymMat-=SymMat", C, A.r); } });
    addX("SymMat*scalar", "SymMat", {n}, k + 1, [=](const int* v) { OS A(n, v); double f = scal(*v); { GS C = A.g * f; cmpM(X + "SymMat*scalar", C, rscale(A.r, f)); } { GS C = f * A.g; cmpM(X + "scalar*SymMat", C, rscale(A.r, f)); }
      { GS C(n); C.set_all(f); RM al(n, n); for (size_t i = 0; i < al.a.size(); i++) al.a[i] = f; cmpM(X + "SymMat.set_all", C, al); C.set_identity(); cmpM(X + "SymMat.set_identity", C, rident(n)); } });
    addX("SymMat*SymMat", "SymMat", {n}, 2 * k, [=](const int* v) { OS A(n, v), B(n, v); RM P = rmul(A.r, B.r); GS C = A.g * B.g;
      if (C.dim() != n) { viol(X + "SymMat*SymMat:dims", "dim wrong"); return; }
      for (int i = 1; i <= n; i++) for (int j = 1; j <= i; j++) if (obs(C(i, j)) != double(P(i - 1, j - 1))) { viol(X + "SymMat*SymMat:lower-triangle", fmt("n=%d (A*B)(%d,%d)=%Lg, SymMat result %g", n, i, j, P(i - 1, j - 1), C(i, j))); return; }
      for (int i = 1; i <= n; i++) for (int j = i + 1; j <= n; j++) if (obs(C(i, j)) != double(P(i - 1, j - 1))) { viol(X + "SymMat*SymMat:upper-triangle", fmt("n=%d (A*B)(%d,%d)=%Lg but the SymMat result gives %g there (the product of symmetric matrices need not be symmetric)", n, i, j, P(i - 1, j - 1), C(i, j))); return; }
      { const GMB &a = A.g, &b = B.g; GM G = a * b; cmpM(X + "MatBase*MatBase(SymMat)", G, P); } });
    addX("SymMat*Vec", "SymMat", {n}, k + n, [=](const int* v) { OS A(n, v); OV x(n, v); { GV g = A.g * x.g; cmpV(X + "SymMat*Vec", g, rmulv(A.r, x.r)); }
      { GTV t(n); for (int i = 1; i <= n; i++) t(i) = x.g(i); GTV g = t * A.g; cmpV(X + "TransVec*SymMat", g, rvmul(x.r, A.r)); } });
    addX("SymMat.cholDec+solve", "SymMat", {n}, k + n, [=](const int* v) { OS A(n, v); OV x(n, v); bool pd = n > 0 && rposdef(A.r);
      kcls(std::string("exhaustive/SymMat/cholDec/") + (n == 0 ? "empty" : pd ? "posdef" : "not-posdef"));
      try { A.g.cholDec(); } catch (const Exc&) { if (pd) viol(X + "SymMat.cholDec:posdef-rejected", "positive definite small-integer matrix rejected"); return; }
      if (!pd) { if (!mfinite(A.g)) nonfin(X + "SymMat.cholDec:not-posdef:nonfinite", "no exception and a non-finite factor"); return; }
      if (A.g.nullity() != 0) viol(X + "SymMat.cholDec:nullity", fmt("positive definite matrix reported nullity %d", A.g.nullity()));
      RV e = reig(A.r); LD kappa = e[n - 1] / e[0], tol = 100 * n * EPS * kappa * std::max<LD>(1, rmaxabs(A.r));
      LD d = rmaxdiff(recon_LL(A.g), A.r); ratio("exhaustive_chol_recon", d, tol); if (!(d <= tol)) viol(X + "SymMat.cholDec:LL'", fmt("n=%d L*L' differs from A by %.3Lg (tol %.3Lg)", n, d, tol));
      RV rhs = rmulv(A.r, x.r); GV y(n); for (int i = 0; i < n; i++) y(i + 1) = double(rhs[i]); A.g.solve(y);
      LD xs = 1; for (int i = 0; i < n; i++) xs = std::max(xs, fabsl(x.r[i])); cmpV(X + "SymMat.solve", y, x.r, 100 * n * EPS * kappa * xs, "exhaustive_chol_solve"); });
    addX("SymMat.invert", "SymMat", {n}, k, [=](const int* v) { OS A(n, v); bool pd = n > 0 && rposdef(A.r);
      kcls(std::string("exhaustive/SymMat/invert/") + (n == 0 ? "empty" : pd ? "posdef" : "not-posdef"));
      try { GS I = GNU_gama::inv(A.g);
        if (pd) { RM Xr; rinv(A.r, Xr); RV e = reig(A.r); cmpM(X + "inv(SymMat)", I, Xr, 100 * n * EPS * (e[n - 1] / e[0]) * std::max<LD>(1, rmaxabs(Xr)), "exhaustive_inv"); }
        else if (n > 0 && !mfinite(I)) nonfin(X + "inv(SymMat):not-posdef:nonfinite", fmt("n=%d: matrix not positive definite, no exception and a non-finite result", n));
      } catch (const Exc&) { if (pd) viol(X + "inv(SymMat):posdef-rejected", "positive definite small-integer matrix rejected"); } });
  }
  band_families<OB, GB>("BandMat", D);
  band_families<OC, GC>("CovMat", D);
  for (int n = 1; n <= D; n++) for (int b = 0; b <= n - 1; b++) {
    std::string ex = fmt("b%d", b); int k = bandK(n, b);
    addX("BandMat.invBand", "BandMat", {n}, k, [=](const int* v) { OB A(n, b, v); if (!rposdef(A.r)) return; RM Xr; rinv(A.r, Xr); RV e = reig(A.r); LD tol = 100 * n * EPS * (e[n - 1] / e[0]) * std::max<LD>(1, rmaxabs(Xr));
      kcls("exhaustive/BandMat/invBand/posdef");
      A.g.cholDec(); for (int pb = b; pb <= std::min(n - 1, b + 1); pb++) { GB Z; A.g.invBand(Z, pb == b ? 0 : pb);
        if (Z.dim() != n || Z.bandWidth() != pb) { viol(X + "BandMat.invBand:dims", fmt("Z is dim %d band %d, expected %d/%d", Z.dim(), Z.bandWidth(), n, pb)); return; }
        const GB& z = Z; for (int i = 1; i <= n; i++) for (int j = 1; j <= n; j++) if (std::abs(i - j) <= pb) { LD d = fabsl(obs(z(i, j)) - Xr(i - 1, j - 1)); ratio("exhaustive_invBand", d, tol);
          if (!(d <= tol)) { viol(X + "BandMat.invBand", fmt("n=%d band=%d zband=%d: Z(%d,%d)=%g, inverse %Lg", n, b, pb, i, j, z(i, j), Xr(i - 1, j - 1))); return; } } } }, ex);
    addX("BandMat.eigenVal", "BandMat", {n}, k, [=](const int* v) { OB A(n, b, v); RV e = reig(A.r); GV g; A.g.eigenVal(g); GNU_gama::sort(g);
      cmpV(X + "BandMat.eigenVal", g, e, 100 * n * EPS * std::max<LD>(1, rmaxabs(A.r) * n), "exhaustive_eigenVal"); }, ex);
  }
  { Case c; c.key = "exhaustive:MatBase::reset()"; c.cls = "exhaustive/MatBase/reset-via-base/dim3"; c.k = 0; c.run = [=](const int*) {
      { GS s(3); s.set_all(1); GMB& b = s; b.reset(); if (s.dim() != s.rows() || s.rows() != 0) viol(X + "MatBase::reset()(SymMat)", fmt("after reset() through the MatBase interface: rows()=%d but dim()=%d (element access would use the stale dimension)", s.rows(), s.dim())); }
      { GB s(3, 1); s.set_all(1); GMB& b = s; b.reset(); if (s.dim() != 0) viol(X + "MatBase::reset()(BandMat)", fmt("after reset() through the MatBase interface: dim()=%d bandWidth()=%d", s.dim(), s.bandWidth())); }
      { GC s(3, 1); s.set_all(1); GMB& b = s; b.reset(); if (s.dim() != 0) viol(X + "MatBase::reset()(CovMat)", fmt("after reset() through the MatBase interface: dim()=%d bandWidth()=%d", s.dim(), s.bandWidth())); } };
    cases.push_back(c); }
  { Case c; c.key = "exhaustive:initializer_list"; c.cls = "exhaustive/Mat/initializer_list/dim3"; c.k = 0; c.run = [=](const int*) {
      GM A{{1, 2, 3}, {4, 5, 6}}; RM r(2, 3); for (int i = 0; i < 6; i++) r.a[i] = i + 1; cmpM(X + "Mat{{..}}", A, r);
      GV x{7, 8, 9}; RV xr(3); xr[0] = 7; xr[1] = 8; xr[2] = 9; cmpV(X + "Vec{..}", x, xr); };
    cases.push_back(c); }
}

// ---------------------------------------------------------------------------------------------
// RANDOM sub-check: sizes <= 30, operands with constructed condition number
struct Cond { LD kappa; std::string bucket; bool ill; int deficiency; };
// singular values: sigma_max = scale, sigma_min = scale/kappa, others log-uniform; 'zeros' of them exactly 0
static RV make_sigmas(int p, LD kappa, LD scale, int zeros, Rng& g)
{
  RV s(p, 0.0L); int nz = p - zeros;
  for (int i = 0; i < nz; i++) s[i] = scale * expl(-logl(kappa) * (i == 0 ? 0 : i == nz - 1 ? 1 : g.u01()));
  std::sort(s.begin(), s.end()); std::reverse(s.begin(), s.end()); return s;
}
static std::string kbucket(LD kappa) { return kappa <= 10 ? "k<=1e1" : kappa <= 1e2L ? "k<=1e2" : kappa <= 1e3L ? "k<=1e3" : kappa <= 1.0001e4L ? "k<=1e4" : kappa <= 1e10L ? "k<=1e10" : "k<=1e14"; }
static std::string nbucket(int n) { return n <= 3 ? "n<=3" : n <= 10 ? "n<=10" : "n<=30"; }
static LD pick_kappa(Rng& g, bool ill) { return ill ? powl(10, 8 + 6 * g.u01()) : powl(10, 4 * g.u01()); }
static RM usv(const RM& U, const RV& s, const RM& V) { RM A(U.r, V.r); for (int i = 0; i < U.r; i++) for (int j = 0; j < V.r; j++) { LD t = 0; for (size_t k = 0; k < s.size(); k++) t += U(i, k) * s[k] * V(j, k); A(i, j) = t; } return A; }
static RM pinv_ref(const RM& U, const RV& s, const RM& V) { RV si(s.size()); for (size_t k = 0; k < s.size(); k++) si[k] = s[k] > 0 ? 1 / s[k] : 0; return usv(V, si, U); }
static std::string g_lastcls;
static void rcase(const std::string& op, const std::string& type, const std::string& b1, const std::string& b2) { g_lastcls = "random/" + type + "/" + op + "/" + b1 + "/" + b2; kc(g_lastcls); }
static int pick_n(Rng& g, int lo = 1) { int t = g.uni(0, 9); return t < 3 ? g.uni(lo, 3) : t < 7 ? g.uni(4, 10) : g.uni(11, 30); }
static std::string illname(int mode) { return mode == 1 ? "ill" : "singular"; }

// mode: 0 well-conditioned, 1 ill-conditioned (kappa 1e8..1e14), 2 exactly singular
static void rnd_inv(Rng& g, int mode)
{
  int n = pick_n(g); LD kappa = pick_kappa(g, mode == 1), scale = powl(10, -1 + 3 * g.u01());
  RM U = rortho(n, n, g), V = rortho(n, n, g); RV s = make_sigmas(n, kappa, scale, mode == 2 ? g.uni(1, std::max(1, n / 3)) : 0, g);
  RM A = rounded(usv(U, s, V)); const std::string K = "random:inv(Mat)";
  if (mode == 2 && g.uni(0, 2) == 0) { for (int j = 0; j < n; j++) A(n - 1, j) = n > 1 ? A(0, j) : 0; }   // duplicated row
  GM G(n, n); fromRM(G, A);
  rcase("inv", "Mat", mode == 0 ? kbucket(kappa) : illname(mode), nbucket(n));
  if (mode == 0) {
    GM I = GNU_gama::inv(G); RM Ir = toRM(I), E = rident(n); LD tol = 100 * n * EPS * kappa;
    LD d1 = rmaxdiff(rmul(Ir, A), E), d2 = rmaxdiff(rmul(A, Ir), E); ratio("random_inv", std::max(d1, d2), tol);
    if (!(d1 <= tol)) viol(K + ":inv(A)*A", fmt("n=%d kappa=%.3Lg: max|inv(A)*A-I| = %.3Lg > %.3Lg", n, kappa, d1, tol));
    if (!(d2 <= tol)) viol(K + ":A*inv(A)", fmt("n=%d kappa=%.3Lg: max|A*inv(A)-I| = %.3Lg > %.3Lg", n, kappa, d2, tol));
    GM H(n, n); fromRM(H, A); H.invert(); cmpM(K + ":invert()", H, Ir);
  } else {
    try { GM I = GNU_gama::inv(G); kcls("random/Mat/inv/" + illname(mode) + "/finite-result"); if (!mfinite(I)) nonfin(K + ":" + illname(mode) + ":nonfinite", fmt("n=%d: no exception and a non-finite inverse", n)); }
    catch (const Exc&) { kcls("random/Mat/inv/" + illname(mode) + "/exception"); }
  }
}
static RM sym_pd(int n, LD kappa, LD scale, int zeros, Rng& g) { RM Q = rortho(n, n, g); RV s = make_sigmas(n, kappa, scale, zeros, g); RM A = usv(Q, s, Q); for (int i = 0; i < n; i++) for (int j = 0; j < i; j++) A(i, j) = A(j, i) = double(A(i, j)); return rounded(A); }
static void rnd_sym(Rng& g, int mode)
{
  int n = pick_n(g); LD kappa = pick_kappa(g, mode == 1), scale = powl(10, -1 + 3 * g.u01());
  RM A = sym_pd(n, kappa, scale, mode == 2 ? g.uni(1, std::max(1, n / 3)) : 0, g); const std::string K = "random:SymMat";
  RV x0(n); for (int i = 0; i < n; i++) x0[i] = g.gauss(); RV b = rmulv(A, x0);
  rcase("cholDec+solve+invert", "SymMat", mode == 0 ? kbucket(kappa) : illname(mode), nbucket(n));
  GS S(n); fromRM(S, A); GV y(n); for (int i = 0; i < n; i++) y(i + 1) = double(b[i]);
  if (mode == 0) {
    S.cholDec(); if (S.nullity() != 0) viol(K + ".cholDec:nullity", fmt("n=%d kappa=%.3Lg positive definite, nullity %d", n, kappa, S.nullity()));
    LD tol = 100 * n * EPS * kappa, d = rmaxdiff(recon_LL(S), A); ratio("random_chol_recon", d, tol * scale);
    if (!(d <= tol * scale)) viol(K + ".cholDec:LL'", fmt("n=%d kappa=%.3Lg: max|L*L'-A| = %.3Lg > %.3Lg", n, kappa, d, tol * scale));
    S.solve(y); LD xs = 0; for (int i = 0; i < n; i++) xs = std::max(xs, fabsl(x0[i])); cmpV(K + ".solve", y, x0, tol * xs, "random_chol_solve");
    GS T(n); fromRM(T, A); T.invert(); RM Ti = toRM(T); LD d1 = rmaxdiff(rmul(Ti, A), rident(n)); ratio("random_inv", d1, tol);
    if (!(d1 <= tol)) viol(K + ".invert", fmt("n=%d kappa=%.3Lg: max|inv(A)*A-I| = %.3Lg > %.3Lg", n, kappa, d1, tol));
  } else {
    try { S.cholDec(); if (S.nullity() > 0) kcls("random/SymMat/cholDec/" + illname(mode) + "/nullity"); else { kcls("random/SymMat/cholDec/" + illname(mode) + "/finite-result");
        if (!mfinite(S)) nonfin(K + ".cholDec:" + illname(mode) + ":nonfinite", "no exception, nullity 0 and a non-finite factor"); else { S.solve(y); if (!vfinite(y)) nonfin(K + ".solve:" + illname(mode) + ":nonfinite", "nullity 0 but non-finite solution"); } } }
    catch (const Exc&) { kcls("random/SymMat/cholDec/" + illname(mode) + "/exception"); }
    try { GS T(n); fromRM(T, A); T.invert(); if (!mfinite(T)) nonfin(K + ".invert:" + illname(mode) + ":nonfinite", fmt("n=%d: no exception and a non-finite inverse", n)); else kcls("random/SymMat/invert/" + illname(mode) + "/finite-result"); }
    catch (const Exc&) { kcls("random/SymMat/invert/" + illname(mode) + "/exception"); }
  }
  // scale invariance: the pivot test of cholDec is relative to the diagonal element, and scaling by a power of 4 is
  // exact in binary arithmetic, so A*4^k must factor into 2^k*L with the same nullity / the same exception
  { int k = (g.uni(0, 1) ? 1 : -1) * g.uni(7, 23); LD f = ldexpl(1, 2 * k), h = ldexpl(1, k);
    GS S1(n), S2(n); fromRM(S1, A); fromRM(S2, rscale(A, f)); bool t1 = false, t2 = false;
    try { S1.cholDec(); } catch (const Exc&) { t1 = true; }
    try { S2.cholDec(); } catch (const Exc&) { t2 = true; }
    kcls(std::string("random/SymMat/cholDec/scale-invariance/") + (mode == 0 ? "regular" : illname(mode)) + (k > 0 ? "/up" : "/down"));
    if (t1 != t2) viol(K + ".cholDec:scale-invariance:exception", fmt("n=%d A*4^%d: exception %d vs %d for A", n, k, int(t2), int(t1)));
    else if (!t1) {
      if (S1.nullity() != S2.nullity()) viol(K + ".cholDec:scale-invariance:nullity", fmt("n=%d kappa=%.3Lg: nullity %d for A but %d for A*4^%d", n, kappa, int(S1.nullity()), int(S2.nullity()), k));
      else { const GS& c1 = S1; const GS& c2 = S2; for (int i = 1; i <= n; i++) for (int j = 1; j <= i; j++) if (LD(c2(i, j)) != LD(c1(i, j)) * h) {
          viol(K + ".cholDec:scale-invariance:factor", fmt("n=%d: factor of A*4^%d at (%d,%d) is %.17g, 2^%d times the factor of A is %.17Lg", n, k, i, j, c2(i, j), k, LD(c1(i, j)) * h)); i = n; break; } } } }
}
// banded positive definite matrix with measured condition number (diagonal dominance + diagonal scaling)
static RM band_pd(int n, int b, Rng& g, LD& kappa)
{
  RM A(n, n); LD dom = powl(10, -2 + 2 * g.u01());
  for (int i = 0; i < n; i++) for (int j = i + 1; j < n && j <= i + b; j++) A(i, j) = A(j, i) = g.gauss();
  for (int i = 0; i < n; i++) { LD s = 0; for (int j = 0; j < n; j++) if (j != i) s += fabsl(A(i, j)); A(i, i) = s * (1 + dom) + 0.05L + g.u01(); }
  LD spread = 1.5L * g.u01(); RV d(n); for (int i = 0; i < n; i++) d[i] = powl(10, spread * (g.u01() - 0.5L));
  for (int i = 0; i < n; i++) for (int j = 0; j < n; j++) A(i, j) *= d[i] * d[j];
  for (int i = 0; i < n; i++) for (int j = 0; j < i; j++) A(i, j) = A(j, i) = double(A(i, j));
  A = rounded(A); RV e = reig(A); kappa = e[0] > 0 ? e[n - 1] / e[0] : HUGE_VALL; return A;
}
template <class BT> static void rnd_band(Rng& g, int mode, const char* T)
{
  std::string t = T, K = "random:" + t; int n = pick_n(g), b = g.uni(0, 3) == 0 ? n - 1 : g.uni(0, std::min(n - 1, 6)); LD kappa;
  RM A = band_pd(n, b, g, kappa); RV e = reig(A); LD nrm = e[n - 1];
  if (mode == 0 && kappa > 1e4L) { kcls("random/" + t + "/skipped-kappa>1e4"); return; }
  if (mode != 0) { LD shift = mode == 2 ? e[0] : e[0] - e[n - 1] / pick_kappa(g, true); for (int i = 0; i < n; i++) A(i, i) = double(A(i, i) - shift);
    if (mode == 2 && g.uni(0, 1)) { int z = g.uni(0, n - 1); for (int j = 0; j < n; j++) A(z, j) = A(j, z) = 0; } }
  BT B(n, b); for (int i = 0; i < n; i++) for (int j = i; j < n && j <= i + b; j++) B(i + 1, j + 1) = double(A(i, j));
  RV x0(n); for (int i = 0; i < n; i++) x0[i] = g.gauss(); RV rhs = rmulv(A, x0); GV y(n); for (int i = 0; i < n; i++) y(i + 1) = double(rhs[i]);
  rcase("index+product+cholDec+solve", t, mode == 0 ? kbucket(kappa) : illname(mode), nbucket(n) + fmt("/%s", b == 0 ? "diag" : b == n - 1 ? "fullband" : "band"));
  { const BT& c = B; for (int i = 1; i <= n; i++) for (int j = 1; j <= n; j++) if (obs(c(i, j)) != double(A(i - 1, j - 1))) { viol(K + ".access", fmt("n=%d band=%d (%d,%d)=%g mirror %Lg", n, b, i, j, c(i, j), A(i - 1, j - 1))); i = n; break; } }
  { RV xr(n); GV x(n); for (int i = 0; i < n; i++) { xr[i] = double(g.gauss()); x(i + 1) = double(xr[i]); } GV p = B * x; RV pr = rmulv(A, xr); RM ab(n, n); for (size_t i = 0; i < ab.a.size(); i++) ab.a[i] = fabsl(A.a[i]); RV ax(n); for (int i = 0; i < n; i++) ax[i] = fabsl(xr[i]); RV bound = rmulv(ab, ax);
    for (int i = 0; i < n; i++) { LD tol = 2 * (2 * b + 3) * EPS * bound[i], d = fabsl(obs(p(i + 1)) - pr[i]); ratio("random_product", d, tol); if (!(d <= tol)) { viol(K + "*Vec", fmt("n=%d band=%d element %d = %.17g expected %.17Lg", n, b, i + 1, p(i + 1), pr[i])); break; } } }
  if (mode == 0) {
    LD tol = 100 * n * EPS * kappa; B.cholDec(); LD d = rmaxdiff(recon_LDL(B), A); ratio("random_chol_recon", d, tol * nrm);
    if (!(d <= tol * nrm)) viol(K + ".cholDec:LDL'", fmt("n=%d band=%d kappa=%.3Lg: max|L*D*L'-A| = %.3Lg > %.3Lg", n, b, kappa, d, tol * nrm));
    B.solve(y); LD xs = 0; for (int i = 0; i < n; i++) xs = std::max(xs, fabsl(x0[i])); cmpV(K + ".solve", y, x0, tol * xs, "random_chol_solve");
  } else {
    try { B.cholDec(); kcls("random/" + t + "/cholDec/" + illname(mode) + "/finite-result"); if (!mfinite(B)) nonfin(K + ".cholDec:" + illname(mode) + ":nonfinite", "no exception and a non-finite factor");
      else { B.solve(y); if (!vfinite(y)) nonfin(K + ".solve:" + illname(mode) + ":nonfinite", "factorisation accepted but non-finite solution"); } }
    catch (const Exc&) { kcls("random/" + t + "/cholDec/" + illname(mode) + "/exception"); }
  }
  // scale invariance (see rnd_sym): LDL' of A*4^k has the same L and D*4^k
  { int k = (g.uni(0, 1) ? 1 : -1) * g.uni(7, 23); LD f = ldexpl(1, 2 * k);
    BT B1(n, b), B2(n, b); for (int i = 0; i < n; i++) for (int j = i; j < n && j <= i + b; j++) { B1(i + 1, j + 1) = double(A(i, j)); B2(i + 1, j + 1) = double(A(i, j) * f); }
    bool t1 = false, t2 = false;
    try { B1.cholDec(); } catch (const Exc&) { t1 = true; }
    try { B2.cholDec(); } catch (const Exc&) { t2 = true; }
    kcls("random/" + t + "/cholDec/scale-invariance/" + (mode == 0 ? "regular" : illname(mode)) + (k > 0 ? "/up" : "/down"));
    if (t1 != t2) viol(K + ".cholDec:scale-invariance:exception", fmt("n=%d band=%d A*4^%d: exception %d vs %d for A", n, b, k, int(t2), int(t1)));
    else if (!t1) { const BT& c1 = B1; const BT& c2 = B2; for (int i = 1; i <= n; i++) for (int j = i; j <= n && j <= i + b; j++) if (LD(c2(i, j)) != LD(c1(i, j)) * (i == j ? f : 1)) {
        viol(K + ".cholDec:scale-invariance:factor", fmt("n=%d band=%d: factor of A*4^%d at (%d,%d) is %.17g, expected %.17Lg", n, b, k, i, j, c2(i, j), LD(c1(i, j)) * (i == j ? f : 1))); i = n; break; } } }
}
static void rnd_bandextra(Rng& g)
{
  int n = pick_n(g), b = g.uni(0, std::min(n - 1, 6)); LD kappa; RM A = band_pd(n, b, g, kappa); const std::string K = "random:BandMat";
  if (kappa > 1e4L) { kcls("random/BandMat/skipped-kappa>1e4"); return; }
  rcase("invBand+eigenVal", "BandMat", kbucket(kappa), nbucket(n) + (b == 0 ? "/diag" : "/band"));
  RV e = reig(A); RM Xr; rinv(A, Xr); LD tol = 100 * n * EPS * kappa * rmaxabs(Xr);
  GB B(n, b); for (int i = 0; i < n; i++) for (int j = i; j < n && j <= i + b; j++) B(i + 1, j + 1) = double(A(i, j));
  GB F(B); F.cholDec(); int pb = std::min(n - 1, b + g.uni(0, 2)); GB Z; F.invBand(Z, pb == b ? 0 : pb); const GB& z = Z;
  if (Z.dim() != n || Z.bandWidth() != pb) viol(K + ".invBand:dims", "dimension / band width of the result wrong");
  else for (int i = 1; i <= n; i++) for (int j = 1; j <= n; j++) if (std::abs(i - j) <= pb) { LD d = fabsl(obs(z(i, j)) - Xr(i - 1, j - 1)); ratio("random_invBand", d, tol); if (!(d <= tol)) { viol(K + ".invBand", fmt("n=%d band=%d zband=%d kappa=%.3Lg Z(%d,%d)=%g inverse %Lg", n, b, pb, kappa, i, j, z(i, j), Xr(i - 1, j - 1))); i = n; break; } }
  GV ev; B.eigenVal(ev); GNU_gama::sort(ev); cmpV(K + ".eigenVal", ev, e, 100 * n * EPS * e[n - 1], "random_eigenVal");
}
static void rnd_svd(Rng& g, int mode, bool use_pinv)
{
  int m = pick_n(g), n = pick_n(g); if (g.uni(0, 2) == 0) n = std::min(n, m); int p = std::min(m, n);
  int zeros = 0; std::string shape = m > n ? "tall" : m == n ? "square" : "wide";
  if (mode == 0 && p > 1 && g.uni(0, 2) == 0) zeros = g.uni(1, p - 1);
  if (mode == 2) zeros = g.uni(1, p);
  LD kappa = pick_kappa(g, mode == 1), scale = powl(10, -1 + 3 * g.u01());
  RM U = rortho(m, p, g), V = rortho(n, p, g); RV s = make_sigmas(p, kappa, scale, zeros, g);
  if (p - zeros == 1) kappa = 1;
  RM A = rounded(usv(U, s, V)), P = pinv_ref(U, s, V); LD smin = s[p - zeros > 0 ? p - zeros - 1 : 0], pn = smin > 0 ? 1 / smin : 0; int N = std::max(m, n);
  GM G(m, n); fromRM(G, A); std::string kb = mode == 0 ? kbucket(kappa) + (zeros ? "/rank-deficient" : "/full-rank") : illname(mode);
  if (use_pinv) {
    const std::string K = "random:pinv"; rcase("pinv", "Mat", kb, shape + "/" + nbucket(N));
    if (mode != 0) { try { GM X = GNU_gama::pinv(G); kcls("random/Mat/pinv/" + illname(mode) + "/finite-result"); if (!mfinite(X)) nonfin(K + ":" + illname(mode) + ":nonfinite", fmt("%dx%d: no exception and a non-finite pseudo-inverse", m, n)); }
      catch (const Exc&) { kcls("random/Mat/pinv/" + illname(mode) + "/exception"); } return; }
    GM X = GNU_gama::pinv(G); if (X.rows() != n || X.cols() != m) { viol(K + ":dims", fmt("pinv of %dx%d is %dx%d", m, n, X.rows(), X.cols())); return; }
    RM Xr = toRM(X); LD tol = 100 * N * EPS * kappa; RM AX = rmul(A, Xr), XA = rmul(Xr, A);
    LD e1 = rmaxdiff(rmul(AX, A), A), e2 = rmaxdiff(rmul(XA, Xr), Xr), e3 = rmaxdiff(rtrans(AX), AX), e4 = rmaxdiff(rtrans(XA), XA), e5 = rmaxdiff(Xr, P);
    ratio("random_pinv_MP1", e1, tol * scale); ratio("random_pinv_MP2", e2, tol * pn); ratio("random_pinv_MP3", e3, tol); ratio("random_pinv_MP4", e4, tol); ratio("random_pinv_value", e5, tol * pn);
    std::string w = fmt("%dx%d rank %d kappa=%.3Lg", m, n, p - zeros, kappa);
    if (!(e1 <= tol * scale)) viol(K + ":MP1", w + fmt(": max|A*A+*A-A| = %.3Lg > %.3Lg", e1, tol * scale));
    if (!(e2 <= tol * pn)) viol(K + ":MP2", w + fmt(": max|A+*A*A+-A+| = %.3Lg > %.3Lg", e2, tol * pn));
    if (!(e3 <= tol)) viol(K + ":MP3", w + fmt(": max|(A*A+)'-A*A+| = %.3Lg > %.3Lg", e3, tol));
    if (!(e4 <= tol)) viol(K + ":MP4", w + fmt(": max|(A+*A)'-A+*A| = %.3Lg > %.3Lg", e4, tol));
    if (!(e5 <= tol * pn)) viol(K + ":value", w + fmt(": max|pinv(A)-V*S^-1*U'| = %.3Lg > %.3Lg", e5, tol * pn));
    return;
  }
  const std::string K = "random:SVD"; rcase("svd", "Mat", kb, shape + "/" + nbucket(N));
  GNU_gama::SVD<double, int, Exc> svd(G);
  if (mode != 0) { try { svd.decompose(); kcls("random/Mat/svd/" + illname(mode) + "/finite-result"); if (!mfinite(svd.SVD_U()) || !mfinite(svd.SVD_V()) || !vfinite(svd.SVD_W())) nonfin(K + ":" + illname(mode) + ":nonfinite", fmt("%dx%d: no exception and non-finite factors", m, n)); }
    catch (const Exc&) { kcls("random/Mat/svd/" + illname(mode) + "/exception"); } return; }
  svd.decompose(); RM Ug = toRM(svd.SVD_U()), Vg = toRM(svd.SVD_V()); RV W = toRV(svd.SVD_W()); std::string w = fmt("%dx%d rank %d kappa=%.3Lg", m, n, p - zeros, kappa);
  if (Ug.r != m || Ug.c != n || Vg.r != n || Vg.c != n || int(W.size()) != n) { viol(K + ":dims", w + ": dimensions of U, W, V wrong"); return; }
  LD tol = 100 * N * EPS * kappa, e1 = rmaxdiff(usv(Ug, W, Vg), A), e2 = rmaxdiff(rmul(rtrans(Vg), Vg), rident(n)); ratio("random_svd_recon", e1, tol * scale); ratio("random_svd_orthoV", e2, tol);
  if (!(e1 <= tol * scale)) viol(K + ":reconstruct", w + fmt(": max|U*W*V'-A| = %.3Lg > %.3Lg", e1, tol * scale));
  if (!(e2 <= tol)) viol(K + ":V-orthonormal", w + fmt(": max|V'V-I| = %.3Lg > %.3Lg", e2, tol));
  if (m >= n) { LD e3 = rmaxdiff(rmul(rtrans(Ug), Ug), rident(n)); ratio("random_svd_orthoU", e3, tol); if (!(e3 <= tol)) viol(K + ":U-orthonormal", w + fmt(": max|U'U-I| = %.3Lg > %.3Lg", e3, tol)); }
  for (int i = 0; i < n; i++) if (!(W[i] >= 0)) { viol(K + ":W>=0", w + fmt(": singular value %d = %Lg", i + 1, W[i])); break; }
  { RV ws = W; std::sort(ws.begin(), ws.end()); std::reverse(ws.begin(), ws.end()); LD stol = 100 * N * EPS * scale;
    for (int i = 0; i < n; i++) { LD ref = i < p ? s[i] : 0, d = fabsl(ws[i] - ref); ratio("random_svd_values", d, stol); if (!(d <= stol)) { viol(K + ":singular-values", w + fmt(": %d-th largest = %.17Lg, constructed %.17Lg", i + 1, ws[i], ref)); break; } } }
  if (svd.nullity() != n - (p - zeros)) viol(K + ":nullity", w + fmt(": nullity() = %d, expected %d", svd.nullity(), n - (p - zeros)));
  { RV br(m); GV b(m); for (int i = 0; i < m; i++) { br[i] = double(g.gauss()); b(i + 1) = double(br[i]); } GV x; svd.solve(b, x); RV xr = rmulv(P, br); LD bn = 0; for (int i = 0; i < m; i++) bn += fabsl(br[i]);
    cmpV(K + ".solve", x, xr, tol * pn * bn, "random_svd_solve");
    int i = g.uni(1, m), j = g.uni(1, n), i2 = g.uni(1, m), j2 = g.uni(1, n);
    cmpS(K + ".q_bx", svd.q_bx(i, j), P(j - 1, i - 1), tol * pn, "random_svd_q");
    RM AP = rmul(A, P); cmpS(K + ".q_bb", svd.q_bb(i, i2), AP(i - 1, i2 - 1), tol, "random_svd_q");
    RM PP = rmul(P, rtrans(P)); cmpS(K + ".q_xx", svd.q_xx(j, j2), PP(j - 1, j2 - 1), tol * kappa * pn * pn, "random_svd_qxx"); }
}

// GSO::gso1 on the block matrix (A1 A2; A3 A4), A1 m x n of full column rank: the header promises
//   W1 orthonormal with A1 = W1*R,  W2 = A2 - W1 W1' A2,  W3 = A3*inv(R),  W4 = A4 - W3 W1' A2   (R = W1'A1)
static void rnd_gso_blocks(Rng& g, int mode)
{
  int n = g.uni(1, 10), m = n + g.uni(0, 12), p = g.uni(0, 5), q = g.uni(0, 4); const std::string K = "random:GSO.gso1";
  LD kappa = mode == 1 ? pick_kappa(g, true) : powl(10, 3 * g.u01()), scale = powl(10, -1 + 2 * g.u01());
  int zeros = mode == 2 ? g.uni(1, n) : 0;
  RM U = rortho(m, n, g), V = rortho(n, n, g); RV s = make_sigmas(n, kappa, scale, zeros, g); RM A1 = rounded(usv(U, s, V));
  RM A(m + p, n + q); for (int i = 0; i < m + p; i++) for (int j = 0; j < n + q; j++) A(i, j) = (i < m && j < n) ? A1(i, j) : LD(double(g.gauss()));
  GM G(m + p, n + q); fromRM(G, A); rcase("gso1-blocks", "GSO", mode == 0 ? kbucket(kappa) : illname(mode), nbucket(m + p));
  GNU_gama::GSO<double, int, Exc> gso(G, m, n);
  if (mode != 0) { try { gso.gso1(); int d = gso.defect(); kcls(fmt("random/GSO/gso1/%s/%s", illname(mode).c_str(), d ? "defect>0" : "defect=0")); if (!mfinite(G)) nonfin(K + ":" + illname(mode) + ":nonfinite", "no exception and non-finite result"); }
    catch (const Exc&) { kcls("random/GSO/gso1/" + illname(mode) + "/exception"); } return; }
  gso.gso1(); if (gso.defect() != 0) { viol(K + ":defect", fmt("%dx%d block of full rank, kappa=%.3Lg: defect() = %d", m, n, kappa, gso.defect())); return; }
  RM W = toRM(G), W1(m, n), W2(m, q), W3(p, n), W4(p, q), A2(m, q), A3(p, n), A4(p, q);
  for (int i = 0; i < m + p; i++) for (int j = 0; j < n + q; j++) { LD w = W(i, j), a = A(i, j); if (i < m && j < n) W1(i, j) = w; else if (i < m) { W2(i, j - n) = w; A2(i, j - n) = a; } else if (j < n) { W3(i - m, j) = w; A3(i - m, j) = a; } else { W4(i - m, j - n) = w; A4(i - m, j - n) = a; } }
  LD tol = 100 * (m + p) * EPS * kappa; RM W1t = rtrans(W1), R = rmul(W1t, A1), C = rmul(W1t, A2); std::string w = fmt("A1 %dx%d kappa=%.3Lg, +%d rows +%d cols", m, n, kappa, p, q);
  LD a2 = std::max<LD>(1, rmaxabs(A2)) * sqrtl(LD(m)), a3 = std::max<LD>(1, rmaxabs(A3)), w3 = std::max<LD>(1, rmaxabs(W3));
  LD e1 = rmaxdiff(rmul(W1t, W1), rident(n)), e2 = rmaxdiff(rmul(W1, R), A1), e3 = rmaxdiff(W2, radd(A2, rmul(W1, C), -1)), e4 = rmaxdiff(rmul(W3, R), A3), e5 = rmaxdiff(W4, radd(A4, rmul(W3, C), -1));
  ratio("random_gso_ortho", e1, tol); ratio("random_gso_A1=W1R", e2, tol * scale); ratio("random_gso_W2", e3, tol * a2); ratio("random_gso_W3", e4, tol * a3 * n); ratio("random_gso_W4", e5, tol * w3 * a2 * n);
  if (!(e1 <= tol)) viol(K + ":W1-orthonormal", w + fmt(": max|W1'W1-I| = %.3Lg > %.3Lg", e1, tol));
  if (!(e2 <= tol * scale)) viol(K + ":A1=W1*R", w + fmt(": max|W1*(W1'A1)-A1| = %.3Lg > %.3Lg", e2, tol * scale));
  if (!(e3 <= tol * a2)) viol(K + ":W2", w + fmt(": max|W2-(A2-W1W1'A2)| = %.3Lg > %.3Lg", e3, tol * a2));
  if (!(e4 <= tol * a3 * n)) viol(K + ":W3", w + fmt(": max|W3*R-A3| = %.3Lg > %.3Lg", e4, tol * a3 * n));
  if (!(e5 <= tol * w3 * a2 * n)) viol(K + ":W4", w + fmt(": max|W4-(A4-W3W1'A2)| = %.3Lg > %.3Lg", e5, tol * w3 * a2 * n));
}
// GSO used as a least-squares solver (gso1 + gso2 on (A -b; I 0)): x minimises |Ax-b| and, when A is rank
// deficient with min_x() = all unknowns, has minimal norm (x orthogonal to the null space)
static void rnd_gso_ls(Rng& g, int mode)
{
  int n = g.uni(1, 8), m = n + g.uni(0, 10), zeros = mode == 2 ? g.uni(1, n) : 0; const std::string K = "random:GSO.ls";
  LD kappa = mode == 1 ? pick_kappa(g, true) : powl(10, 2.5L * g.u01()), scale = powl(10, -0.5L + g.u01());
  RM U = rortho(m, n, g), V = rortho(n, n, g); RV s = make_sigmas(n, kappa, scale, zeros, g); RM A = rounded(usv(U, s, V)), P = pinv_ref(U, s, V);
  RV b(m); for (int i = 0; i < m; i++) b[i] = double(g.gauss());
  GM G(m + n, n + 1); G.set_zero(); for (int i = 0; i < m; i++) { G(i + 1, n + 1) = -double(b[i]); for (int j = 0; j < n; j++) G(i + 1, j + 1) = double(A(i, j)); } for (int j = 1; j <= n; j++) G(m + j, j) = 1;
  rcase("least-squares", "GSO", mode == 0 ? kbucket(kappa) : mode == 2 ? "rank-deficient" : "ill", nbucket(m));
  GNU_gama::GSO<double, int, Exc> gso(G, m, n); gso.min_x();
  if (mode == 1) { try { gso.gso1(); gso.gso2(); if (!mfinite(G)) nonfin(K + ":ill:nonfinite", "no exception and non-finite result"); } catch (const Exc&) { kcls("random/GSO/ls/ill/exception"); } return; }
  gso.gso1(); gso.gso2();
  if (gso.defect() != zeros) { viol(K + ":defect", fmt("%dx%d rank %d kappa=%.3Lg: defect() = %d", m, n, n - zeros, kappa, gso.defect())); return; }
  RV x(n), r(m); for (int j = 0; j < n; j++) x[j] = obs(G(m + j + 1, n + 1)); for (int i = 0; i < m; i++) r[i] = obs(G(i + 1, n + 1));
  RV xr = rmulv(P, b), ax = rmulv(A, xr); LD bn = 0; for (int i = 0; i < m; i++) bn += fabsl(b[i]);
  LD tol = 100 * (m + n) * EPS * kappa * kappa, pn = kappa / scale, ex = 0, er = 0;   // LS solution with non-zero residual: sensitivity kappa^2
  for (int j = 0; j < n; j++) ex = std::max(ex, fabsl(x[j] - xr[j])); for (int i = 0; i < m; i++) er = std::max(er, fabsl(r[i] - (ax[i] - b[i])));
  ratio("random_gso_ls_x", ex, tol * pn * bn); ratio("random_gso_ls_r", er, tol * bn);
  if (!(ex <= tol * pn * bn)) viol(K + (zeros ? ":min-norm-x" : ":x"), fmt("%dx%d rank %d kappa=%.3Lg: max|x-pinv(A)b| = %.3Lg > %.3Lg", m, n, n - zeros, kappa, ex, tol * pn * bn));
  if (!(er <= tol * bn)) viol(K + ":residuals", fmt("%dx%d rank %d kappa=%.3Lg: max|r-(Ax-b)| = %.3Lg > %.3Lg", m, n, n - zeros, kappa, er, tol * bn));
}
// products of random reals against the long-double product, bound 2(k+2) eps sum|a||b|
static void rnd_products(Rng& g)
{
  int r = pick_n(g), m = pick_n(g), c = pick_n(g); const std::string K = "random:"; rcase("products", "Mat", "reals", nbucket(std::max(r, std::max(m, c))));
  RM A(r, m), B(m, c), S(m, m); for (size_t i = 0; i < A.a.size(); i++) A.a[i] = double(g.gauss() * 10); for (size_t i = 0; i < B.a.size(); i++) B.a[i] = double(g.gauss());
  for (int i = 0; i < m; i++) for (int j = 0; j <= i; j++) S(i, j) = S(j, i) = double(g.gauss());
  GM a(r, m), b(m, c); fromRM(a, A); fromRM(b, B); GT at(m, r), bt(c, m); fromRM(at, A); fromRM(bt, B); GS s(m); fromRM(s, S);
  RM P = rmul(A, B), T = rabsmul(A, B); LD f = 2 * (m + 2) * EPS; for (size_t i = 0; i < T.a.size(); i++) T.a[i] *= f;
  { GM C = a * b; cmpM(K + "Mat*Mat", C, P, 0, "random_product", &T); } { GM C = at * b; cmpM(K + "TransMat*Mat", C, P, 0, "random_product", &T); }
  { GM C = a * bt; cmpM(K + "Mat*TransMat", C, P, 0, "random_product", &T); }
  { const GMB &x = a, &y = b; GM C = x * y; cmpM(K + "MatBase*MatBase", C, P, 0, "random_product", &T); }
  { RM Q = rmul(A, S), TQ = rabsmul(A, S); for (size_t i = 0; i < TQ.a.size(); i++) TQ.a[i] *= f; GM C = a * s; cmpM(K + "Mat*SymMat", C, Q, 0, "random_product", &TQ); }
  { RM Q = rmul(S, B), TQ = rabsmul(S, B); for (size_t i = 0; i < TQ.a.size(); i++) TQ.a[i] *= f; GM C = s * b; cmpM(K + "SymMat*Mat", C, Q, 0, "random_product", &TQ); }
  { RV x(m); GV gx(m); for (int i = 0; i < m; i++) { x[i] = double(g.gauss()); gx(i + 1) = double(x[i]); } RM xm = rcol(x), y = rmul(A, xm), ty = rabsmul(A, xm); for (size_t i = 0; i < ty.a.size(); i++) ty.a[i] = ty.a[i] * f + 1e-300L;
    RV yr(r); for (int i = 0; i < r; i++) yr[i] = y.a[i]; LD tmax = rmaxabs(ty);
    { GV v = a * gx; cmpV(K + "Mat*Vec", v, yr, tmax, "random_product"); } { GV v = at * gx; cmpV(K + "TransMat*Vec", v, yr, tmax, "random_product"); } }
  { GT t = trans(a); cmpM(K + "trans(Mat)", t, rtrans(A)); GM u(t); cmpM(K + "Mat(TransMat)", u, rtrans(A)); }
  { std::ostringstream os; os.precision(17); os << a; std::istringstream is(os.str()); GM u; is >> u; cmpM(K + "Mat.io", u, A); }
  { GM C = at * bt; cmpM(K + "TransMat*TransMat", C, P, 0, "random_product_TransMat*TransMat", &T); }
}
struct RFam { const char* name; std::function<void(Rng&)> f; };
static std::vector<RFam> rfams;
static void build_random()
{
  for (int mode = 0; mode < 3; mode++) {
    int reps = mode == 0 ? 3 : 1;   // well-conditioned operands carry the equalities: three times the weight
    for (int k = 0; k < reps; k++) {
      rfams.push_back({"inv(Mat)", [=](Rng& g) { rnd_inv(g, mode); }});
      rfams.push_back({"SymMat", [=](Rng& g) { rnd_sym(g, mode); }});
      rfams.push_back({"BandMat", [=](Rng& g) { rnd_band<GB>(g, mode, "BandMat"); }});
      rfams.push_back({"CovMat", [=](Rng& g) { rnd_band<GC>(g, mode, "CovMat"); }});
      rfams.push_back({"SVD", [=](Rng& g) { rnd_svd(g, mode, false); }});
      rfams.push_back({"pinv", [=](Rng& g) { rnd_svd(g, mode, true); }});
      rfams.push_back({"GSO.gso1", [=](Rng& g) { rnd_gso_blocks(g, mode); }});
      rfams.push_back({"GSO.ls", [=](Rng& g) { rnd_gso_ls(g, mode); }});
    }
  }
  rfams.push_back({"BandMat.extra", [](Rng& g) { rnd_bandextra(g); }});
  rfams.push_back({"products", [](Rng& g) { rnd_products(g); }});
}

// ---------------------------------------------------------------------------------------------
// OBJECT HISTORIES: pools of 4 objects per kind, shadow model = dims + dense values + "known" flags
struct Sh { int r, c, b; bool moved; std::vector<LD> v; std::vector<char> known;
  Sh() : r(0), c(0), b(0), moved(false) {}
  void dims(int r_, int c_, int b_) { r = r_; c = c_; b = b_; moved = false; v.assign(size_t(r) * c, 0.0L); known.assign(size_t(r) * c, 0); }
  bool empty() const { return size_t(r) * c == 0; } };
template <class T> struct Tr;
template <> struct Tr<GM> { static const char* name() { return "Mat"; } enum { sym = 0, band = 0, vec = 0 };
  static GM* make(int r, int c, int) { return new GM(r, c); } static void reset2(GM& m, int r, int c, int, int) { m.reset(r, c); } static void reset0(GM& m) { m.reset(); }
  static int rows(const GM& m) { return m.rows(); } static int cols(const GM& m) { return m.cols(); } static int bw(const GM&) { return 0; }
  static double get(const GM& m, int i, int j) { return m(i, j); } static void set(GM& m, int i, int j, double x) { m(i, j) = x; } };
template <> struct Tr<GV> { static const char* name() { return "Vec"; } enum { sym = 0, band = 0, vec = 1 };
  static GV* make(int r, int, int) { return new GV(r); } static void reset2(GV& m, int r, int, int, int) { m.reset(r); } static void reset0(GV& m) { m.reset(); }
  static int rows(const GV& m) { return m.dim(); } static int cols(const GV&) { return 1; } static int bw(const GV&) { return 0; }
  static double get(const GV& m, int i, int) { return m(i); } static void set(GV& m, int i, int, double x) { m(i) = x; } };
template <> struct Tr<GS> { static const char* name() { return "SymMat"; } enum { sym = 1, band = 0, vec = 0 };
  static GS* make(int r, int, int) { return new GS(r); } static void reset2(GS& m, int r, int, int, int alt) { if (alt) m.reset(r, r); else m.reset(r); } static void reset0(GS& m) { m.reset(0); }
  static int rows(const GS& m) { return m.dim() == m.rows() ? m.rows() : -1; } static int cols(const GS& m) { return m.cols(); } static int bw(const GS&) { return 0; }
  static double get(const GS& m, int i, int j) { return m(i, j); } static void set(GS& m, int i, int j, double x) { m(i, j) = x; } };
template <class B> struct TrBand { enum { sym = 1, band = 1, vec = 0 };
  static B* make(int r, int, int b) { return new B(r, b); } static void reset2(B& m, int r, int, int b, int) { m.reset(r, b); } static void reset0(B& m) { m.reset(); }
  static int rows(const B& m) { return m.dim() == m.rows() ? m.rows() : -1; } static int cols(const B& m) { return m.cols(); } static int bw(const B& m) { return m.bandWidth(); }
  static double get(const B& m, int i, int j) { return m(i, j); } static void set(B& m, int i, int j, double x) { m(i, j) = x; } };
template <> struct Tr<GB> : TrBand<GB> { static const char* name() { return "BandMat"; } };
template <> struct Tr<GC> : TrBand<GC> { static const char* name() { return "CovMat"; } };

static std::string g_hstep;   // description of the running step
template <class T> struct Pool {
  typedef Tr<T> R; enum { N = 4 };
  std::unique_ptr<T> p[N]; Sh s[N]; int mode;
  std::string key(const std::string& op) { return std::string("history:") + R::name() + ":" + op; }
  bool inband(const Sh& h, int i, int j) { return !R::band || std::abs(i - j) <= h.b; }
  void pick_dims(Rng& g, int& r, int& c, int& b) { int lo = mode >= 2 ? 0 : 1; r = g.uni(lo, 5); c = R::vec ? 1 : (R::sym ? r : g.uni(lo, 5)); b = R::band ? g.uni(0, std::max(0, r - 1)) : 0; if (R::band && r == 0) b = 0; }
  void fill(int k, Rng& g) { Sh& h = s[k]; for (int i = 1; i <= h.r; i++) for (int j = (R::sym ? i : 1); j <= h.c; j++) if (inband(h, i, j)) { int x = g.uni(-4, 4); if (R::sym && g.uni(0, 1)) R::set(*p[k], j, i, x); else R::set(*p[k], i, j, x);
        h.v[size_t(i - 1) * h.c + j - 1] = x; h.known[size_t(i - 1) * h.c + j - 1] = 1; if (R::sym) { h.v[size_t(j - 1) * h.c + i - 1] = x; h.known[size_t(j - 1) * h.c + i - 1] = 1; } } }
  void init(Rng& g, int mode_) { mode = mode_; for (int k = 0; k < N; k++) { int r, c, b; pick_dims(g, r, c, b); p[k].reset(R::make(r, c, b)); s[k].dims(r, c, b); fill(k, g); } }
  void setall(int k, LD x, bool diag) { Sh& h = s[k]; for (int i = 0; i < h.r; i++) for (int j = 0; j < h.c; j++) { h.known[size_t(i) * h.c + j] = 1; h.v[size_t(i) * h.c + j] = (inband(h, i, j) && (!diag || i == j)) ? x : 0; } }
  bool check(const std::string& op) {
    for (int k = 0; k < N; k++) { const Sh& h = s[k]; if (h.moved) continue; const T& o = *p[k];
      if (R::rows(o) != h.r || R::cols(o) != h.c || R::bw(o) != h.b) { viol(key(op) + ":dims", g_hstep + fmt(": object %d has dims %dx%d band %d, model %dx%d band %d", k, R::rows(o), R::cols(o), R::bw(o), h.r, h.c, h.b)); return false; }
      for (int i = 1; i <= h.r; i++) for (int j = 1; j <= h.c; j++) { size_t q = size_t(i - 1) * h.c + j - 1; bool in = inband(h, i, j);
        if ((in && h.known[q]) || !in) { LD want = in ? h.v[q] : 0, got = obs(R::get(o, i, j)); if (got != want) { viol(key(op), g_hstep + fmt(": object %d element (%d,%d) = %.17Lg, model %.17Lg", k, i, j, got, want)); return false; } } } }
    return true; }
  static std::string rel(const Sh& d, const Sh& sr) { return d.moved ? "to-moved-from" : sr.empty() && d.empty() ? "both-empty" : sr.empty() ? "from-empty" : d.empty() ? "to-empty" : (d.r == sr.r && d.c == sr.c && d.b == sr.b) ? "same-size" : "different-size"; }
  // one random step; returns the op name
  void step(Rng& g) {
    int k = g.uni(0, N - 1), j = g.uni(0, N - 1), op = g.uni(0, 15); std::string name;
    bool avoid_empty_copy = mode == 2;
    if (s[k].moved && !(op == 1 || op == 4 || op == 12)) op = g.uni(0, 2) == 0 ? 12 : (g.uni(0, 1) ? 1 : 4);   // moved-from objects are only assigned to or destroyed
    if ((op == 0 || op == 1 || op == 3 || op == 4 || op == 13) && (s[j].moved || ((op == 1 || op == 4) && j == k))) { for (int t = 0; t < N; t++) if (!s[t].moved && t != k) j = t; if (s[j].moved || j == k) op = 12; }
    if (avoid_empty_copy && (op == 0 || op == 1 || op == 3 || op == 4 || op == 13) && s[j].empty()) op = 10;
    if (s[k].moved && op == 10) op = 12;
    switch (op) {
    case 0: { name = "copy-construct:" + std::string(s[j].empty() ? "from-empty" : "nonempty"); g_hstep += name + fmt(" obj%d<-obj%d", k, j); T* n = new T(*p[j]); if (k != j) { p[k].reset(n); s[k] = s[j]; fill(j, g); } else delete n; break; }
    case 1: { name = "copy-assign:" + rel(s[k], s[j]); g_hstep += name + fmt(" obj%d=obj%d", k, j); *p[k] = *p[j]; s[k] = s[j]; fill(j, g); break; }
    case 2: { name = "self-assign"; g_hstep += name + fmt(" obj%d", k); T& a = *p[k]; T& b = *p[k]; a = b; break; }
    case 3: { name = "move-construct:" + std::string(s[j].empty() ? "from-empty" : "nonempty"); g_hstep += name + fmt(" obj%d<-obj%d", k, j); T* n = new T(std::move(*p[j])); if (k != j) { p[k].reset(n); s[k] = s[j]; s[j].moved = true; } else { p[j].reset(n); } break; }
    case 4: { name = "move-assign:" + rel(s[k], s[j]); g_hstep += name + fmt(" obj%d=move(obj%d)", k, j); *p[k] = std::move(*p[j]); s[k] = s[j]; s[j].moved = true; break; }
    case 5: { if (mode < 2) goto writes; name = "reset()"; g_hstep += name + fmt(" obj%d", k); R::reset0(*p[k]); s[k].dims(0, R::vec ? 1 : 0, 0); break; }
    case 6: case 7: { int r, c, b; pick_dims(g, r, c, b); name = std::string("reset(dims):") + (s[k].r == r && s[k].c == c && s[k].b == b ? "same-size" : size_t(r) * c == 0 ? "to-empty" : "different-size"); g_hstep += name + fmt(" obj%d -> %dx%d band %d", k, r, c, b);
      R::reset2(*p[k], r, c, b, op == 7); s[k].dims(r, c, b); if (g.uni(0, 1)) fill(k, g); break; }
    case 8: { LD x = g.uni(-3, 3); name = x == 0 ? "set_zero" : "set_all"; g_hstep += name + fmt(" obj%d", k); if (x == 0) p[k]->set_zero(); else p[k]->set_all(double(x)); setall(k, x, false); break; }
    case 9: { if (R::vec) goto writes; name = "set_identity"; g_hstep += name + fmt(" obj%d", k); set_identity(*p[k]); setall(k, 1, true); break; }
    case 10: writes: { name = "element-writes"; g_hstep += name + fmt(" obj%d", k); Sh& h = s[k]; if (!h.empty()) for (int t = 0; t < 3; t++) { int i = g.uni(1, h.r), jj = R::vec ? 1 : g.uni(1, h.c); if (!inband(h, i, jj)) continue; int x = g.uni(-4, 4); R::set(*p[k], i, jj, x);
          h.v[size_t(i - 1) * h.c + jj - 1] = x; h.known[size_t(i - 1) * h.c + jj - 1] = 1; if (R::sym) { h.v[size_t(jj - 1) * h.c + i - 1] = x; h.known[size_t(jj - 1) * h.c + i - 1] = 1; } } break; }
    case 11: { double f = g.uni(0, 2) == 0 ? 2 : g.uni(0, 1) ? -1 : 0.5; name = "scale"; g_hstep += name + fmt(" obj%d *= %g", k, f); scale(*p[k], f); for (size_t q = 0; q < s[k].v.size(); q++) s[k].v[q] *= f; break; }
    case 12: { int r, c, b; pick_dims(g, r, c, b); name = "destroy+construct"; g_hstep += name + fmt(" obj%d -> %dx%d band %d", k, r, c, b); p[k].reset(R::make(r, c, b)); s[k].dims(r, c, b); fill(k, g); break; }
    case 13: { name = "assign-temporary:" + rel(s[k], s[j]); g_hstep += name + fmt(" obj%d = f(obj%d)", k, j); temp_assign(k, j); break; }
    case 14: { name = "transpose"; g_hstep += name + fmt(" obj%d", k); do_transpose(k); break; }
    default: { name = "const-read"; g_hstep += name; break; }
    }
    kc(std::string("history/") + R::name() + "/" + name + fmt("/mode%d", mode));
    check(name);
  }
  // helpers with per-kind behaviour
  static void set_identity(GV&) {} template <class M> static void set_identity(M& m) { m.set_identity(); }
  static void scale(GV& v, double f) { v *= f; } template <class M> static void scale(M& m, double f) { m *= f; }
  void temp_assign(int k, int j) { temp_assign_(k, j, (T*)0); }
  void allknown_scaled(int k, int j, LD f) { s[k] = s[j]; for (size_t q = 0; q < s[k].v.size(); q++) s[k].v[q] *= f; }
  void temp_assign_(int k, int j, GM*) { if (!allk(j)) return; *p[k] = *p[j] + *p[j]; allknown_scaled(k, j, 2); }
  void temp_assign_(int k, int j, GV*) { if (!allk(j)) return; *p[k] = *p[j] - *p[j] * 3.0; allknown_scaled(k, j, -2); }
  void temp_assign_(int k, int j, GS*) { if (!allk(j)) return; *p[k] = *p[j] * 2.0 - *p[j]; allknown_scaled(k, j, 1); }
  void temp_assign_(int k, int j, GB*) { *p[k] = GB(s[j].r, s[j].b); s[k].dims(s[j].r, s[j].c, s[j].b); }
  void temp_assign_(int k, int j, GC*) { *p[k] = GC(s[j].r, s[j].b); s[k].dims(s[j].r, s[j].c, s[j].b); }
  bool allk(int j) { for (size_t q = 0; q < s[j].known.size(); q++) if (!s[j].known[q]) return false; return true; }
  void do_transpose(int k) { do_transpose_(k, (T*)0); }
  void do_transpose_(int k, GM*) { if (mode == 2 && s[k].empty()) return; p[k]->transpose(); Sh h = s[k]; s[k].dims(h.c, h.r, 0); for (int i = 0; i < h.r; i++) for (int j = 0; j < h.c; j++) { s[k].v[size_t(j) * h.r + i] = h.v[size_t(i) * h.c + j]; s[k].known[size_t(j) * h.r + i] = h.known[size_t(i) * h.c + j]; } }
  void do_transpose_(int, GV*) {}
  template <class M> void do_transpose_(int k, M*) { bool thrown = false; try { p[k]->transpose(); } catch (const Exc&) { thrown = true; } if (!thrown) viol(key("transpose:not-implemented"), "MatBase::transpose() did not throw NotImplemented"); }
};
static void history_case(uint64_t caseid)
{
  Rng g(mix(g_seed, 23, caseid)); int mode = int(caseid % 8); mode = mode < 4 ? 0 : mode < 6 ? 2 : mode == 6 ? 3 : 1;   // 0,1: no empty objects; 2: empties, no copy of an empty one; 3: anything
  int len = g.uni(5, 30); Pool<GM> pm; Pool<GV> pv; Pool<GS> ps; Pool<GB> pb; Pool<GC> pc;
  g_hstep = "init"; pm.init(g, mode); pv.init(g, mode); ps.init(g, mode); pb.init(g, mode); pc.init(g, mode);
  pm.check("init"); pv.check("init"); ps.check("init"); pb.check("init"); pc.check("init");
  for (int st = 1; st <= len; st++) {
    int kind = g.uni(0, 4); g_hstep = fmt("step %d/%d ", st, len);
    switch (kind) { case 0: pm.step(g); break; case 1: pv.step(g); break; case 2: ps.step(g); break; case 3: pb.step(g); break; default: pc.step(g); }
    if (st % 5 == 0 || st == len) { pm.check("other-object-changed"); pv.check("other-object-changed"); ps.check("other-object-changed"); pb.check("other-object-changed"); pc.check("other-object-changed"); }
  }
}

// ---------------------------------------------------------------------------------------------
// NON-CONFORMING operands: every operator/function must throw Exception::matvec (never read outside)
static long g_expect = 0;
static void expect_throw(const std::string& key, const std::function<void()>& f)
{
  bool thrown = false;
  try { f(); } catch (const Exc&) { thrown = true; } catch (const std::exception& e) { viol(key + ":wrong-exception-type", std::string("threw ") + e.what()); return; }
  if (g_sab > 0 && ++g_expect == g_sab) thrown = false;
  if (!thrown) viol(key + ":no-exception", "non-conforming operands accepted without an exception");
}
struct CFam { std::string name; std::function<void(Rng&, int, int)> f; };   // f(rng, a, b): a != b sizes
static std::vector<CFam> cfams;
static void fillr(GMB& m, Rng& g) { for (int i = 1; i <= m.rows(); i++) for (int j = 1; j <= m.cols(); j++) m(i, j) = g.uni(-3, 3); }
static void fillv(GV& v, Rng& g) { for (int i = 1; i <= v.dim(); i++) v(i) = g.uni(-3, 3); }
static void fillband(GMB& m, int b, Rng& g) { for (int i = 1; i <= m.rows(); i++) for (int j = i; j <= m.rows() && j <= i + b; j++) m(i, j) = (i == j ? 10 : g.uni(-1, 1)); }
#define CF(NAME, ...) cfams.push_back({NAME, [](Rng& g, int a, int b) { (void)g; (void)a; (void)b; const std::string key = std::string("conform:") + NAME; __VA_ARGS__ }})
static void build_conform()
{
  CF("Mat+Mat:rows", { GM A(a, 3), B(b, 3); fillr(A, g); fillr(B, g); expect_throw(key, [&] { GM C = A + B; }); });
  CF("Mat+Mat:cols", { GM A(2, a), B(2, b); fillr(A, g); fillr(B, g); expect_throw(key, [&] { GM C = A + B; }); });
  CF("Mat+Mat:same-size-different-shape", { GM A(a, b), B(b, a); fillr(A, g); fillr(B, g); expect_throw(key, [&] { GM C = A + B; }); });
  CF("Mat-Mat:rows", { GM A(a, 3), B(b, 3); fillr(A, g); fillr(B, g); expect_throw(key, [&] { GM C = A - B; }); });
  CF("Mat-Mat:same-size-different-shape", { GM A(a, b), B(b, a); fillr(A, g); fillr(B, g); expect_throw(key, [&] { GM C = A - B; }); });
  CF("MatBase+MatBase", { GM A(a, b), B(b, a); fillr(A, g); fillr(B, g); const GMB &x = A, &y = B; expect_throw(key, [&] { GM C = x + y; }); });
  CF("MatBase-MatBase", { GM A(a, 2), B(b, 2); fillr(A, g); fillr(B, g); const GMB &x = A, &y = B; expect_throw(key, [&] { GM C = x - y; }); });
  CF("Mat*Mat", { GM A(3, a), B(b, 2); fillr(A, g); fillr(B, g); expect_throw(key, [&] { GM C = A * B; }); });
  CF("MatBase*MatBase", { GM A(3, a), B(b, 2); fillr(A, g); fillr(B, g); const GMB &x = A, &y = B; expect_throw(key, [&] { GM C = x * y; }); });
  CF("TransMat*Mat", { GT A(a, 3); GM B(b, 2); fillr(A, g); fillr(B, g); expect_throw(key, [&] { GM C = A * B; }); });   // A is 3 x a
  CF("Mat*TransMat", { GM A(3, a); GT B(2, b); fillr(A, g); fillr(B, g); expect_throw(key, [&] { GM C = A * B; }); });   // B is b x 2
  CF("TransMat*TransMat", { GT A(a, 3), B(2, b); fillr(A, g); fillr(B, g); expect_throw(key, [&] { GM C = A * B; }); });
  CF("Mat*SymMat", { GM A(3, a); GS S(b); fillr(A, g); fillr(S, g); expect_throw(key, [&] { GM C = A * S; }); });
  CF("SymMat*Mat", { GS S(a); GM B(b, 2); fillr(S, g); fillr(B, g); expect_throw(key, [&] { GM C = S * B; }); });
  CF("SymMat*SymMat", { GS S(a), T(b); fillr(S, g); fillr(T, g); expect_throw(key, [&] { GS C = S * T; }); });
  CF("SymMat+SymMat", { GS S(a), T(b); fillr(S, g); fillr(T, g); expect_throw(key, [&] { GS C = S + T; }); });
  CF("SymMat-SymMat", { GS S(a), T(b); fillr(S, g); fillr(T, g); expect_throw(key, [&] { GS C = S - T; }); });
  CF("operator+(SymMat,SymMat)", { GS S(a), T(b); fillr(S, g); fillr(T, g); expect_throw(key, [&] { GS C = GNU_gama::operator+<double, int, Exc>(S, T); }); });
  CF("operator-(SymMat,SymMat)", { GS S(a), T(b); fillr(S, g); fillr(T, g); expect_throw(key, [&] { GS C = GNU_gama::operator-<double, int, Exc>(S, T); }); });
  CF("SymMat+=SymMat", { GS S(a), T(b); fillr(S, g); fillr(T, g); expect_throw(key, [&] { S += T; }); });
  CF("SymMat-=SymMat", { GS S(a), T(b); fillr(S, g); fillr(T, g); expect_throw(key, [&] { S -= T; }); });
  CF("Mat*Vec", { GM A(3, a); GV x(b); fillr(A, g); fillv(x, g); expect_throw(key, [&] { GV y = A * x; }); });
  CF("MatBase*Vec(SymMat)", { GS A(a); GV x(b); fillr(A, g); fillv(x, g); expect_throw(key, [&] { GV y = A * x; }); });
  CF("MatBase*Vec(BandMat)", { GB A(a, 0); GV x(b); fillband(A, 0, g); fillv(x, g); const GMB& m = A; expect_throw(key, [&] { GV y = m * x; }); });
  CF("TransMat*Vec", { GT A(a, 3); GV x(b); fillr(A, g); fillv(x, g); expect_throw(key, [&] { GV y = A * x; }); });
  CF("Vec*TransMat", { GT A(3, a); GV x(b); fillr(A, g); fillv(x, g); expect_throw(key, [&] { GTV y = x * A; }); });   // A is a x 3
  CF("TransVec*Mat", { GM A(a, 3); GTV x(b); fillr(A, g); for (int i = 1; i <= b; i++) x(i) = i; expect_throw(key, [&] { GTV y = x * A; }); });
  CF("TransVec*MatBase", { GS A(a); GTV x(b); fillr(A, g); for (int i = 1; i <= b; i++) x(i) = i; expect_throw(key, [&] { GTV y = x * A; }); });
  CF("TransMat+TransMat", { GT A(a, b), B(b, a); fillr(A, g); fillr(B, g); expect_throw(key, [&] { GT C = A + B; }); });
  CF("TransMat-TransMat", { GT A(3, a), B(3, b); fillr(A, g); fillr(B, g); expect_throw(key, [&] { GT C = A - B; }); });
  CF("Mat+TransMat", { GM A(a, b); GT B(a, b); fillr(A, g); fillr(B, g); expect_throw(key, [&] { GM C = A + B; }); });   // B is b x a
  CF("Mat-TransMat", { GM A(a, b); GT B(a, b); fillr(A, g); fillr(B, g); expect_throw(key, [&] { GM C = A - B; }); });
  CF("TransMat+Mat", { GM A(a, b); GT B(a, b); fillr(A, g); fillr(B, g); expect_throw(key, [&] { GM C = B + A; }); });
  CF("TransMat-Mat", { GM A(a, b); GT B(a, b); fillr(A, g); fillr(B, g); expect_throw(key, [&] { GM C = B - A; }); });
  CF("Vec+Vec", { GV x(a), y(b); fillv(x, g); fillv(y, g); expect_throw(key, [&] { GV z = x + y; }); });
  CF("Vec-Vec", { GV x(a), y(b); fillv(x, g); fillv(y, g); expect_throw(key, [&] { GV z = x - y; }); });
  CF("Vec+=Vec", { GV x(a), y(b); fillv(x, g); fillv(y, g); expect_throw(key, [&] { x += y; }); });
  CF("Vec-=Vec", { GV x(a), y(b); fillv(x, g); fillv(y, g); expect_throw(key, [&] { x -= y; }); });
  CF("Vec.dot", { GV x(a), y(b); fillv(x, g); fillv(y, g); expect_throw(key, [&] { volatile double d = x.dot(y); (void)d; }); });
  CF("TransVec+TransVec", { GTV x(a), y(b); x.set_all(1); y.set_all(2); expect_throw(key, [&] { GTV z = x + y; }); });
  CF("TransVec-TransVec", { GTV x(a), y(b); x.set_all(1); y.set_all(2); expect_throw(key, [&] { GTV z = x - y; }); });
  CF("TransVec*Vec", { GTV x(a); GV y(b); x.set_all(1); y.set_all(2); expect_throw(key, [&] { volatile double d = x * y; (void)d; }); });
  CF("Lower(Mat):nonsquare", { GM A(a, b); fillr(A, g); expect_throw(key, [&] { GS s = GNU_gama::Lower(A); }); });
  CF("Upper(Mat):nonsquare", { GM A(a, b); fillr(A, g); expect_throw(key, [&] { GS s = GNU_gama::Upper(A); }); });
  CF("SymMat(r,c):nonsquare", { expect_throw(key, [&] { GS s(a, b); }); });
  CF("SymMat.reset(r,c):nonsquare", { GS s(2); expect_throw(key, [&] { s.reset(a, b); }); });
  CF("SymMat.reset(negative)", { GS s(2); expect_throw(key, [&] { s.reset(-a); }); });
  CF("Mat.invert:nonsquare", { GM A(a, b); fillr(A, g); expect_throw(key, [&] { A.invert(); }); });
  CF("inv(Mat):nonsquare", { GM A(a, b); fillr(A, g); expect_throw(key, [&] { GM I = GNU_gama::inv(A); }); });
  CF("Vec(negative)", { expect_throw(key, [&] { GV x(-a); }); });
  CF("Mat(negative,c)", { expect_throw(key, [&] { GM x(-a, b); }); });
  CF("Mat{ragged}", { expect_throw(key, [&] { GM x{{1, 2, 3}, {4, 5}}; }); });
  CF("BandMat.write-outside-band", { int n = std::max(a, b) + 1, w = std::min(a, b) - 1; GB A(n, w); A.set_zero(); expect_throw(key, [&] { A(1, w + 2) = 1; }); expect_throw(key, [&] { A(n, n - w - 1) = 1; }); });
  CF("CovMat.write-outside-band", { int n = std::max(a, b) + 1, w = std::min(a, b) - 1; GC A(n, w); A.set_zero(); expect_throw(key, [&] { A(1, w + 2) = 1; }); expect_throw(key, [&] { A(n, n - w - 1) = 1; }); });
  CF("BandMat.cholDec:dim0", { GB A(0, 0); expect_throw(key, [&] { A.cholDec(); }); });
  CF("CovMat.cholDec:dim0", { GC A(0, 0); expect_throw(key, [&] { A.cholDec(); }); });
  CF("MatBase.transpose/invert:not-implemented", { GB A(a, 0); A.set_all(1); expect_throw(key, [&] { A.transpose(); }); expect_throw(key, [&] { A.invert(); }); GC C(a, 0); C.set_all(1); expect_throw(key, [&] { C.transpose(); }); });
  CF("SVD.q:index-out-of-range", { GM A(a + 1, a); fillr(A, g); for (int i = 1; i <= a; i++) A(i, i) += 10; GNU_gama::SVD<double, int, Exc> s(A); s.decompose();
    expect_throw(key, [&] { s.q_xx(a + 1, 1); }); expect_throw(key, [&] { s.q_xx(1, 0); }); expect_throw(key, [&] { s.q_bb(a + 2, 1); }); expect_throw(key, [&] { s.q_bx(1, a + 1); }); });
  // operand vectors shorter (reads/writes outside the operand unless checked) and longer (silently accepted unless checked)
#define CFV(NAME, SETUP, CALL) \
  CF(NAME ":short-operand", { int n = std::max(a, b), k = std::min(a, b); int w = std::min(2, n - 1); (void)w; SETUP GV x(k); fillv(x, g); expect_throw(key, [&] { CALL }); }); \
  CF(NAME ":long-operand", { int n = std::min(a, b), k = std::max(a, b); int w = std::min(2, n - 1); (void)w; SETUP GV x(k); fillv(x, g); expect_throw(key, [&] { CALL }); })
  CFV("BandMat*Vec", GB A(n, w); fillband(A, w, g);, GV y = A * x;);
  CFV("CovMat*Vec", GC A(n, w); fillband(A, w, g);, GV y = A * x;);
  CFV("SymMat.solve", GS A(n); A.set_identity(); A.cholDec();, A.solve(x););
  CFV("BandMat.solve", GB A(n, w); fillband(A, w, g); A.cholDec();, A.solve(x););
  CFV("CovMat.solve", GC A(n, w); fillband(A, w, g); A.cholDec();, A.solve(x););
  CFV("SVD.solve", GM M(n, 1); M.set_all(1); GSVD A(M); A.decompose();, GV y; A.solve(x, y););
}
static std::string conform_label(uint64_t caseid) { return "conform:" + cfams[caseid % cfams.size()].name; }
static void conform_case(uint64_t caseid)
{
  size_t f = caseid % cfams.size(); uint64_t var = caseid / cfams.size(); Rng g(mix(g_seed, 37, caseid));
  int a, b; if (var % 4 == 3) { a = 0; b = g.uni(1, 6); if (g.uni(0, 1)) std::swap(a, b); } else { a = g.uni(1, 6); do b = g.uni(1, 6); while (b == a); }
  if (a == 0 || b == 0) { const std::string& n = cfams[f].name;   // families whose set-up needs positive sizes
    if (n.find("negative") != std::string::npos || n.find("outside-band") != std::string::npos || n.find("SVD.q") != std::string::npos || n.find("not-implemented") != std::string::npos || n.find("operand") != std::string::npos) { a = 1 + (a > 0 ? a : b) % 5; b = a + 1; } }
  g_wit += fmt(" (a=%d b=%d)", a, b);
  kc("conform/" + cfams[f].name + "/" + ((a == 0 || b == 0) ? "one-empty" : "both-nonempty"));
  cfams[f].f(g, a, b);
}

// ---------------------------------------------------------------------------------------------
// LEAK scenarios (each run in its own process with LeakSanitizer enabled by the python side)
struct LFam { std::string name; std::function<void()> f; };
static std::vector<LFam> lfams;
template <class T> static void leak_kind()
{
  typedef Tr<T> R; std::string t = R::name();
  lfams.push_back({t + ":copy-assign-different-size", [] { std::unique_ptr<T> a(R::make(2, R::vec ? 1 : 2, 0)), b(R::make(3, R::vec ? 1 : 3, 0)); a->set_all(1); b->set_all(2); *a = *b; }});
  lfams.push_back({t + ":copy-assign-same-size", [] { std::unique_ptr<T> a(R::make(3, R::vec ? 1 : 3, 0)), b(R::make(3, R::vec ? 1 : 3, 0)); a->set_all(1); b->set_all(2); *a = *b; }});
  lfams.push_back({t + ":copy-assign-to-empty", [] { std::unique_ptr<T> a(R::make(3, R::vec ? 1 : 3, 0)), b(R::make(3, R::vec ? 1 : 3, 0)); b->set_all(2); R::reset0(*a); *a = *b; }});
  lfams.push_back({t + ":copy-assign-from-empty", [] { std::unique_ptr<T> a(R::make(3, R::vec ? 1 : 3, 0)), b(R::make(3, R::vec ? 1 : 3, 0)); a->set_all(2); R::reset0(*b); *a = *b; }});
  lfams.push_back({t + ":move-assign-different-size", [] { std::unique_ptr<T> a(R::make(2, R::vec ? 1 : 2, 0)), b(R::make(3, R::vec ? 1 : 3, 0)); a->set_all(1); b->set_all(2); *a = std::move(*b); }});
  lfams.push_back({t + ":copy-construct", [] { std::unique_ptr<T> a(R::make(2, R::vec ? 1 : 2, 0)); a->set_all(1); T b(*a); T c(std::move(b)); }});
  lfams.push_back({t + ":reset", [] { std::unique_ptr<T> a(R::make(2, R::vec ? 1 : 2, 0)); a->set_all(1); R::reset2(*a, 4, R::vec ? 1 : 4, 1, 0); a->set_all(1); R::reset0(*a); R::reset2(*a, 3, R::vec ? 1 : 3, 0, 0); }});
}
static void build_leak()
{
  leak_kind<GM>(); leak_kind<GV>(); leak_kind<GS>(); leak_kind<GB>(); leak_kind<GC>();
  lfams.push_back({"Mat:transpose+invert", [] { GM a(2, 3); a.set_all(1); a.transpose(); GM b(3, 3); b.set_identity(); b(1, 2) = 0.5; b.invert(); GM c = GNU_gama::inv(b); }});
  lfams.push_back({"Mat:operators", [] { GM a(2, 3), b(3, 2); a.set_all(1); b.set_all(2); GM c = a * b; c = c + c; c = trans(a) * a; GV x(3); x.set_all(1); GV y = a * x; y = y - y * 2.0; }});
  lfams.push_back({"Mat:exception-path", [] { GM a(2, 3), b(3, 2); a.set_all(1); b.set_all(2); try { GM c = a + b; } catch (const Exc&) {} try { b.invert(); } catch (const Exc&) {} GM s(2, 2); s.set_all(1); try { s.invert(); } catch (const Exc&) {} }});
  lfams.push_back({"SVD:lifecycle", [] { GM a(4, 3); a.set_all(1); for (int i = 1; i <= 3; i++) a(i, i) = 3; GSVD s(a); s.decompose(); GV b(4), x; b.set_all(1); s.solve(b, x); GM c(5, 2); c.set_all(1); c(1, 1) = 2; s.reset(c); s.decompose(); s.clear(); }});
  lfams.push_back({"pinv", [] { GM a(4, 3); a.set_all(1); for (int i = 1; i <= 3; i++) a(i, i) = 3; GM p = GNU_gama::pinv(a); }});
  lfams.push_back({"GSO:lifecycle", [] { GM a(5, 3); a.set_all(0); for (int i = 1; i <= 2; i++) a(i, i) = 1; a(1, 3) = 1; a(3, 1) = a(4, 2) = 1; GNU_gama::GSO<double, int, Exc> g(a, 3, 2); g.min_x(); g.gso1(); g.gso2(); GM b(6, 3); b.set_all(1); b(1, 1) = 5; b(2, 2) = 7; g.reset(b, 4, 2); g.min_x(); g.gso1(); }});
  lfams.push_back({"BandMat:cholDec+invBand+eigenVal", [] { GB a(4, 1); a.set_all(1); for (int i = 1; i <= 4; i++) a(i, i) = 4; GB f(a); f.cholDec(); GB z; f.invBand(z, 2); GV e; a.eigenVal(e); GV x(4); x.set_all(1); f.solve(x); }});
}

// ---------------------------------------------------------------------------------------------
int main(int argc, char** argv)
{
  if (argc < 3) { fprintf(stderr, "usage: matdrv <subcheck> <seed|count> <first> <n> [stride] [--maxdim D] [--allk K] [--budget N] [--sabotage K]\n"); return 2; }
  std::string sub = argv[1]; bool count = std::string(argv[2]) == "count";
  long first = 0, n = 0, stride = 1; std::vector<std::string> pos; std::string params;
  for (int i = 3; i < argc; i++) { std::string a = argv[i];
    if (a == "--maxdim" && i + 1 < argc) { g_maxdim = atoi(argv[++i]); params += fmt(" --maxdim %d", g_maxdim); }
    else if (a == "--allk" && i + 1 < argc) { g_allk = atoi(argv[++i]); params += fmt(" --allk %d", g_allk); }
    else if (a == "--budget" && i + 1 < argc) { g_budget = atol(argv[++i]); params += fmt(" --budget %ld", g_budget); }
    else if (a == "--sabotage" && i + 1 < argc) g_sab = atol(argv[++i]);
    else pos.push_back(a); }
  if (!count) { g_seed = strtoull(argv[2], 0, 10); if (pos.size() < 2) { fprintf(stderr, "first and n required\n"); return 2; } first = atol(pos[0].c_str()); n = atol(pos[1].c_str()); if (pos.size() > 2) stride = atol(pos[2].c_str()); if (stride < 1) stride = 1; }
  long total = -1;   // -1: unbounded (generated from the index)
  if (sub == "exhaustive") { build_exhaustive(g_maxdim); total = long(cases.size()); }
  else if (sub == "random") build_random();
  else if (sub == "history") {}
  else if (sub == "conform") build_conform();
  else if (sub == "leak") { build_leak(); total = long(lfams.size()); }
  else { fprintf(stderr, "unknown sub-check %s\n", sub.c_str()); return 2; }
  if (count) { printf("%ld %ld\n", total, sub == "conform" ? long(cfams.size()) : sub == "random" ? long(rfams.size()) : 0L); return 0; }
  long done = 0;
  for (long t = 0; t < n; t++) {
    long id = first + t * stride; if (total >= 0 && id >= total) break;
    std::string key;
    if (sub == "exhaustive") key = cases[id].key; else if (sub == "random") key = std::string("random:") + rfams[id % rfams.size()].name;
    else if (sub == "history") key = "history"; else if (sub == "conform") key = conform_label(id); else key = "leak:" + lfams[id].name;
    g_wit = fmt("%s %llu %ld 1 1%s", sub.c_str(), (unsigned long long)g_seed, id, params.c_str());
    fprintf(stderr, "C %ld %s\n", id, key.c_str()); fflush(stderr);
    try {
      if (sub == "exhaustive") { long ev = run_enum(cases[id], id); kc(cases[id].cls, ev); if (id % 37 == 0) sample(fmt("case %ld %s: %ld assignments of %d entries in {-1,0,1,2}%s", id, cases[id].cls.c_str(), ev, cases[id].k, cases[id].k <= g_allk ? " (all)" : " (subset)")); }
      else if (sub == "random") { Rng g(mix(g_seed, 5, id)); rfams[id % rfams.size()].f(g); if (id % 7 == 0) sample(fmt("random case %ld family %s -> class %s", id, rfams[id % rfams.size()].name, g_lastcls.c_str())); }
      else if (sub == "history") { history_case(id); if (id % 50 == 0) sample(fmt("history case %ld ended with: %s", id, g_hstep.c_str())); }
      else if (sub == "conform") { conform_case(id); if (id % 11 == 0) sample("conform case: " + g_wit + " " + key); }
      else { lfams[id].f(); kc("leak/" + lfams[id].name); }
    } catch (const Exc& e) { viol(key + ":unexpected-exception", fmt("matvec exception (error %d) on conforming operands: %s", e.error(), e.what()));
    } catch (const std::exception& e) { viol(key + ":unexpected-std-exception", e.what()); }
    done++; flush_counters();
  }
  for (std::map<std::string, int>::iterator i = Vn.begin(); i != Vn.end(); ++i) printf("N %s %d\n", i->first.c_str(), i->second);
  printf("DONE %ld\n", done);
  return 0;
}
