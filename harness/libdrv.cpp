// libdrv: line-oriented driver for library primitives (C17 statan, C18 geodetic primitives).
// Input on stdin, one request per line; one reply line per request.  Doubles are printed
// with %.17g (round-trip exact); strings are printed inside [] so blanks are visible.
#include <cstdio>
#include <cstdlib>
#include <cstring>
#include <cmath>
#include <string>
#include <sstream>
#include <iostream>
#include <vector>
#include <gnu_gama/statan.h>
#include <gnu_gama/ellipsoid.h>
#include <gnu_gama/ellipsoids.h>
#include <gnu_gama/gon2deg.h>
#include <gnu_gama/latlong.h>
#include <gnu_gama/intfloat.h>
#include <gnu_gama/radian.h>
#include <gnu_gama/xml/baseparser.h>
#include <gnu_gama/local/bearing.h>
#include <gnu_gama/local/gamadata.h>

using namespace GNU_gama;

namespace {
struct NumParser : public CoreParser {
  void xml_parse(const char*, int, int) override {}
  int characterDataHandler(const char*, int) override { return 0; }
  int startElement(const char*, const char**) override { return 0; }
  int endElement(const char*) override { return 0; }
  bool d(const std::string& s, double& v) const { return toDouble(s, v); }
  bool i(const std::string& s, int& v) const { return toInteger(s, v); }
  bool x(const std::string& s, int& v) const { return toIndex(s, v); }
};

// unescape \xHH and \\ in a token so any byte string can be sent on one line
std::string unesc(const std::string& s)
{
  std::string r;
  for (size_t i = 0; i < s.size(); i++) {
    if (s[i] == '\\' && i + 3 < s.size() + 0 && s[i + 1] == 'x') {
      r += char(strtol(s.substr(i + 2, 2).c_str(), nullptr, 16));
      i += 3;
    } else
      r += s[i];
  }
  return r;
}
std::string esc(const std::string& s)
{
  std::string r;
  char buf[8];
  for (unsigned char c : s) {
    if (c < 32 || c >= 127 || c == '\\' || c == '[' || c == ']') {
      snprintf(buf, sizeof buf, "\\x%02x", c);
      r += buf;
    } else
      r += char(c);
  }
  return r;
}
}  // namespace

int main()
{
  std::string line;
  NumParser np;
  Ellipsoid E;
  int cur_ell = -1;
  while (std::getline(std::cin, line)) {
    std::istringstream in(line);
    std::string cmd;
    in >> cmd;
    if (cmd == "N") {            // Normal(alpha)
      double a; in >> a;
      printf("%.17g\n", Normal(a));
    } else if (cmd == "S") {     // Student(alpha, dof)
      double a; int n; in >> a >> n;
      printf("%.17g\n", Student(a, n));
    } else if (cmd == "C") {     // Chi_square(alpha, dof)
      double a; int n; in >> a >> n;
      printf("%.17g\n", Chi_square(a, n));
    } else if (cmd == "D") {     // NormalDistribution(x) -> D f
      double x, D, f; in >> x;
      NormalDistribution(x, D, f);
      printf("%.17g %.17g\n", D, f);
    } else if (cmd == "K") {
      double x; in >> x;
      printf("%.17g\n", KSprob(x));
    } else if (cmd == "ELLN") {  // number of ellipsoids in the table
      int n = 0;
      // ids are 1..wgs84
      n = int(ellipsoid_wgs84);
      printf("%d\n", n);
    } else if (cmd == "ELL") {   // ELL id -> a b f  name
      int id; in >> id;
      Ellipsoid e;
      int rc = GNU_gama::set(&e, gama_ellipsoid(id));
      printf("%d %.17g %.17g %.17g [%s] [%s]\n", rc, e.a(), e.b(), e.f(), gama_ellipsoid_id[id],
             gama_ellipsoid_caption[id]);
    } else if (cmd == "ELLID") { // lookup by name
      std::string s; in >> s;
      printf("%d\n", int(ellipsoid(s.c_str())));
    } else if (cmd == "BLH") {   // BLH id b l h -> x y z b2 l2 h2
      int id; double b, l, h; in >> id >> b >> l >> h;
      if (id != cur_ell) { GNU_gama::set(&E, gama_ellipsoid(id)); cur_ell = id; }
      double x, y, z, b2, l2, h2;
      E.blh2xyz(b, l, h, x, y, z);
      E.xyz2blh(x, y, z, b2, l2, h2);
      printf("%.17g %.17g %.17g %.17g %.17g %.17g\n", x, y, z, b2, l2, h2);
    } else if (cmd == "XYZ") {   // XYZ id x y z -> b l h x2 y2 z2
      int id; double x, y, z; in >> id >> x >> y >> z;
      if (id != cur_ell) { GNU_gama::set(&E, gama_ellipsoid(id)); cur_ell = id; }
      double b, l, h, x2, y2, z2;
      E.xyz2blh(x, y, z, b, l, h);
      E.blh2xyz(b, l, h, x2, y2, z2);
      printf("%.17g %.17g %.17g %.17g %.17g %.17g\n", b, l, h, x2, y2, z2);
    } else if (cmd == "G2D") {   // gon2deg(gon, sign, prec)
      double g; int s, p; in >> g >> s >> p;
      printf("[%s]\n", esc(gon2deg(g, s, p)).c_str());
    } else if (cmd == "R2D") {
      double g; int s, p; in >> g >> s >> p;
      printf("[%s]\n", esc(rad2deg_str(g, s, p)).c_str());
    } else if (cmd == "D2G") {   // deg2gon(string)
      std::string s; in >> s; s = unesc(s);
      double g = 0; bool ok = deg2gon(s, g);
      printf("%d %.17g\n", ok ? 1 : 0, ok ? g : 0.0);
    } else if (cmd == "DMS2RAD") {
      double d; in >> d; printf("%.17g\n", dms2rad(d));
    } else if (cmd == "RAD2DMS") {
      double d; in >> d; printf("%.17g\n", rad2dms(d));
    } else if (cmd == "LAT") {
      double r; int p; in >> r >> p;
      printf("[%s] [%s]\n", esc(latitude(r, p)).c_str(), esc(longitude(r, p)).c_str());
    } else if (cmd == "LIT") {   // literal recognisers on an escaped string
      std::string s; in >> s; s = unesc(s);
      if (s == "\\0") s = "";
      double d = 0; int i = 0, x = 0;
      bool isf = IsFloat(s), isi = IsInteger(s);
      bool okd = np.d(s, d), oki = np.i(s, i);
      printf("%d %d %d %.17g %d %d\n", isf, isi, okd, okd ? d : 0.0, oki, oki ? i : 0);
    } else if (cmd == "IDX") {   // toIndex separately (may be UB on huge values)
      std::string s; in >> s; s = unesc(s);
      if (s == "\\0") s = "";
      int x = 0; bool ok = np.x(s, x);
      printf("%d %d\n", ok, ok ? x : 0);
    } else if (cmd == "BD") {    // bearing_distance(ya, xa, yb, xb) -> br d  + bearing() + LocalPoint versions
      double ya, xa, yb, xb; in >> ya >> xa >> yb >> xb;
      double br, d;
      local::bearing_distance(ya, xa, yb, xb, br, d);
      double b2 = local::bearing(ya, xa, yb, xb);
      local::LocalPoint A, B;
      A.set_xy(xa, ya); B.set_xy(xb, yb);
      double br3, d3;
      local::bearing_distance(A, B, br3, d3);
      double b4 = local::bearing(A, B);
      double d5 = local::distance(A, B);
      printf("%.17g %.17g %.17g %.17g %.17g %.17g %.17g\n", br, d, b2, br3, d3, b4, d5);
    } else if (cmd == "PING") {
      printf("PONG\n");
    } else if (cmd.empty()) {
      continue;
    } else {
      printf("?\n");
    }
  }
  return 0;
}
