// parsedrv: in-process driver for gama's XML readers (property C11).
//
//   parsedrv [-t] STREAM          length-prefixed stream of documents (see below), '-' = stdin
//   parsedrv [-t] -f KIND MODE FILE...   the same for a list of files (id = file name)
//
// A stream is a sequence of records
//     @ <id> <kind> <len> <mode>\n  <len bytes>  \n
// kind: gkf      GNU_gama::local::GKFparser on a fresh LocalNetwork
//       data     GNU_gama::DataParser (gama-g3 model / adj-input-data / g3 adjustment results)
//       datax    the same, the digest also covers DataObject::Base::xml() of every object read
//       adjxml   LocalNetworkAdjustmentResults::read_xml  (mode ignored)
//       adjhtml  LocalNetworkAdjustmentResults::read_html (mode ignored)
// mode: one              the whole document in one xml_parse(..., isFinal=1) call
//       lines            line by line as gama-local's main() does
//       g3lines          as gama-g3's get_xml_input() and read_xml() do: line, "\n", ..., and a final empty chunk
//       b1               one byte per call
//       at:o1,o2,...     chunks split at the given byte offsets (last chunk is final)
//       every            one-shot outcome + every two-chunk split + b1 + lines; prints only differences
//
// For every document the driver prints "> id" (flushed) before it touches the document, so a process
// that dies identifies its case, and afterwards one line
//     < id accepted digest=<hex> left=<n> [rec=<errCode>@<errLine>:[msg]]
//     < id refused class=<parser|string|matvec|std:...|unknown> line=<n> code=<c> chunk=<k> left=<n> msg=[...]
//     < id every n=<splits> base={<outcome>} diffs=<k> [first=<mode>{<outcome>}]
// rec=...  : CoreParser::error() recorded an error (errCode != 0) but no exception reached the caller.
// left=<n> : number of handler calls entered with a recorded error while state != state_error (the parser's
//            own contract "the error state is absorbing").
// With -t the distinct automaton transitions of the GKF parser seen by this process are printed at the end:
//     T <state> <tag|/|?> <next state> <count>          ('/' = end element, '?' = unknown tag)
#include <cstdio>
#include <cstdlib>
#include <cstring>
#include <cstdint>
#include <string>
#include <vector>
#include <map>
#include <list>
#include <tuple>
#include <sstream>
#include <fstream>
#include <iostream>
#include <typeinfo>
#include <gnu_gama/xml/gkfparser.h>
#include <gnu_gama/xml/dataparser.h>
#include <gnu_gama/xml/localnetwork_adjustment_results.h>
#include <gnu_gama/local/network.h>
#include <gnu_gama/local/language.h>
#include <gnu_gama/exception.h>

namespace {

std::map<std::tuple<int, std::string, int>, long> transitions;
bool want_transitions = false;

const char* known_tags[] = {
  "angle", "azimuth", "coordinates", "cov-mat", "description", "dh", "direction", "distance", "gama-local",
  "gama-xml", "height-differences", "network", "obs", "parameters", "point", "points-observations",
  "s-distance", "vec", "vectors", "z-angle", nullptr};

struct FNV {
  uint64_t h = 1469598103934665603ULL;
  void add(const void* p, size_t n)
  {
    const unsigned char* c = static_cast<const unsigned char*>(p);
    for (size_t i = 0; i < n; i++) { h ^= c[i]; h *= 1099511628211ULL; }
  }
  void add(const std::string& s) { add(s.data(), s.size()); add("\0", 1); }
  void add(double d) { add(&d, sizeof d); }
  void add(long v) { add(&v, sizeof v); }
};

std::string esc(const std::string& s, size_t limit = 160)
{
  std::string r;
  char buf[8];
  for (unsigned char c : s) {
    if (r.size() >= limit) { r += "..."; break; }
    if (c < 32 || c >= 127 || c == '\\' || c == '[' || c == ']' || c == '{' || c == '}') {
      snprintf(buf, sizeof buf, "\\x%02x", c);
      r += buf;
    } else
      r += char(c);
  }
  return r;
}

// ---- probes: subclasses that expose the protected error record and watch the automaton
struct GkfProbe : public GNU_gama::local::GKFparser {
  long left = 0;
  explicit GkfProbe(GNU_gama::local::LocalNetwork& n) : GNU_gama::local::GKFparser(n) {}
  int startElement(const char* cname, const char** atts) override
  {
    const int s0 = state;
    if (errCode != 0 && state != 0) left++;
    const int r = GNU_gama::local::GKFparser::startElement(cname, atts);
    if (want_transitions) {
      const char* t = "?";
      for (const char** k = known_tags; *k; k++)
        if (!strcmp(*k, cname)) t = *k;
      transitions[std::make_tuple(s0, std::string(t), state)]++;
    }
    return r;
  }
  int endElement(const char* cname) override
  {
    const int s0 = state;
    if (errCode != 0 && state != 0) left++;
    const int r = GNU_gama::local::GKFparser::endElement(cname);
    if (want_transitions) transitions[std::make_tuple(s0, std::string("/"), state)]++;
    return r;
  }
  int rec_code() const { return errCode; }
  int rec_line() const { return errLineNumber; }
  const std::string& rec_msg() const { return errString; }
};

struct DataProbe : public GNU_gama::DataParser {
  long left = 0;
  explicit DataProbe(std::list<GNU_gama::DataObject::Base*>& l) : GNU_gama::DataParser(l) {}
  int rec_code() const { return errCode; }
  int rec_line() const { return errLineNumber; }
  const std::string& rec_msg() const { return errString; }
};

struct Outcome {
  bool accepted = false;
  std::string cls, msg, digest, rec;
  int line = 0, code = 0, chunk = -1;
  long left = 0;
  std::string sig() const   // what must not depend on the chunking
  {
    std::ostringstream o;
    if (accepted)
      o << "accepted digest=" << digest << (rec.empty() ? "" : " " + rec);
    else
      o << "refused class=" << cls << " line=" << line << " code=" << code << " msg=[" << esc(msg) << "]";
    return o.str();
  }
  std::string full() const
  {
    std::ostringstream o;
    if (accepted)
      o << "accepted digest=" << digest << " left=" << left << (rec.empty() ? "" : " " + rec);
    else
      o << "refused class=" << cls << " line=" << line << " code=" << code << " chunk=" << chunk
        << " left=" << left << " msg=[" << esc(msg) << "]";
    return o.str();
  }
};

std::vector<size_t> chunk_ends(const std::string& doc, const std::string& mode)
{
  std::vector<size_t> e;
  const size_t n = doc.size();
  if (mode == "g3lines") {
    // chunks: [line][\n][line][\n]...; the caller adds the final empty chunk (repeated end offset)
    for (size_t i = 0; i < n; i++)
      if (doc[i] == '\n') {
        if (e.empty() || e.back() != i) e.push_back(i);
        e.push_back(i + 1);
      }
    if (e.empty() || e.back() != n) e.push_back(n);
    e.push_back(n);
    return e;
  }
  if (mode == "lines") {
    for (size_t i = 0; i < n; i++)
      if (doc[i] == '\n' && i + 1 < n) e.push_back(i + 1);
  } else if (mode == "b1") {
    for (size_t i = 1; i < n; i++) e.push_back(i);
  } else if (mode.compare(0, 3, "at:") == 0) {
    std::istringstream in(mode.substr(3));
    std::string tok;
    size_t last = 0;
    while (std::getline(in, tok, ',')) {
      size_t o = strtoul(tok.c_str(), nullptr, 10);
      if (o > last && o < n) { e.push_back(o); last = o; }
    }
  }
  e.push_back(n);
  return e;
}

template <class Parser> void feed(Parser& p, const std::string& doc, const std::vector<size_t>& ends, int& chunk)
{
  size_t b = 0;
  for (size_t k = 0; k < ends.size(); k++) {
    chunk = int(k);
    const bool fin = (k + 1 == ends.size());
    p.xml_parse(doc.data() + b, int(ends[k] - b), fin ? 1 : 0);
    b = ends[k];
  }
}

template <class F> void guarded(Outcome& oc, F f)
{
  try {
    f();
    oc.accepted = true;
  } catch (const GNU_gama::Exception::parser& e) {
    oc.cls = "parser"; oc.line = e.line; oc.code = e.error_code; oc.msg = e.str;
  } catch (const GNU_gama::Exception::string& e) {
    oc.cls = "string"; oc.msg = e.str;
  } catch (const GNU_gama::Exception::matvec& e) {
    oc.cls = "matvec"; oc.msg = e.what();
  } catch (const std::exception& e) {
    oc.cls = std::string("std:") + typeid(e).name(); oc.msg = e.what();
  } catch (...) {
    oc.cls = "unknown";
  }
}

std::string hex(uint64_t h)
{
  char b[24];
  snprintf(b, sizeof b, "%016llx", static_cast<unsigned long long>(h));
  return b;
}

Outcome run_gkf(const std::string& doc, const std::vector<size_t>& ends)
{
  using namespace GNU_gama::local;
  Outcome oc;
  LocalNetwork lnet;
  GkfProbe p(lnet);
  guarded(oc, [&] { feed(p, doc, ends, oc.chunk); });
  oc.left = p.left;
  if (oc.accepted) {
    if (p.rec_code() != 0) {
      std::ostringstream r;
      r << "rec=" << p.rec_code() << "@" << p.rec_line() << ":[" << esc(p.rec_msg()) << "]";
      oc.rec = r.str();
    }
    FNV f;
    f.add(lnet.description);
    f.add(long(lnet.PD.size()));
    for (const auto& q : lnet.PD) {
      f.add(q.first.str());
      const LocalPoint& lp = q.second;
      f.add(long(lp.test_xy())); f.add(long(lp.test_z()));
      if (lp.test_xy()) { f.add(lp.x()); f.add(lp.y()); }
      if (lp.test_z()) f.add(lp.z());
      f.add(long(lp.fixed_xy())); f.add(long(lp.free_xy())); f.add(long(lp.constrained_xy()));
      f.add(long(lp.fixed_z())); f.add(long(lp.free_z())); f.add(long(lp.constrained_z()));
    }
    f.add(long(lnet.OD.clusters.size()));
    for (const auto* cl : lnet.OD.clusters) {
      f.add(long(cl->observation_list.size()));
      for (const auto* ob : cl->observation_list) {
        f.add(ob->from().str()); f.add(ob->to().str()); f.add(ob->value());
        f.add(ob->from_dh()); f.add(ob->to_dh());
      }
      const auto& C = cl->covariance_matrix;
      f.add(long(C.dim())); f.add(long(C.bandWidth()));
      for (auto i = C.begin(); i != C.end(); ++i) f.add(double(*i));
    }
    f.add(lnet.apriori_m_0()); f.add(lnet.conf_pr()); f.add(lnet.tol_abs());
    oc.digest = hex(f.h);
  }
  return oc;
}

Outcome run_data(const std::string& doc, const std::vector<size_t>& ends, bool with_xml)
{
  Outcome oc;
  std::list<GNU_gama::DataObject::Base*> objects;
  {
    DataProbe p(objects);
    guarded(oc, [&] { feed(p, doc, ends, oc.chunk); });
    if (oc.accepted && p.rec_code() != 0) {
      std::ostringstream r;
      r << "rec=" << p.rec_code() << "@" << p.rec_line() << ":[" << esc(p.rec_msg()) << "]";
      oc.rec = r.str();
    }
  }
  FNV f;
  f.add(long(objects.size()));
  Outcome oc2;
  guarded(oc2, [&] {
    for (auto* o : objects) {
      f.add(std::string(typeid(*o).name()));
      if (with_xml && oc.accepted) f.add(o->xml());
    }
  });
  if (oc.accepted && !oc2.accepted) {     // writing what was read threw: report as a refusal without a line
    oc = oc2;
    oc.cls = "xml():" + oc.cls;
  }
  // the objects are released as gama-g3's get_xml_input() does
  for (auto* o : objects) {
    if (auto* m = dynamic_cast<GNU_gama::DataObject::g3_model*>(o)) delete m->model;
    delete o;
  }
  if (oc.accepted) oc.digest = hex(f.h);
  return oc;
}

Outcome run_adj(const std::string& doc, bool html)
{
  Outcome oc;
  GNU_gama::LocalNetworkAdjustmentResults res;
  std::istringstream in(doc);
  oc.chunk = 0;
  guarded(oc, [&] { if (html) res.read_html(in); else res.read_xml(in); });
  if (oc.accepted) {
    FNV f;
    f.add(res.description);
    f.add(long(res.fixed_points.size())); f.add(long(res.approximate_points.size()));
    f.add(long(res.adjusted_points.size())); f.add(long(res.ellipses.size()));
    f.add(long(res.orientations.size())); f.add(long(res.obslist.size()));
    f.add(long(res.original_index.size())); f.add(long(res.cov.dim()));
    for (const auto& q : res.adjusted_points) f.add(q.id);
    for (const auto& q : res.obslist) { f.add(q.xml_tag); f.add(q.from); f.add(q.to); }
    f.add(long(res.xmlerror.isValid()));
    oc.digest = hex(f.h);
  }
  return oc;
}

Outcome run_one(const std::string& kind, const std::string& doc, const std::string& mode)
{
  if (kind == "adjxml") return run_adj(doc, false);
  if (kind == "adjhtml") return run_adj(doc, true);
  const std::vector<size_t> ends = chunk_ends(doc, mode);
  if (kind == "gkf") return run_gkf(doc, ends);
  return run_data(doc, ends, kind == "datax");
}

void process(const std::string& id, const std::string& kind, const std::string& doc, const std::string& mode)
{
  printf("> %s\n", id.c_str());
  fflush(stdout);
  if (mode == "every" && (kind == "gkf" || kind == "data" || kind == "datax")) {
    const Outcome base = run_one(kind, doc, "one");
    const std::string bs = base.sig();
    long n = 0, diffs = 0;
    std::string first;
    auto cmp = [&](const std::string& m) {
      const Outcome o = run_one(kind, doc, m);
      n++;
      if (o.sig() != bs) {
        if (!diffs) first = m + "{" + o.sig() + "}";
        diffs++;
      }
    };
    for (size_t off = 1; off < doc.size(); off++) {
      char b[32];
      snprintf(b, sizeof b, "at:%zu", off);
      cmp(b);
    }
    cmp("b1");
    cmp("lines");
    printf("< %s every n=%ld base={%s} diffs=%ld%s%s\n", id.c_str(), n, base.full().c_str(), diffs,
           diffs ? " first=" : "", first.c_str());
  } else {
    const Outcome o = run_one(kind, doc, mode);
    printf("< %s %s\n", id.c_str(), o.full().c_str());
  }
  fflush(stdout);
}

bool read_stream(std::istream& in)
{
  std::string header;
  while (std::getline(in, header)) {
    if (header.empty()) continue;
    std::istringstream h(header);
    std::string at, id, kind, mode;
    size_t len = 0;
    if (!(h >> at >> id >> kind >> len >> mode) || at != "@") {
      fprintf(stderr, "parsedrv: bad record header [%s]\n", esc(header).c_str());
      return false;
    }
    std::string doc(len, '\0');
    if (len) in.read(&doc[0], std::streamsize(len));
    if (size_t(in.gcount()) != len && len) {
      fprintf(stderr, "parsedrv: short record %s\n", id.c_str());
      return false;
    }
    in.get();   // the newline after the payload
    process(id, kind, doc, mode);
  }
  return true;
}

}   // namespace

int main(int argc, char** argv)
{
  GNU_gama::local::set_gama_language(GNU_gama::local::en);
  int a = 1;
  if (a < argc && !strcmp(argv[a], "-t")) { want_transitions = true; a++; }
  bool ok = true;
  if (a < argc && !strcmp(argv[a], "-f")) {
    if (argc - a < 4) { fprintf(stderr, "usage: parsedrv [-t] -f KIND MODE FILE...\n"); return 2; }
    const std::string kind = argv[a + 1], mode = argv[a + 2];
    for (int i = a + 3; i < argc; i++) {
      std::ifstream f(argv[i], std::ios::binary);
      if (!f) { fprintf(stderr, "parsedrv: cannot read %s\n", argv[i]); ok = false; continue; }
      std::stringstream ss;
      ss << f.rdbuf();
      process(argv[i], kind, ss.str(), mode);
    }
  } else if (a < argc) {
    if (!strcmp(argv[a], "-"))
      ok = read_stream(std::cin);
    else {
      std::ifstream f(argv[a], std::ios::binary);
      if (!f) { fprintf(stderr, "parsedrv: cannot read %s\n", argv[a]); return 2; }
      ok = read_stream(f);
    }
  } else {
    fprintf(stderr, "usage: parsedrv [-t] STREAM | parsedrv [-t] -f KIND MODE FILE...\n");
    return 2;
  }
  if (want_transitions)
    for (const auto& t : transitions)
      printf("T %d %s %d %ld\n", std::get<0>(t.first), std::get<1>(t.first).c_str(), std::get<2>(t.first), t.second);
  return ok ? 0 : 2;
}
