// sparsedrv: generator + dense long-double oracle for property C16
// ("sparse kernels equal their dense definitions").
//
//   sparsedrv <subcheck> <seed> <first_case> <n_cases> [--dump] [--sabotage K]
//
// subcheck: all | smatrix | graph | rcm | envelope | bdiag | homog
// Case i is generated from (seed, i) alone.  Output (stdout):
//   C <case>                         printed (and flushed) before a case is executed
//   V <key> | <description> | <subcheck> <seed> <case>      one line per violation
//   X <text>                         oracle self-check failed (harness error, not a verdict)
//   K <class> <count>   N <counter> <count>   R <name> <max err/tol>   S <sample text>
//   DONE <cases>
// The oracle (dense long double linear algebra, exact integer rank, union-find) is written
// from the mathematical definitions and does not call gama code.
#include <cstdio>
#include <cstdlib>
#include <cstring>
#include <cstdint>
#include <cstdarg>
#include <cmath>
#include <cfloat>
#include <string>
#include <vector>
#include <map>
#include <set>
#include <algorithm>
#include <sstream>
#include <exception>
#include <functional>

#include <gnu_gama/sparse/smatrix.h>
#include <gnu_gama/sparse/svector.h>
#include <gnu_gama/sparse/intlist.h>
#include <gnu_gama/sparse/smatrix_graph.h>
#include <gnu_gama/sparse/smatrix_ordering.h>
#include <gnu_gama/sparse/sbdiagonal.h>
#include <gnu_gama/adj/envelope.h>
#include <gnu_gama/adj/adj_input_data.h>
#include <gnu_gama/adj/homogenization.h>

namespace {

typedef long double LD;
typedef GNU_gama::SparseMatrix<double, int> SM;
typedef GNU_gama::SparseVector<double, int> SV;
typedef GNU_gama::SparseMatrixGraph<double, int> Graph;
typedef GNU_gama::ReverseCuthillMcKee<int> RCM;
typedef GNU_gama::Envelope<double, int> Env;
typedef GNU_gama::BlockDiagonal<double, int> BD;
typedef GNU_gama::UpperBlockDiagonal<double, int> UBD;

const double EPS = DBL_EPSILON;

// ------------------------------------------------------------------ run state / output
std::string g_sub = "all";
long g_seed = 1, g_case = 0;
int g_sabotage = 0;
bool g_dump = false;
std::string g_cursub;
std::map<std::string, long> g_classes, g_counters;
std::map<std::string, double> g_ratios;
int g_samples = 0;

std::string fmt(const char* f, ...) __attribute__((format(printf, 1, 2)));
std::string fmt(const char* f, ...)
{
  char buf[1024];
  va_list ap;
  va_start(ap, f);
  vsnprintf(buf, sizeof buf, f, ap);
  va_end(ap);
  return buf;
}

void V(const std::string& key, const std::string& desc)
{
  printf("V %s | %s | %s %ld %ld\n", key.c_str(), desc.c_str(), g_cursub.c_str(), g_seed, g_case);
}
void X(const std::string& text) { printf("X %s (case %ld seed %ld)\n", text.c_str(), g_case, g_seed); }
void cls(const std::string& c) { g_classes[c]++; }
void cnt(const std::string& c, long n = 1) { g_counters[c] += n; }
// returns true when err is within tol
bool ratio(const std::string& name, LD err, LD tol)
{
  double r;
  if (!(err == err)) r = INFINITY;
  else if (tol > 0) r = double(err / tol);
  else r = err == 0 ? 0.0 : INFINITY;
  std::map<std::string, double>::iterator it = g_ratios.find(name);
  if (it == g_ratios.end()) g_ratios[name] = r;
  else if (r > it->second) it->second = r;
  return r <= 1.0;
}
void sample(const std::string& s)
{
  if (g_samples < 3) { printf("S %s\n", s.c_str()); g_samples++; }
}

// ------------------------------------------------------------------ PRNG (splitmix64)
struct Rng {
  uint64_t s;
  Rng(uint64_t seed, uint64_t cs, uint64_t stream)
  {
    s = seed * 0x9E3779B97F4A7C15ULL ^ (cs + 0x632BE59BD9B4E019ULL) * 0xD1342543DE82EF95ULL ^ stream * 0xA0761D6478BD642FULL;
    for (int i = 0; i < 4; i++) next();
  }
  uint64_t next()
  {
    uint64_t z = (s += 0x9E3779B97F4A7C15ULL);
    z = (z ^ (z >> 30)) * 0xBF58476D1CE4E5B9ULL;
    z = (z ^ (z >> 27)) * 0x94D049BB133111EBULL;
    return z ^ (z >> 31);
  }
  int uni(int lo, int hi) { return hi <= lo ? lo : lo + int(next() % uint64_t(hi - lo + 1)); }
  double u01() { return double(next() >> 11) * (1.0 / 9007199254740992.0); }
  double ur(double a, double b) { return a + (b - a) * u01(); }
  bool coin(double p) { return u01() < p; }
  template <class T> void shuffle(std::vector<T>& v)
  {
    for (int i = int(v.size()) - 1; i > 0; i--) std::swap(v[i], v[uni(0, i)]);
  }
  int weighted(const std::vector<double>& w)
  {
    double t = 0;
    for (double x : w) t += x;
    double u = u01() * t;
    for (size_t i = 0; i < w.size(); i++) { if (u < w[i]) return int(i); u -= w[i]; }
    return int(w.size()) - 1;
  }
};

// ------------------------------------------------------------------ dense helpers
struct Dense {
  int r, c;
  std::vector<LD> a;
  Dense(int r_ = 0, int c_ = 0) : r(r_), c(c_), a(size_t(r_) * c_, 0.0L) {}
  LD& operator()(int i, int j) { return a[size_t(i) * c + j]; }
  LD operator()(int i, int j) const { return a[size_t(i) * c + j]; }
};

// inverse by Gauss-Jordan with partial pivoting (long double); returns false when singular
bool gauss_inverse(const Dense& M, Dense& R)
{
  int n = M.r;
  Dense W(n, 2 * n);
  for (int i = 0; i < n; i++) {
    for (int j = 0; j < n; j++) W(i, j) = M(i, j);
    W(i, n + i) = 1;
  }
  for (int k = 0; k < n; k++) {
    int p = k;
    for (int i = k + 1; i < n; i++) if (fabsl(W(i, k)) > fabsl(W(p, k))) p = i;
    if (W(p, k) == 0) return false;
    if (p != k) for (int j = 0; j < 2 * n; j++) std::swap(W(p, j), W(k, j));
    LD q = W(k, k);
    for (int j = 0; j < 2 * n; j++) W(k, j) /= q;
    for (int i = 0; i < n; i++) if (i != k && W(i, k) != 0) {
      LD f = W(i, k);
      for (int j = 0; j < 2 * n; j++) W(i, j) -= f * W(k, j);
    }
  }
  R = Dense(n, n);
  for (int i = 0; i < n; i++) for (int j = 0; j < n; j++) R(i, j) = W(i, n + j);
  return true;
}
LD norm1(const Dense& M)
{
  LD best = 0;
  for (int j = 0; j < M.c; j++) {
    LD s = 0;
    for (int i = 0; i < M.r; i++) s += fabsl(M(i, j));
    best = std::max(best, s);
  }
  return best;
}

// ------------------------------------------------------------------ exact rank tools (integers)
typedef std::vector<std::vector<long long> > IMat;
uint64_t powmod(uint64_t a, uint64_t e, uint64_t p)
{
  uint64_t r = 1;
  a %= p;
  while (e) { if (e & 1) r = r * a % p; a = a * a % p; e >>= 1; }
  return r;
}
// rank of an integer matrix over GF(p), p < 2^31: a lower bound of the rank over Q
int rank_modp(const IMat& M, int rows, int cols, uint64_t p)
{
  std::vector<std::vector<uint64_t> > W(rows, std::vector<uint64_t>(cols));
  for (int i = 0; i < rows; i++) for (int j = 0; j < cols; j++) {
    long long v = M[i][j] % (long long)p;
    if (v < 0) v += p;
    W[i][j] = uint64_t(v);
  }
  int rank = 0;
  for (int c = 0; c < cols && rank < rows; c++) {
    int piv = -1;
    for (int i = rank; i < rows; i++) if (W[i][c]) { piv = i; break; }
    if (piv < 0) continue;
    std::swap(W[piv], W[rank]);
    uint64_t inv = powmod(W[rank][c], p - 2, p);
    for (int j = c; j < cols; j++) W[rank][j] = W[rank][j] * inv % p;
    for (int i = rank + 1; i < rows; i++) if (W[i][c]) {
      uint64_t f = W[i][c];
      for (int j = c; j < cols; j++) W[i][j] = (W[i][j] + (p - f) * W[rank][j]) % p;
    }
    rank++;
  }
  return rank;
}
int rank_lower(const IMat& M, int rows, int cols)
{
  if (rows == 0 || cols == 0) return 0;
  return std::max(rank_modp(M, rows, cols, 2147483629ULL), rank_modp(M, rows, cols, 2147483587ULL));
}
// structural rank (maximum bipartite matching rows-columns on the non-zero pattern): upper bound
int sprank(const IMat& M, int rows, int cols)
{
  std::vector<int> matchc(cols, -1);
  int res = 0;
  for (int r = 0; r < rows; r++) {
    std::vector<char> seen(cols, 0);
    std::function<bool(int)> aug = [&](int rr) -> bool {
      for (int c = 0; c < cols; c++) if (M[rr][c] != 0 && !seen[c]) {
        seen[c] = 1;
        if (matchc[c] < 0 || aug(matchc[c])) { matchc[c] = rr; return true; }
      }
      return false;
    };
    if (aug(r)) res++;
  }
  return res;
}
struct UF {
  std::vector<int> p;
  UF(int n) : p(n) { for (int i = 0; i < n; i++) p[i] = i; }
  int find(int x) { while (p[x] != x) { p[x] = p[p[x]]; x = p[x]; } return x; }
  void join(int a, int b) { a = find(a); b = find(b); if (a != b) p[a] = b; }
};

// ------------------------------------------------------------------ pattern generator
struct Ent { int col; long long k; };     // 1-based column, integer mantissa
struct Pattern {
  int m = 0, n = 0;
  std::vector<std::vector<Ent> > rows;    // stored entries in insertion order
  std::vector<int> rexp;                  // per-row binary exponent (row weights 2^e)
  int sexp = 0;                           // global binary exponent
  std::string kind;
  bool dup_in_row = false, explicit_zero = false;
  std::vector<std::vector<long long> > nullcand;  // candidate integer null vectors (by construction)
  int planted_dep = 0, planted_zero = 0;
  double val(int r, const Ent& e) const { return std::ldexp(double(e.k), sexp + rexp[r]); }
  int nnz() const { int s = 0; for (size_t i = 0; i < rows.size(); i++) s += int(rows[i].size()); return s; }
};

const char* KINDS[] = {"random-sparse", "dense", "banded", "k-components", "empty-rows",
                       "single-column", "incidence", "tiny", "arrow"};

// cases 0..NCORNER-1 of every seed: fixed corner shapes (values still drawn from the case's stream)
const int NCORNER = 10;
Pattern corner_pattern(Rng& g, long c)
{
  Pattern P;
  P.kind = "corner";
  P.sexp = g.uni(-3, 3);
  auto rv = [&]() -> long long { long long v = g.uni(1, 9); return g.coin(0.5) ? v : -v; };
  auto shape = [&](int m, int n) { P.m = m; P.n = n; P.rows.assign(m, std::vector<Ent>()); P.rexp.assign(m, 0); };
  auto put = [&](int r, int col, long long k) { Ent e; e.col = col; e.k = k; P.rows[r - 1].push_back(e); };
  switch (c) {
    case 0: shape(0, 0); break;                                  // nothing at all
    case 1: shape(2, 0); break;                                  // observations, no unknowns
    case 2: shape(0, 3); break;                                  // unknowns, no observations
    case 3: shape(3, 1); P.planted_zero = 1; break;              // the only unknown is in no equation
    case 4: shape(3, 2); for (int r = 1; r <= 3; r++) put(r, 1, rv()); P.planted_zero = 1; break;   // zero column last
    case 5: shape(1, 1); put(1, 1, rv()); break;
    case 6: shape(3, 3); for (int r = 1; r <= 3; r++) put(r, r, rv()); break;                        // only isolated nodes
    case 7: shape(4, 2); for (int r = 1; r <= 4; r++) { long long k = rv(); put(r, 1, k); put(r, 2, k); }   // duplicated column
      { std::vector<long long> v(2); v[0] = 1; v[1] = -1; P.nullcand.push_back(v); P.planted_dep = 1; } break;
    case 8: shape(3, 2); put(1, 2, rv()); put(2, 2, rv()); put(3, 2, rv()); P.planted_zero = 1; break;  // zero column first
    default: shape(5, 4); for (int r = 1; r <= 5; r++) for (int col = 1; col <= 4; col++) put(r, col, rv()); break;  // small dense
  }
  return P;
}

Pattern gen_pattern(Rng& g, long caseno)
{
  if (caseno >= 0 && caseno < NCORNER) return corner_pattern(g, caseno);
  Pattern P;
  static const std::vector<double> kw = {25, 8, 12, 12, 8, 4, 14, 7, 6};
  int kind = g.weighted(kw);
  P.kind = KINDS[kind];
  int n, m;
  if (kind == 5) { n = 1; m = g.uni(0, 10); }
  else if (kind == 7) { n = g.coin(0.08) ? 0 : g.uni(1, 3); m = g.uni(0, 4); }
  else {
    int sc = g.weighted({15, 35, 50});
    n = sc == 0 ? g.uni(1, 3) : sc == 1 ? g.uni(4, 12) : g.uni(13, 40);
    int mc = g.weighted({15, 25, 60});
    if (mc == 0) m = g.uni(std::max(1, n / 2), std::max(1, n - 1));
    else if (mc == 1) m = g.uni(n, n + 2);
    else m = g.uni(n + 1, std::min(60, 3 * n + 2));
  }
  int nd = g.weighted({45, 25, 15, 8, 7});
  int nz = g.weighted({85, 13, 2});
  if (kind == 7 || kind == 5) { nd = g.coin(0.2) ? 1 : 0; nz = g.coin(0.25) ? 1 : 0; }
  if (nz > n) nz = n;
  if (nd > n - nz - 1) nd = std::max(0, n - nz - 1);
  int nb = n - nd - nz;
  if (nb == 0) nd = 0, nz = n;
  P.planted_dep = nd; P.planted_zero = nz;
  static const int KM[] = {1, 3, 9, 30};
  int kmag = KM[g.uni(0, 3)];
  P.sexp = g.uni(-6, 4);
  auto rv = [&]() -> long long { long long v = g.uni(1, kmag); return g.coin(0.5) ? v : -v; };

  // dense integer model: K[m][n], stored mask st[m][n]
  std::vector<std::vector<long long> > K(m, std::vector<long long>(n, 0));
  std::vector<std::vector<char> > st(m, std::vector<char>(n, 0));
  auto put = [&](int r, int c, long long v) { K[r][c] = v; st[r][c] = 1; };
  std::vector<std::vector<long long> > extra_null;   // in unpermuted column numbering

  if (nb > 0) switch (kind) {
    case 1:
      for (int r = 0; r < m; r++) for (int c = 0; c < nb; c++) put(r, c, rv());
      break;
    case 2: {
      int w = g.uni(1, std::min(5, nb));
      for (int r = 0; r < m; r++) {
        int c0 = m > 1 ? int((long long)r * (nb - 1) / (m - 1)) : 0;
        for (int c = c0; c < std::min(nb, c0 + w + 1); c++) if (g.coin(0.9)) put(r, c, rv());
      }
    } break;
    case 3: {
      int k = g.uni(2, std::max(2, std::min(5, nb)));
      std::vector<int> grp(nb);
      for (int c = 0; c < nb; c++) grp[c] = c < k ? c % k : g.uni(0, k - 1);
      double dens = g.ur(0.3, 1.0);
      for (int r = 0; r < m; r++) {
        int gr = g.uni(0, k - 1);
        for (int c = 0; c < nb; c++) if (grp[c] == gr && g.coin(dens)) put(r, c, rv());
      }
    } break;
    case 6: {   // levelling-like incidence rows  +a -a ; some rows tie a node to a fixed point
      double pfix = g.coin(0.5) ? 0.0 : g.ur(0.02, 0.2);
      for (int r = 0; r < m; r++) {
        long long a = g.uni(1, kmag);
        int u = g.uni(0, nb - 1), v;
        if (nb == 1 || g.coin(pfix)) { put(r, u, g.coin(0.5) ? a : -a); continue; }
        if (r < nb - 1 && g.coin(0.7)) { u = r; v = r + 1; }       // piece of a spanning chain
        else { v = g.uni(0, nb - 2); if (v >= u) v++; }
        put(r, u, a); put(r, v, -a);
      }
      // candidate null vectors: indicator of every component of the base-column graph
      UF uf(nb);
      for (int r = 0; r < m; r++) {
        int f = -1;
        for (int c = 0; c < nb; c++) if (st[r][c]) { if (f < 0) f = c; else uf.join(f, c); }
      }
      std::map<int, std::vector<long long> > comp;
      for (int c = 0; c < nb; c++) {
        std::vector<long long>& v = comp[uf.find(c)];
        if (v.empty()) v.assign(n, 0);
        v[c] = 1;
      }
      for (auto& kv : comp) extra_null.push_back(kv.second);
    } break;
    case 8: {   // arrow: one dense column + (block) diagonal
      int dc = g.uni(0, nb - 1);
      for (int r = 0; r < m; r++) {
        put(r, dc, rv());
        int c = r % nb;
        put(r, c, rv());
        if (g.coin(0.2)) put(r, g.uni(0, nb - 1), rv());
      }
    } break;
    default: {  // random-sparse, empty-rows, single-column, tiny
      static const double DENS[] = {0.05, 0.1, 0.2, 0.35, 0.5, 0.75, 1.0};
      double dens = DENS[g.uni(0, 6)];
      if (kind == 5 || kind == 7) dens = g.ur(0.3, 1.0);
      for (int r = 0; r < m; r++) for (int c = 0; c < nb; c++) if (g.coin(dens)) put(r, c, rv());
      if (kind == 4) {
        double pe = g.ur(0.15, 0.5);
        for (int r = 0; r < m; r++) if (g.coin(pe)) for (int c = 0; c < nb; c++) { K[r][c] = 0; st[r][c] = 0; }
      }
    }
  }
  // dependent columns: small-integer combinations of base columns (exact)
  for (int d = 0; d < nd; d++) {
    int j = nb + d;
    int ns = g.weighted({40, 35, 25}) + 1;
    std::vector<long long> nv(n, 0);
    nv[j] = -1;
    bool exactdup = ns == 1 && g.coin(0.6);
    for (int t = 0; t < ns; t++) {
      int src = g.uni(0, nb - 1);
      long long c = exactdup ? 1 : (g.coin(0.5) ? 1 : -1) * g.uni(1, 3);
      nv[src] += c;
      for (int r = 0; r < m; r++) K[r][j] += c * K[r][src];
    }
    for (int r = 0; r < m; r++) st[r][j] = K[r][j] != 0;
    extra_null.push_back(nv);
  }
  // explicit zero entries (stored 0.0) in a few cases
  if (m > 0 && n > 0 && g.coin(0.03)) {
    P.explicit_zero = true;
    int cntz = g.uni(1, 3);
    for (int t = 0; t < cntz; t++) {
      int r = g.uni(0, m - 1), c = g.uni(0, n - 1);
      if (!st[r][c]) st[r][c] = 1;    // K stays 0
    }
  }
  // column permutation
  std::vector<int> cp(n);
  for (int c = 0; c < n; c++) cp[c] = c;
  if (g.coin(0.65)) g.shuffle(cp);               // else [base | dependent | zero]: zero column last
  std::vector<int> rp(m);
  for (int r = 0; r < m; r++) rp[r] = r;
  if (g.coin(0.5)) g.shuffle(rp);
  bool rowscale = g.coin(0.3);
  bool entshuffle = g.coin(0.6);
  P.m = m; P.n = n;
  P.rows.resize(m); P.rexp.assign(m, 0);
  for (int r = 0; r < m; r++) {
    int src = rp[r];
    if (rowscale) P.rexp[r] = g.uni(-3, 3);
    for (int c = 0; c < n; c++) if (st[src][c]) { Ent e; e.col = cp[c] + 1; e.k = K[src][c]; P.rows[r].push_back(e); }
    if (entshuffle) g.shuffle(P.rows[r]);
    else std::sort(P.rows[r].begin(), P.rows[r].end(), [](const Ent& a, const Ent& b) { return a.col < b.col; });
  }
  for (auto& v : extra_null) {
    std::vector<long long> w(n, 0);
    for (int c = 0; c < n; c++) w[cp[c]] = v[c];
    P.nullcand.push_back(w);
  }
  // duplicated column index inside a row (legal for the container and the graph only)
  if (g.coin(0.04) && P.nnz() > 0) {
    P.dup_in_row = true;
    int tries = g.uni(1, 3);
    for (int t = 0; t < tries; t++) {
      int r = g.uni(0, m - 1);
      if (P.rows[r].empty()) continue;
      Ent e = P.rows[r][g.uni(0, int(P.rows[r].size()) - 1)];
      e.k = rv();
      P.rows[r].insert(P.rows[r].begin() + g.uni(0, int(P.rows[r].size())), e);
    }
  }
  return P;
}

// dense integer image of the pattern (duplicates summed) and exact rank
struct ExactRank { bool proven; int rank; int lower, upper; };
ExactRank exact_rank(const Pattern& P)
{
  IMat K(P.m, std::vector<long long>(P.n, 0));
  for (int r = 0; r < P.m; r++) for (const Ent& e : P.rows[r]) K[r][e.col - 1] += e.k;
  ExactRank R;
  R.lower = rank_lower(K, P.m, P.n);
  // null vectors: candidates by construction, verified exactly, plus e_j of all-zero columns
  IMat nv;
  for (const auto& v : P.nullcand) {
    bool ok = true;
    for (int r = 0; r < P.m && ok; r++) {
      long long s = 0;
      for (int c = 0; c < P.n; c++) s += K[r][c] * v[c];
      if (s != 0) ok = false;
    }
    if (ok) nv.push_back(v);
  }
  for (int c = 0; c < P.n; c++) {
    bool z = true;
    for (int r = 0; r < P.m; r++) if (K[r][c] != 0) z = false;
    if (z) { std::vector<long long> v(P.n, 0); v[c] = 1; nv.push_back(v); }
  }
  int nulldim = nv.empty() ? 0 : rank_lower(nv, int(nv.size()), P.n);
  R.upper = std::min(sprank(K, P.m, P.n), P.n - nulldim);
  R.proven = R.lower == R.upper;
  R.rank = R.lower;
  return R;
}

std::string sizebucket(int n) { return n <= 0 ? "n0" : n <= 3 ? "n1-3" : n <= 12 ? "n4-12" : "n13-40"; }
std::string defbucket(int d) { return d >= 5 ? "d5+" : fmt("d%d", d); }

void dump_pattern(const Pattern& P)
{
  printf("D pattern kind=%s m=%d n=%d sexp=%d planted_dep=%d planted_zero=%d dup_in_row=%d\n", P.kind.c_str(), P.m, P.n,
         P.sexp, P.planted_dep, P.planted_zero, int(P.dup_in_row));
  for (int r = 0; r < P.m; r++) {
    printf("D row %d:", r + 1);
    for (const Ent& e : P.rows[r]) printf(" (%d %.17g)", e.col, P.val(r, e));
    printf("\n");
  }
}

SM* build_sm(const Pattern& P, int slack, bool via_reset, int upto = -1, SM* cont = nullptr, int from = 0)
{
  SM* s = cont;
  if (!s) {
    if (via_reset) { s = new SM; s->reset(P.nnz() + slack, P.m, P.n); }
    else s = new SM(P.nnz() + slack, P.m, P.n);
  }
  int last = upto < 0 ? P.m : upto;
  for (int r = from; r < last; r++) {
    s->new_row();
    for (const Ent& e : P.rows[r]) s->add_element(P.val(r, e), e.col);
  }
  return s;
}

}  // namespace

// =================================================================== (a) SparseMatrix / SparseVector
namespace {

typedef std::vector<std::vector<std::pair<int, double> > > Rows;
uint64_t bits(double d) { uint64_t u; memcpy(&u, &d, 8); return u; }

Rows expected_rows(const Pattern& P)
{
  Rows E(P.m);
  for (int r = 0; r < P.m; r++) for (const Ent& e : P.rows[r]) E[r].push_back(std::make_pair(e.col, P.val(r, e)));
  return E;
}
Rows transpose_rows(const Rows& E, int n)
{
  Rows T(n);
  for (size_t r = 0; r < E.size(); r++) for (const auto& e : E[r]) T[e.first - 1].push_back(std::make_pair(int(r) + 1, e.second));
  return T;
}
// entries of every row compared as multisets of (column, bit pattern of the value)
std::string cmp_sm(const SM* s, const Rows& E, int m, int n)
{
  if (s->rows() != m) return fmt("rows()=%d expected %d", s->rows(), m);
  if (s->columns() != n) return fmt("columns()=%d expected %d", s->columns(), n);
  long nnz = 0;
  for (int i = 0; i < m; i++) nnz += long(E[i].size());
  if (s->nonzeroes() != nnz) return fmt("nonzeroes()=%d expected %ld", s->nonzeroes(), nnz);
  if (!s->check()) return "check() is false";
  for (int i = 1; i <= m; i++) {
    long sz = long(E[i - 1].size());
    if (s->size(i) != sz || s->end(i) - s->begin(i) != sz || s->iend(i) - s->ibegin(i) != sz)
      return fmt("row %d: size()=%d, end-begin=%ld, iend-ibegin=%ld, expected %ld", i, s->size(i),
                 long(s->end(i) - s->begin(i)), long(s->iend(i) - s->ibegin(i)), sz);
    std::vector<std::pair<int, uint64_t> > a, b;
    const double* v = s->begin(i);
    const int* c = s->ibegin(i);
    for (long k = 0; k < sz; k++) a.push_back(std::make_pair(c[k], bits(v[k])));
    for (const auto& e : E[i - 1]) b.push_back(std::make_pair(e.first, bits(e.second)));
    std::sort(a.begin(), a.end());
    std::sort(b.begin(), b.end());
    for (long k = 0; k < sz; k++) if (a[k] != b[k]) {
      double x, y;
      memcpy(&x, &a[k].second, 8); memcpy(&y, &b[k].second, 8);
      return fmt("row %d: stored (col %d, %.17g), dense mirror has (col %d, %.17g)", i, a[k].first, x, b[k].first, y);
    }
  }
  return "";
}

void check_smatrix(const Pattern& P, Rng& g)
{
  g_cursub = "smatrix";
  std::string tag = P.kind + (P.dup_in_row ? "+dup-in-row" : "") + (P.explicit_zero ? "+explicit-zero" : "");
  cls("smatrix/" + tag + "/" + sizebucket(P.n));
  cls("smatrix-rows/m" + sizebucket(P.m).substr(1));
  cnt("smatrix_cases");
  const int m = P.m, n = P.n;
  Rows E = expected_rows(P), ET = transpose_rows(E, n);
  int slack = g.uni(0, 5), dn = g.uni(0, 7), dc = g.uni(0, 5);
  bool via_reset = g.coin(0.3);
  std::string msg;
  SM* s = build_sm(P, slack, via_reset);
  if ((msg = cmp_sm(s, E, m, n)) != "") V("smatrix:build:" + tag, msg);
  SM* r1 = s->replicate();
  if ((msg = cmp_sm(r1, E, m, n)) != "") V("smatrix:replicate:" + tag, msg);
  SM* r2 = s->replicate(P.nnz() + dn, m, n + dc);
  if ((msg = cmp_sm(r2, E, m, n + dc)) != "") V("smatrix:replicate(n,r,c):" + tag, msg);
  SM* t = s->transpose();
  if (g_sabotage == 1) for (int i = 1; i <= t->rows(); i++) if (t->size(i)) { *t->begin(i) += 1.0; break; }
  if ((msg = cmp_sm(t, ET, n, m)) != "") V("smatrix:transpose:" + tag, msg);
  SM* tt = t->transpose();
  if ((msg = cmp_sm(tt, E, m, n)) != "") V("smatrix:transpose-twice:" + tag, msg);
  SM* t2 = r2->transpose();
  Rows ET2 = ET;
  ET2.resize(n + dc);
  if ((msg = cmp_sm(t2, ET2, n + dc, m)) != "") V("smatrix:transpose-of-widened-replica:" + tag, msg);
  if ((msg = cmp_sm(s, E, m, n)) != "") V("smatrix:source-modified-by-replicate/transpose:" + tag, msg);
  if ((msg = cmp_sm(r1, E, m, n)) != "") V("smatrix:replica-modified:" + tag, msg);
  delete r1; delete r2; delete t; delete tt; delete t2;
  // replicate in the middle of the sequential fill-in, then continue on the replica
  {
    int h = g.uni(0, m);
    SM* p = build_sm(P, slack, false, h);
    SM* q = p->replicate(P.nnz() + slack + dn, m, n);
    delete p;
    build_sm(P, 0, false, -1, q, h);
    if ((msg = cmp_sm(q, E, m, n)) != "") V("smatrix:replicate-mid-build:" + tag, msg);
    delete q;
  }
  // reuse of the object through reset(): now holds the transposed pattern
  {
    s->reset(P.nnz() + slack, n, m);
    for (int r = 0; r < n; r++) { s->new_row(); for (const auto& e : ET[r]) s->add_element(e.second, e.first); }
    if ((msg = cmp_sm(s, ET, n, m)) != "") V("smatrix:reset-and-refill:" + tag, msg);
  }
  delete s;
  // SparseVector: buffer growth and reset
  {
    int L = g.uni(0, 60), f = g.uni(0, 30), dim = g.uni(0, 100);
    SV v(f, dim);
    for (int round = 0; round < 2; round++) {
      std::vector<std::pair<int, uint64_t> > exp, got;
      for (int k = 0; k < L; k++) { int ind = g.uni(1, 100); double x = std::ldexp(double(g.uni(-30, 30)), g.uni(-6, 6)); v.add(ind, x); exp.push_back(std::make_pair(ind, bits(x))); }
      bool ok = v.dim() == dim && v.nonzeroes() == L && v.end() - v.begin() == L && v.iend() - v.ibegin() == L;
      if (ok) {
        for (int k = 0; k < L; k++) got.push_back(std::make_pair(v.ibegin()[k], bits(v.begin()[k])));
        std::sort(exp.begin(), exp.end()); std::sort(got.begin(), got.end());
        ok = exp == got;
      }
      if (!ok) V(fmt("svector:add:%s", round ? "after-reset" : "fresh"), fmt("SparseVector(floats=%d, dim=%d) after %d add(): dim()=%d nonzeroes()=%d or entries differ", f, dim, L, v.dim(), v.nonzeroes()));
      v.reset();
      if (v.nonzeroes() != 0 || v.begin() != v.end()) V("svector:reset", "nonzeroes() != 0 after reset()");
      L = g.uni(0, 25);
    }
    cls(std::string("svector/") + (f < 10 ? "minbuf" : "buf>=10"));
  }
}

// =================================================================== (b) graph, connected()
struct GraphRef {
  int n = 0, ncomp = 0, isolated = 0;
  std::vector<std::set<int> > adj;    // 1-based
  std::string gclass;
};
GraphRef graph_ref(const Pattern& P)
{
  GraphRef R;
  R.n = P.n;
  R.adj.resize(P.n + 1);
  UF uf(P.n + 1);
  for (int r = 0; r < P.m; r++)
    for (size_t a = 0; a < P.rows[r].size(); a++) for (size_t b = a + 1; b < P.rows[r].size(); b++) {
      int i = P.rows[r][a].col, j = P.rows[r][b].col;
      if (i == j) continue;
      R.adj[i].insert(j); R.adj[j].insert(i);
      uf.join(i, j);
    }
  std::set<int> roots;
  for (int i = 1; i <= P.n; i++) { roots.insert(uf.find(i)); if (R.adj[i].empty()) R.isolated++; }
  R.ncomp = int(roots.size());
  if (P.n == 0) R.gclass = "no-nodes";
  else if (P.n == 1) R.gclass = "single-node";
  else if (R.ncomp == 1) R.gclass = "connected";
  else if (R.isolated == 0) R.gclass = "k-components";
  else if (R.ncomp - R.isolated <= 1) R.gclass = "isolated-nodes";
  else R.gclass = "k-components+isolated-nodes";
  return R;
}
std::string compbucket(int c) { return c <= 3 ? fmt("c%d", c) : c <= 8 ? "c4-8" : "c9+"; }

void check_graph(const Pattern& P, const SM* s, const GraphRef& G)
{
  g_cursub = "graph";
  cls("graph/" + P.kind + "/" + G.gclass + "/" + sizebucket(P.n));
  cls("graph-components/" + compbucket(G.ncomp));
  cnt("graph_cases");
  Graph gr(s);
  if (gr.nodes() != P.n) { V("graph:nodes", fmt("nodes()=%d expected %d", gr.nodes(), P.n)); return; }
  for (int i = 1; i <= P.n; i++) {
    const int* b = gr.begin(i);
    const int* e = gr.end(i);
    if (e - b != gr.degree(i) || e < b) { V("graph:degree:" + G.gclass, fmt("node %d: degree()=%d but end-begin=%ld", i, gr.degree(i), long(e - b))); return; }
    std::vector<int> nb(b, e);
    std::set<int> ns(nb.begin(), nb.end());
    if (ns.size() != nb.size()) { V("graph:adjacency:duplicate-neighbour:" + G.gclass, fmt("node %d lists a neighbour twice", i)); return; }
    if (ns != G.adj[i]) {
      std::string a, r;
      for (int x : ns) a += fmt(" %d", x);
      for (int x : G.adj[i]) r += fmt(" %d", x);
      V("graph:adjacency:" + G.gclass + (P.dup_in_row ? ":dup-in-row" : ""), fmt("node %d: neighbours {%s } but off-diagonal pattern of A'A gives {%s }", i, a.c_str(), r.c_str()));
      return;
    }
  }
  fflush(stdout);
  bool conn = gr.connected();
  if (g_sabotage == 2) conn = !conn;
  if (P.n >= 1) {
    bool ref = G.ncomp == 1;
    cnt(ref ? "connected_true" : "connected_false");
    if (conn != ref)
      V(std::string("connected:") + (conn ? "false-positive:" : "false-negative:") + G.gclass,
        fmt("connected()=%d but union-find finds %d component(s) (%d isolated nodes) among %d nodes", int(conn), G.ncomp, G.isolated, P.n));
  } else
    cnt("connected_on_empty_graph_returned");
}

// =================================================================== (c) ReverseCuthillMcKee
bool perm_ok(const RCM& o, int n, const std::string& what)
{
  if (o.nodes() != n) { V("rcm:nodes:" + what, fmt("nodes()=%d expected %d", o.nodes(), n)); return false; }
  std::vector<char> seen(n + 1, 0);
  for (int i = 1; i <= n; i++) {
    int p = o.perm(i);
    if (p < 1 || p > n || seen[p]) {
      V("rcm:not-a-permutation:" + what, fmt("perm(%d)=%d is %s (n=%d)", i, p, (p < 1 || p > n) ? "out of 1..n" : "repeated", n));
      return false;
    }
    seen[p] = 1;
  }
  for (int i = 1; i <= n; i++) if (o.invp(o.perm(i)) != i) {
    V("rcm:invp-inconsistent:" + what, fmt("invp(perm(%d)=%d)=%d", i, o.perm(i), o.invp(o.perm(i))));
    return false;
  }
  return true;
}

bool check_rcm(const Pattern& P, const SM* s, const GraphRef& G, std::vector<int>& perm)
{
  g_cursub = "rcm";
  cls("rcm/" + G.gclass + "/" + compbucket(G.ncomp) + "/" + sizebucket(P.n));
  cnt("rcm_cases");
  Graph gr(s);
  RCM o(&gr);
  if (g_sabotage == 3 && P.n >= 2) o.perm(2) = o.perm(1);
  bool ok = perm_ok(o, P.n, G.gclass);
  perm.assign(P.n + 1, 0);
  if (ok) for (int i = 1; i <= P.n; i++) perm[i] = o.perm(i);
  // one ordering object reused for graphs of different sizes (as AdjEnvelope does)
  SM* t = s->transpose();
  {
    Graph g2(t);
    RCM o2;
    o2.reset(&g2);
    perm_ok(o2, P.m, "row-graph");
    o2.reset(&gr);
    if (perm_ok(o2, P.n, "reused-object:" + G.gclass) && ok)
      for (int i = 1; i <= P.n; i++) if (o2.perm(i) != perm[i]) { V("rcm:history-dependent:" + G.gclass, fmt("perm(%d)=%d on a reused object, %d on a fresh one", i, o2.perm(i), perm[i])); break; }
  }
  delete t;
  return ok;
}

}  // namespace

// =================================================================== (d) Envelope
namespace {

bool env_equal(const Env& a, const Env& b)
{
  if (a.dim() != b.dim()) return false;
  for (int i = 1; i <= a.dim(); i++) {
    if (bits(a.diagonal(i)) != bits(b.diagonal(i))) return false;
    long wa = a.end(i) - a.begin(i), wb = b.end(i) - b.begin(i);
    if (wa != wb) return false;
    for (long k = 0; k < wa; k++) if (bits(a.begin(i)[k]) != bits(b.begin(i)[k])) return false;
  }
  return true;
}
bool env_finite(const Env& a)
{
  for (int i = 1; i <= a.dim(); i++) {
    if (!std::isfinite(a.diagonal(i))) return false;
    for (const double* p = a.begin(i); p != a.end(i); ++p) if (!std::isfinite(*p)) return false;
  }
  return true;
}

void check_envelope(const Pattern& P, const SM* s, const GraphRef& G, Rng& g)
{
  g_cursub = "envelope";
  const int n = P.n, m = P.m;
  cnt("envelope_cases");
  // ---- gama objects, driven as in AdjEnvelope::solve_ordering
  Graph gr(s);
  RCM o(&gr);
  std::vector<int> perm(n + 1, 0), invp(n + 1, 0);
  {
    std::vector<char> seen(n + 1, 0);
    for (int i = 1; i <= n; i++) {
      int p = o.perm(i);
      if (p < 1 || p > n || seen[p]) { cnt("envelope_skipped_invalid_ordering"); return; }   // reported by (c)
      seen[p] = 1; perm[i] = p; invp[p] = i;
    }
  }
  Env E0(s, &gr, &o);
  if (g_sabotage == 4 && n >= 1) E0.diagonal(n) *= 1.0 + 1e-6;

  // ---- dense definitions: A, N = A'A, Np = P N P'
  Dense A(m, n);
  for (int r = 0; r < m; r++) for (const Ent& e : P.rows[r]) A(r, e.col - 1) += (LD)P.val(r, e);
  Dense Np(n, n), NpA(n, n);
  for (int i = 0; i < n; i++) for (int j = 0; j <= i; j++) {
    LD sum = 0, sa = 0;
    int ci = perm[i + 1] - 1, cj = perm[j + 1] - 1;
    for (int r = 0; r < m; r++) { LD t = A(r, ci) * A(r, cj); sum += t; sa += fabsl(t); }
    Np(i, j) = Np(j, i) = sum; NpA(i, j) = NpA(j, i) = sa;
  }
  LD maxdiag = 0;
  for (int i = 0; i < n; i++) maxdiag = std::max(maxdiag, Np(i, i));
  ExactRank ex = exact_rank(P);
  const bool zero_first = n >= 1 && Np(0, 0) == 0;
  if (g_dump) {
    printf("D perm:"); for (int i = 1; i <= n; i++) printf(" %d", perm[i]); printf("\n");
    printf("D exact rank: lower(mod p)=%d upper(structural/null vectors)=%d proven=%d\n", ex.lower, ex.upper, int(ex.proven));
    for (int i = 0; i < n; i++) { printf("D Np row %d:", i + 1); for (int j = 0; j < n; j++) printf(" %.17Lg", Np(i, j)); printf("\n"); }
  }

  // ---- Envelope::set : stored elements = dense values, dense non-zeros inside the envelope
  if (E0.dim() != n) { V("envelope:set:dim", fmt("dim()=%d expected %d", E0.dim(), n)); return; }
  std::vector<long> w(n + 1, 0);
  long notight = 0;
  for (int i = 1; i <= n; i++) {
    w[i] = E0.end(i) - E0.begin(i);
    if (w[i] < 0 || w[i] > i - 1) { V("envelope:set:bad-row-width", fmt("row %d of %d has %ld off-diagonal elements", i, n, w[i])); return; }
    if (w[i] > 0 && !G.adj[perm[i]].count(perm[i - w[i]])) notight++;
  }
  cnt("envelope_rows_leading_structural_zero", notight);
  {
    bool bad = false;
    for (int i = 1; i <= n && !bad; i++) {
      const Env& CE = E0;
      if (!ratio("set_diag", fabsl((LD)E0.diagonal(i) - Np(i - 1, i - 1)), 4 * (m + 2) * EPS * NpA(i - 1, i - 1)) || CE.element(i, i) == nullptr || *CE.element(i, i) != E0.diagonal(i)) {
        V("envelope:set:diagonal-differs-from-dense", fmt("permuted row %d (column %d of A): diagonal %.17g, dense A'A gives %.17Lg", i, perm[i], E0.diagonal(i), Np(i - 1, i - 1)));
        bad = true; break;
      }
      for (int j = 1; j < i; j++) {
        bool inside = i - j <= w[i];
        const double* e1 = CE.element(i, j);
        const double* e2 = CE.element(j, i);
        double* e3 = E0.element(i, j);
        if ((e1 != nullptr) != inside || e1 != e2 || e1 != e3) { V("envelope:element-accessor", fmt("element(%d,%d)/(%d,%d) null-ness or address inconsistent with the row width %ld", i, j, j, i, w[i])); bad = true; break; }
        if (inside) {
          double v = E0.begin(i)[j - (i - w[i])];
          if (e1 != E0.begin(i) + (j - (i - w[i]))) { V("envelope:element-accessor", fmt("element(%d,%d) points to a different element than begin(%d)+%ld", i, j, i, long(j - (i - w[i])))); bad = true; break; }
          if (!ratio("set_offdiag", fabsl((LD)v - Np(i - 1, j - 1)), 4 * (m + 2) * EPS * NpA(i - 1, j - 1))) {
            V("envelope:set:element-differs-from-dense", fmt("permuted (%d,%d) = columns (%d,%d) of A: stored %.17g, dense A'A gives %.17Lg", i, j, perm[i], perm[j], v, Np(i - 1, j - 1)));
            bad = true; break;
          }
        } else if (Np(i - 1, j - 1) != 0) {
          V("envelope:set:nonzero-outside-envelope", fmt("dense permuted A'A(%d,%d)=%.17Lg lies outside the envelope (row width %ld)", i, j, Np(i - 1, j - 1), w[i]));
          bad = true; break;
        }
      }
    }
    if (bad) return;
  }
  // copies, raw-array constructor, toSymMat
  {
    Env E1(E0), E2;
    E2 = E0;
    if (!env_equal(E1, E0)) V("envelope:copy-constructor", "copy differs from the original");
    if (!env_equal(E2, E0)) V("envelope:assignment", "assigned object differs from the original");
    std::vector<double> dg, ev;
    std::vector<int> bw;
    for (int i = 1; i <= n; i++) { dg.push_back(E0.diagonal(i)); bw.push_back(int(w[i])); ev.insert(ev.end(), E0.begin(i), E0.end(i)); }
    Env E3(dg.data(), dg.data() + dg.size(), ev.data(), ev.data() + ev.size(), bw.data(), bw.data() + bw.size());
    if (!env_equal(E3, E0)) V("envelope:set(arrays)", "envelope built from diag/env/band arrays differs from the source");
    E2 = E3;   // assignment over a non-empty object
    if (!env_equal(E2, E0)) V("envelope:assignment", "re-assigned object differs from the original");
    if (n >= 1) {
      GNU_gama::SymMat<double> S = GNU_gama::toSymMat(E0);
      bool okS = S.dim() == n;
      for (int i = 1; i <= n && okS; i++) for (int j = 1; j <= i; j++) {
        double expv = i == j ? E0.diagonal(i) : (i - j <= w[i] ? E0.begin(i)[j - (i - w[i])] : 0.0);
        if (bits(S(i, j) + 0.0) != bits(expv + 0.0)) { okS = false; break; }
      }
      if (!okS) V("envelope:toSymMat", "toSymMat(envelope) differs from the envelope contents");
    }
  }

  // ---- dense LDL' (long double) with the pivot rule |d| < sqrt(eps) => d = 0, unknown dependent
  const LD tol = (LD)std::sqrt(EPS);
  std::vector<LD> d(n, 0), dres(n, 0), y(n, 0), bound(n, 0);
  std::vector<char> dep(n, 0);
  Dense L(n, n);
  for (int i = 0; i < n; i++) {
    for (int j = 0; j < i; j++) {
      LD sum = Np(i, j);
      for (int p = 0; p < j; p++) sum -= L(j, p) * y[p];
      y[j] = sum;
    }
    for (int j = 0; j < i; j++) L(i, j) = dep[j] ? 0 : y[j] / d[j];
    L(i, i) = 1;
    LD sum = Np(i, i);
    for (int j = 0; j < i; j++) sum -= L(i, j) * L(i, j) * d[j];
    dres[i] = sum;
    if (fabsl(sum) < tol) { dep[i] = 1; d[i] = 0; } else d[i] = sum;
  }
  int ndep = 0;
  std::vector<int> I;   // independent positions
  for (int i = 0; i < n; i++) { if (dep[i]) ndep++; else I.push_back(i); }
  // admission: numerically unambiguous
  std::string reject;
  if (!ex.proven) reject = "rank-not-proven";
  LD mind = 0;
  bool first = true;
  for (int i = 0; i < n && reject.empty(); i++) {
    if (dep[i]) {
      if (fabsl(dres[i]) > tol / 1000) reject = "dependent-pivot-not-clearly-zero";
      // a-priori bound of the double rounding error of this pivot: (n+1) eps max(diag) (1+|w|_1)^2,
      // w = coefficients expressing column i by the preceding independent columns
      std::vector<LD> wv(n, 0);
      LD w1 = 0;
      for (int j = i - 1; j >= 0; j--) if (!dep[j]) {
        LD t = L(i, j);
        for (int p = j + 1; p < i; p++) if (!dep[p]) t -= L(p, j) * wv[p];
        wv[j] = t; w1 += fabsl(t);
      }
      bound[i] = (n + 1) * EPS * maxdiag * (1 + w1) * (1 + w1);
      if (reject.empty() && bound[i] > tol / 10) reject = "dependent-pivot-rounding-bound";
    } else {
      if (d[i] < 100 * tol) reject = "independent-pivot-too-small";
      if (first || d[i] < mind) mind = d[i];
      first = false;
    }
  }
  Dense Gm(n, n);   // generalised inverse of the LDL' convention: inverse of N_II, zeros elsewhere
  LD kappa = 1, maxG = 0;
  if (reject.empty()) {
    int k = int(I.size());
    Dense NII(k, k), Inv;
    for (int a = 0; a < k; a++) for (int b = 0; b < k; b++) NII(a, b) = Np(I[a], I[b]);
    if (k > 0) {
      if (!gauss_inverse(NII, Inv)) reject = "singular-in-long-double";
      else {
        kappa = norm1(NII) * norm1(Inv);
        for (int a = 0; a < k; a++) for (int b = 0; b < k; b++) { Gm(I[a], I[b]) = Inv(a, b); maxG = std::max(maxG, fabsl(Inv(a, b))); }
        if (kappa > 1e8L) reject = "condition-number>1e8";
      }
    }
  }
  // exact rank and numerical rank differ: a true pivot is non-zero but far below the pivot tolerance
  // (nearly dependent columns); the pivot rule then legitimately drops it -> not "numerically unambiguous"
  if (reject.empty() && ndep != n - ex.rank) reject = ndep > n - ex.rank ? "nearly-dependent-columns(true-pivot<<tol)" : "oracle-inconsistent";
  if (reject == "oracle-inconsistent")
    X(fmt("oracle inconsistency: exact rank %d of %d columns but long-double LDL' finds only %d dependent pivots", ex.rank, n, ndep));
  if (g_dump) for (int i = 0; i < n; i++) if (dep[i]) printf("D dense pivot %d below tolerance: %.6Lg\n", i + 1, dres[i]);
  const bool admitted = reject.empty();
  const int defect = ex.proven ? n - ex.rank : -1;
  std::string dtag = defect == 0 ? "regular" : "singular";
  cls("envelope/" + P.kind + "/" + (defect < 0 ? std::string("d?") : defbucket(defect)) + "/" + sizebucket(n) + (admitted ? "/admitted" : "/ambiguous") + (zero_first && admitted ? "/zero-first-pivot" : ""));
  if (admitted) cnt("envelope_admitted"); else cnt("envelope_rejected:" + reject);
  if (admitted && defect > 0) cnt("envelope_admitted_singular");
  if (admitted && zero_first) cnt("envelope_admitted_zero_first_pivot");

  // ---- gama: cholDec, solves, inverse
  Env C(E0);
  C.cholDec();
  std::vector<double> rhs(n), xs;
  for (int i = 0; i < n; i++) rhs[i] = double(g.uni(-50, 50));
  xs = rhs;
  if (n > 0) C.solve(xs.data(), n);
  Env Z;
  Z.inverse(C);
  Env Z2(C);
  Z2.inverse(Z2);
  if (!env_equal(Z, Z2)) V("envelope:inverse:self-aliasing", "q.inverse(q) differs from z.inverse(q)");
  if (!admitted) {
    bool fin = env_finite(C) && env_finite(Z);
    for (double v : xs) if (!std::isfinite(v)) fin = false;
    if (!fin) cnt("envelope_ambiguous_nonfinite_result");
    if (g_dump) printf("D not admitted: %s ; gama defect()=%d\n", reject.c_str(), C.defect());
    return;
  }
  if (g_sabotage == 6 && n >= 1) xs[0] += 1e-3 * (std::fabs(xs[0]) + 1);
  if (g_sabotage == 7 && n >= 1) Z.diagonal(1) = Z.diagonal(1) * (1 + 1e-5) + 1e-9;
  if (g_sabotage == 8 && n >= 2) for (int i = 2; i <= n; i++) if (w[i] > 0) { C.begin(i)[0] += 1e-4; break; }
  const LD rel = 1e-12L + 100 * EPS * kappa;
  // oracle self-check: L D L' reproduces Np
  {
    LD worst = 0;
    for (int i = 0; i < n; i++) for (int j = 0; j <= i; j++) {
      LD sum = 0;
      for (int p = 0; p <= j; p++) sum += L(i, p) * d[p] * L(j, p);
      worst = std::max(worst, fabsl(sum - Np(i, j)));
    }
    if (worst > 1e-13L * maxdiag + tol / 1000) X(fmt("oracle self-check: dense LDL' does not reproduce the permuted normal matrix (%.3Lg)", worst));
  }
  if (g_dump) {
    printf("D admitted kappa1=%.3Lg expected defect %d, gama defect()=%d\n", kappa, defect, C.defect());
    for (int i = 0; i < n; i++) printf("D pivot %d: dense %.17Lg %s gama %.17g\n", i + 1, dres[i], dep[i] ? "(dependent)" : "", C.diagonal(i + 1));
  }
  // defect()
  int gdef = C.defect() + (g_sabotage == 5 ? 1 : 0);
  if (gdef != defect) {
    std::string key = (zero_first && gdef == defect - 1) ? "envelope:cholDec:defect-count:zero-first-column"
                                                         : "envelope:cholDec:defect-count:" + P.kind;
    V(key, fmt("defect()=%d but the normal matrix of this %dx%d design matrix has rank %d (defect %d)%s", gdef, m, n, ex.rank, defect,
               (zero_first && gdef == defect - 1) ? "; the first permuted column of A is all-zero and its zero pivot (row 1) is not counted" : ""));
  }
  // factors
  LD maxL = 1;
  for (int i = 0; i < n; i++) for (int j = 0; j < i; j++) maxL = std::max(maxL, fabsl(L(i, j)));
  for (int i = 0; i < n; i++) {
    double dgv = C.diagonal(i + 1);
    if (dep[i]) {
      if (dgv != 0.0) { V("envelope:cholDec:dependent-pivot-not-exactly-zero", fmt("pivot %d is dependent (dense pivot %.3Lg) but the stored diagonal is %.17g", i + 1, dres[i], dgv)); break; }
    } else if (!ratio("chol_D", fabsl((LD)dgv - d[i]), rel * maxdiag)) {
      V("envelope:cholDec:diagonal:" + dtag, fmt("D(%d)=%.17g, dense LDL' gives %.17Lg (kappa %.3Lg)", i + 1, dgv, d[i], kappa)); break;
    }
  }
  {
    bool bad = false;
    for (int i = 1; i <= n && !bad; i++) for (int j = 1; j < i && !bad; j++) {
      if (i - j <= w[i]) {
        double lg = C.begin(i)[j - (i - w[i])];
        if (!ratio("chol_L", fabsl((LD)lg - L(i - 1, j - 1)), rel * maxL)) {
          V("envelope:cholDec:factor-L:" + dtag, fmt("L(%d,%d)=%.17g, dense LDL' gives %.17Lg (kappa %.3Lg)", i, j, lg, L(i - 1, j - 1), kappa)); bad = true;
        }
      } else if (fabsl(L(i - 1, j - 1)) > 1e-10L * maxL) { X("oracle self-check: dense L has fill outside the envelope"); bad = true; }
    }
    // L D L' of gama's own factors reproduces the permuted normal matrix
    LD worst = 0;
    for (int i = 1; i <= n && !bad; i++) for (int j = 1; j <= i; j++) {
      LD sum = 0;
      for (int p = 1; p <= j; p++) {
        LD lip = p == i ? 1 : (i - p <= w[i] ? (LD)C.begin(i)[p - (i - w[i])] : 0);
        LD ljp = p == j ? 1 : (j - p <= w[j] ? (LD)C.begin(j)[p - (j - w[j])] : 0);
        sum += lip * (LD)C.diagonal(p) * ljp;
      }
      // equations of independent unknowns hold to backward-error level; those of a dependent unknown carry the
      // discarded (zeroed) pivot / column, whose size is a forward error: kappa-based tolerance there
      LD t = (dep[i - 1] || dep[j - 1]) ? rel * maxdiag + ((i == j) ? bound[i - 1] : 0)
                                        : 8 * (n + 2) * EPS * sqrtl(Np(i - 1, i - 1) * Np(j - 1, j - 1));
      LD e = fabsl(sum - Np(i - 1, j - 1));
      if (!ratio("chol_reconstruct", e, t) && e > worst) {
        worst = e;
        V("envelope:cholDec:LDL'-does-not-reproduce-N:" + dtag, fmt("(L D L')(%d,%d)=%.17Lg, permuted normal matrix %.17Lg", i, j, sum, Np(i - 1, j - 1)));
        bad = true; break;
      }
    }
  }
  // solve
  LD normb = 0;
  for (double v : rhs) normb = std::max(normb, (LD)std::fabs(v));
  {
    std::vector<LD> xr(n, 0);
    LD mx = 0, err = 0;
    for (int i = 0; i < n; i++) { for (int j = 0; j < n; j++) xr[i] += Gm(i, j) * rhs[j]; mx = std::max(mx, fabsl(xr[i])); }
    for (int i = 0; i < n; i++) err = std::max(err, fabsl((LD)xs[i] - xr[i]));
    if (!ratio("solve", err, rel * std::max(mx, EPS * maxG * normb) + LDBL_MIN))
      V("envelope:solve:" + dtag, fmt("max |x - x_dense| = %.3Lg, |x|max = %.3Lg, kappa %.3Lg, defect %d", err, mx, kappa, defect));
  }
  // lowerSolve / diagonalSolve on a sub-range (as cholDec uses them), upperSolve(1, stop)
  if (n >= 1) {
    int start = 1, stop = n;
    if (g.coin(0.5)) { start = g.uni(1, n); stop = g.uni(start, n); }
    int len = stop - start + 1;
    std::vector<double> b1(len), b2(len), b3(stop);
    for (double& v : b1) v = double(g.uni(-50, 50));
    for (double& v : b2) v = double(g.uni(-50, 50));
    for (double& v : b3) v = double(g.uni(-50, 50));
    std::string rtag = (start == 1 && stop == n) ? "full-range" : "sub-range";
    cls("envelope-solves/" + rtag + "/" + dtag);
    {
      std::vector<double> yv = b1;
      C.lowerSolve(start, stop, yv.data());
      std::vector<LD> yr(len);
      LD mx = 0, err = 0;
      for (int i = 0; i < len; i++) {
        LD sum = b1[i];
        for (int j = 0; j < i; j++) sum -= L(start - 1 + i, start - 1 + j) * yr[j];
        yr[i] = sum; mx = std::max(mx, fabsl(sum));
      }
      for (int i = 0; i < len; i++) err = std::max(err, fabsl((LD)yv[i] - yr[i]));
      if (!ratio("lowerSolve", err, rel * std::max(mx, (LD)1)))
        V("envelope:lowerSolve:" + rtag + ":" + dtag, fmt("lowerSolve(%d,%d): max error %.3Lg, |y|max %.3Lg, kappa %.3Lg", start, stop, err, mx, kappa));
    }
    {
      std::vector<double> zv = b2;
      C.diagonalSolve(start, stop, zv.data());
      for (int i = 0; i < len; i++) {
        int k = start - 1 + i;
        if (dep[k]) {
          if (zv[i] != 0.0) { V("envelope:diagonalSolve:dependent-not-zero", fmt("diagonalSolve(%d,%d): element of dependent unknown %d is %.17g", start, stop, k + 1, zv[i])); break; }
        } else {
          LD zr = (LD)b2[i] / d[k];
          if (!ratio("diagonalSolve", fabsl((LD)zv[i] - zr), fabsl(zr) * (1.5L * rel * maxdiag / d[k] + 4 * EPS) + LDBL_MIN)) {
            V("envelope:diagonalSolve:" + dtag, fmt("diagonalSolve(%d,%d): element %d = %.17g, dense %.17Lg", start, stop, k + 1, zv[i], zr)); break;
          }
        }
      }
    }
    {
      std::vector<double> xv = b3;
      C.upperSolve(1, stop, xv.data());
      std::vector<LD> xr(stop);
      LD mx = 0, err = 0;
      for (int i = stop - 1; i >= 0; i--) {
        LD sum = b3[i];
        for (int k = i + 1; k < stop; k++) sum -= L(k, i) * xr[k];
        xr[i] = sum; mx = std::max(mx, fabsl(sum));
      }
      for (int i = 0; i < stop; i++) err = std::max(err, fabsl((LD)xv[i] - xr[i]));
      if (!ratio("upperSolve", err, rel * std::max(mx, (LD)1)))
        V("envelope:upperSolve:" + dtag, fmt("upperSolve(1,%d): max error %.3Lg, |x|max %.3Lg, kappa %.3Lg", stop, err, mx, kappa));
    }
  }
  // sparse inverse on the envelope = dense generalised inverse (inverse of N_II, zeros on dependent rows/columns)
  {
    bool bad = Z.dim() != n;
    if (bad) V("envelope:inverse:dim", fmt("dim()=%d expected %d", Z.dim(), n));
    for (int i = 1; i <= n && !bad; i++) {
      if (Z.end(i) - Z.begin(i) != w[i]) { V("envelope:inverse:structure", fmt("row %d has %ld elements, the factor has %ld", i, long(Z.end(i) - Z.begin(i)), w[i])); bad = true; break; }
      for (int j = i - int(w[i]); j <= i; j++) {
        double zg = j == i ? Z.diagonal(i) : Z.begin(i)[j - (i - w[i])];
        if (!ratio("inverse", fabsl((LD)zg - Gm(i - 1, j - 1)), rel * std::max(maxG, LDBL_MIN))) {
          bool onDep = dep[i - 1] || dep[j - 1];
          V(std::string("envelope:inverse:") + (onDep ? "dependent-row-or-column-not-zero" : "element") + ":" + dtag,
            fmt("Z(%d,%d)=%.17g, dense generalised inverse %.17Lg (max %.3Lg, kappa %.3Lg, defect %d)", i, j, zg, Gm(i - 1, j - 1), maxG, kappa, defect));
          bad = true; break;
        }
      }
    }
  }
  if (defect > 0 || g.coin(0.05))
    sample(fmt("envelope kind=%s m=%d n=%d defect=%d kappa1=%.3Lg minpivot=%.3Lg maxdiag=%.3Lg zero_first=%d", P.kind.c_str(), m, n, defect, kappa, mind, maxdiag, int(zero_first)));
}

}  // namespace

// =================================================================== (e) BlockDiagonal
namespace {

struct Block {
  int dim = 0, w = 0;
  std::vector<double> mem;   // upper band stored by rows, diagonal first (CovMat layout)
  Dense full;                // dense symmetric image
  // dense Cholesky C = L L' (long double)
  Dense Lr;
  bool pd = false;
  int failrow = -1;
  LD failpivot = 0, minpivot = 0, kappa = 1, maxL = 0;
};
long band_floats(int dim, int w) { return long(dim) * (w + 1) - long(w) * (w + 1) / 2; }

void block_from_full(Block& B)
{
  B.mem.clear();
  for (int i = 0; i < B.dim; i++) for (int j = i; j <= std::min(B.dim - 1, i + B.w); j++) B.mem.push_back(double(B.full(i, j)));
}
void block_reference(Block& B)
{
  int n = B.dim;
  B.Lr = Dense(n, n);
  B.pd = true; B.failrow = -1; B.maxL = 0;
  bool first = true;
  for (int j = 0; j < n; j++) {
    LD sum = B.full(j, j);
    for (int k = 0; k < j; k++) sum -= B.Lr(j, k) * B.Lr(j, k);
    if (!(sum > 0) || sum < 1e-14L) { B.pd = false; B.failrow = j; B.failpivot = sum; return; }
    if (first || sum < B.minpivot) B.minpivot = sum;
    first = false;
    B.Lr(j, j) = sqrtl(sum);
    for (int i = j + 1; i < n; i++) {
      LD t = B.full(i, j);
      for (int k = 0; k < j; k++) t -= B.Lr(i, k) * B.Lr(j, k);
      B.Lr(i, j) = t / B.Lr(j, j);
    }
  }
  for (int i = 0; i < n; i++) for (int j = 0; j <= i; j++) B.maxL = std::max(B.maxL, fabsl(B.Lr(i, j)));
  Dense Inv;
  if (gauss_inverse(B.full, Inv)) B.kappa = norm1(B.full) * norm1(Inv); else B.kappa = INFINITY;
}
Block gen_block(Rng& g, int dim, int w, int sexp)
{
  Block B;
  B.dim = dim; B.w = w; B.full = Dense(dim, dim);
  if (g.coin(0.5)) {        // diagonally dominant band matrix
    for (int i = 0; i < dim; i++) for (int j = i + 1; j <= std::min(dim - 1, i + w); j++) { double v = g.ur(-1, 1); if (v == 0) v = 0.5; B.full(i, j) = B.full(j, i) = v; }
    for (int i = 0; i < dim; i++) { LD sum = 0; for (int j = 0; j < dim; j++) if (j != i) sum += fabsl(B.full(i, j)); B.full(i, i) = double(sum + g.ur(0.1, 2)); }
  } else {                  // R'R with a banded upper triangular R
    Dense R(dim, dim);
    for (int i = 0; i < dim; i++) {
      R(i, i) = g.ur(0.7, 2);
      for (int j = i + 1; j <= std::min(dim - 1, i + w); j++) R(i, j) = g.ur(-0.6, 0.6) / std::sqrt(double(w));
    }
    for (int i = 0; i < dim; i++) for (int j = i; j < dim; j++) {
      LD sum = 0;
      for (int k = 0; k < dim; k++) sum += R(k, i) * R(k, j);
      if (j - i > w) sum = 0;
      B.full(i, j) = B.full(j, i) = double(sum);
    }
  }
  for (int i = 0; i < dim; i++) for (int j = 0; j < dim; j++) B.full(i, j) = std::ldexp(double(B.full(i, j)), sexp);
  block_from_full(B);
  block_reference(B);
  return B;
}
std::string wclass(int dim, int w) { return w == 0 ? "diagonal" : w == dim - 1 ? "full" : w == 1 ? "band1" : "band2+"; }
std::string dimbucket(int d) { return d <= 1 ? "dim1" : d <= 3 ? "dim2-3" : d <= 7 ? "dim4-7" : "dim8-12"; }

std::string cmp_bd(const BD& bd, const std::vector<Block>& bl)
{
  long tf = 0, td = 0;
  for (const Block& b : bl) { tf += long(b.mem.size()); td += b.dim; }
  if (bd.blocks() != int(bl.size())) return fmt("blocks()=%d expected %d", bd.blocks(), int(bl.size()));
  if (bd.dim() != td) return fmt("dim()=%d expected %ld", bd.dim(), td);
  if (bd.nonzeroes() != tf) return fmt("nonzeroes()=%d expected %ld", bd.nonzeroes(), tf);
  for (int i = 1; i <= bd.blocks(); i++) {
    const Block& b = bl[i - 1];
    if (bd.dim(i) != b.dim || bd.width(i) != b.w) return fmt("block %d: dim %d width %d, expected %d %d", i, bd.dim(i), bd.width(i), b.dim, b.w);
    if (bd.end(i) - bd.begin(i) != long(b.mem.size())) return fmt("block %d: end-begin=%ld expected %ld", i, long(bd.end(i) - bd.begin(i)), long(b.mem.size()));
    for (size_t k = 0; k < b.mem.size(); k++) if (bits(bd.begin(i)[k]) != bits(b.mem[k])) return fmt("block %d element %d: %.17g expected %.17g", i, int(k), bd.begin(i)[k], b.mem[k]);
  }
  return "";
}

void check_bdiag(Rng& g)
{
  g_cursub = "bdiag";
  cnt("bdiag_cases");
  int nb = g.coin(0.03) ? 0 : g.uni(1, 6);
  int sexp = g.uni(-6, 6);
  std::vector<Block> bl;
  long floats = 0;
  for (int k = 0; k < nb; k++) {
    int dim = g.uni(1, 12);
    int w = g.uni(0, dim - 1);
    bl.push_back(gen_block(g, dim, w, sexp));
    floats += long(bl.back().mem.size());
  }
  // plant a clearly indefinite block in some cases
  int planted = 0;
  if (nb > 0 && g.coin(0.2)) {
    planted = g.uni(1, nb);
    Block& B = bl[planted - 1];
    int t = g.uni(0, B.dim - 1);
    B.full(t, t) = -fabsl(B.full(t, t));
    block_from_full(B);
    block_reference(B);
  }
  int firstbad = 0;
  bool admit = true;
  for (int k = 0; k < nb; k++) {
    const Block& B = bl[k];
    if (!B.pd) {
      if (firstbad == 0) firstbad = k + 1;
      if (B.failpivot > -std::ldexp(1e-6, sexp)) admit = false;
    } else if (B.minpivot < 1e-9L || B.kappa > 1e8L) admit = false;
    cls("bdiag/" + wclass(B.dim, B.w) + "/" + dimbucket(B.dim) + (B.pd ? "/pd" : "/indefinite"));
    cls(fmt("bdiag-width/w%d", B.w));
  }
  cnt(admit ? "bdiag_admitted" : "bdiag_rejected_ambiguous");
  if (firstbad) cnt("bdiag_with_indefinite_block");
  std::string msg;
  int xb = g.uni(0, 2), xf = g.uni(0, 9);
  BD bd(nb + xb, floats + xf);
  for (const Block& B : bl) bd.add_block(B.dim, B.w, B.mem.data());
  if ((msg = cmp_bd(bd, bl)) != "") { V("bdiag:build/accessors", msg); return; }
  BD* r = bd.replicate();
  if ((msg = cmp_bd(*r, bl)) != "") V("bdiag:replicate", msg);
  {   // widened replica, then one more block
    Block extra = gen_block(g, g.uni(1, 5), 0, sexp);
    extra.w = g.uni(0, extra.dim - 1);
    extra = gen_block(g, extra.dim, extra.w, sexp);
    BD* r2 = bd.replicate(nb + 1 + xb, floats + long(extra.mem.size()) + xf);
    r2->add_block(extra.dim, extra.w, extra.mem.data());
    std::vector<Block> bl2 = bl;
    bl2.push_back(extra);
    if ((msg = cmp_bd(*r2, bl2)) != "") V("bdiag:replicate(blocks,floats)+add_block", msg);
    r2->reset(1, long(extra.mem.size()));
    r2->add_block(extra.dim, extra.w, extra.mem.data());
    std::vector<Block> bl3(1, extra);
    if ((msg = cmp_bd(*r2, bl3)) != "") V("bdiag:reset+add_block", msg);
    delete r2;
  }
  int rc = r->cholDec();
  if ((msg = cmp_bd(bd, bl)) != "") V("bdiag:source-modified-by-replica-cholDec", msg);
  if (admit) {
    if (g_sabotage == 9 && nb > 0 && firstbad != 1) r->begin(1)[0] *= 1 + 1e-6;
    if (rc != firstbad)
      V(firstbad ? (rc == 0 ? "bdiag:cholDec:indefinite-block-accepted" : "bdiag:cholDec:wrong-failing-block") : "bdiag:cholDec:positive-definite-block-refused",
        fmt("cholDec() returned %d, dense Cholesky says first non-positive-definite block is %d (0 = none; failing pivot %.3Lg)", rc, firstbad, firstbad ? bl[firstbad - 1].failpivot : 0.0L));
    int upto = firstbad ? firstbad - 1 : nb;
    bool bad = false;
    for (int k = 0; k < upto && !bad; k++) {
      const Block& B = bl[k];
      LD rel = 1e-13L + 100 * EPS * B.kappa;
      const double* p = r->begin(k + 1);
      for (int i = 0; i < B.dim && !bad; i++) for (int j = i; j <= std::min(B.dim - 1, i + B.w); j++, p++)
        if (!ratio("bdiag_cholDec", fabsl((LD)*p - B.Lr(j, i)), rel * B.maxL)) {
          V("bdiag:cholDec:factor:" + wclass(B.dim, B.w), fmt("block %d (dim %d, width %d): U(%d,%d)=%.17g, dense Cholesky %.17Lg, kappa %.3Lg", k + 1, B.dim, B.w, i + 1, j + 1, *p, B.Lr(j, i), B.kappa));
          bad = true; break;
        }
    }
    if (!firstbad && !bad) {   // row accessors of the upper triangular view
      UBD up(r);
      bool okU = up.dim() == bd.dim() && up.nonzeroes() == bd.nonzeroes();
      int row = 0;
      for (int k = 0; k < nb && okU; k++) {
        const double* p = r->begin(k + 1);
        for (int i = 0; i < bl[k].dim && okU; i++) {
          row++;
          int len = std::min(bl[k].dim - 1, i + bl[k].w) - i + 1;
          if (up.begin(row) != p || up.end(row) != p + len) okU = false;
          p += len;
        }
      }
      if (!okU) V("bdiag:UpperBlockDiagonal:rows", "row begin/end of the upper triangular view do not delimit the band rows");
    }
  }
  delete r;
  // Envelope::set(const BlockDiagonal&): stored elements = dense block diagonal matrix (observed, counted only)
  if (nb > 0) {
    Env E(bd);
    int N = bd.dim();
    Dense F(N, N);
    std::vector<int> roww(N + 1, 0), rowband(N + 1, 0);
    int off = 0;
    for (const Block& B : bl) {
      for (int i = 0; i < B.dim; i++) { for (int j = 0; j < B.dim; j++) F(off + i, off + j) = (std::abs(i - j) <= B.w) ? B.full(i, j) : 0.0L; roww[off + i + 1] = std::min(i, B.w); rowband[off + i + 1] = B.w; }
      off += B.dim;
    }
    bool okE = E.dim() == N;
    int badband = -1;
    for (int i = 1; i <= N && okE; i++) {
      if (E.end(i) - E.begin(i) != roww[i]) { okE = false; badband = rowband[i]; break; }
      for (int j = i - roww[i]; j <= i; j++) {
        double v = j == i ? E.diagonal(i) : E.begin(i)[j - (i - roww[i])];
        if (bits(v + 0.0) != bits(double(F(i - 1, j - 1)) + 0.0)) { okE = false; badband = rowband[i]; break; }
      }
    }
    int maxw = 0;
    for (const Block& B : bl) maxw = std::max(maxw, B.w);
    cls(std::string("envelope-from-bdiag/") + (maxw >= 2 ? "band>=2" : "band<2"));
    // Envelope(const BlockDiagonal&) is not called anywhere in gama and is outside C16's statement (which speaks of the
    // envelope of the permuted normal matrix): the comparison is data only, never a violation
    cnt("envelope_from_blockdiagonal_compared");
    if (!okE) { cnt("envelope_from_blockdiagonal_mismatch"); cnt(std::string("envelope_from_blockdiagonal_mismatch:") + (maxw >= 2 ? "band>=2" : "band<2")); (void)badband; }
  }
}

// =================================================================== (f) Homogenization
void check_homog(const Pattern& P, Rng& g)
{
  g_cursub = "homog";
  cnt("homog_cases");
  const int m = P.m, n = P.n;
  int sexp = g.uni(-6, 6);
  std::vector<Block> bl;
  long floats = 0;
  std::set<std::string> lay;
  for (int rem = m; rem > 0;) {
    int dim = g.uni(1, std::min(8, rem));
    int w = g.coin(0.4) ? 0 : g.uni(0, dim - 1);
    bl.push_back(gen_block(g, dim, w, sexp));
    floats += long(bl.back().mem.size());
    lay.insert(wclass(dim, w));
    rem -= dim;
  }
  std::string layout;
  for (const std::string& x : lay) layout += (layout.empty() ? "" : "+") + x;
  if (layout.empty()) layout = "no-observations";
  bool admit = true;
  LD kmax = 1;
  for (const Block& B : bl) { if (!B.pd || B.minpivot < 1e-9L || B.kappa > 1e8L) admit = false; kmax = std::max(kmax, B.kappa); }
  cls("homog/" + layout + "/m" + sizebucket(m).substr(1));
  cls("homog-kind/" + P.kind);
  if (!admit) { cnt("homog_rejected_ambiguous"); return; }
  // no observations: unreachable through gama (refused earlier) and copying an empty matvec Vec is C15's subject
  if (m == 0) { cnt("homog_skipped_no_rows"); return; }
  Rows E = expected_rows(P);
  std::vector<double> rhs(m);
  for (double& v : rhs) v = std::ldexp(double(g.uni(-40, 40)), g.uni(-4, 4));
  GNU_gama::AdjInputData aid;
  aid.set_mat(build_sm(P, 0, false));
  BD* cov = new BD(int(bl.size()), floats);
  for (const Block& B : bl) cov->add_block(B.dim, B.w, B.mem.data());
  aid.set_cov(cov);
  {
    GNU_gama::Vec<> rv(m);
    for (int i = 1; i <= m; i++) rv(i) = rhs[i - 1];
    aid.set_rhs(rv);
  }
  GNU_gama::Homogenization<double, int> h(&aid);
  const SM* hm = h.mat();
  const GNU_gama::Vec<>& hr = h.rhs();
  std::string msg;
  if (hm == nullptr || hm->rows() != m || hm->columns() != n || hr.dim() != m) { V("homogenization:dimensions", "mat()/rhs() have wrong dimensions"); return; }
  if (h.mat() != hm) V("homogenization:recomputed-on-second-call", "mat() returns a different object on the second call");
  // dense reference  L^-1 A, L^-1 b  block by block
  Dense A(m, n);
  for (int r = 0; r < m; r++) for (const Ent& e : P.rows[r]) A(r, e.col - 1) += (LD)P.val(r, e);
  Dense H(m, n);
  for (int i = 1; i <= m; i++) {
    const double* v = hm->begin(i);
    const int* c = hm->ibegin(i);
    for (int k = 0; k < hm->size(i); k++) {
      if (c[k] < 1 || c[k] > n) { V("homogenization:column-index-out-of-range", fmt("row %d has column index %d (n=%d)", i, c[k], n)); return; }
      H(i - 1, c[k] - 1) += (LD)v[k];
    }
  }
  if (g_sabotage == 10 && m >= 1 && n >= 1) H(m - 1, 0) += 1e-6L * (fabsl(H(m - 1, 0)) + 1);
  int off = 0;
  bool bad = false;
  for (size_t bi = 0; bi < bl.size() && !bad; bi++) {
    const Block& B = bl[bi];
    LD rel = 1e-13L + 100 * EPS * B.kappa;
    Dense Y(B.dim, n + 1);
    LD mx = 0;
    for (int c = 0; c <= n; c++) for (int i = 0; i < B.dim; i++) {
      LD sum = c < n ? A(off + i, c) : (LD)rhs[off + i];
      for (int k = 0; k < i; k++) sum -= B.Lr(i, k) * Y(k, c);
      Y(i, c) = sum / B.Lr(i, i);
      mx = std::max(mx, fabsl(Y(i, c)));
    }
    for (int i = 0; i < B.dim && !bad; i++) {
      for (int c = 0; c <= n; c++) {
        LD got = c < n ? H(off + i, c) : (LD)hr(off + i + 1);
        if (!ratio(c < n ? "homog_mat" : "homog_rhs", fabsl(got - Y(i, c)), rel * std::max(mx, LDBL_MIN))) {
          V(std::string("homogenization:") + (c < n ? "mat" : "rhs") + ":" + wclass(B.dim, B.w),
            fmt("row %d %s: %.17Lg, dense L^-1 gives %.17Lg (block dim %d width %d, kappa %.3Lg)", off + i + 1, c < n ? fmt("column %d", c + 1).c_str() : "rhs", got, Y(i, c), B.dim, B.w, B.kappa));
          bad = true; break;
        }
      }
      if (B.w == 0 && hm->size(off + i + 1) != int(E[off + i].size())) {
        V("homogenization:uncorrelated-row-pattern-changed", fmt("row %d has %d stored elements, the input row has %d", off + i + 1, hm->size(off + i + 1), int(E[off + i].size())));
        bad = true;
      }
    }
    off += B.dim;
  }
  // the input object is not modified
  if ((msg = cmp_sm(aid.mat(), E, m, n)) != "") V("homogenization:input-matrix-modified", msg);
  if ((msg = cmp_bd(*aid.cov(), bl)) != "") V("homogenization:input-covariance-modified", msg);
  for (int i = 1; i <= m; i++) if (bits(aid.rhs()(i)) != bits(rhs[i - 1])) { V("homogenization:input-rhs-modified", fmt("rhs(%d) changed", i)); break; }
  // reset and recompute gives the same numbers
  {
    std::vector<uint64_t> before;
    for (int i = 1; i <= m; i++) for (int k = 0; k < hm->size(i); k++) before.push_back(bits(hm->begin(i)[k]));
    h.reset(&aid);
    const SM* hm2 = h.mat();
    std::vector<uint64_t> after;
    for (int i = 1; i <= m; i++) for (int k = 0; k < hm2->size(i); k++) after.push_back(bits(hm2->begin(i)[k]));
    if (before != after) V("homogenization:reset-not-reproducible", "second run after reset() gives different numbers");
  }
  // data only: what happens with an indefinite covariance block (outside the stated property)
  if (m >= 1 && g.coin(0.1)) {
    GNU_gama::AdjInputData bad_aid;
    bad_aid.set_mat(build_sm(P, 0, false));
    BD* c2 = new BD(int(bl.size()), floats);
    int q = g.uni(0, int(bl.size()) - 1);
    for (size_t bi = 0; bi < bl.size(); bi++) {
      std::vector<double> mem = bl[bi].mem;
      if (int(bi) == q) mem[0] = -std::fabs(mem[0]);
      c2->add_block(bl[bi].dim, bl[bi].w, mem.data());
    }
    bad_aid.set_cov(c2);
    GNU_gama::Vec<> rv(m);
    for (int i = 1; i <= m; i++) rv(i) = rhs[i - 1];
    bad_aid.set_rhs(rv);
    try {
      GNU_gama::Homogenization<double, int> h2(&bad_aid);
      const SM* x = h2.mat();
      bool fin = true;
      for (int i = 1; i <= m; i++) for (int k = 0; k < x->size(i); k++) if (!std::isfinite(x->begin(i)[k])) fin = false;
      cnt(fin ? "homog_indefinite_cov_accepted_silently_finite" : "homog_indefinite_cov_accepted_silently_nonfinite");
    } catch (const std::exception&) { cnt("homog_indefinite_cov_exception"); }
  }
}

bool want(const char* s) { return g_sub == "all" || g_sub == s; }

void run_case(long c)
{
  Rng gp(uint64_t(g_seed), uint64_t(c), 1);
  Pattern P = gen_pattern(gp, c);
  if (g_dump) dump_pattern(P);
  GraphRef G = graph_ref(P);
  Rng ga(uint64_t(g_seed), uint64_t(c), 2), gd(uint64_t(g_seed), uint64_t(c), 3), ge(uint64_t(g_seed), uint64_t(c), 4), gf(uint64_t(g_seed), uint64_t(c), 5);
  if (want("smatrix")) check_smatrix(P, ga);
  SM* s = build_sm(P, 0, false);
  std::vector<int> perm;
  if (want("graph")) check_graph(P, s, G);
  if (want("rcm")) check_rcm(P, s, G, perm);
  if (want("envelope")) { if (P.dup_in_row) cnt("envelope_skipped_dup_in_row"); else check_envelope(P, s, G, gd); }
  delete s;
  if (want("bdiag")) check_bdiag(ge);
  if (want("homog")) { if (P.dup_in_row) cnt("homog_skipped_dup_in_row"); else check_homog(P, gf); }
}

}  // namespace

int main(int argc, char** argv)
{
  if (argc < 5) { fprintf(stderr, "usage: sparsedrv <subcheck> <seed> <first_case> <n_cases> [--dump] [--sabotage K]\n"); return 2; }
  g_sub = argv[1];
  g_seed = atol(argv[2]);
  long first = atol(argv[3]), ncases = atol(argv[4]);
  for (int i = 5; i < argc; i++) {
    if (!strcmp(argv[i], "--dump")) g_dump = true;
    else if (!strcmp(argv[i], "--sabotage") && i + 1 < argc) g_sabotage = atoi(argv[++i]);
  }
  static const char* subs[] = {"all", "smatrix", "graph", "rcm", "envelope", "bdiag", "homog"};
  bool known = false;
  for (const char* x : subs) if (g_sub == x) known = true;
  if (!known) { fprintf(stderr, "unknown subcheck %s\n", g_sub.c_str()); return 2; }
  long done = 0;
  for (long c = first; c < first + ncases; c++) {
    g_case = c;
    printf("C %ld\n", c);
    fflush(stdout);
    try {
      run_case(c);
    } catch (const std::exception& e) {
      V("exception:" + g_cursub, std::string("unexpected exception: ") + e.what());
    } catch (...) {
      V("exception:" + g_cursub, "unexpected exception of unknown type");
    }
    done++;
  }
  for (const auto& kv : g_classes) printf("K %s %ld\n", kv.first.c_str(), kv.second);
  for (const auto& kv : g_counters) printf("N %s %ld\n", kv.first.c_str(), kv.second);
  for (const auto& kv : g_ratios) printf("R %s %.6g\n", kv.first.c_str(), kv.second);
  printf("DONE %ld\n", done);
  return 0;
}
