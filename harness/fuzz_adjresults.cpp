// libFuzzer target (property C11): LocalNetworkAdjustmentResults::read_xml; inputs whose first byte is 'H' go to
// read_html (the rest of the input is the document), so one corpus serves both readers.
#include <cstdint>
#include <cstddef>
#include <string>
#include <sstream>
#include <gnu_gama/xml/localnetwork_adjustment_results.h>
#include <gnu_gama/exception.h>

extern "C" int LLVMFuzzerTestOneInput(const uint8_t* data, size_t size)
{
  const bool html = size > 0 && data[0] == 'H';
  std::istringstream in(std::string(reinterpret_cast<const char*>(data) + (html ? 1 : 0), size - (html ? 1 : 0)));
  try {
    GNU_gama::LocalNetworkAdjustmentResults res;
    if (html) res.read_html(in); else res.read_xml(in);
  } catch (const GNU_gama::Exception::base&) {
  } catch (const std::exception&) {
  }
  return 0;
}
