// libFuzzer target (property C11): GNU_gama::DataParser (gama-g3 model, adj-input-data, g3 adjustment results)
// fed as gama-g3's get_xml_input() does (line, "\n", ..., final empty chunk); objects released the same way.
#include <cstdint>
#include <cstddef>
#include <cstring>
#include <list>
#include <string>
#include <gnu_gama/xml/dataparser.h>
#include <gnu_gama/exception.h>

extern "C" int LLVMFuzzerTestOneInput(const uint8_t* data, size_t size)
{
  std::list<GNU_gama::DataObject::Base*> objects;
  try {
    GNU_gama::DataParser parser(objects);
    size_t b = 0;
    while (b < size) {
      const void* nl = memchr(data + b, '\n', size - b);
      size_t e = nl ? size_t(static_cast<const uint8_t*>(nl) - data) : size;
      parser.xml_parse(reinterpret_cast<const char*>(data + b), int(e - b), 0);
      parser.xml_parse("\n", 1, 0);
      b = e + 1;
    }
    parser.xml_parse("", 0, 1);
  } catch (const GNU_gama::Exception::base&) {
  } catch (const std::exception&) {
  }
  for (auto* o : objects) {
    if (auto* m = dynamic_cast<GNU_gama::DataObject::g3_model*>(o)) delete m->model;
    delete o;
  }
  return 0;
}
