// readdrv: gama's OWN readers of adjustment results -> JSON (used by C12).
//
//   readdrv xml  FILE     LocalNetworkAdjustmentResults::read_xml (std::istream&)
//   readdrv html FILE     LocalNetworkAdjustmentResults::read_html(std::istream&)
//
// Everything the class exposes is printed: doubles with %.17g (round-trip exact; non-finite values as the
// strings "nan"/"inf"/"-inf"), strings JSON-escaped byte-wise (bytes >= 0x80 are passed through, so valid UTF-8
// stays valid UTF-8; invalid bytes are the reader's and are visible to the python side as a decoding error).
// An exception thrown by the reader is reported as {"exception": kind, "what":..., "line":..., "code":...}
// (exit status 0: refusing a file is an answer, not a crash).
#include <cstdio>
#include <cmath>
#include <fstream>
#include <iostream>
#include <string>
#include <gnu_gama/exception.h>
#include <gnu_gama/xml/localnetwork_adjustment_results.h>

using GNU_gama::LocalNetworkAdjustmentResults;

namespace {

void jstr(const std::string& s)
{
  putchar('"');
  for (unsigned char c : s) {
    switch (c) {
    case '"':  fputs("\\\"", stdout); break;
    case '\\': fputs("\\\\", stdout); break;
    case '\n': fputs("\\n", stdout);  break;
    case '\r': fputs("\\r", stdout);  break;
    case '\t': fputs("\\t", stdout);  break;
    default:
      if (c < 0x20 || c == 0x7f) printf("\\u%04x", c);
      else putchar(c);
    }
  }
  putchar('"');
}

void jnum(double d)
{
  if (std::isnan(d)) fputs("\"nan\"", stdout);
  else if (std::isinf(d)) fputs(d > 0 ? "\"inf\"" : "\"-inf\"", stdout);
  else printf("%.17g", d);
}

void key(const char* k, bool first = false)
{
  if (!first) putchar(',');
  printf("\"%s\":", k);
}

void kstr(const char* k, const std::string& s, bool first = false) { key(k, first); jstr(s); }
void knum(const char* k, double d, bool first = false) { key(k, first); jnum(d); }
void kint(const char* k, long n, bool first = false) { key(k, first); printf("%ld", n); }
void kbool(const char* k, bool b, bool first = false) { key(k, first); fputs(b ? "true" : "false", stdout); }

void count(const char* k, const LocalNetworkAdjustmentResults::count& c, bool first = false)
{
  key(k, first);
  printf("{\"xyz\":%d,\"xy\":%d,\"z\":%d}", c.xyz, c.xy, c.z);
}

void points(const char* k, const LocalNetworkAdjustmentResults::PointList& L)
{
  key(k);
  putchar('[');
  bool f = true;
  for (const auto& p : L) {
    if (!f) putchar(',');
    f = false;
    putchar('{');
    kstr("id", p.id, true);
    knum("x", p.x); knum("y", p.y); knum("z", p.z);
    kbool("hxy", p.hxy); kbool("hz", p.hz); kbool("cxy", p.cxy); kbool("cz", p.cz);
    kint("indx", p.indx); kint("indy", p.indy); kint("indz", p.indz);
    putchar('}');
  }
  putchar(']');
}

void dump(const LocalNetworkAdjustmentResults& R)
{
  putchar('{');
  kbool("gons", R.gons, true);
  kstr("description", R.description);

  key("xmlerror");
  putchar('{');
  kstr("category", R.xmlerror.getCategory(), true);
  kint("line", R.xmlerror.getLineNumber());
  key("description");
  putchar('[');
  {
    bool f = true;
    for (const auto& s : R.xmlerror.getDescription()) {
      if (!f) putchar(',');
      f = false;
      jstr(s);
    }
  }
  fputs("]}", stdout);

  const auto& g = R.network_general_parameters;
  key("general");
  putchar('{');
  kstr("gama-local-version", g.gama_local_version, true);
  kstr("gama-local-algorithm", g.gama_local_algorithm);
  kstr("gama-local-compiler", g.gama_local_compiler);
  kstr("axes-xy", g.axes_xy);
  kstr("angles", g.angles);
  kstr("epoch", g.epoch);
  kstr("latitude", g.latitude);
  kstr("ellipsoid", g.ellipsoid);
  putchar('}');

  key("coordinates_summary");
  putchar('{');
  count("adjusted", R.coordinates_summary.adjusted, true);
  count("constrained", R.coordinates_summary.constrained);
  count("fixed", R.coordinates_summary.fixed);
  putchar('}');

  const auto& o = R.observations_summary;
  key("observations_summary");
  printf("{\"distances\":%d,\"directions\":%d,\"angles\":%d,\"xyz-coords\":%d,\"h-diffs\":%d,"
         "\"z-angles\":%d,\"s-dists\":%d,\"vectors\":%d,\"azimuths\":%d}",
         o.distances, o.directions, o.angles, o.xyz_coords, o.h_diffs, o.z_angles, o.s_dists, o.vectors,
         o.azimuths);

  const auto& e = R.project_equations;
  key("project_equations");
  putchar('{');
  kint("equations", e.equations, true);
  kint("unknowns", e.unknowns);
  kint("dof", e.degrees_of_freedom);
  kint("defect", e.defect);
  knum("sum_of_squares", e.sum_of_squares);
  kbool("connected", e.connected_network);
  kint("iterations", e.linearization_iterations);
  putchar('}');

  const auto& s = R.standard_deviation;
  key("standard_deviation");
  putchar('{');
  knum("apriori", s.apriori, true);
  knum("aposteriori", s.aposteriori);
  kbool("using_aposteriori", s.using_aposteriori);
  knum("probability", s.probability);
  knum("ratio", s.ratio);
  knum("lower", s.lower);
  knum("upper", s.upper);
  kstr("status", s.status == LocalNetworkAdjustmentResults::Status::passed ? "passed" :
       s.status == LocalNetworkAdjustmentResults::Status::failed ? "failed" : "na");
  knum("confidence_scale", s.confidence_scale);
  putchar('}');

  points("fixed", R.fixed_points);
  points("approximate", R.approximate_points);
  points("adjusted", R.adjusted_points);

  key("ellipses");
  putchar('[');
  {
    bool f = true;
    for (const auto& el : R.ellipses) {
      if (!f) putchar(',');
      f = false;
      putchar('{');
      kstr("id", el.id, true);
      knum("major", el.major); knum("minor", el.minor); knum("alpha", el.alpha);
      putchar('}');
    }
  }
  putchar(']');

  key("orientations");
  putchar('[');
  {
    bool f = true;
    for (const auto& r : R.orientations) {
      if (!f) putchar(',');
      f = false;
      putchar('{');
      kstr("id", r.id, true);
      knum("approx", r.approx); knum("adj", r.adj); kint("index", r.index);
      putchar('}');
    }
  }
  putchar(']');

  // covariance matrix: upper band by rows, read through the const element accessor
  const GNU_gama::CovMat<>& C = R.cov;
  key("cov");
  putchar('{');
  kint("dim", C.dim(), true);
  kint("band", C.bandWidth());
  key("flt");
  putchar('[');
  {
    bool f = true;
    const int n = C.dim(), b = C.bandWidth();
    for (int i = 1; i <= n; i++)
      for (int j = i; j <= n && j <= i + b; j++) {
        if (!f) putchar(',');
        f = false;
        jnum(C(i, j));
      }
  }
  fputs("]}", stdout);

  key("original_index");
  putchar('[');
  for (size_t i = 0; i < R.original_index.size(); i++) {
    if (i) putchar(',');
    printf("%d", R.original_index[i]);
  }
  putchar(']');

  key("observations");
  putchar('[');
  {
    bool f = true;
    for (const auto& ob : R.obslist) {
      if (!f) putchar(',');
      f = false;
      putchar('{');
      kstr("tag", ob.xml_tag, true);
      kstr("from", ob.from); kstr("to", ob.to); kstr("left", ob.left); kstr("right", ob.right);
      knum("obs", ob.obs); knum("adj", ob.adj); knum("stdev", ob.stdev);
      knum("qrr", ob.qrr); knum("f", ob.f); knum("std_residual", ob.std_residual);
      kstr("err_obs", ob.err_obs); kstr("err_adj", ob.err_adj);
      knum("residual", ob.residual());
      putchar('}');
    }
  }
  putchar(']');
  fputs("}\n", stdout);
}

void exception_json(const char* kind, const std::string& what, int line, int code)
{
  putchar('{');
  kstr("exception", kind, true);
  kstr("what", what);
  kint("line", line);
  kint("code", code);
  fputs("}\n", stdout);
}

}  // namespace

int main(int argc, char* argv[])
{
  if (argc != 3) {
    fprintf(stderr, "usage: readdrv xml|html FILE\n");
    return 2;
  }
  const std::string mode = argv[1];
  std::ifstream inp(argv[2], std::ios::binary);
  if (!inp) {
    fprintf(stderr, "readdrv: cannot open %s\n", argv[2]);
    return 2;
  }
  LocalNetworkAdjustmentResults R;
  try {
    if (mode == "xml") R.read_xml(inp);
    else if (mode == "html") R.read_html(inp);
    else {
      fprintf(stderr, "readdrv: unknown mode %s\n", mode.c_str());
      return 2;
    }
  }
  catch (const GNU_gama::Exception::parser& p) {
    exception_json("parser", p.str, p.line, p.error_code);
    return 0;
  }
  catch (const GNU_gama::Exception::matvec& m) {
    exception_json("matvec", m.what(), 0, m.error());
    return 0;
  }
  catch (const GNU_gama::Exception::base& b) {
    exception_json("gama", b.what(), 0, 0);
    return 0;
  }
  catch (const std::exception& s) {
    exception_json("std", s.what(), 0, 0);
    return 0;
  }
  dump(R);
  return 0;
}
