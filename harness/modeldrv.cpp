// modeldrv: parse gama-local input files (gkf) with gama's own GKFparser into a LocalNetwork and dump the
// *parsed model* as one JSON line per file, so that two input files can be compared as models independently
// of their formatting (C13).  Nothing is adjusted; values are as the parser stored them (angles in radians,
// lengths in metres, standard deviations / covariances in the internal units cc / mm).
// Doubles are printed with %.17g (exact round trip).
//
//   modeldrv file.gkf [file.gkf ...]
//
// Reply per file:  {"file":..., "ok":true, "params":{...}, "points":[...], "clusters":[...]}
//             or   {"file":..., "ok":false, "error":{"kind":..., "line":..., "what":...}}
#include <cstdio>
#include <cstring>
#include <cmath>
#include <string>
#include <fstream>
#include <sstream>
#include <iostream>
#include <typeinfo>
#include <gnu_gama/xml/gkfparser.h>
#include <gnu_gama/local/gamadata.h>
#include <gnu_gama/local/network.h>
#include <gnu_gama/local/cluster.h>
#include <gnu_gama/local/observation.h>

using namespace GNU_gama::local;

namespace {

std::string jstr(const std::string& s)
{
  std::string r = "\"";
  char buf[8];
  for (unsigned char c : s) {
    if (c == '"')       r += "\\\"";
    else if (c == '\\') r += "\\\\";
    else if (c < 32)  { snprintf(buf, sizeof buf, "\\u%04x", c); r += buf; }
    else                r += char(c);        // UTF-8 bytes pass through
  }
  return r + "\"";
}

std::string jnum(double v)
{
  if (std::isnan(v)) return "\"nan\"";
  if (std::isinf(v)) return v > 0 ? "\"inf\"" : "\"-inf\"";
  char buf[40];
  snprintf(buf, sizeof buf, "%.17g", v);
  return buf;
}

std::string jbool(bool b) { return b ? "true" : "false"; }

const char* status_xy(const LocalPoint& p)
{
  if (p.fixed_xy())       return "fixed";
  if (p.constrained_xy()) return "constrained";
  if (p.free_xy())        return "free";
  return "unused";
}

const char* status_z(const LocalPoint& p)
{
  if (p.fixed_z())       return "fixed";
  if (p.constrained_z()) return "constrained";
  if (p.free_z())        return "free";
  return "unused";
}

struct ObsInfo {
  const char* type = "unknown";
  bool is_angle = false, is_hdiff = false;
};

ObsInfo obs_info(Observation* o)
{
  ObsInfo r;
  if      (dynamic_cast<Direction*>(o))  r.type = "direction";
  else if (dynamic_cast<Distance*>(o))   r.type = "distance";
  else if (dynamic_cast<Angle*>(o))    { r.type = "angle"; r.is_angle = true; }
  else if (dynamic_cast<H_Diff*>(o))   { r.type = "dh";    r.is_hdiff = true; }
  else if (dynamic_cast<S_Distance*>(o)) r.type = "s-distance";
  else if (dynamic_cast<Z_Angle*>(o))    r.type = "z-angle";
  else if (dynamic_cast<Azimuth*>(o))    r.type = "azimuth";
  else if (dynamic_cast<X*>(o))          r.type = "x";
  else if (dynamic_cast<Y*>(o))          r.type = "y";
  else if (dynamic_cast<Z*>(o))          r.type = "z";
  else if (dynamic_cast<Xdiff*>(o))      r.type = "dx";
  else if (dynamic_cast<Ydiff*>(o))      r.type = "dy";
  else if (dynamic_cast<Zdiff*>(o))      r.type = "dz";
  return r;
}

std::string dump(LocalNetwork& net)
{
  std::string s;
  // ---- parameters
  s += "\"params\":{";
  s += "\"sigma-apr\":" + jnum(net.apriori_m_0());
  s += ",\"conf-pr\":" + jnum(net.conf_pr());
  s += ",\"tol-abs\":" + jnum(net.tol_abs());
  s += ",\"sigma-act\":" + jstr(net.m_0_apriori() ? "apriori" : "aposteriori");
  s += ",\"angular\":" + jstr(net.gons() ? "400" : "360");
  s += ",\"has-algorithm\":" + jbool(net.has_algorithm());
  s += ",\"algorithm-attr\":" + jstr(net.has_algorithm() ? net.algorithm() : "");
  s += ",\"cov-band\":" + jnum(net.adj_covband());
  s += ",\"has-epoch\":" + jbool(net.has_epoch());
  s += ",\"epoch\":" + jnum(net.has_epoch() ? net.epoch() : 0.0);
  s += ",\"has-latitude\":" + jbool(net.has_latitude());
  s += ",\"latitude\":" + jnum(net.has_latitude() ? net.latitude() : 0.0);
  s += ",\"has-ellipsoid\":" + jbool(net.has_ellipsoid());
  s += ",\"ellipsoid\":" + jstr(net.has_ellipsoid() ? net.ellipsoid() : "");
  s += ",\"axes-xy\":" + jstr(net.PD.locos_str());
  s += ",\"angles\":" + jstr(net.PD.left_handed_angles() ? "left-handed" : "right-handed");
  s += ",\"max-iterations\":" + jnum(net.max_linearization_iterations());
  s += ",\"description\":" + jstr(net.description);
  s += "}";
  // ---- points
  s += ",\"points\":[";
  bool first = true;
  for (PointData::const_iterator i = net.PD.begin(); i != net.PD.end(); ++i) {
    const LocalPoint& p = i->second;
    if (!first) s += ",";
    first = false;
    s += "{\"id\":" + jstr(i->first.str());
    s += ",\"xy\":" + jstr(status_xy(p)) + ",\"z\":" + jstr(status_z(p));
    s += ",\"has_xy\":" + jbool(p.test_xy());
    if (p.test_xy()) s += ",\"x\":" + jnum(p.x()) + ",\"y\":" + jnum(p.y());
    s += ",\"has_z\":" + jbool(p.test_z());
    if (p.test_z()) s += ",\"zval\":" + jnum(p.z());
    s += "}";
  }
  s += "]";
  // ---- clusters
  s += ",\"clusters\":[";
  first = true;
  for (ObservationData::ClusterList::const_iterator c = net.OD.clusters.begin(); c != net.OD.clusters.end(); ++c) {
    ObservationData::ClusterType* cl = *c;
    if (!first) s += ",";
    first = false;
    s += "{";
    if (StandPoint* sp = dynamic_cast<StandPoint*>(cl)) {
      s += "\"type\":\"obs\",\"station\":" + jstr(sp->station.str());
      s += ",\"has_orientation\":" + jbool(sp->test_orientation());
      if (sp->test_orientation()) s += ",\"orientation\":" + jnum(sp->orientation());
    }
    else if (dynamic_cast<HeightDifferences*>(cl)) s += "\"type\":\"hdiff\"";
    else if (Coordinates* co = dynamic_cast<Coordinates*>(cl)) {
      s += "\"type\":\"coords\",\"extern\":" + jstr(co->get_extern());
    }
    else if (dynamic_cast<Vectors*>(cl)) s += "\"type\":\"vectors\"";
    else s += "\"type\":\"unknown\"";

    const CovMat& C = cl->covariance_matrix;
    const int dim = C.dim(), band = C.bandWidth();
    s += ",\"cov\":{\"dim\":" + jnum(dim) + ",\"band\":" + jnum(band) + ",\"values\":[";
    bool f = true;
    for (int i = 1; i <= dim; i++)
      for (int j = i; j <= i + band && j <= dim; j++) {
        if (!f) s += ",";
        f = false;
        s += jnum(C(i, j));
      }
    s += "]}";

    s += ",\"obs\":[";
    f = true;
    int idx = 0;
    for (ObservationList::const_iterator o = cl->observation_list.begin(); o != cl->observation_list.end(); ++o, ++idx) {
      Observation* ob = *o;
      ObsInfo inf = obs_info(ob);
      if (!f) s += ",";
      f = false;
      s += "{\"type\":" + jstr(inf.type);
      s += ",\"from\":" + jstr(ob->from().str()) + ",\"to\":" + jstr(ob->to().str());
      s += ",\"value\":" + jnum(ob->raw_value());
      s += ",\"reduced\":" + jnum(ob->value());
      if (idx < dim) s += ",\"stdev\":" + jnum(std::sqrt(C(idx + 1, idx + 1)));
      s += ",\"from_dh\":" + jnum(ob->from_dh()) + ",\"to_dh\":" + jnum(ob->to_dh());
      if (inf.is_angle) {
        Angle* a = static_cast<Angle*>(ob);
        s += ",\"fs\":" + jstr(a->fs().str()) + ",\"fs_dh\":" + jnum(a->fs_dh());
      }
      if (inf.is_hdiff) s += ",\"dist\":" + jnum(static_cast<H_Diff*>(ob)->dist());
      s += ",\"extern\":" + jstr(ob->get_extern());
      s += ",\"active\":" + jbool(ob->active());
      s += "}";
    }
    s += "]}";
  }
  s += "]";
  return s;
}

}  // namespace

int main(int argc, char** argv)
{
  for (int a = 1; a < argc; a++) {
    std::string head = "{\"file\":" + jstr(argv[a]);
    std::ifstream inp(argv[a], std::ios::binary);
    if (!inp) {
      std::cout << head << ",\"ok\":false,\"error\":{\"kind\":\"io\",\"line\":0,\"what\":\"cannot open\"}}" << std::endl;
      continue;
    }
    std::stringstream ss;
    ss << inp.rdbuf();
    const std::string text = ss.str();

    LocalNetwork* net = new LocalNetwork;
    try {
      GKFparser gkf(*net);
      // same feeding discipline as gama-local: line by line, last call with the finish flag
      size_t pos = 0;
      while (pos < text.size()) {
        size_t e = text.find('\n', pos);
        size_t n = (e == std::string::npos) ? text.size() - pos : e - pos + 1;
        const bool last = (pos + n >= text.size());
        gkf.xml_parse(text.c_str() + pos, int(n), last ? 1 : 0);
        pos += n;
      }
      if (text.empty()) gkf.xml_parse("", 0, 1);
      std::cout << head << ",\"ok\":true," << dump(*net) << "}" << std::endl;
    }
    catch (const ParserException& e) {
      std::cout << head << ",\"ok\":false,\"error\":{\"kind\":\"parser\",\"line\":" << e.line
                << ",\"what\":" << jstr(e.what()) << "}}" << std::endl;
    }
    catch (const GNU_gama::local::Exception& e) {
      std::cout << head << ",\"ok\":false,\"error\":{\"kind\":\"exception\",\"line\":0,\"what\":"
                << jstr(e.what()) << "}}" << std::endl;
    }
    catch (const std::exception& e) {
      std::cout << head << ",\"ok\":false,\"error\":{\"kind\":\"std\",\"line\":0,\"what\":"
                << jstr(e.what()) << "}}" << std::endl;
    }
    delete net;
  }
  return 0;
}
