// adjdrv: script interpreter over gama's solver classes (C01-C04, C10c, C19f).
//
// Script (stdin), whitespace separated, one statement per line:
//   PROBLEM m n
//   ROW k  i1 v1 ... ik vk            (m times; 1-based column indexes)
//   RHS b1 ... bm
//   BLOCKS nb
//   BLOCK dim width  v...             (packed upper band rows: row i holds min(width, dim-i)+1 values)
//   MINX k i1 ... ik | MINX -1        (initial regularisation subset; -1: none given)
//   END
// then commands, each answered by exactly one line on stdout (flushed):
//   NEW base|adj <alg>     create the current object (alg: envelope|cholesky|gso|svd)
//   X  R  SS  DEF  QXX i j  QBB i j  QBX i j  Q0 i j  LINDEP i  COND
//   QXXALL  Q0ALL  QBBALL  LINDEPALL
//   MINX k i...   MINXALL   RESET   ALG <alg>
//   FRESH <cmd ...>        the same question put to a brand-new object holding the same input and
//                          the regularisation currently in force (fresh-object oracle)
// Replies: "OK v..." | "EXC <class> <detail>".
#include <cstdio>
#include <cstdlib>
#include <cstring>
#include <string>
#include <sstream>
#include <iostream>
#include <vector>
#include <memory>
#include <gnu_gama/adj/adj.h>
#include <gnu_gama/adj/adj_input_data.h>
#include <gnu_gama/exception.h>

using namespace GNU_gama;
typedef Exception::matvec MVE;
typedef AdjBase<double, int, MVE> Base;
typedef AdjBaseFull<double, int, MVE> BaseFull;
typedef AdjBaseSparse<double, int, MVE, AdjInputData> BaseSparse;

struct Problem {
  int m = 0, n = 0;
  std::vector<std::vector<std::pair<int, double>>> rows;
  std::vector<double> rhs;
  struct Blk { int dim, width; std::vector<double> v; };
  std::vector<Blk> blocks;
  bool has_minx = false;
  std::vector<int> minx;

  AdjInputData* make_input(bool with_minx) const
  {
    AdjInputData* d = new AdjInputData;
    int nz = 0;
    for (auto& r : rows) nz += int(r.size());
    SparseMatrix<>* A = new SparseMatrix<>(nz > 0 ? nz : 1, m, n);
    for (auto& r : rows) {
      A->new_row();
      for (auto& e : r) A->add_element(e.second, e.first);
    }
    d->set_mat(A);
    int fl = 0;
    for (auto& b : blocks) fl += int(b.v.size());
    BlockDiagonal<>* bd = new BlockDiagonal<>(int(blocks.size()), fl > 0 ? fl : 1);
    for (auto& b : blocks) bd->add_block(b.dim, b.width, b.v.data());
    d->set_cov(bd);
    Vec<> v(m);
    for (int i = 1; i <= m; i++) v(i) = rhs[i - 1];
    d->set_rhs(v);
    if (with_minx && has_minx) {
      IntegerList<>* l = new IntegerList<>(int(minx.size()));
      int k = 0;
      for (auto it = l->begin(); it != l->end(); ++it) *it = minx[k++];
      d->set_minx(l);
    }
    return d;
  }
};

static Adj::algorithm alg_of(const std::string& s)
{
  if (s == "envelope") return Adj::envelope;
  if (s == "gso") return Adj::gso;
  if (s == "svd") return Adj::svd;
  if (s == "cholesky") return Adj::cholesky;
  fprintf(stderr, "adjdrv: bad algorithm %s\n", s.c_str());
  exit(3);
}

// The object under test: either gama's general class Adj or a bare AdjBase solver driven the
// way LocalNetwork drives it.
struct Obj {
  const Problem* P = nullptr;
  bool is_adj = false;
  std::string alg;
  // adj
  std::unique_ptr<Adj> adj;
  // base
  std::unique_ptr<Base> base;
  std::unique_ptr<AdjInputData> data;   // owned input for sparse base
  Mat<> A_dot;
  Vec<> b_dot;
  // regularisation currently in force (for FRESH)
  int reg = 0;                          // 0 = never set, 1 = all (min_x()), 2 = subset
  std::vector<int> sub;

  void whiten()
  {
    const Problem& p = *P;
    A_dot.reset(p.m, p.n);
    A_dot.set_zero();
    b_dot.reset(p.m);
    for (int i = 1; i <= p.m; i++) {
      for (auto& e : p.rows[i - 1]) A_dot(i, e.first) = e.second;
      b_dot(i) = p.rhs[i - 1];
    }
    int r0 = 0;
    for (auto& b : p.blocks) {
      CovMat<> C(b.dim, b.width);
      CovMat<>::iterator c = C.begin();
      for (double v : b.v) *c++ = v;
      Adj::choldec(C);
      Vec<> t(b.dim);
      for (int i = 1; i <= b.dim; i++) t(i) = b_dot(r0 + i);
      Adj::forwardSubstitution(C, t);
      for (int i = 1; i <= b.dim; i++) b_dot(r0 + i) = t(i);
      for (int j = 1; j <= p.n; j++) {
        for (int i = 1; i <= b.dim; i++) t(i) = A_dot(r0 + i, j);
        Adj::forwardSubstitution(C, t);
        for (int i = 1; i <= b.dim; i++) A_dot(r0 + i, j) = t(i);
      }
      r0 += b.dim;
    }
  }

  void create(const Problem* p, bool adjkind, const std::string& a, bool initial_minx)
  {
    P = p; is_adj = adjkind; alg = a;
    if (is_adj) {
      adj.reset(new Adj);
      adj->set_algorithm(alg_of(alg));
      adj->set(p->make_input(true));      // Adj takes ownership
      if (p->has_minx) { reg = 2; sub = p->minx; }
    } else {
      if (alg == "envelope") base.reset(new AdjEnvelope<double, int, MVE>);
      else if (alg == "gso") base.reset(new AdjGSO<double, int, MVE>);
      else if (alg == "svd") base.reset(new AdjSVD<double, int, MVE>);
      else base.reset(new AdjCholDec<double, int, MVE>);
      attach();
      if (initial_minx && p->has_minx) set_minx(p->minx);
    }
  }
  void attach()
  {
    if (BaseSparse* s = dynamic_cast<BaseSparse*>(base.get())) {
      if (!data) data.reset(P->make_input(false));
      s->reset(data.get());
    } else if (BaseFull* f = dynamic_cast<BaseFull*>(base.get())) {
      if (A_dot.rows() == 0 && P->m > 0) whiten();
      f->reset(A_dot, b_dot);
    }
  }
  void set_minx(const std::vector<int>& s)
  {
    std::vector<int> t = s;
    base->min_x(int(t.size()), t.data());
    reg = 2; sub = s;
  }
};

static void print_vec(const Vec<>& v)
{
  printf("OK %d", v.dim());
  for (int i = 1; i <= v.dim(); i++) printf(" %.17g", v(i));
  printf("\n");
}

static void exec(Obj& o, std::istringstream& in, const std::string& cmd);

static void fresh(Obj& o, std::istringstream& in)
{
  Obj f;
  f.create(o.P, o.is_adj, o.alg, false);
  if (!o.is_adj) {
    if (o.reg == 1) { f.base->min_x(); f.reg = 1; }
    else if (o.reg == 2) f.set_minx(o.sub);
  }
  std::string cmd;
  in >> cmd;
  if (f.is_adj && (cmd == "QXX" || cmd == "QBB" || cmd == "DEF" || cmd == "QXXALL" || cmd == "QBBALL")) {
    // Adj computes on demand only through x()/r(); a fresh Adj asked for a cofactor or the defect
    // must give the same answer as one that was asked for x() first.  The oracle object is
    // therefore primed with x() (the documented way to use the class).
    f.adj->x();
  }
  exec(f, in, cmd);
}

static void exec(Obj& o, std::istringstream& in, const std::string& cmd)
{
  const int m = o.P->m, n = o.P->n;
  if (cmd == "X") {
    print_vec(o.is_adj ? o.adj->x() : o.base->unknowns());
  } else if (cmd == "R") {
    print_vec(o.is_adj ? o.adj->r() : o.base->residuals());
  } else if (cmd == "SS") {
    if (o.is_adj) { o.adj->x(); printf("OK %.17g\n", o.adj->rtr()); }
    else printf("OK %.17g\n", o.base->sum_of_squares());
  } else if (cmd == "SSRAW") {          // Adj::rtr() without forcing a solution first
    printf("OK %.17g\n", o.is_adj ? o.adj->rtr() : o.base->sum_of_squares());
  } else if (cmd == "DEF") {
    printf("OK %d\n", o.is_adj ? o.adj->defect() : o.base->defect());
  } else if (cmd == "QXX" || cmd == "QBB" || cmd == "QBX" || cmd == "Q0") {
    int i, j; in >> i >> j;
    double v;
    if (cmd == "QXX") v = o.is_adj ? o.adj->q_xx(i, j) : o.base->q_xx(i, j);
    else if (cmd == "QBB") v = o.is_adj ? o.adj->q_bb(i, j) : o.base->q_bb(i, j);
    else if (cmd == "QBX") { if (o.is_adj) { printf("NA\n"); return; } v = o.base->q_bx(i, j); }
    else { if (o.is_adj) { printf("NA\n"); return; } v = o.base->q0_xx(i, j); }
    printf("OK %.17g\n", v);
  } else if (cmd == "LINDEP") {
    int i; in >> i;
    if (o.is_adj) { printf("NA\n"); return; }
    printf("OK %d\n", o.base->lindep(i) ? 1 : 0);
  } else if (cmd == "COND") {
    if (o.is_adj) { printf("NA\n"); return; }
    printf("OK %.17g\n", o.base->cond());
  } else if (cmd == "QXXALL" || cmd == "Q0ALL") {
    // computed before anything is printed: an exception must give a clean EXC reply
    std::vector<double> q;
    for (int i = 1; i <= n; i++)
      for (int j = 1; j <= n; j++)
        q.push_back((cmd == "QXXALL") ? (o.is_adj ? o.adj->q_xx(i, j) : o.base->q_xx(i, j))
                                      : o.base->q0_xx(i, j));
    printf("OK %d", n * n);
    for (double v : q) printf(" %.17g", v);
    printf("\n");
  } else if (cmd == "QBBALL") {
    std::vector<double> q;
    for (int i = 1; i <= m; i++)
      for (int j = 1; j <= m; j++)
        q.push_back(o.is_adj ? o.adj->q_bb(i, j) : o.base->q_bb(i, j));
    printf("OK %d", m * m);
    for (double v : q) printf(" %.17g", v);
    printf("\n");
  } else if (cmd == "QBXALL") {
    std::vector<double> q;
    for (int i = 1; i <= m; i++)
      for (int j = 1; j <= n; j++) q.push_back(o.base->q_bx(i, j));
    printf("OK %d", m * n);
    for (double v : q) printf(" %.17g", v);
    printf("\n");
  } else if (cmd == "LINDEPALL") {
    if (o.is_adj) { printf("NA\n"); return; }
    printf("OK %d", n);
    for (int i = 1; i <= n; i++) printf(" %d", o.base->lindep(i) ? 1 : 0);
    printf("\n");
  } else if (cmd == "MINX") {
    int k; in >> k;
    std::vector<int> s(k > 0 ? k : 0);
    for (int i = 0; i < k; i++) in >> s[i];
    if (o.is_adj) { printf("NA\n"); return; }
    o.set_minx(s);
    printf("OK\n");
  } else if (cmd == "MINXALL") {
    if (o.is_adj) { printf("NA\n"); return; }
    o.base->min_x();
    o.reg = 1; o.sub.clear();
    printf("OK\n");
  } else if (cmd == "RESET") {
    if (o.is_adj) { o.adj->set(o.P->make_input(true)); }
    else o.attach();
    printf("OK\n");
  } else if (cmd == "ALG") {
    std::string a; in >> a;
    if (!o.is_adj) { printf("NA\n"); return; }
    o.adj->set_algorithm(alg_of(a));
    o.alg = a;
    printf("OK\n");
  } else if (cmd == "FRESH") {
    fresh(o, in);
  } else {
    printf("? %s\n", cmd.c_str());
  }
}

int main()
{
  std::string line;
  std::unique_ptr<Problem> P;
  std::vector<std::unique_ptr<Problem>> keep;   // problems stay alive while objects refer to them
  std::unique_ptr<Obj> o;
  Problem* building = nullptr;
  setvbuf(stdout, nullptr, _IOLBF, 0);
  while (std::getline(std::cin, line)) {
    std::istringstream in(line);
    std::string cmd;
    if (!(in >> cmd) || cmd[0] == '#') continue;
    if (cmd == "PROBLEM") {
      o.reset();
      keep.clear();
      keep.emplace_back(new Problem);
      building = keep.back().get();
      in >> building->m >> building->n;
      continue;
    }
    if (building) {
      if (cmd == "ROW") {
        int k; in >> k;
        std::vector<std::pair<int, double>> r(k);
        for (int i = 0; i < k; i++) { std::string t; in >> r[i].first >> t; r[i].second = strtod(t.c_str(), nullptr); }
        building->rows.push_back(r);
      } else if (cmd == "RHS") {
        std::string t;
        while (in >> t) building->rhs.push_back(strtod(t.c_str(), nullptr));
      } else if (cmd == "BLOCKS") {
      } else if (cmd == "BLOCK") {
        Problem::Blk b;
        in >> b.dim >> b.width;
        std::string t;
        while (in >> t) b.v.push_back(strtod(t.c_str(), nullptr));
        building->blocks.push_back(b);
      } else if (cmd == "MINX") {
        int k; in >> k;
        if (k >= 0) {
          building->has_minx = true;
          building->minx.resize(k);
          for (int i = 0; i < k; i++) in >> building->minx[i];
        }
      } else if (cmd == "END") {
        building = nullptr;
        printf("PROBLEM-OK\n");
      }
      continue;
    }
    if (keep.empty()) { printf("? no problem\n"); continue; }
    try {
      if (cmd == "NEW") {
        std::string kind, alg; in >> kind >> alg;
        o.reset(new Obj);
        o->create(keep.back().get(), kind == "adj", alg, true);
        printf("OK\n");
      } else if (!o) {
        printf("? no object\n");
      } else {
        exec(*o, in, cmd);
      }
    } catch (const Exception::matvec& e) {
      printf("EXC matvec %d %s\n", e.error(), e.what());
    } catch (const Exception::adjustment& e) {
      printf("EXC adjustment %s\n", e.str.c_str());
    } catch (const Exception::base& e) {
      printf("EXC gama %s\n", e.what());
    } catch (const std::exception& e) {
      printf("EXC std %s\n", e.what());
    }
  }
  return 0;
}
