// nethistdrv: history monitor for a live LocalNetwork object (C04, network level).
//   usage: nethistdrv <input.gkf> <algorithm>     commands on stdin, one reply line each (flushed)
// Query commands:  SOLVE RES PVV M0 M0APOST DOF NULL NUNK NOBS CONFCOEF
//                  QXX i j | QBB i j | STDEVOBS i | WCOEF i | STDEVRES i | STUDRES i | OBSCTRL i | LINDEP i
//                  UNKSTDEV i | ELLIPSE <k-th adjusted xy point> | TESTABS i | CONNECTED
// State-changing:  SETALG <alg> | UPDATE points|observations|residuals|adjustment | APRIORI v | TOLABS v |
//                  SIGMAACT apriori|aposteriori | CONFPR p
// Oracle:          FRESH <query ...>  -- a brand-new network parsed from the same file, given the settings in
//                  force (algorithm, a priori m0, tol-abs, sigma-act, conf-pr), prepared the same way and asked
//                  only that question.
#include <cstdio>
#include <cstdlib>
#include <fstream>
#include <iostream>
#include <memory>
#include <sstream>
#include <string>
#include <vector>
#include <gnu_gama/local/network.h>
#include <gnu_gama/local/acord/acord2.h>
#include <gnu_gama/local/test_linearization_visitor.h>
#include <gnu_gama/xml/gkfparser.h>
#include <gnu_gama/local/language.h>

using namespace GNU_gama::local;

struct Settings {
  std::string alg;
  bool has_apriori = false; double apriori = 0;
  bool has_tol = false; double tol = 0;
  int sigma_act = 0;            // 0 keep, 1 apriori, 2 aposteriori
  bool has_conf = false; double conf = 0;
};

static std::string g_text;

static LocalNetwork* make_net(const Settings& s)
{
  std::unique_ptr<LocalNetwork> net(new LocalNetwork);
  {
    GKFparser gkf(*net);
    gkf.xml_parse(g_text.c_str(), int(g_text.size()), 1);
  }
  net->set_algorithm(s.alg);
  if (s.has_apriori) net->apriori_m_0(s.apriori);
  if (s.has_tol) net->tol_abs(s.tol);
  if (s.sigma_act == 1) net->set_m_0_apriori();
  if (s.sigma_act == 2) net->set_m_0_aposteriori();
  if (s.has_conf) net->conf_pr(s.conf);
  net->remove_inconsistency();
  Acord2 acord2(net->PD, net->OD);
  acord2.execute();
  refine_obsdh_reductions(net.get());
  if (net->huge_abs_terms()) net->remove_huge_abs_terms();
  return net.release();
}

static void print_vec(const Vec& v)
{
  printf("OK %d", v.dim());
  for (int i = 1; i <= v.dim(); i++) printf(" %.17g", v(i));
  printf("\n");
}

static void query(LocalNetwork& n, std::istringstream& in, const std::string& cmd)
{
  if (cmd == "SOLVE") print_vec(n.solve());
  else if (cmd == "RES") print_vec(n.residuals());
  else if (cmd == "PVV") printf("OK %.17g\n", n.trans_VWV());
  else if (cmd == "M0") printf("OK %.17g\n", n.m_0());
  else if (cmd == "M0APOST") printf("OK %.17g\n", n.m_0_aposteriori_value());
  else if (cmd == "DOF") printf("OK %d\n", n.degrees_of_freedom());
  else if (cmd == "NULL") printf("OK %d\n", n.null_space());
  else if (cmd == "NUNK") printf("OK %d\n", n.unknowns_count());
  else if (cmd == "NOBS") printf("OK %d\n", n.observations_count());
  else if (cmd == "CONFCOEF") {
    // value + what it must be a quantile of (judged against scipy by the monitor: a process-wide cache would
    // fool the fresh-object oracle, which lives in the same process)
    double c = n.conf_int_coef();
    printf("OK %.17g %d %.17g %d\n", c, n.degrees_of_freedom(), n.conf_pr(), n.m_0_aposteriori() ? 1 : 0);
  }
  else if (cmd == "CONNECTED") { n.unknowns_count(); printf("OK %d\n", n.connected_network() ? 1 : 0); }
  else if (cmd == "QXX" || cmd == "QBB") {
    int i, j; in >> i >> j;
    n.solve();
    printf("OK %.17g\n", cmd == "QXX" ? n.qxx(i, j) : n.qbb(i, j));
  }
  else if (cmd == "STDEVOBS" || cmd == "WCOEF" || cmd == "STDEVRES" || cmd == "STUDRES" || cmd == "OBSCTRL" ||
           cmd == "LINDEP" || cmd == "UNKSTDEV" || cmd == "TESTABS") {
    int i; in >> i;
    double v = 0;
    if (cmd == "TESTABS") { n.unknowns_count(); v = n.test_abs_term(i); }
    else {
      n.solve();
      if (cmd == "STDEVOBS") v = n.stdev_obs(i);
      else if (cmd == "WCOEF") v = n.wcoef_res(i);
      else if (cmd == "STDEVRES") v = n.stdev_res(i);
      else if (cmd == "STUDRES") v = n.studentized_residual(i);
      else if (cmd == "OBSCTRL") v = n.obs_control(i);
      else if (cmd == "LINDEP") v = n.lindep(i) ? 1 : 0;
      else if (cmd == "UNKSTDEV") v = n.unknown_stdev(i);
    }
    printf("OK %.17g\n", v);
  }
  else if (cmd == "ELLIPSE") {
    int k; in >> k;
    n.solve();
    int c = 0;
    for (PointData::const_iterator i = n.PD.begin(); i != n.PD.end(); ++i) {
      const LocalPoint& p = (*i).second;
      if (!p.active_xy() || !p.free_xy() || !p.index_x()) continue;
      if (++c == k) {
        double a, b, alfa;
        n.std_error_ellipse((*i).first, a, b, alfa);
        printf("OK %.17g %.17g %.17g\n", a, b, alfa);
        return;
      }
    }
    printf("NA\n");
  }
  else printf("? %s\n", cmd.c_str());
}

int main(int argc, char** argv)
{
  if (argc < 3) return 2;
  {
    std::ifstream f(argv[1]);
    std::stringstream ss; ss << f.rdbuf(); g_text = ss.str();
  }
  set_gama_language(en);
  Settings st; st.alg = argv[2];
  setvbuf(stdout, nullptr, _IOLBF, 0);
  std::unique_ptr<LocalNetwork> net;
  try { net.reset(make_net(st)); printf("NET-OK\n"); }
  catch (const GNU_gama::Exception::base& e) { printf("NET-EXC %s\n", e.what()); return 0; }
  std::string line;
  while (std::getline(std::cin, line)) {
    std::istringstream in(line);
    std::string cmd;
    if (!(in >> cmd)) continue;
    try {
      if (cmd == "SETALG") { in >> st.alg; net->set_algorithm(st.alg); printf("OK\n"); }
      else if (cmd == "UPDATE") {
        std::string w; in >> w;
        if (w == "points") net->update_points();
        else if (w == "observations") net->update_observations();
        else if (w == "residuals") net->update_residuals();
        else net->update_adjustment();
        printf("OK\n");
      }
      else if (cmd == "APRIORI") { in >> st.apriori; st.has_apriori = true; net->apriori_m_0(st.apriori); net->update_points(); printf("OK\n"); }
      else if (cmd == "TOLABS") { in >> st.tol; st.has_tol = true; net->tol_abs(st.tol); printf("OK\n"); }
      else if (cmd == "SIGMAACT") {
        std::string w; in >> w;
        st.sigma_act = (w == "apriori") ? 1 : 2;
        if (st.sigma_act == 1) net->set_m_0_apriori(); else net->set_m_0_aposteriori();
        printf("OK\n");
      }
      else if (cmd == "CONFPR") { in >> st.conf; st.has_conf = true; net->conf_pr(st.conf); printf("OK\n"); }
      else if (cmd == "FRESH") {
        std::unique_ptr<LocalNetwork> f(make_net(st));
        std::string q; in >> q;
        query(*f, in, q);
      }
      else query(*net, in, cmd);
    }
    catch (const GNU_gama::Exception::matvec& e) { printf("EXC matvec %d %s\n", e.error(), e.what()); }
    catch (const GNU_gama::Exception::base& e) { printf("EXC gama %s\n", e.what()); }
    catch (const std::exception& e) { printf("EXC std %s\n", e.what()); }
  }
  return 0;
}
