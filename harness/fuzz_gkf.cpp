// libFuzzer target (property C11): GKFparser fed line by line as gama-local's main() does and, when the document
// is accepted, an in-process replica of main()'s sequence (approximate coordinates, adjustment, all outputs into
// string streams).  The target only *finds* hostile inputs: every artifact libFuzzer writes is re-run by
// vf/props/C11.py through parsedrv and the real sanitized gama-local, and only what reproduces there is reported.
//   GAMA_FUZZ_PARSE_ONLY=1   skip the pipeline replica
#include <cstdint>
#include <cstddef>
#include <cstdlib>
#include <cstring>
#include <string>
#include <sstream>
#include <gnu_gama/outstream.h>
#include <gnu_gama/xml/localnetworkoctave.h>
#include <gnu_gama/xml/localnetworkxml.h>
#include <gnu_gama/xml/gkfparser.h>
#include <gnu_gama/local/language.h>
#include <gnu_gama/local/gamadata.h>
#include <gnu_gama/local/network.h>
#include <gnu_gama/local/acord/acord2.h>
#include <gnu_gama/local/acord/acordstatistics.h>
#include <gnu_gama/local/svg.h>
#include <gnu_gama/local/html.h>
#include <gnu_gama/local/results/text/approximate_coordinates.h>
#include <gnu_gama/local/results/text/reduced_observations.h>
#include <gnu_gama/local/results/text/network_description.h>
#include <gnu_gama/local/results/text/general_parameters.h>
#include <gnu_gama/local/results/text/fixed_points.h>
#include <gnu_gama/local/results/text/adjusted_observations.h>
#include <gnu_gama/local/results/text/adjusted_unknowns.h>
#include <gnu_gama/local/results/text/outlying_abs_terms.h>
#include <gnu_gama/local/results/text/reduced_observations_to_ellipsoid.h>
#include <gnu_gama/local/results/text/residuals_observations.h>
#include <gnu_gama/local/results/text/error_ellipses.h>
#include <gnu_gama/local/test_linearization_visitor.h>
#include <gnu_gama/ellipsoids.h>

namespace {
bool parse_only() { static const bool v = getenv("GAMA_FUZZ_PARSE_ONLY") != nullptr; return v; }

void pipeline(GNU_gama::local::LocalNetwork* IS, unsigned variant)
{
  using namespace GNU_gama::local;
  static const char* algs[] = {"envelope", "gso", "svd", "cholesky"};
  if (!IS->has_algorithm()) IS->set_algorithm(algs[variant % 4]);
  if (variant & 4) IS->set_degrees();

  std::ostringstream text;
  GNU_gama::OutStream cout(&text);

  if (IS->PD.empty()) return;
  if (IS->OD.clusters.empty()) return;
  try {
    IS->remove_inconsistency();
    AcordStatistics stats(IS->PD, IS->OD);
    Acord2 acord2(IS->PD, IS->OD);
    acord2.execute();
    refine_obsdh_reductions(IS);
    if (IS->correction_to_ellipsoid()) {
      using namespace GNU_gama;
      gama_ellipsoid elnum = ellipsoid(IS->ellipsoid().c_str());
      Ellipsoid el{};
      GNU_gama::set(&el, elnum);
      ReduceToEllipsoid reduce_to_el(IS->PD, IS->OD, el, IS->latitude());
      reduce_to_el.execute();
      ReducedObservationsToEllipsoidText(IS, reduce_to_el.getMap(), cout);
    }
    stats.execute();
    ApproximateCoordinates(&stats, cout);
  } catch (...) {
    return;
  }
  if (IS->points_count() == 0 || IS->unknowns_count() == 0) return;
  if (IS->huge_abs_terms()) {
    OutlyingAbsoluteTerms(IS, cout);
    IS->remove_huge_abs_terms();
  }
  IS->connected_network();
  {
    std::ostringstream tmp_out;
    if (!GeneralParameters(IS, tmp_out)) return;
  }
  IS->refine_adjustment();
  TestLinearization(IS, cout);
  ReducedObservations(IS, cout);
  NetworkDescription(IS->description, cout);
  GeneralParameters(IS, cout);
  FixedPoints(IS, cout);
  AdjustedUnknowns(IS, cout);
  ErrorEllipses(IS, cout);
  AdjustedObservations(IS, cout);
  ResidualsObservations(IS, cout);
  {
    std::ostringstream o;
    GamaLocalSVG svg(IS);
    svg.draw(o);
  }
  {
    std::ostringstream o;
    GamaLocalHTML html(IS);
    html.exec();
    html.html(o);
  }
  {
    std::ostringstream o;
    IS->set_gons();
    GNU_gama::LocalNetworkXML xml(IS);
    xml.write(o);
  }
  {
    std::ostringstream o;
    GNU_gama::LocalNetworkOctave octave(IS);
    octave.write(o);
  }
  IS->export_xml("<!-- fuzz -->\n");
}
}   // namespace

extern "C" int LLVMFuzzerTestOneInput(const uint8_t* data, size_t size)
{
  using namespace GNU_gama::local;
  static bool init = (set_gama_language(en), true);
  (void)init;
  LocalNetwork* IS = new LocalNetwork;
  bool accepted = false;
  try {
    GKFparser gkf(*IS);
    size_t b = 0;
    while (b < size) {
      const void* nl = memchr(data + b, '\n', size - b);
      size_t e = nl ? size_t(static_cast<const uint8_t*>(nl) - data) + 1 : size;
      gkf.xml_parse(reinterpret_cast<const char*>(data + b), int(e - b), e == size ? 1 : 0);
      b = e;
    }
    if (size == 0) gkf.xml_parse("", 0, 1);
    accepted = true;
  } catch (const GNU_gama::Exception::base&) {
  } catch (const std::exception&) {
  }
  if (accepted && !parse_only()) {
    try {
      pipeline(IS, unsigned(size));
    } catch (const GNU_gama::Exception::base&) {
    } catch (const std::exception&) {
    }
  }
  delete IS;
  return 0;
}
