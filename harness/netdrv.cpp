// netdrv: direct access to gama's linearisation of local observations (property C05).
//
// stdin: a sequence of cases
//     NET <case id>
//     ORI <v1> <v2> ...      (optional) approximate orientations in radians for the direction sets
//                            (<obs> clusters holding at least one direction), in file order; without
//                            the line, or for sets beyond the list, gama's own Orientation class is asked
//     <lines of a gama-local XML input>
//     %%END
// For each case the input is parsed in-process by GKFparser into a LocalNetwork, the y signs are
// changed for inconsistent systems and slope observations are reduced to the marks exactly as
// gama-local does before adjusting (remove_inconsistency, refine_obsdh_reductions); then every active
// observation is visited in cluster order by ONE LocalLinearization object, i.e. the loop of
// LocalNetwork::project_equations without approximate coordinates, revision, weights and solver.
// stdout: "#case <id>" before a case is executed (an abort identifies its case), then one JSON line
// with the same fields as the `adjust` trace event: y_sign, m, n, rows [[index, coeff]...], rhs,
// unknowns [{type, id, approx, constrained}], obs [{type, from, to, value, raw}], or {"error": "..."}
// when gama throws.  Doubles are printed with %.17g.  Only public API is used.
#include <cstdio>
#include <cstdlib>
#include <cmath>
#include <iostream>
#include <sstream>
#include <string>
#include <vector>
#include <typeinfo>
#include <gnu_gama/local/network.h>
#include <gnu_gama/local/cluster.h>
#include <gnu_gama/local/orientation.h>
#include <gnu_gama/local/local_linearization.h>
#include <gnu_gama/local/test_linearization_visitor.h>
#include <gnu_gama/xml/gkfparser.h>

using namespace GNU_gama::local;

namespace {

std::string jstr(const std::string& s)
{
  std::string r = "\"";
  char buf[8];
  for (unsigned char c : s) {
    if (c == '"' || c == '\\') { r += '\\'; r += char(c); }
    else if (c < 32) { snprintf(buf, sizeof buf, "\\u%04x", c); r += buf; }
    else r += char(c);
  }
  return r + "\"";
}

std::string jnum(double d)
{
  if (!std::isfinite(d)) return std::isnan(d) ? "\"nan\"" : (d > 0 ? "\"inf\"" : "\"-inf\"");
  char buf[40];
  snprintf(buf, sizeof buf, "%.17g", d);
  return buf;
}

struct Unk { char type = '?'; std::string id; double approx = 0; bool constrained = false; };

void one_case(const std::string& text, const std::vector<double>& ori, bool have_ori)
{
  LocalNetwork lnet;
  {
    GKFparser gkf(lnet);
    gkf.xml_parse(text.c_str(), int(text.size()), 1);
  }
  lnet.remove_inconsistency();
  refine_obsdh_reductions(&lnet);

  // approximate orientations
  std::vector<StandPoint*> sets;
  for (auto cl = lnet.OD.clusters.begin(); cl != lnet.OD.clusters.end(); ++cl)
    if (StandPoint* sp = dynamic_cast<StandPoint*>(*cl)) {
      bool has_dir = false;
      for (auto o = sp->observation_list.begin(); o != sp->observation_list.end(); ++o)
        if (dynamic_cast<Direction*>(*o)) has_dir = true;
      if (has_dir) sets.push_back(sp);
      sp->index_orientation(0);
    }
  for (size_t k = 0; k < sets.size(); k++) {
    if (have_ori && k < ori.size())
      sets[k]->set_orientation(ori[k]);
    else {
      Orientation orientation(lnet.PD, sets[k]->observation_list);
      orientation.add_all();
    }
  }
  for (auto p = lnet.PD.begin(); p != lnet.PD.end(); ++p)
    p->second.index_x() = p->second.index_y() = p->second.index_z() = 0;

  LocalLinearization lin(lnet.PD, lnet.apriori_m_0());
  std::string rows, rhs, obs;
  int m = 0;
  for (auto cl = lnet.OD.clusters.begin(); cl != lnet.OD.clusters.end(); ++cl)
    for (auto oi = (*cl)->observation_list.begin(); oi != (*cl)->observation_list.end(); ++oi) {
      Observation* o = *oi;
      if (!o->active()) continue;
      o->accept(&lin);
      if (m) { rows += ","; rhs += ","; obs += ","; }
      m++;
      rows += "[";
      for (long i = 0; i < lin.size; i++) {
        if (i) rows += ",";
        rows += "[" + std::to_string(lin.index[i]) + "," + jnum(lin.coeff[i]) + "]";
      }
      rows += "]";
      rhs += jnum(lin.rhs);
      obs += "{\"type\":" + jstr(typeid(*o).name()) + ",\"from\":" + jstr(o->from().str())
           + ",\"to\":" + jstr(o->to().str()) + ",\"value\":" + jnum(o->value())
           + ",\"raw\":" + jnum(o->raw_value()) + "}";
    }

  const int n = lin.unknowns();
  std::vector<Unk> U(n);
  auto put = [&](int idx, char t, const std::string& id, double a, bool c) {
    if (idx >= 1 && idx <= n) { U[idx-1].type = t; U[idx-1].id = id; U[idx-1].approx = a; U[idx-1].constrained = c; }
  };
  for (auto p = lnet.PD.begin(); p != lnet.PD.end(); ++p) {
    const LocalPoint& b = p->second;
    const std::string id = p->first.str();
    if (b.index_x()) put(b.index_x(), 'X', id, b.x(), b.constrained_xy());
    if (b.index_y()) put(b.index_y(), 'Y', id, b.y(), b.constrained_xy());
    if (b.index_z()) put(b.index_z(), 'Z', id, b.z(), b.constrained_z());
  }
  for (auto cl = lnet.OD.clusters.begin(); cl != lnet.OD.clusters.end(); ++cl)
    if (StandPoint* sp = dynamic_cast<StandPoint*>(*cl))
      if (sp->index_orientation())
        put(sp->index_orientation(), 'R', sp->station.str(), sp->test_orientation() ? sp->orientation() : 0.0, false);

  std::string s = "{\"kind\":\"adjust\",\"iteration\":0,\"y_sign\":" + jnum(lnet.y_sign())
    + ",\"m\":" + std::to_string(m) + ",\"n\":" + std::to_string(n)
    + ",\"rows\":[" + rows + "],\"rhs\":[" + rhs + "],\"unknowns\":[";
  for (int i = 0; i < n; i++) {
    if (i) s += ",";
    s += std::string("{\"type\":\"") + U[i].type + "\",\"id\":" + jstr(U[i].id) + ",\"approx\":" + jnum(U[i].approx)
      + ",\"constrained\":" + (U[i].constrained ? "true" : "false") + "}";
  }
  s += "],\"obs\":[" + obs + "]}";
  puts(s.c_str());
}

}  // namespace

int main()
{
  std::ios::sync_with_stdio(false);
  std::string line, id, text;
  std::vector<double> ori;
  bool have_ori = false, in_case = false;
  while (std::getline(std::cin, line)) {
    if (!in_case) {
      if (line.compare(0, 4, "NET ") == 0) {
        id = line.substr(4);
        text.clear(); ori.clear(); have_ori = false; in_case = true;
      }
      continue;
    }
    if (line.compare(0, 4, "ORI ") == 0 || line == "ORI") {
      std::istringstream in(line.substr(3));
      double v;
      while (in >> v) ori.push_back(v);
      have_ori = true;
      continue;
    }
    if (line == "%%END") {
      in_case = false;
      printf("#case %s\n", id.c_str());
      fflush(stdout);
      try {
        one_case(text, ori, have_ori);
      }
      catch (const GNU_gama::local::ParserException& e) {
        printf("{\"error\":%s,\"where\":\"parser\",\"line\":%d}\n", jstr(e.what()).c_str(), e.line);
      }
      catch (const GNU_gama::local::Exception& e) {
        printf("{\"error\":%s,\"where\":\"gama\"}\n", jstr(e.what()).c_str());
      }
      catch (const GNU_gama::Exception::matvec& e) {
        printf("{\"error\":%s,\"where\":\"matvec\"}\n", jstr(e.what()).c_str());
      }
      catch (const std::exception& e) {
        printf("{\"error\":%s,\"where\":\"std\"}\n", jstr(e.what()).c_str());
      }
      fflush(stdout);
      continue;
    }
    text += line;
    text += '\n';
  }
  return 0;
}
