import argparse, importlib, os, sys, traceback
from . import runner


def main():
    ap = argparse.ArgumentParser()
    ap.add_argument("prop")
    ap.add_argument("--tier", default=os.environ.get("VERIF_TIER", "quick"), choices=["quick", "thorough"])
    ap.add_argument("--seed", type=int, default=int(os.environ.get("VERIF_SEED", "1")))
    ap.add_argument("--replay", default=None)
    a = ap.parse_args()
    try:
        mod = importlib.import_module("vf.props." + a.prop)
        if a.replay:
            rc = mod.replay(a.replay)
        else:
            rc = mod.run(a.tier, a.seed)
    except runner.HarnessError as e:
        print("HARNESS-ERROR: %s" % e)
        rc = 2
    except Exception:
        traceback.print_exc()
        print("HARNESS-ERROR: unexpected exception in check machinery")
        rc = 2
    sys.exit(rc)


main()
