"""Generator of adjustment problems (A, b, block-banded covariance, regularisation subset) with an
exactly constructed rank deficiency, their serialisation for harness/adjdrv, and the numpy
reference model (weighted least squares, null space, constrained minimum norm, cofactors).

Independent of gama's code: everything is computed from the *original* (A, b, C) with dense
numpy SVD / pseudo-inverse.
"""
import math
import numpy as np

EPS = np.finfo(float).eps
ALGS = ("envelope", "cholesky", "gso", "svd")


# ------------------------------------------------------------------ covariance blocks

def band_spd(rng, dim, width, scale):
    """Random SPD matrix with exact band `width` and condition <= ~50.  Construction: C = L L' with L lower
    band-`width` triangular, unit-ish diagonal — exactly banded, exactly SPD, moderate conditioning."""
    L = np.zeros((dim, dim))
    for i in range(dim):
        L[i, i] = rng.uniform(0.7, 1.4)
        for j in range(max(0, i - width), i):
            L[i, j] = rng.uniform(-0.35, 0.35) / max(1, width) ** 0.5 * 1.5
    C = L @ L.T
    s = np.sqrt(scale)
    return C * s * s


def pack_band(C, width):
    dim = C.shape[0]
    out = []
    for i in range(dim):
        for j in range(i, min(dim, i + width + 1)):
            out.append(C[i, j])
    return out


# ------------------------------------------------------------------ problems

def gen_problem(rng, n_max=25, m_max=40, force=None):
    """Returns dict(A, b, blocks=[(dim,width,C)], minx=None|list(1-based), meta=dict)."""
    force = force or {}
    n = int(force.get("n", rng.integers(1, n_max + 1)))
    defect = int(force.get("defect", rng.choice([0, 0, 0, 1, 1, 2, 3, 4])))
    defect = min(defect, n - 1) if n > 1 else 0
    r = n - defect
    m = int(force.get("m", rng.integers(max(r, 1), max(r, 1) + max(2, min(m_max - r, 2 * n)) + 1)))
    m = min(max(m, r), m_max) if m_max >= r else r
    kind = force.get("pattern", rng.choice(["dense", "sparse", "sparse", "banded", "blocks", "network"]))
    density = 1.0
    for attempt in range(50):
        B = np.zeros((m, r))
        if kind == "dense":
            B = rng.uniform(-1, 1, (m, r))
        elif kind == "sparse":
            density = rng.uniform(0.05, 0.6)
            B = rng.uniform(-1, 1, (m, r)) * (rng.uniform(0, 1, (m, r)) < density)
        elif kind == "banded":
            bw = int(rng.integers(1, 4))
            for i in range(m):
                c = int(i * r / max(m, 1))
                for j in range(max(0, c - bw), min(r, c + bw + 1)):
                    B[i, j] = rng.uniform(-1, 1)
        elif kind == "blocks":   # disconnected components
            k = int(rng.integers(2, 4))
            for i in range(m):
                g = i % k
                cols = [j for j in range(r) if j % k == g]
                for j in cols:
                    if rng.uniform() < 0.7:
                        B[i, j] = rng.uniform(-1, 1)
        else:                    # "network": each row touches 2-5 unknowns (like observation equations)
            for i in range(m):
                k = int(rng.integers(1, min(5, r) + 1))
                for j in rng.choice(r, k, replace=False):
                    B[i, j] = rng.uniform(-1, 1)
        # small-integer-ish coefficient scale per column, as real design matrices have
        B = B * (10.0 ** rng.integers(-1, 2, r))
        if r == 0:
            break
        sv = np.linalg.svd(B, compute_uv=False) if min(B.shape) else np.array([])
        if len(sv) == r and sv[-1] > 0.05 * max(1.0, sv[0]) * 1e-1 and sv[0] / sv[-1] < 1e3:
            break
        kind = "dense" if attempt > 25 else kind
    else:
        B = rng.uniform(-1, 1, (m, r))
    # dependent columns: small integer combinations of base columns (exact in floating point up to rounding
    # of the products; the reference tolerances account for it)
    zero_col = bool(force.get("zero_col", defect > 0 and rng.uniform() < 0.12))
    cols = [B[:, j] for j in range(r)]
    dep = []
    for k in range(defect):
        if zero_col and k == 0:
            dep.append(np.zeros(m))
            continue
        t = int(rng.integers(1, min(3, r) + 1))
        idx = rng.choice(r, t, replace=False)
        coef = rng.choice([-2, -1, 1, 2, 3], t)
        dep.append(sum(c * B[:, j] for c, j in zip(coef, idx)))
    allc = cols + dep
    perm = rng.permutation(n)
    A = np.zeros((m, n))
    for dst, src in enumerate(perm):
        A[:, dst] = allc[src]
    b = rng.uniform(-1, 1, m) * 10.0 ** rng.integers(-1, 2)
    # covariance blocks
    covkind = force.get("cov", rng.choice(["unit", "diag", "banded", "full", "mixed"]))
    blocks = []
    left = m
    while left > 0:
        if covkind == "unit":
            dim = left; C = np.eye(dim); w = 0
        elif covkind == "diag":
            dim = left if rng.uniform() < 0.5 else int(rng.integers(1, left + 1))
            C = np.diag(rng.uniform(0.25, 4.0, dim)); w = 0
        else:
            dim = int(rng.integers(1, min(left, 8) + 1))
            if covkind == "full":
                w = dim - 1
            elif covkind == "banded":
                w = int(rng.integers(0, min(dim - 1, 3) + 1))
            else:
                w = int(rng.integers(0, dim))
            C = band_spd(rng, dim, w, rng.uniform(0.25, 4.0))
        blocks.append((dim, w, C))
        left -= dim
    P = dict(A=A, b=b, blocks=blocks, minx=None,
             meta=dict(m=m, n=n, defect=defect, pattern=str(kind), cov=str(covkind), zero_col=zero_col))
    # regularisation subset
    if defect > 0:
        ref = Reference(P)
        choice = force.get("subset", rng.choice(["none", "all", "subset", "subset"]))
        if choice == "all":
            P["minx"] = list(range(1, n + 1))
        elif choice == "subset" and ref.ok:
            for _ in range(30):
                k = int(rng.integers(defect, n + 1))
                S = sorted(int(i) for i in rng.choice(n, k, replace=False))
                Gs = ref.G[S, :]
                if np.linalg.svd(Gs, compute_uv=False)[-1] > 0.2:
                    S = [s + 1 for s in S]
                    rng.shuffle(S)
                    P["minx"] = [int(s) for s in S]
                    break
        P["meta"]["subset"] = "none" if P["minx"] is None else ("all" if len(P["minx"]) == n else "subset")
    else:
        if rng.uniform() < 0.2:
            P["minx"] = list(range(1, n + 1))
        P["meta"]["subset"] = "none" if P["minx"] is None else "all"
    return P


def to_script(P):
    A, b = P["A"], P["b"]
    m, n = A.shape
    out = ["PROBLEM %d %d" % (m, n)]
    for i in range(m):
        nz = [(j + 1, A[i, j]) for j in range(n) if A[i, j] != 0.0]
        out.append("ROW %d " % len(nz) + " ".join("%d %s" % (j, float(v).hex()) for j, v in nz))
    out.append("RHS " + " ".join(float(v).hex() for v in b))
    out.append("BLOCKS %d" % len(P["blocks"]))
    for dim, w, C in P["blocks"]:
        out.append("BLOCK %d %d " % (dim, w) + " ".join(float(v).hex() for v in pack_band(C, w)))
    if P["minx"] is None:
        out.append("MINX -1")
    else:
        out.append("MINX %d " % len(P["minx"]) + " ".join(str(i) for i in P["minx"]))
    out.append("END")
    return out


def dense_cov(P):
    m = P["A"].shape[0]
    C = np.zeros((m, m))
    r0 = 0
    for dim, w, Cb in P["blocks"]:
        C[r0:r0 + dim, r0:r0 + dim] = Cb
        r0 += dim
    return C


class Reference:
    """numpy reference model of the weighted LS problem.  `minx`: 1-based subset or None (= all)."""

    def __init__(self, P, minx="from-problem"):
        A, b = P["A"], P["b"]
        m, n = A.shape
        self.m, self.n = m, n
        C = dense_cov(P)
        self.C = C
        L = np.linalg.cholesky(C)
        self.Aw = np.linalg.solve(L, A)
        self.bw = np.linalg.solve(L, b)
        self.W = np.linalg.inv(C)
        U, s, Vt = np.linalg.svd(self.Aw, full_matrices=True)
        self.sv = s
        smax = s[0] if len(s) else 0.0
        big = s[s >= 1e-3 * smax] if smax > 0 else s[:0]
        small = s[s < 1e-3 * smax] if smax > 0 else s
        self.rank = len(big)
        self.defect = n - self.rank
        # admitted iff the rank is numerically unambiguous and the scale fits gama's absolute tolerances
        self.ok = bool(smax > 0 and (len(small) == 0 or small.max() <= 1e-12 * smax) and
                       len(big) > 0 and big.min() >= 1e-2 and smax <= 1e4 and smax / big.min() <= 1e6)
        self.kappa = float(smax / big.min()) if len(big) else float("inf")
        self.G = Vt[self.rank:, :].T.copy()          # n x d, orthonormal null-space basis
        self.N = self.Aw.T @ self.Aw
        self.A, self.b = A, b
        self.Npinv = np.linalg.pinv(self.Aw, rcond=1e-9) @ np.linalg.pinv(self.Aw, rcond=1e-9).T
        self.xp = np.linalg.pinv(self.Aw, rcond=1e-9) @ self.bw
        if isinstance(minx, str):
            minx = P["minx"]
        self.set_subset(minx)

    def set_subset(self, minx):
        n = self.n
        S = list(range(n)) if minx is None else [i - 1 for i in minx]
        self.S = S
        Gs = np.zeros_like(self.G)
        Gs[S, :] = self.G[S, :]
        self.Gs = Gs
        if self.defect:
            M = Gs.T @ Gs
            sv = np.linalg.svd(M, compute_uv=False)
            self.subset_sv = float(sv[-1])      # smallest eigenvalue of Gs'Gs (1 = all unknowns, 0 = unresolved)
            self.subset_ok = bool(sv[-1] > 1e-3)
            if self.subset_ok:
                self.T = np.eye(n) - self.G @ np.linalg.solve(M, Gs.T)
            else:
                self.T = None
        else:
            self.subset_ok = True
            self.subset_sv = 1.0
            self.T = np.eye(n)
        if self.T is not None:
            self.x = self.T @ self.xp
            self.Q = self.T @ self.Npinv @ self.T.T
            self.v = self.A @ self.x - self.b
            self.ss = float(self.v @ self.W @ self.v)
            self.Qbb = self.A @ self.Q @ self.A.T            # original units (Adj::q_bb)
            self.Qbb_h = self.Aw @ self.Q @ self.Aw.T        # homogenised system (AdjBase::q_bb)

    def tol(self, scale=1.0, squared=True):
        k = self.kappa
        return (1e-9 + 100 * EPS * (k * k if squared else k)) * max(scale, 1e-300)
