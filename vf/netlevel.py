"""Network-level helpers shared by the gama-local based checks: physical read-back of results, conversion of
`adjust` trace events into reference-model problems, running one input with the four algorithms."""
import itertools
import math
import os
import numpy as np

from . import runner, netgen, xmlout, lsq

ALGS = ("envelope", "cholesky", "gso", "svd")

OBS_TAG = {"direction": "direction", "distance": "distance", "angle": "angle", "azimuth": "azimuth",
           "s-distance": "slope-distance", "z-angle": "zenith-angle", "dh": "height-diff"}


def physical_points(R, fr, which="adjusted"):
    """{id: dict(E,N,H)} from a parsed result (file frame -> physical frame); ids mapped back through fr.idmap."""
    inv = {v: k for k, v in fr.idmap.items()}
    out = {}
    for pid, v in R[which].items():
        kv = {k.lower(): val for k, val in v.items()}
        d = {}
        if "x" in kv:
            d["E"], d["N"] = fr.EN(kv["x"], kv["y"])
        if "z" in kv:
            d["H"] = kv["z"] - fr.shift[2]
        out[inv.get(pid, pid)] = d
    return out


def coord_errors(net, R, fr, split=False):
    """max |adjusted - true| in metres over all adjusted coordinates, and the worst point
    (split=True: (horizontal error, height error, worst id))"""
    worst, wid, wh, wv = 0.0, None, 0.0, 0.0
    P = physical_points(R, fr)
    for pid, d in P.items():
        q = net.points[pid]
        for k, t in (("E", q.E), ("N", q.N), ("H", q.H)):
            if k in d:
                e = abs(d[k] - t)
                if k == "H":
                    wv = max(wv, e)
                else:
                    wh = max(wh, e)
                if e > worst:
                    worst, wid = e, pid
    if split:
        return wh, wv, wid
    return worst, wid


def residuals(R):
    """list of (tag, from, to/other, residual in mm or cc)"""
    out = []
    for o in R["observations"]:
        ang = o["tag"] in ("direction", "angle", "azimuth", "zenith-angle")
        d = o["adj"] - o["obs"]
        if ang:
            d = (d + 200.0) % 400.0 - 200.0
            d *= 10000.0
        else:
            d *= 1000.0
        out.append((o["tag"], o.get("from", o.get("id")), o.get("to", o.get("right")), d))
    return out


def event_problem(ev):
    """`adjust` trace event -> problem dict for lsq.Reference (cofactors = cov / m0^2)."""
    m, n = ev["m"], ev["n"]
    A = np.zeros((m, n))
    for i, row in enumerate(ev["rows"]):
        for j, v in row:
            A[i, j - 1] = v
    b = np.array(ev["rhs"], dtype=float)
    blocks = []
    m0 = ev["m0_apr"]
    for bl in ev["blocks"]:
        dim, w = bl["dim"], bl["band"]
        C = np.zeros((dim, dim))
        k = 0
        for i in range(dim):
            for j in range(i, min(dim, i + w + 1)):
                C[i, j] = C[j, i] = bl["cov"][k] / (m0 * m0)
                k += 1
        blocks.append((dim, w, C))
    minx = ev["minx"] if ev["minx"] else None
    return dict(A=A, b=b, blocks=blocks, minx=minx, meta=dict(m=m, n=n))


def rel_between_linearisation_points(net):
    """Relative tolerance for cofactor-derived quantities (standard deviations, qrr, f, covariances) of two runs that
    stopped at different linearisation points.  gama stops iterating when linear and non-linear adjusted observations
    agree to eps = 0.0005 mm; a transverse offset x of the approximate coordinates at sight length D costs x^2/(2D), so
    approximations may still be off by sqrt(2 eps D) and the design-matrix coefficients (and what is computed from
    them) by sqrt(2 eps / D) relative, per run: 2 sqrt(1e-6 m / Dmin), not below the 2e-4 used for v'Pv."""
    dmin = min_sight(net)
    if not math.isfinite(dmin):
        return 2e-4
    return max(2e-4, 2 * math.sqrt(1e-6 / dmin))


def min_sight(net):
    """shortest sight / observed length of the network [m] (inf if there is none)"""
    dmin = float("inf")
    P = net.points
    for cl in net.clusters:
        for o in cl.obs:
            ends = [e for e in (o.to, o.bs, o.fs) if e is not None]
            for e in ends:
                if o.frm in P and e in P:
                    a, b = P[o.frm], P[e]
                    d = math.sqrt((a.E - b.E) ** 2 + (a.N - b.N) ** 2 + ((a.H - b.H) ** 2 if net.dim == 3 else 0.0))
                    if d > 0:
                        dmin = min(dmin, d)
    return dmin


def linearisation_bound_residual_term(ref, coords, x, dmin):
    """Second part of what the stopping rule leaves open [mm]: Gauss-Newton neglects the change of the design matrix
    between the linearisation point and the solution.  With approximations off by up to sqrt(2 eps D) the coefficients
    are off by sqrt(2 eps / D) relative, and the normal equations by |Aw|' (rel |vw|) with the homogenised residuals vw:
    large residuals (a blunder kept just below tol-abs) make two runs that stopped at different points differ by
    |T N+ T'| |Aw|' rel |vw|."""
    cols = [j - 1 for j in coords]
    if not cols or ref.T is None or not math.isfinite(dmin) or dmin <= 0:
        return 0.0
    rel = math.sqrt(1e-6 / dmin)
    vw = np.abs(ref.Aw @ np.asarray(x, dtype=float) - ref.bw)
    g = np.abs(ref.Aw).T @ (rel * vw)
    Q = np.abs(ref.T @ ref.Npinv @ ref.T.T)
    return float((Q @ g)[cols].max())


def linearisation_bound(ref, coords):
    """First-order bound [mm] on what gama's stopping rule for the linearisation iterations leaves undecided in the
    adjusted coordinates: gama iterates until the linear and the non-linear adjusted observations differ by less than
    0.0005 mm (angles converted to a transverse length at the target), so each right-hand side is known to
    eps_i = 0.0005 * |coordinate gradient of row i| only; the bound is |T pinv(Aw)| |L^-1| eps, maximum over the
    coordinate unknowns `coords` (1-based)."""
    cols = [j - 1 for j in coords]
    if not cols or ref.T is None:
        return 0.0
    eps = 0.0005 * np.sqrt((ref.A[:, cols] ** 2).sum(axis=1))
    Linv = np.abs(np.linalg.inv(np.linalg.cholesky(ref.C)))
    S = np.abs(ref.T @ np.linalg.pinv(ref.Aw, rcond=1e-9))
    return float((S @ (Linv @ eps))[cols].max())


def linearisation_bound_m0(ref, coords, x):
    """the same stopping rule seen from v'Pv: d(v'Pv) <= 2 sum |vw_i| ew_i with the homogenised residuals vw and the
    homogenised eps (see linearisation_bound); returns the relative bound on sqrt(v'Pv), i.e. on the a posteriori
    reference deviation and on everything scaled by it."""
    cols = [j - 1 for j in coords]
    if not cols:
        return 0.0
    eps = 0.0005 * np.sqrt((ref.A[:, cols] ** 2).sum(axis=1))
    ew = np.abs(np.linalg.inv(np.linalg.cholesky(ref.C))) @ eps
    vw = ref.Aw @ np.asarray(x, dtype=float) - ref.bw
    ss = float(vw @ vw)
    if ss <= 0:
        return float("inf")
    return float(np.abs(vw) @ ew) / ss


def adjust_events(g):
    return [e for e in g.trace if e.get("kind") == "adjust"]


def run4(text, workdir, name, args=(), outputs=("xml",), trace=True):
    """run the same input with the four algorithms (parallel); returns {alg: GamaRun}"""
    def one(alg):
        return alg, xmlout.run_gama_local(text, workdir, "%s-%s" % (name, alg),
                                          args=["--algorithm", alg] + list(args), outputs=outputs, trace=trace)
    return dict(runner.pmap(one, ALGS, jobs=4))


def outcome(g):
    """coarse outcome class of a gama-local run"""
    if g.rr.timeout:
        return "timeout"
    if g.rr.san:
        return "sanitizer"
    if g.rr.signaled:
        return "signal"
    if g.xml is not None:
        if g.xml["kind"] == "error":
            return "error:" + str(g.xml["category"])
        return "adjusted"
    if g.xml_error:
        return "ill-formed-xml"
    return "no-xml:rc=%s" % g.rc


# ---------------------------------------------------------------------------- results in physical terms

def _axis_map(fr):
    """file axis name -> (physical axis, sign)"""
    m = {}
    for name, c in (("x", fr.axes[0]), ("y", fr.axes[1])):
        m[name] = {"n": ("N", 1.0), "s": ("N", -1.0), "e": ("E", 1.0), "w": ("E", -1.0)}[c]
    m["z"] = ("H", 1.0)
    return m


def physical_result(R, fr):
    """Normalise a parsed adjustment to the physical frame so that results of equivalent inputs can be
    compared: points {id: {E,N,H}}, residuals/stdevs as multisets keyed by observation identity,
    statistics, ellipses (semi-axes + physical azimuth of the major axis mod 200 gon), covariance of the
    adjusted coordinates keyed by ((id, axis), (id, axis))."""
    inv = {v: k for k, v in fr.idmap.items()}
    am = _axis_map(fr)
    rh = (fr.angles == "right-handed")
    out = dict(points=physical_points(R, fr), ss=R["sum_of_squares"], dof=R["dof"], defect=R["defect"],
               equations=R["equations"], unknowns=R["unknowns"], aposteriori=R["aposteriori"],
               iterations=R["iterations"], connected=R["connected"], apriori=R.get("apriori"))
    obs = {}
    for o in R["observations"]:
        tag = o["tag"]
        ang = tag in ("direction", "angle", "azimuth", "zenith-angle")
        r = o["adj"] - o["obs"]
        if ang:
            r = ((r + 200.0) % 400.0 - 200.0) * 10000.0
            if rh and tag != "zenith-angle":
                r = -r
        else:
            r *= 1000.0
        f = inv.get(o.get("from", o.get("id")), o.get("from", o.get("id")))
        t = o.get("to")
        t = inv.get(t, t) if t is not None else None
        if tag == "angle":
            key = ("angle", f, inv.get(o["left"], o["left"]), inv.get(o["right"], o["right"]))
        elif tag == "distance":
            key = ("distance",) + tuple(sorted((str(f), str(t))))
        elif tag in ("dx", "dy", "dz"):
            ax, sg = am[tag[1]]
            key = ("vec", f, t, ax)
            r *= sg
        elif tag.startswith("coordinate-"):
            ax, sg = am[tag[-1]]
            key = ("coord", f, ax)
            r *= sg
        else:
            key = (tag, f, t)
        obs.setdefault(key, []).append((r, o.get("stdev"), o.get("qrr"), o.get("f")))
    for k in obs:
        obs[k].sort(key=lambda t: (round(t[0], 3), t[1]))
    out["obs"] = obs
    ell = {}
    for pid, (a, b, alpha) in R.get("ellipses", {}).items():
        # gama's alpha is a *bearing* in the user's own terms: measured from the +x axis in the sense of the
        # user's horizontal angles (clockwise for left-handed angles).  Physical azimuth = azimuth of +x +/- alpha.
        az_x = {"n": 0.0, "e": 100.0, "s": 200.0, "w": 300.0}[fr.axes[0]]
        az = (az_x + (-1.0 if rh else 1.0) * alpha / netgen.GON) % 200.0
        ell[inv.get(pid, pid)] = (a, b, az)
    out["ellipses"] = ell
    cov = {}
    if R.get("cov_dim"):
        C = xmlout.cov_matrix(R)
        lab = xmlout.cov_labels(R)
        for i, (p1, a1) in enumerate(lab):
            if p1 == "orientation":
                continue
            for j, (p2, a2) in enumerate(lab):
                if p2 == "orientation" or j < i:
                    continue
                v = C[i, j]
                if v != v:
                    continue
                ax1, s1 = am[a1]
                ax2, s2 = am[a2]
                k1, k2 = (inv.get(p1, p1), ax1), (inv.get(p2, p2), ax2)
                if k2 < k1:
                    k1, k2 = k2, k1
                cov[(k1, k2)] = v * s1 * s2
    out["cov"] = cov
    return out


def compare_physical(A, B, tol_m=1e-7, rel=1e-6, what=("points", "obs", "stats", "ellipses", "cov"), res_tol=1e-3):
    """-> list of (field key, message) for every disagreement between two physical results."""
    bad = []
    if "stats" in what:
        for k in ("dof", "defect", "equations", "unknowns"):
            if A[k] != B[k]:
                bad.append(("stats:" + k, "%s: %s vs %s" % (k, A[k], B[k])))
        for k in ("ss", "aposteriori"):
            a, b = A[k], B[k]
            # 8 significant digits printed; v'Pv is the square of what `rel` bounds (a posteriori deviation)
            rk = 2 * rel if (k == "ss" and rel > 1e-6) else rel
            if abs(a - b) > rk * max(abs(a), abs(b)) + 1e-7 * max(abs(a), abs(b)) + 1e-12:
                bad.append(("stats:" + k, "%s: %.10g vs %.10g" % (k, a, b)))
    if "points" in what:
        if set(A["points"]) != set(B["points"]):
            bad.append(("points:set", "adjusted points differ: %s vs %s" % (sorted(set(A["points"]) ^ set(B["points"])), "")))
        else:
            for pid, d in A["points"].items():
                e = B["points"][pid]
                if set(d) != set(e):
                    bad.append(("points:components", "point %s has %s vs %s" % (pid, sorted(d), sorted(e))))
                    continue
                for k in d:
                    if abs(d[k] - e[k]) > tol_m:
                        bad.append(("points:coordinate", "point %s %s: %.9f vs %.9f (diff %.3g m)" % (pid, k, d[k], e[k], d[k] - e[k])))
    if "obs" in what:
        if set(A["obs"]) != set(B["obs"]):
            bad.append(("obs:set", "observation sets differ: %s" % sorted(set(A["obs"]) ^ set(B["obs"]), key=str)[:4]))
        else:
            for k, la in A["obs"].items():
                lb = B["obs"][k]
                if len(la) != len(lb):
                    bad.append(("obs:multiplicity", "%s: %d vs %d" % (k, len(la), len(lb))))
                    continue
                if 1 < len(la) <= 6:
                    # several observations with the same identity (e.g. a height difference levelled twice): pair them
                    # by the assignment with the smallest total difference, not by a sort order that a residual on a
                    # rounding boundary can flip
                    def _cost(p_):
                        return sum(abs(x[0] - y[0]) + abs((x[1] or 0.0) - (y[1] or 0.0)) + abs((x[2] or 0.0) - (y[2] or 0.0))
                                   for x, y in zip(la, p_))
                    lb = list(min(itertools.permutations(lb), key=_cost))
                for (ra, sa, qa, fa), (rb, sb, qb, fb) in zip(la, lb):
                    # residuals in mm/cc: 1e-7 m = 1e-4 mm; angular: printed with 16 decimals of gon
                    if abs(ra - rb) > res_tol + rel * max(abs(ra), abs(rb)):
                        bad.append(("obs:residual:" + k[0], "%s residual %.6f vs %.6f" % (k, ra, rb), k))
                    if sa is not None and sb is not None and abs(sa - sb) > 1e-6 + rel * max(abs(sa), abs(sb)):
                        bad.append(("obs:stdev:" + k[0], "%s stdev %.9g vs %.9g" % (k, sa, sb), k))
                    # qrr = 1/p - q_LL is a difference: its uncertainty follows the larger term q_LL = (stdev / m0)^2
                    # (m0: the smaller of the a priori and a posteriori reference deviation, the conservative choice)
                    m0s = [m for m in (A.get("apriori"), A.get("aposteriori")) if m]
                    qll = (max(sa or 0.0, sb or 0.0) / min(m0s)) ** 2 if m0s else 0.0
                    if qa is not None and qb is not None and abs(qa - qb) > 2e-3 + rel * (max(abs(qa), abs(qb)) + 2 * qll):
                        bad.append(("obs:qrr:" + k[0], "%s qrr %.3f vs %.3f" % (k, qa, qb), k))
                    # f = 100 (1 - stdev of the adjusted / stdev of the observed value): 3 decimals printed
                    if fa is not None and fb is not None and abs(fa - fb) > 2e-3 + 100 * max(rel, 1e-6):
                        bad.append(("obs:f:" + k[0], "%s f %.3f vs %.3f" % (k, fa, fb), k))
    if "ellipses" in what:
        for pid, (a, b, az) in A["ellipses"].items():
            if pid not in B["ellipses"]:
                bad.append(("ellipses:set", "no ellipse for %s" % pid))
                continue
            a2, b2, az2 = B["ellipses"][pid]
            sc = max(a, a2, 1e-12)
            er = max(rel, 1e-6)
            if abs(a - a2) > er * sc + 1e-9 or abs(b - b2) > er * sc + 1e-7:
                bad.append(("ellipses:axes", "%s axes (%.9g, %.9g) vs (%.9g, %.9g)" % (pid, a, b, a2, b2)))
            elif a - b > 1e-3 * sc:          # azimuth is defined only for a non-circular ellipse
                d = abs((az - az2 + 100.0) % 200.0 - 100.0)
                if d > 1e-4 * max(1.0, rel / 1e-6) * sc / max(a - b, 1e-12) + 1e-6:
                    bad.append(("ellipses:azimuth", "%s major-axis azimuth %.6f vs %.6f gon" % (pid, az, az2)))
    if "cov" in what:
        keys = set(A["cov"]) & set(B["cov"])
        if A["cov"] and B["cov"] and not keys:
            bad.append(("cov:set", "no common covariance entries"))
        scale = max([abs(v) for v in A["cov"].values()] + [1e-300])
        for k in keys:
            a, b = A["cov"][k], B["cov"][k]
            # 8 significant digits printed per entry
            if abs(a - b) > 2e-7 * max(abs(a), abs(b)) + rel * scale:
                bad.append(("cov:value", "cov%s %.9g vs %.9g" % (k, a, b)))
    return [b if len(b) == 3 else (b[0], b[1], None) for b in bad]


def correlated_obs_keys(net):
    """identity keys (as used by physical_result) of observations that sit in a cluster with a non-diagonal
    covariance matrix"""
    out = set()
    for cl in net.clusters:
        if cl.cov is None:
            continue
        C = np.array(cl.cov["C"])
        if not np.any(C - np.diag(np.diag(C))):
            continue
        for o in cl.obs:
            tag = OBS_TAG[o.kind]
            if o.kind == "angle":
                out.add(("angle", o.frm, o.bs, o.fs))
            elif o.kind == "distance":
                out.add(("distance",) + tuple(sorted((str(o.frm), str(o.to)))))
            else:
                out.add((tag, o.frm, o.to))
        for v in cl.vecs:
            for ax in "ENH":
                out.add(("vec", v[0], v[1], ax))
        for c in cl.cpoints:
            for ax in "ENH":
                out.add(("coord", c[0], ax))
    return out


# ---------------------------------------------------------------------------- reference checks on trace events

def check_adjust_event(ck, ev, tag="net"):
    """C01's defining equations evaluated with numpy on the system recorded by an `adjust` trace event.
    Returns (list of (key, message), Reference or None)."""
    P = event_problem(ev)
    if P["A"].shape[0] == 0 or P["A"].shape[1] == 0:
        return [], None
    try:
        ref = lsq.Reference(P)
    except np.linalg.LinAlgError:
        return [("%s:reference-failed" % tag, "covariance block of the event is not positive definite")], None
    alg = ev["algorithm"]
    bad = []
    if not ref.ok:
        ck.inconc("event system not admitted (rank ambiguous / scale)")
        return bad, ref
    x = np.array(ev["x"], dtype=float)
    v = np.array(ev["r"], dtype=float)
    if len(x) != ref.n or len(v) != ref.m:
        return [("%s:%s:dims" % (tag, alg), "event vectors do not match the system")], ref
    if ev["defect"] < ref.defect:
        # a dependent unknown that the solver did not recognise: everything that refers to the regularisation
        # (minimum norm, cofactors) is meaningless then, only this is reported (callers add the network class)
        bad.append(("%s:%s:defect-undercounted" % (tag, alg), "defect %d reported, n - rank = %d (kappa %.3g)" % (
            ev["defect"], ref.defect, ref.kappa)))
        return bad, ref
    if ev["defect"] != ref.defect:
        bad.append(("%s:%s:defect" % (tag, alg), "defect %d reported, n - rank = %d" % (ev["defect"], ref.defect)))
    A, b = ref.A, ref.b
    sc = float(np.max(np.abs(A) @ np.abs(x) + np.abs(b)))
    e = float(np.max(np.abs(v - (A @ x - b))))
    if ck.ratio("event v=Ax-b", e, ref.tol(sc, False)) > 1:
        bad.append(("%s:%s:v=Ax-b" % (tag, alg), "max |v-(Ax-b)| = %.3g (scale %.3g)" % (e, sc)))
    vw = ref.Aw @ x - ref.bw
    g = ref.Aw.T @ vw
    nA = np.linalg.norm(ref.Aw, 2)
    scg = nA * (nA * np.linalg.norm(x) + np.linalg.norm(ref.bw)) + 1e-300
    e = float(np.linalg.norm(g))
    if ck.ratio("event A'Pv=0", e, ref.tol(scg)) > 1:
        bad.append(("%s:%s:normal-equations" % (tag, alg), "|A'P(Ax-b)| = %.3g (scale %.3g, kappa %.3g)" % (e, scg, ref.kappa)))
    ssr = float(vw @ vw)
    e = abs(ev["pvv"] - ssr)
    if ck.ratio("event ss=v'Pv", e, ref.tol(max(ssr, float(ref.bw @ ref.bw) * 1e-6, 1e-12))) > 1:
        bad.append(("%s:%s:sum-of-squares" % (tag, alg), "reported %.12g, v'Pv = %.12g" % (ev["pvv"], ssr)))
    if ref.defect:
        if not ref.subset_ok and ref.subset_sv > 1e-10:
            # the constrained coordinates carry only a small part (but not nothing) of one datum transformation, e.g.
            # two constrained points of a small network whose rotation vector lives mostly in the orientation
            # unknowns: a weak regularisation, legitimately accepted by gama; the reference does not judge it
            ck.inconc("weakly resolving constraint subset (smallest eigenvalue of Gs'Gs between 1e-10 and 1e-3)")
        elif not ref.subset_ok:
            bad.append(("%s:%s:subset-does-not-resolve-defect" % (tag, alg),
                        "an adjustment was computed although the constrained subset does not resolve the defect %d" % ref.defect))
        else:
            t = ref.Gs.T @ x
            scx = max(np.linalg.norm(x), np.linalg.norm(ref.xp), 1e-12)
            e = float(np.linalg.norm(t))
            if ck.ratio("event minnorm", e, ref.tol(scx) * 10) > 1:
                bad.append(("%s:%s:min-norm" % (tag, alg), "corrections of the constrained coordinates are not orthogonal "
                            "to the datum transformations: |Gs'x| = %.3g, |x - x_ref| = %.3g" % (
                                e, float(np.linalg.norm(x - ref.x)))))
    return bad, ref


# ---------------------------------------------------------------------------- shared network workloads

def gen_mixed(seed, i, salt, noise=True):
    """a generated network with a random mix of features (deterministic in (seed, i, salt))"""
    rng = np.random.default_rng([seed, i, salt])
    dim = int(rng.choice([1, 2, 2, 3, 3]))
    feats = [f for f, p in (("angles", 0.5), ("azimuths", 0.3), ("cov", 0.4)) if rng.uniform() < p]
    if dim == 3:
        feats += [f for f, p in (("vectors", 0.3), ("hdiff", 0.4), ("dh-heights", 0.3)) if rng.uniform() < p]
    if dim >= 2 and rng.uniform() < 0.25:
        feats.append("coords")
    net = netgen.gen_net(rng, dim=dim, noise=noise, features=tuple(feats))
    return rng, net, feats


def solver_events_workload(ck, tier, seed, n_quick, n_thorough, salt=111):
    """C01 at the local-network entry point: every `adjust` event of gama-local runs on generated networks
    (x 4 algorithms) is checked against the defining equations."""
    n = n_thorough if tier == "thorough" else n_quick
    fr = netgen.Frame()
    jobs = []
    for i in range(n):
        rng, net, feats = gen_mixed(seed, i, salt)
        txt = netgen.to_gkf(net, fr)
        for alg in ALGS:
            jobs.append((i, net, feats, alg, txt))

    def work(job):
        i, net, feats, alg, txt = job
        return job, xmlout.run_gama_local(txt, ck.tmp, "ev%d-%s" % (i, alg), args=["--algorithm", alg], trace=True)

    for (i, net, feats, alg, txt), g in runner.pmap(work, jobs):
        wit = dict(seed=seed, index=i, alg=alg, kind=net.kind, features=feats, level="network")
        if ck.sanitizer(g.rr, wit, prefix="gama-local:"):
            continue
        if g.rr.timeout:
            ck.inconc("timeout")
            continue
        evs = adjust_events(g)
        if not evs:
            ck.inconc("no adjust event: " + outcome(g))
            continue
        for ev in evs:
            bad, ref = check_adjust_event(ck, ev, tag="network")
            for key, msg in bad:
                ck.violation(key, msg + " [%s, case %d]" % (net.kind, i), dict(wit, input=txt if len(ck.violations) < 3 else None))
            if ref is not None and ref.ok:
                ck.case(("network", alg, "singular" if ref.defect else "regular",
                         "cov" if "cov" in feats or "vectors" in feats or "coords" in feats else "diag", net.kind))
        ck.count("adjust events checked", len(evs))


def algorithms_agree(ck, tier, seed, salt=222):
    """C02 at network level: the same gama-local input with --algorithm x4."""
    n = 800 if tier == "thorough" else 40
    fr = netgen.Frame()
    items = []
    for i in range(n):
        rng, net, feats = gen_mixed(seed, i, salt)
        # a share of the inputs with removed observations (blunders beyond tol-abs)
        if i % 5 == 4:
            obs = [o for _, o in net.all_obs() if o.kind in ("distance", "s-distance", "dh")]
            if obs:
                o = obs[int(rng.integers(len(obs)))]
                o.val += 5.0
                feats = feats + ["blunder"]
        # a share with one observation held very tight (cofactor (stdev / sigma-apr)^2 of 3e-9 .. 1e-8: control
        # quantities that are meant not to move); its value is the true one, so it is consistent with the rest
        if i % 5 == 2:
            cand = [(cl, o) for cl, o in net.all_obs() if cl.cov is None and o.kind in ("distance", "s-distance", "dh")
                    and o.true is not None]
            if cand:
                cl, o = cand[int(rng.integers(len(cand)))]
                o.stdev = float(rng.uniform(5.5e-5, 1e-4)) * net.params["sigma_apr"]
                o.val = o.true
                feats = feats + ["tight-observation"]
        items.append((i, net, feats, netgen.to_gkf(net, fr)))

    def work(it):
        i, net, feats, txt = it
        return it, run4(txt, ck.tmp, "ag%d" % i, trace=False)

    for (i, net, feats, txt), runs in runner.pmap(work, items, jobs=max(1, runner.NCPU // 4)):
        wit = dict(seed=seed, index=i, kind=net.kind, features=feats, level="network")
        dead = False
        for alg, g in runs.items():
            if ck.sanitizer(g.rr, dict(wit, alg=alg), prefix="gama-local:%s:" % alg):
                dead = True
            elif g.rr.timeout:
                ck.inconc("timeout")
                dead = True
        if dead:
            continue
        ocs = {alg: outcome(g) for alg, g in runs.items()}
        ck.case(("network", net.kind, "+".join(sorted(feats)) or "plain", "adjusted" if ocs["envelope"] == "adjusted" else "refused"))
        # a very tight observation in a network with a datum defect is a class of its own (absolute pivot tolerances
        # of the normal-equation solvers): its keys carry the class
        pre = "network:tight-observation-in-singular-network" if ("tight-observation" in feats and
                                                                 ("free" in net.kind or "mixed" in net.kind)) else "network"
        if len(set(ocs.values())) != 1:
            ck.violation(pre + ":outcome:%s" % "/".join(sorted(set(o.split(":")[0] for o in ocs.values()))),
                         "algorithms disagree on the outcome: %s [%s, case %d]" % (ocs, net.kind, i), dict(wit, input=txt))
            continue
        if ocs["envelope"] != "adjusted":
            continue
        P = {alg: physical_result(g.xml, fr) for alg, g in runs.items()}
        seen = set()
        for a in range(4):
            for b in range(a + 1, 4):
                # a weight ratio of 1e8 puts the condition number of the normal equations near 1e10: the tolerance
                # follows it (C02: 'up to a tolerance proportional to the conditioning of the problem')
                bad = compare_physical(P[ALGS[a]], P[ALGS[b]], tol_m=1e-6, rel=1e-5, res_tol=1e-2) \
                    if "tight-observation" in feats else compare_physical(P[ALGS[a]], P[ALGS[b]])
                for key, msg, okey in bad:
                    k = pre + ":%s:%s-vs-%s" % (key, ALGS[a], ALGS[b])
                    if key in seen:
                        continue
                    seen.add(key)
                    ck.violation(k, msg + " [%s, case %d]" % (net.kind, i), dict(wit, input=txt if len(ck.violations) < 3 else None))
        if i < 2:
            ck.sample(dict(level="network", index=i, kind=net.kind, features=feats))


def xml_cov_against_reference(R, ev, ref, m0):
    """Compare the band-stored cov-mat of a parsed result with m0^2 Q_ref of the recorded system.
    Returns (max error/tolerance, first discrepancy message or None, number of entries compared)."""
    lab = xmlout.cov_labels(R)
    idx = {(u["id"], u["type"]): k for k, u in enumerate(ev["unknowns"])}
    oris = [k for k, u in enumerate(ev["unknowns"]) if u["type"] == "R"]
    ys = ev["y_sign"]
    order, sgn = [], []
    for (pid, ax) in lab:
        if pid == "orientation":
            order.append(oris[ax]); sgn.append(ys)
        else:
            order.append(idx[(pid, ax.upper())]); sgn.append(ys if ax == "y" else 1.0)
    order = np.array(order, dtype=int); sgn = np.array(sgn)
    C = xmlout.cov_matrix(R)
    Cref = (m0 * m0) * ref.Q[np.ix_(order, order)] * np.outer(sgn, sgn)
    mask = ~np.isnan(C)
    scale = float(np.max(np.abs(Cref))) if Cref.size else 1.0
    err = np.abs(C - Cref)
    tolm = 2e-7 * np.abs(Cref) + ref.tol(scale) * 10 + 1e-7 * scale
    ratio = float(np.max((err / np.maximum(tolm, 1e-300))[mask])) if mask.any() else 0.0
    msg = None
    if ratio > 1:
        i, j = np.argwhere(mask & (err > tolm))[0]
        msg = "cov(%s,%s): XML %.9g, m0^2 Q = %.9g" % (lab[i], lab[j], C[i, j], Cref[i, j])
    return ratio, msg, int(mask.sum()), C, [int(x) + 1 for x in order]
