"""Network-level helpers shared by the gama-local based checks: physical read-back of results, conversion of
`adjust` trace events into reference-model problems, running one input with the four algorithms."""
import math
import os
import numpy as np

from . import runner, netgen, xmlout, lsq

ALGS = ("envelope", "cholesky", "gso", "svd")

OBS_TAG = {"direction": "direction", "distance": "distance", "angle": "angle", "azimuth": "azimuth",
           "s-distance": "slope-distance", "z-angle": "zenith-angle", "dh": "height-diff"}


def physical_points(R, fr, which="adjusted"):
    """{id: dict(E,N,H)} from a parsed result (file frame -> physical frame); ids mapped back through fr.idmap."""
    inv = {v: k for k, v in fr.idmap.items()}
    out = {}
    for pid, v in R[which].items():
        kv = {k.lower(): val for k, val in v.items()}
        d = {}
        if "x" in kv:
            d["E"], d["N"] = fr.EN(kv["x"], kv["y"])
        if "z" in kv:
            d["H"] = kv["z"] - fr.shift[2]
        out[inv.get(pid, pid)] = d
    return out


def coord_errors(net, R, fr, split=False):
    """max |adjusted - true| in metres over all adjusted coordinates, and the worst point
    (split=True: (horizontal error, height error, worst id))"""
    worst, wid, wh, wv = 0.0, None, 0.0, 0.0
    P = physical_points(R, fr)
    for pid, d in P.items():
        q = net.points[pid]
        for k, t in (("E", q.E), ("N", q.N), ("H", q.H)):
            if k in d:
                e = abs(d[k] - t)
                if k == "H":
                    wv = max(wv, e)
                else:
                    wh = max(wh, e)
                if e > worst:
                    worst, wid = e, pid
    if split:
        return wh, wv, wid
    return worst, wid


def residuals(R):
    """list of (tag, from, to/other, residual in mm or cc)"""
    out = []
    for o in R["observations"]:
        ang = o["tag"] in ("direction", "angle", "azimuth", "zenith-angle")
        d = o["adj"] - o["obs"]
        if ang:
            d = (d + 200.0) % 400.0 - 200.0
            d *= 10000.0
        else:
            d *= 1000.0
        out.append((o["tag"], o.get("from", o.get("id")), o.get("to", o.get("right")), d))
    return out


def event_problem(ev):
    """`adjust` trace event -> problem dict for lsq.Reference (cofactors = cov / m0^2)."""
    m, n = ev["m"], ev["n"]
    A = np.zeros((m, n))
    for i, row in enumerate(ev["rows"]):
        for j, v in row:
            A[i, j - 1] = v
    b = np.array(ev["rhs"], dtype=float)
    blocks = []
    m0 = ev["m0_apr"]
    for bl in ev["blocks"]:
        dim, w = bl["dim"], bl["band"]
        C = np.zeros((dim, dim))
        k = 0
        for i in range(dim):
            for j in range(i, min(dim, i + w + 1)):
                C[i, j] = C[j, i] = bl["cov"][k] / (m0 * m0)
                k += 1
        blocks.append((dim, w, C))
    minx = ev["minx"] if ev["minx"] else None
    return dict(A=A, b=b, blocks=blocks, minx=minx, meta=dict(m=m, n=n))


def adjust_events(g):
    return [e for e in g.trace if e.get("kind") == "adjust"]


def run4(text, workdir, name, args=(), outputs=("xml",), trace=True):
    """run the same input with the four algorithms (parallel); returns {alg: GamaRun}"""
    def one(alg):
        return alg, xmlout.run_gama_local(text, workdir, "%s-%s" % (name, alg),
                                          args=["--algorithm", alg] + list(args), outputs=outputs, trace=trace)
    return dict(runner.pmap(one, ALGS, jobs=4))


def outcome(g):
    """coarse outcome class of a gama-local run"""
    if g.rr.timeout:
        return "timeout"
    if g.rr.san:
        return "sanitizer"
    if g.rr.signaled:
        return "signal"
    if g.xml is not None:
        if g.xml["kind"] == "error":
            return "error:" + str(g.xml["category"])
        return "adjusted"
    if g.xml_error:
        return "ill-formed-xml"
    return "no-xml:rc=%s" % g.rc
