"""Generator of local survey networks held in *physical* terms (E east, N north, H up; horizontal angles
clockwise seen from above; directions read on a circle with an arbitrary zero; azimuths from north), the
independent observation model, and the *expression* of a survey as a gama-local XML input in any of the
equivalent conventions (axes-xy x angles handedness, translation, circle zero, order, names, units).

Nothing here is derived from gama's code: observation functions follow the manual's definitions.
"""
import copy
import math
import numpy as np

GON = math.pi / 200.0
AXES_LEFT = ("ne", "sw", "es", "wn")     # left-handed coordinate systems (manual)
AXES_RIGHT = ("en", "nw", "se", "ws")
AXES_ALL = AXES_LEFT + AXES_RIGHT

ANGULAR = ("direction", "angle", "azimuth", "z-angle")
LINEAR = ("distance", "s-distance", "dh", "dx", "dy", "dz", "x", "y", "z")


class Obs:
    __slots__ = ("kind", "frm", "to", "bs", "fs", "val", "stdev", "from_dh", "to_dh", "bs_dh", "fs_dh",
                 "dist", "extern", "true", "tag")

    def __init__(self, kind, frm=None, to=None, bs=None, fs=None, val=0.0, stdev=None, **kw):
        self.kind, self.frm, self.to, self.bs, self.fs, self.val, self.stdev = kind, frm, to, bs, fs, val, stdev
        self.from_dh = kw.get("from_dh"); self.to_dh = kw.get("to_dh")
        self.bs_dh = kw.get("bs_dh"); self.fs_dh = kw.get("fs_dh")
        self.dist = kw.get("dist"); self.extern = kw.get("extern"); self.true = kw.get("true"); self.tag = kw.get("tag")

    def key(self):
        """identity of the observation independent of position in the file"""
        return (self.kind, self.frm, self.to, self.bs, self.fs)


class Cluster:
    """kind: 'obs' (station set: directions share one orientation), 'hdiff', 'coords', 'vectors'.
    cov: None (per-observation stdev) or dict(band=int, C=np.array) in units (mm or cc)^2, in the order of
    self.obs (vectors: dx,dy,dz per vec; coords: x,y[,z] per point)."""

    def __init__(self, kind, station=None):
        self.kind, self.station = kind, station
        self.obs = []
        self.cov = None
        self.zero = 0.0           # physical bearing (gon, clockwise from north) of the circle's zero reading
        self.orientation_attr = None
        self.extern = None
        self.vecs = []            # for 'vectors': list of (frm,to,dE,dN,dH, from_dh, to_dh)
        self.cpoints = []         # for 'coords': list of (id, E|None, N|None, H|None)


class Pt:
    __slots__ = ("id", "E", "N", "H", "xy", "z", "give_xy", "give_z", "dE", "dN", "dH")

    def __init__(self, id, E, N, H, xy="free", z="none", give_xy=True, give_z=True):
        self.id, self.E, self.N, self.H = id, E, N, H
        self.xy, self.z = xy, z           # 'fixed' | 'free' | 'constrained' | 'none'
        self.give_xy, self.give_z = give_xy, give_z
        self.dE = self.dN = self.dH = 0.0   # offsets of the approximate coordinates written to the file


class Net:
    def __init__(self):
        self.points = {}          # id -> Pt (insertion ordered)
        self.clusters = []
        self.params = dict(sigma_apr=10.0, conf_pr=0.95, tol_abs=1000.0, sigma_act="aposteriori")
        self.description = "generated network"
        self.dim = 2
        self.kind = ""

    def clone(self):
        return copy.deepcopy(self)

    def all_obs(self):
        for c in self.clusters:
            for o in c.obs:
                yield c, o


# ---------------------------------------------------------------------------- observation model

def bearing_gon(p, q):
    """clockwise from north, [0,400)"""
    b = math.atan2(q.E - p.E, q.N - p.N) / GON
    return b % 400.0


def model_value(net, cl, o, P=None):
    """Error-free value of observation o (physical convention) for point set P (default: true points)."""
    P = P or net.points
    k = o.kind
    if k == "direction":
        return (bearing_gon(P[o.frm], P[o.to]) - cl.zero) % 400.0
    if k == "azimuth":
        return bearing_gon(P[o.frm], P[o.to])
    if k == "angle":
        return (bearing_gon(P[o.frm], P[o.fs]) - bearing_gon(P[o.frm], P[o.bs])) % 400.0
    if k == "distance":
        return math.hypot(P[o.to].E - P[o.frm].E, P[o.to].N - P[o.frm].N)
    if k in ("s-distance", "z-angle"):
        a, b = P[o.frm], P[o.to]
        dh = (b.H + (o.to_dh or 0.0)) - (a.H + (o.from_dh or 0.0))
        d = math.hypot(b.E - a.E, b.N - a.N)
        if k == "s-distance":
            return math.sqrt(d * d + dh * dh)
        return math.atan2(d, dh) / GON      # zenith angle in (0,200)
    if k == "dh":
        return P[o.to].H - P[o.frm].H
    raise ValueError(k)


# ---------------------------------------------------------------------------- expression (serialisation)

class Frame:
    """How the physical survey is expressed in the input file."""

    def __init__(self, axes="ne", angles="left-handed", shift=(0.0, 0.0, 0.0), degrees=False,
                 idmap=None, digits=None):
        self.axes, self.angles, self.shift, self.degrees = axes, angles, shift, degrees
        self.idmap = idmap or {}
        self.digits = digits            # None: repr (exact round trip)

    # coordinate mapping physical -> file
    def xy(self, E, N):
        E += self.shift[0]; N += self.shift[1]
        def ax(c):
            return {"n": N, "s": -N, "e": E, "w": -E}[c]
        return ax(self.axes[0]), ax(self.axes[1])

    def EN(self, x, y):
        """file -> physical (inverse of xy)"""
        v = {}
        for c, val in ((self.axes[0], x), (self.axes[1], y)):
            if c == "n": v["N"] = val
            elif c == "s": v["N"] = -val
            elif c == "e": v["E"] = val
            else: v["E"] = -val
        return v["E"] - self.shift[0], v["N"] - self.shift[1]

    def dxy(self, dE, dN):
        def ax(c):
            return {"n": dN, "s": -dN, "e": dE, "w": -dE}[c]
        return ax(self.axes[0]), ax(self.axes[1])

    def z(self, H):
        return H + self.shift[2]

    def ang(self, v):
        """clockwise value -> value written in the file"""
        v = v % 400.0
        if self.angles == "right-handed":
            v = (400.0 - v) % 400.0
        return v

    def pid(self, i):
        return self.idmap.get(i, i)


def fmt(v, digits=None):
    if digits is None:
        return repr(float(v))
    return "%.*f" % (digits, v)


def esc(s):
    return (str(s).replace("&", "&amp;").replace("<", "&lt;").replace(">", "&gt;")
            .replace('"', "&quot;"))


def gon_to_dms(v, prec=9):
    """sexagesimal string d-m-s of a non-negative gon value, carrying correctly"""
    deg = v * 0.9
    total = round(deg * 3600.0, prec)
    d = int(total // 3600)
    rem = total - d * 3600
    m = int(rem // 60)
    s = rem - m * 60
    s = round(s, prec)
    if s >= 60.0:
        s -= 60.0; m += 1
    if m >= 60:
        m -= 60; d += 1
    return "%d-%02d-%s" % (d, m, ("%.*f" % (prec, s)))


def to_gkf(net, fr=None, order=None, header_extra=""):
    """Serialise.  order: optional dict(points=[ids], clusters=[indices], obs={cluster index: [indices]})."""
    fr = fr or Frame()
    order = order or {}
    D = fr.digits
    p = net.params
    out = ['<?xml version="1.0" ?>',
           '<gama-local xmlns="http://www.gnu.org/software/gama/gama-local">',
           '<network axes-xy="%s" angles="%s"%s>' % (fr.axes, fr.angles, header_extra),
           "<description>%s</description>" % esc(net.description)]
    pa = '<parameters sigma-apr="%s" conf-pr="%s" tol-abs="%s" sigma-act="%s"' % (
        fmt(p["sigma_apr"]), fmt(p["conf_pr"]), fmt(p["tol_abs"]), p["sigma_act"])
    for k in ("algorithm", "cov-band", "angular", "latitude", "ellipsoid", "language", "encoding",
              "update-constrained-coordinates"):
        if k in p:
            pa += ' %s="%s"' % (k, p[k])
    out.append(pa + " />")
    po = "<points-observations"
    for k in ("direction-stdev", "angle-stdev", "zenith-angle-stdev", "azimuth-stdev", "distance-stdev"):
        if k in p:
            po += ' %s="%s"' % (k, p[k])
    out.append(po + ">")
    ids = order.get("points") or list(net.points)
    for i in ids:
        q = net.points[i]
        s = '<point id="%s"' % esc(fr.pid(q.id))
        if q.give_xy and q.xy != "none":
            x, y = fr.xy(q.E + q.dE, q.N + q.dN)
            s += ' x="%s" y="%s"' % (fmt(x, D), fmt(y, D))
        if q.give_z and q.z != "none":
            s += ' z="%s"' % fmt(fr.z(q.H + q.dH), D)
        fix = ("xy" if q.xy == "fixed" else "") + ("z" if q.z == "fixed" else "")
        adj = ("xy" if q.xy == "free" else "XY" if q.xy == "constrained" else "") + \
              ("z" if q.z == "free" else "Z" if q.z == "constrained" else "")
        if fix:
            s += ' fix="%s"' % fix
        if adj:
            s += ' adj="%s"' % adj
        out.append(s + " />")
    cidx = order.get("clusters") or list(range(len(net.clusters)))
    for ci in cidx:
        cl = net.clusters[ci]
        oidx = (order.get("obs") or {}).get(ci) or list(range(len(cl.obs)))
        ext = ' extern="%s"' % esc(cl.extern) if cl.extern is not None else ""
        if cl.kind == "obs":
            h = "<obs"
            if cl.station is not None:
                h += ' from="%s"' % esc(fr.pid(cl.station))
            if cl.orientation_attr is not None:
                h += ' orientation="%s"' % fmt(cl.orientation_attr)
            out.append(h + ">")
            for oi in oidx:
                out.append(obs_xml(cl, cl.obs[oi], fr))
            out.append(cov_xml(cl, oidx, fr))
            out.append("</obs>")
        elif cl.kind == "hdiff":
            out.append("<height-differences>")
            for oi in oidx:
                out.append(obs_xml(cl, cl.obs[oi], fr))
            out.append(cov_xml(cl, oidx, fr))
            out.append("</height-differences>")
        elif cl.kind == "vectors":
            out.append("<vectors%s>" % ext)
            for (a, b, dE, dN, dH, fdh, tdh) in cl.vecs:
                dx, dy = fr.dxy(dE, dN)
                s = '<vec from="%s" to="%s" dx="%s" dy="%s" dz="%s"' % (
                    esc(fr.pid(a)), esc(fr.pid(b)), fmt(dx, D), fmt(dy, D), fmt(dH, D))
                if fdh is not None:
                    s += ' from_dh="%s"' % fmt(fdh)
                if tdh is not None:
                    s += ' to_dh="%s"' % fmt(tdh)
                out.append(s + " />")
            out.append(cov_xml(cl, None, fr))
            out.append("</vectors>")
        elif cl.kind == "coords":
            out.append("<coordinates%s>" % ext)
            for (i, E, N, H) in cl.cpoints:
                s = '<point id="%s"' % esc(fr.pid(i))
                if E is not None:
                    x, y = fr.xy(E, N)
                    s += ' x="%s" y="%s"' % (fmt(x, D), fmt(y, D))
                if H is not None:
                    s += ' z="%s"' % fmt(fr.z(H), D)
                out.append(s + " />")
            out.append(cov_xml(cl, None, fr))
            out.append("</coordinates>")
    out += ["</points-observations>", "</network>", "</gama-local>", ""]
    return "\n".join(l for l in out if l is not None)


def obs_xml(cl, o, fr):
    tag = {"direction": "direction", "distance": "distance", "angle": "angle", "azimuth": "azimuth",
           "s-distance": "s-distance", "z-angle": "z-angle", "dh": "dh"}[o.kind]
    s = "<" + tag
    if o.kind == "angle":
        if o.frm is not None and (cl.station is None or o.frm != cl.station or True):
            s += ' from="%s"' % esc(fr.pid(o.frm))
        s += ' bs="%s" fs="%s"' % (esc(fr.pid(o.bs)), esc(fr.pid(o.fs)))
    else:
        if o.kind != "direction" and o.frm is not None:
            s += ' from="%s"' % esc(fr.pid(o.frm))
        s += ' to="%s"' % esc(fr.pid(o.to))
    ang = o.kind in ("direction", "angle", "azimuth", "z-angle")
    if ang:
        v = o.val if o.kind == "z-angle" else fr.ang(o.val)
        if fr.degrees:
            s += ' val="%s"' % gon_to_dms(v)
        else:
            s += ' val="%s"' % fmt(v, fr.digits and max(fr.digits, 4))
    else:
        s += ' val="%s"' % fmt(o.val, fr.digits)
    if o.stdev is not None and cl.cov is None:
        sd = o.stdev * (0.324 if (ang and fr.degrees) else 1.0)
        s += ' stdev="%s"' % fmt(sd)
    for a in ("from_dh", "to_dh", "bs_dh", "fs_dh", "dist"):
        v = getattr(o, a)
        if v is not None:
            s += ' %s="%s"' % (a, fmt(v))
    if o.extern is not None:
        s += ' extern="%s"' % esc(o.extern)
    return s + " />"


def cov_xml(cl, oidx, fr):
    if cl.cov is None:
        return None
    C = np.array(cl.cov["C"], dtype=float)
    band = cl.cov["band"]
    n = C.shape[0]
    if cl.cov.get("raw"):
        # written exactly as held (used for deliberately malformed matrices)
        rows = [" ".join(fmt(C[i, j]) for j in range(i, min(n, i + band + 1))) for i in range(n)]
        return '<cov-mat dim="%d" band="%d">\n%s\n</cov-mat>' % (cl.cov.get("dim_attr", n), cl.cov.get("band_attr", band), "\n".join(rows))
    if cl.kind in ("obs", "hdiff") and oidx is not None and list(oidx) != list(range(n)):
        C = C[np.ix_(oidx, oidx)]
        nzb = [abs(i - j) for i in range(n) for j in range(n) if C[i, j] != 0.0]
        band = max(nzb) if nzb else 0      # a permuted band matrix generally has a wider band
    if cl.kind == "obs" and fr.angles == "right-handed":
        # horizontal angular values are written as 400 - v: their covariances with non-flipped observations
        # (distances, zenith angles) change sign
        sg = np.array([-1.0 if o.kind in ("direction", "angle", "azimuth") else 1.0
                       for o in (cl.obs[i] for i in (oidx or range(n)))])
        C = C * np.outer(sg, sg)
    if cl.kind == "obs" and fr.degrees:
        # angular rows/cols are in cc^2 -> arcsec^2 when values are written in degrees
        sc = np.array([0.324 if o.kind in ANGULAR else 1.0 for o in (cl.obs[i] for i in (oidx or range(n)))])
        C = C * np.outer(sc, sc)
    if cl.kind in ("vectors", "coords"):
        # C is held in physical order (E, N[, H]) per item; express it in the file's (x, y[, z]) order/signs
        J = np.zeros((n, n))
        r = 0
        items = [3] * len(cl.vecs) if cl.kind == "vectors" else \
            [(2 if c[1] is not None else 0) + (1 if c[3] is not None else 0) for c in cl.cpoints]
        has_xy = [True] * len(cl.vecs) if cl.kind == "vectors" else [c[1] is not None for c in cl.cpoints]
        for cnt, hxy in zip(items, has_xy):
            if hxy:
                ex, ey = fr.dxy(1.0, 0.0)     # image of the unit east vector
                nx, ny = fr.dxy(0.0, 1.0)     # image of the unit north vector
                J[r, r], J[r, r + 1] = ex, nx
                J[r + 1, r], J[r + 1, r + 1] = ey, ny
                if cnt == 3:
                    J[r + 2, r + 2] = 1.0
            else:
                J[r, r] = 1.0
            r += cnt
        C = J @ C @ J.T
        nzb = [abs(i - j) for i in range(n) for j in range(n) if C[i, j] != 0.0]
        band = max(nzb) if nzb else 0
    dim = cl.cov.get("dim_attr", n)
    rows = []
    for i in range(n):
        rows.append(" ".join(fmt(C[i, j]) for j in range(i, min(n, i + band + 1))))
    return '<cov-mat dim="%d" band="%d">\n%s\n</cov-mat>' % (dim, cl.cov.get("band_attr", band), "\n".join(rows))


# ---------------------------------------------------------------------------- generators

def _mk_points(rng, n, size, dim, hrange):
    pts = []
    for _ in range(2000):
        if len(pts) == n:
            break
        E, N = rng.uniform(-size / 2, size / 2, 2)
        if all(math.hypot(E - p[0], N - p[1]) > size / (3 * math.sqrt(n)) for p in pts):
            H = rng.uniform(*hrange) if dim != 2 else 0.0
            pts.append((float(E), float(N), float(H)))
    return pts


def rand_cov(rng, sd, band):
    """SPD banded covariance with the given standard deviations (exact band, well conditioned)."""
    n = len(sd)
    L = np.zeros((n, n))
    for i in range(n):
        L[i, i] = 1.0
        for j in range(max(0, i - band), i):
            L[i, j] = rng.uniform(-0.4, 0.4) / max(1.0, band ** 0.5)
    R = L @ L.T
    d = np.sqrt(np.diag(R))
    R = R / np.outer(d, d)
    return R * np.outer(sd, sd)


def gen_net(rng, dim=None, datum=None, noise=True, features=()):
    """A determined network with redundant observations.
    dim: 1 (levelling), 2, 3.  datum: 'fixed' | 'free' (constrained points only) | 'mixed'.
    features: subset of {'angles','azimuths','cov','vectors','coords','hdiff','dh-heights'}."""
    dim = dim or int(rng.choice([1, 2, 2, 3]))
    datum = datum or str(rng.choice(["fixed", "fixed", "free", "mixed"]))
    net = Net()
    net.dim = dim
    net.kind = "%dd-%s" % (dim, datum)
    n = int(rng.integers(4, 9))
    size = float(10 ** rng.uniform(2, 3.5))
    pts = _mk_points(rng, n, size, dim, (-size / 20, size / 20))
    n = len(pts)
    ids = ["P%d" % (i + 1) for i in range(n)]
    nfix = {"fixed": int(rng.integers(2, 4)), "mixed": 2, "free": 0}[datum]
    for i, (E, N, H) in enumerate(pts):
        if dim == 1:
            xy, z = "none", ("fixed" if i < max(1, nfix - 1) and datum != "free" else "free")
        else:
            xy = "fixed" if i < nfix else "free"
            z = "none" if dim == 2 else ("fixed" if i < nfix else "free")
        net.points[ids[i]] = Pt(ids[i], E, N, H, xy, z)
    if datum == "free" or datum == "mixed":
        free = [q for q in net.points.values() if (q.xy == "free" or q.z == "free")]
        k = len(free) if datum == "free" and rng.uniform() < 0.4 else int(rng.integers(max(2, (len(free) + 1) // 2), len(free) + 1))
        for q in rng.permutation(free)[:k]:
            if q.xy == "free":
                q.xy = "constrained"
            if q.z == "free":
                q.z = "constrained"
    net.params["sigma_apr"] = float(rng.choice([1.0, 5.0, 10.0, 2.5]))
    sd_dir, sd_dist, sd_z = float(rng.choice([5.0, 10.0, 20.0])), float(rng.choice([2.0, 5.0, 10.0])), float(rng.choice([10.0, 20.0]))
    P = net.points
    if dim == 1:
        _levelling(rng, net, ids, features)
    else:
        # every point is a station observing (almost) all others: strongly determined and redundant
        for s in ids:
            others = [t for t in ids if t != s]
            k = int(rng.integers(max(2, len(others) - 2), len(others) + 1))
            targets = [str(t) for t in rng.permutation(others)[:k]]
            cl = Cluster("obs", s)
            cl.zero = float(rng.uniform(0, 400))
            for t in targets:
                cl.obs.append(Obs("direction", s, t, stdev=sd_dir))
            for t in targets:
                if rng.uniform() < 0.7:
                    if dim == 3 and rng.uniform() < 0.6:
                        cl.obs.append(Obs("s-distance", s, t, stdev=sd_dist))
                    else:
                        cl.obs.append(Obs("distance", s, t, stdev=sd_dist))
            if dim == 3:
                for t in targets:
                    if rng.uniform() < 0.8:
                        cl.obs.append(Obs("z-angle", s, t, stdev=sd_z))
            if "angles" in features and len(targets) >= 2 and rng.uniform() < 0.7:
                a, b = targets[0], targets[1]
                cl.obs.append(Obs("angle", s, bs=a, fs=b, stdev=sd_dir * 1.4))
            if "azimuths" in features and rng.uniform() < 0.5:
                cl.obs.append(Obs("azimuth", s, targets[-1], stdev=sd_dir * 2))
            net.clusters.append(cl)
        if dim == 3 and ("hdiff" in features or rng.uniform() < 0.3):
            _levelling(rng, net, ids, features, partial=True)
        if "dh-heights" in features and dim == 3:
            for cl, o in net.all_obs():
                if o.kind in ("s-distance", "z-angle") and rng.uniform() < 0.7:
                    o.from_dh = round(float(rng.uniform(1.2, 1.8)), 3)
                    o.to_dh = round(float(rng.uniform(0.0, 2.5)), 3)
    if "vectors" in features and dim == 3:
        cl = Cluster("vectors")
        k = int(rng.integers(1, 4))
        for _ in range(k):
            a, b = [str(x) for x in rng.choice(ids, 2, replace=False)]
            cl.vecs.append([a, b, P[b].E - P[a].E, P[b].N - P[a].N, P[b].H - P[a].H, None, None])
        sd = np.full(3 * k, 5.0)
        cl.cov = dict(band=int(rng.integers(0, 3 * k)), C=None)
        cl.cov["C"] = rand_cov(rng, sd, cl.cov["band"])
        net.clusters.append(cl)
    if "coords" in features and dim >= 2:
        cl = Cluster("coords")
        cand = [q for q in P.values() if q.xy in ("free", "constrained")]
        for q in cand[:int(rng.integers(1, 3))]:
            cl.cpoints.append([q.id, q.E, q.N, q.H if (dim == 3 and q.z in ("free", "constrained")) else None])
        ncoord = sum(2 + (1 if c[3] is not None else 0) for c in cl.cpoints)
        if ncoord:
            cl.cov = dict(band=int(rng.integers(0, ncoord)), C=None)
            cl.cov["C"] = rand_cov(rng, np.full(ncoord, 8.0), cl.cov["band"])
            net.clusters.append(cl)
    # values
    for cl, o in net.all_obs():
        o.true = model_value(net, cl, o)
        o.val = o.true
    if "cov" in features:
        for cl in net.clusters:
            if cl.kind in ("obs", "hdiff") and len(cl.obs) >= 2 and rng.uniform() < 0.6:
                sd = np.array([o.stdev for o in cl.obs])
                band = int(rng.integers(0, min(len(sd) - 1, 4) + 1))
                cl.cov = dict(band=band, C=rand_cov(rng, sd, band))
    if noise:
        add_noise(rng, net)
    return net


def _levelling(rng, net, ids, features, partial=False):
    P = net.points
    cl = Cluster("hdiff")
    pairs = []
    for i in range(len(ids)):
        pairs.append((ids[i], ids[(i + 1) % len(ids)]))
    for _ in range(len(ids)):
        a, b = [str(x) for x in rng.choice(ids, 2, replace=False)]
        pairs.append((a, b))
    if partial:
        pairs = pairs[:max(3, len(pairs) // 2)]
    for a, b in pairs:
        if P[a].z == "none" or P[b].z == "none":
            continue
        d = math.hypot(P[a].E - P[b].E, P[a].N - P[b].N) / 1000.0
        o = Obs("dh", a, b, stdev=float(rng.choice([1.0, 2.0, 3.0])))
        if rng.uniform() < 0.3:
            o.dist = round(max(d, 0.05), 3)
        cl.obs.append(o)
    if cl.obs:
        net.clusters.append(cl)


def add_noise(rng, net, scale=1.0):
    """Adds noise consistent with the stated covariance (so that the a posteriori m0 is ~ sigma_apr-scaled)."""
    for cl in net.clusters:
        if cl.kind in ("obs", "hdiff"):
            n = len(cl.obs)
            if cl.cov is not None:
                e = np.linalg.cholesky(np.array(cl.cov["C"])) @ rng.standard_normal(n)
            else:
                e = np.array([o.stdev for o in cl.obs]) * rng.standard_normal(n)
            for o, ei in zip(cl.obs, e * scale):
                o.val = o.true + (ei / 10000.0 if o.kind in ANGULAR else ei / 1000.0)
                if o.kind in ("direction", "angle", "azimuth"):
                    o.val %= 400.0
        elif cl.kind == "vectors":
            C = np.array(cl.cov["C"])
            e = np.linalg.cholesky(C) @ rng.standard_normal(C.shape[0]) * scale / 1000.0
            for k, v in enumerate(cl.vecs):
                v[2] += e[3 * k]; v[3] += e[3 * k + 1]; v[4] += e[3 * k + 2]
        elif cl.kind == "coords":
            C = np.array(cl.cov["C"])
            e = list(np.linalg.cholesky(C) @ rng.standard_normal(C.shape[0]) * scale / 1000.0)
            for c in cl.cpoints:
                if c[1] is not None:
                    c[1] += e.pop(0); c[2] += e.pop(0)
                if c[3] is not None:
                    c[3] += e.pop(0)
