"""Independent reader of gama-local's adjustment XML (python expat via ElementTree), and helpers to run the
real gama-local binary (sanitizer build) in a private temp directory."""
import os
import re
import xml.etree.ElementTree as ET

from . import runner

NS = "{http://www.gnu.org/software/gama/gama-local-adjustment}"


def _t(e):
    return e.tag.replace(NS, "")


def _f(e, name, conv=float, default=None):
    x = e.find(NS + name)
    if x is None or x.text is None:
        return default
    return conv(x.text.strip())


class ParseFailure(Exception):
    pass


def parse_adjustment(text):
    """-> dict.  kind: 'adjustment' | 'error'.  Raises ParseFailure when not well-formed."""
    try:
        root = ET.fromstring(text)
    except ET.ParseError as e:
        raise ParseFailure(str(e))
    if _t(root) != "gama-local-adjustment":
        raise ParseFailure("root element is " + _t(root))
    err = root.find(NS + "error")
    if err is not None:
        return dict(kind="error", category=err.get("category"),
                    descriptions=[d.text or "" for d in err.findall(NS + "description")],
                    line=_f(err, "lineNumber", int))
    R = dict(kind="adjustment")
    d = root.find(NS + "description")
    R["description"] = d.text if d is not None else None
    g = root.find(NS + "network-general-parameters")
    R["general"] = dict(g.attrib) if g is not None else {}
    s = root.find(NS + "network-processing-summary")
    if s is not None:
        cs = {}
        for grp in s.find(NS + "coordinates-summary"):
            cs[_t(grp).replace("coordinates-summary-", "")] = {_t(c): int(c.text) for c in grp}
        R["coordinates_summary"] = cs
        R["observations_summary"] = {_t(c): int(c.text) for c in s.find(NS + "observations-summary")}
        pe = s.find(NS + "project-equations")
        R["equations"] = _f(pe, "equations", int)
        R["unknowns"] = _f(pe, "unknowns", int)
        R["dof"] = _f(pe, "degrees-of-freedom", int)
        R["defect"] = _f(pe, "defect", int)
        R["sum_of_squares"] = _f(pe, "sum-of-squares")
        R["iterations"] = _f(pe, "linearization-iterations", int, 0)
        R["connected"] = pe.find(NS + "connected-network") is not None
        sd = s.find(NS + "standard-deviation")
        R["apriori"] = _f(sd, "apriori")
        R["aposteriori"] = _f(sd, "aposteriori")
        R["used"] = _f(sd, "used", str)
        R["probability"] = _f(sd, "probability")
        R["ratio"] = _f(sd, "ratio")
        R["lower"] = _f(sd, "lower")
        R["upper"] = _f(sd, "upper")
        R["test"] = "passed" if sd.find(NS + "passed") is not None else (
            "failed" if sd.find(NS + "failed") is not None else "na")
        R["confidence_scale"] = _f(sd, "confidence-scale")
    c = root.find(NS + "coordinates")
    R["fixed"], R["approximate"], R["adjusted"] = {}, {}, {}
    R["adjusted_order"] = []
    if c is not None:
        for name in ("fixed", "approximate", "adjusted"):
            sec = c.find(NS + name)
            if sec is None:
                continue
            for p in sec.findall(NS + "point"):
                pid = p.find(NS + "id").text
                pid = pid if pid is not None else ""
                vals = {}
                for ch in p:
                    if _t(ch) != "id":
                        vals[_t(ch)] = float(ch.text)
                R[name][pid] = vals
                if name == "adjusted":
                    R["adjusted_order"].append(pid)
        R["ellipses"] = {}
        el = c.find(NS + "std-error-ellipses")
        if el is not None:
            for e in el.findall(NS + "ellipse"):
                R["ellipses"][e.find(NS + "id").text or ""] = (
                    _f(e, "major"), _f(e, "minor"), _f(e, "alpha"))
        R["orientations"] = []
        osx = c.find(NS + "orientation-shifts")
        if osx is not None:
            for o in osx.findall(NS + "orientation"):
                R["orientations"].append((o.find(NS + "id").text or "", _f(o, "approx"), _f(o, "adj")))
        cm = c.find(NS + "cov-mat")
        if cm is not None:
            R["cov_dim"] = _f(cm, "dim", int)
            R["cov_band"] = _f(cm, "band", int)
            R["cov_flt"] = [float(x.text) for x in cm.findall(NS + "flt")]
        oi = c.find(NS + "original-index")
        R["original_index"] = [int(x.text) for x in oi.findall(NS + "ind")] if oi is not None else []
    R["observations"] = []
    ob = root.find(NS + "observations")
    if ob is not None:
        for o in ob:
            d = dict(tag=_t(o), extern=o.get("extern"))
            for ch in o:
                k = _t(ch)
                if k in ("from", "to", "left", "right", "id"):
                    d[k] = ch.text if ch.text is not None else ""
                else:
                    d[k] = float(ch.text)
            R["observations"].append(d)
    return R


def cov_matrix(R):
    """Expand the band-stored cov-mat to a dense (dim x dim) array with NaN outside the band."""
    import numpy as np
    n, b = R["cov_dim"], R["cov_band"]
    C = np.full((n, n), np.nan)
    k = 0
    for i in range(n):
        for j in range(i, min(n, i + b + 1)):
            C[i, j] = C[j, i] = R["cov_flt"][k]
            k += 1
    if k != len(R["cov_flt"]):
        raise ParseFailure("cov-mat holds %d values, dim/band imply %d" % (len(R["cov_flt"]), k))
    return C


def cov_labels(R):
    """[(point id, 'x'|'y'|'z') ...] + [('orientation', k)] in the order of the cov-mat rows."""
    lab = []
    for pid in R["adjusted_order"]:
        v = R["adjusted"][pid]
        keys = [k.lower() for k in v]
        if "x" in keys:
            lab += [(pid, "x"), (pid, "y")]
        if "z" in keys:
            lab.append((pid, "z"))
    for k, o in enumerate(R["orientations"]):
        lab.append(("orientation", k))
    return lab


class GamaRun:
    pass


def run_gama_local(text, workdir, name, args=(), outputs=("xml",), trace=False, timeout=120, stdin_input=False,
                   extra_env=None, flavour="san"):
    """Runs gama-local on `text` inside workdir (unique `name`).  Returns GamaRun with rc, out, err, files{}, rr."""
    exe = runner.binpath(flavour, "gama-local")
    os.makedirs(workdir, exist_ok=True)
    inp = os.path.join(workdir, name + ".gkf")
    mode = "wb" if isinstance(text, bytes) else "w"
    with open(inp, mode) as f:
        f.write(text)
    cmd = [exe, "-" if stdin_input else inp]
    files = {}
    for o in outputs:
        p = os.path.join(workdir, "%s.out.%s" % (name, o))
        if os.path.exists(p):
            os.unlink(p)
        files[o] = p
        cmd += ["--" + o, p]
    cmd += list(args)
    env = dict(extra_env or {})
    tr = None
    if trace:
        tr = os.path.join(workdir, name + ".trace")
        if os.path.exists(tr):
            os.unlink(tr)
        env["GAMA_VERIF_TRACE"] = tr
    rr = runner.run(cmd, timeout=timeout, cwd=workdir, env=env,
                    stdin=(text if stdin_input else None), text=not isinstance(text, bytes))
    g = GamaRun()
    g.rr, g.rc, g.out, g.err, g.cmd, g.input = rr, rr.rc, rr.out, rr.err, cmd, inp
    g.files = {}
    for o, p in files.items():
        if os.path.exists(p):
            with open(p, "rb") as f:
                g.files[o] = f.read()
    g.trace = []
    if tr and os.path.exists(tr):
        import json
        with open(tr) as f:
            for line in f:
                line = line.strip()
                if line:
                    try:
                        g.trace.append(json.loads(line))
                    except ValueError:
                        g.trace.append(dict(kind="unparsable", raw=line[:200]))
    g.xml = None
    g.xml_error = None
    if "xml" in g.files:
        try:
            g.xml = parse_adjustment(g.files["xml"].decode("utf-8", errors="replace"))
        except ParseFailure as e:
            g.xml_error = str(e)
    return g
