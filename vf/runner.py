"""Shared runner: builds, subprocess execution under sanitizers, verdicts,
known findings, evidence.  Used by every property module (vf/props/Cxx.py).

Exit codes of a check:  0 held (only KNOWN-FINDING lines at most),
1 violation (prints VIOLATION property=<id> replay=<path>), 2 harness failure /
inconclusive (did not observe enough).
"""
import fcntl
import hashlib
import json
import os
import re
import shutil
import subprocess
import sys
import tempfile
import time
import concurrent.futures as cf

ROOT = os.path.dirname(os.path.dirname(os.path.abspath(__file__)))
REPO = os.environ.get("VERIF_REPO", "/repo")
GUARD = "GAMA_VERIF"
NCPU = int(os.environ.get("VERIF_JOBS", str(os.cpu_count() or 4)))
PYVT = shutil.which("python3-vt") or "/opt/veriftools/pyvenv/bin/python"

FLAVOURS = {
    "san": dict(
        cxx="g++", cc="gcc",
        # pointer-overflow is switched off: matvec uses the 1-based `begin()-1` idiom everywhere; a pointer
        # that is formed but never dereferenced is not what any property forbids (see DESIGN.md)
        flags="-O1 -g1 -fno-omit-frame-pointer -fsanitize=address,undefined,float-cast-overflow "
              "-fno-sanitize=pointer-overflow -fno-sanitize-recover=all -D%s" % GUARD, fuzz=False),
    "plain": dict(cxx="g++", cc="gcc", flags="-O1 -g1 -D%s" % GUARD, fuzz=False),
    "fuzz": dict(
        cxx="clang++-14", cc="clang-14",
        # pointer-overflow off for the same reason as in `san` (libFuzzer would stop at the first valid adjustment)
        flags="-O1 -g -fno-omit-frame-pointer -fsanitize=fuzzer-no-link,address,undefined "
              "-fno-sanitize=object-size,pointer-overflow -fno-sanitize-recover=all -D%s" % GUARD, fuzz=True),
}

SAN_ENV = {
    "ASAN_OPTIONS": "abort_on_error=0:exitcode=99:detect_leaks=0:allocator_may_return_null=1:"
                    "alloc_dealloc_mismatch=1:detect_stack_use_after_return=0:handle_abort=1",
    "UBSAN_OPTIONS": "print_stacktrace=1:halt_on_error=1:exitcode=98",
}


def build_dir(flavour):
    tag = "" if REPO == "/repo" else "-" + hashlib.sha1(REPO.encode()).hexdigest()[:8]
    base = os.environ.get("VERIF_BUILD_ROOT", os.path.join(ROOT, ".build"))
    return os.path.join(base, flavour + tag)


def build(flavour="san", targets=("verif_all",), quiet=True):
    """(Re)build the drivers and the real binaries from REPO's working tree."""
    f = FLAVOURS[flavour]
    bd = build_dir(flavour)
    os.makedirs(bd, exist_ok=True)
    lock = open(os.path.join(bd, ".lock"), "w")
    fcntl.flock(lock, fcntl.LOCK_EX)
    try:
        t0 = time.time()
        if not os.path.exists(os.path.join(bd, "build.ninja")):
            cmd = ["cmake", "-G", "Ninja", "-S", os.path.join(ROOT, "harness"), "-B", bd,
                   "-DCMAKE_BUILD_TYPE=None",
                   "-DGAMA_REPO=" + REPO,
                   "-DCMAKE_CXX_COMPILER=" + f["cxx"], "-DCMAKE_C_COMPILER=" + f["cc"],
                   "-DCMAKE_CXX_FLAGS=" + f["flags"], "-DCMAKE_C_FLAGS=" + f["flags"],
                   "-DVERIF_FUZZ=" + ("ON" if f["fuzz"] else "OFF")]
            r = subprocess.run(cmd, stdout=subprocess.PIPE, stderr=subprocess.STDOUT, text=True)
            if r.returncode != 0:
                sys.stderr.write(r.stdout)
                raise HarnessError("cmake configure failed")
        cmd = ["cmake", "--build", bd, "-j", str(NCPU), "--target"] + list(targets)
        r = subprocess.run(cmd, stdout=subprocess.PIPE, stderr=subprocess.STDOUT, text=True)
        if r.returncode != 0:
            sys.stderr.write(r.stdout[-8000:])
            raise HarnessError("build failed (flavour %s)" % flavour)
        if not quiet:
            print("[build %s] %.1fs" % (flavour, time.time() - t0))
    finally:
        fcntl.flock(lock, fcntl.LOCK_UN)
        lock.close()
    return bd


def binpath(flavour, name):
    bd = build_dir(flavour)
    for p in (os.path.join(bd, name), os.path.join(bd, "gama", name)):
        if os.path.exists(p):
            return p
    raise HarnessError("binary %s not found in %s" % (name, bd))


class HarnessError(Exception):
    pass


# ---------------------------------------------------------------------------
# subprocess execution and sanitizer-report parsing

_FRAME = re.compile(r"#\d+ 0x[0-9a-f]+ in (.+?) (/[^\s:]+)(?::(\d+))?")


def parse_sanitizer(stderr):
    """Return None or dict(kind, frames=[(func,file)], key) for the first report."""
    kind = None
    m = re.search(r"ERROR: AddressSanitizer: ([\w-]+)", stderr)
    if m:
        kind = "asan:" + m.group(1)
    else:
        m = re.search(r"^(\S+?):(\d+):(\d+): runtime error: (.*)$", stderr, re.M)
        if m:
            msg = m.group(4)
            msg = re.sub(r"-?\d[\d.e+\-]*", "N", msg)
            msg = re.sub(r"0x[0-9a-f]+", "P", msg)
            kind = "ubsan:" + msg[:70]
        elif "ERROR: LeakSanitizer" in stderr:
            kind = "lsan:leak"
        elif "AddressSanitizer:DEADLYSIGNAL" in stderr or "AddressSanitizer: SEGV" in stderr:
            kind = "asan:SEGV"
    if not kind:
        return None
    frames = []
    for fm in _FRAME.finditer(stderr):
        func, path = fm.group(1), fm.group(2)
        if "/lib/" in path or "/src/" in path or "/harness/" in path:
            if "/usr/" in path or "libsanitizer" in path:
                continue
            func = re.sub(r"\(.*", "", func)
            func = re.sub(r"<.*?>", "", func)
            rel = path.split("/lib/")[-1] if "/lib/" in path else os.path.basename(path)
            if "/harness/" in path:
                continue
            frames.append((func.strip(), rel))
        if len(frames) >= 3:
            break
    loc = ""
    if kind.startswith("ubsan") and m:
        p = m.group(1)
        loc = "@" + (p.split("/lib/")[-1] if "/lib/" in p else os.path.basename(p))
    key = kind + loc + "|" + ">".join(f for f, _ in frames[:3])
    return dict(kind=kind, frames=frames, key=key)


class RunResult:
    __slots__ = ("rc", "out", "err", "timeout", "san", "wall")

    def __init__(self, rc, out, err, timeout, wall):
        self.rc, self.out, self.err, self.timeout, self.wall = rc, out, err, timeout, wall
        self.san = parse_sanitizer(err) if err else None

    @property
    def signaled(self):
        return self.rc is not None and self.rc < 0


def run(cmd, stdin=None, timeout=120, cwd=None, env=None, text=True, san_extra=None):
    e = dict(os.environ)
    e.update(SAN_ENV)
    if san_extra:
        e["ASAN_OPTIONS"] = e["ASAN_OPTIONS"] + ":" + san_extra
    e.pop("GAMA_VERIF_TRACE", None)
    if env:
        e.update(env)
    t0 = time.time()
    try:
        p = subprocess.run(cmd, input=stdin, stdout=subprocess.PIPE, stderr=subprocess.PIPE,
                           timeout=timeout, cwd=cwd, env=e, text=text,
                           errors="replace" if text else None)
        return RunResult(p.returncode, p.stdout, p.stderr, False, time.time() - t0)
    except subprocess.TimeoutExpired as ex:
        out = ex.stdout or ("" if text else b"")
        err = ex.stderr or ("" if text else b"")
        if text and isinstance(out, bytes):
            out = out.decode(errors="replace")
        if text and isinstance(err, bytes):
            err = err.decode(errors="replace")
        return RunResult(None, out, err, True, time.time() - t0)


def pmap(fn, items, jobs=None):
    """Parallel map with threads (work is in subprocesses). Preserves order."""
    jobs = jobs or NCPU
    items = list(items)
    if jobs <= 1 or len(items) <= 1:
        return [fn(x) for x in items]
    with cf.ThreadPoolExecutor(max_workers=jobs) as ex:
        return list(ex.map(fn, items))


def pmap_proc(fn, items, jobs=None):
    """Parallel map with processes (for CPU-bound python oracles). fn must be picklable."""
    jobs = jobs or NCPU
    items = list(items)
    if jobs <= 1 or len(items) <= 1:
        return [fn(x) for x in items]
    with cf.ProcessPoolExecutor(max_workers=jobs) as ex:
        return list(ex.map(fn, items, chunksize=max(1, len(items) // (jobs * 8))))


# ---------------------------------------------------------------------------
# known findings

def load_known():
    p = os.path.join(ROOT, "known_findings.json")
    if not os.path.exists(p):
        return []
    with open(p) as f:
        d = json.load(f)
    return d.get("findings", [])


# ---------------------------------------------------------------------------
# the check object

class Check:
    def __init__(self, prop, tier, seed, rule, level="exploration"):
        self.prop, self.tier, self.seed, self.rule, self.level = prop, tier, int(seed), rule, level
        self.t0 = time.time()
        self.evaluations = 0
        self.classes = {}          # class key -> count (distinct non-trivial classes)
        self.samples = []
        self.violations = []       # dict(key, what, witness)
        self.inconclusive = {}     # reason -> count
        self.counters = {}         # free-form measured counters
        self.assumptions = []
        self.maxratio = {}         # name -> max(error/tolerance) observed
        self.minimum = dict(evaluations=1, distinct=2)
        self.known = [k for k in load_known() if k.get("property") == prop]
        self.tmp = tempfile.mkdtemp(prefix="verif-%s-" % prop, dir=os.environ.get("VERIF_TMP"))
        # runs against a scratch copy of the repository (mutant self-tests) must not clobber evidence / replays
        self.out_root = ROOT if REPO == "/repo" else os.environ.get("VERIF_SCRATCH_OUT", "/tmp/verif-scratch-out")
        self.replay_dir = os.path.join(self.out_root, "replay", prop)

    # -- recording
    def case(self, cls=None, n=1):
        self.evaluations += n
        if cls is not None:
            k = cls if isinstance(cls, str) else "/".join(str(c) for c in cls)
            self.classes[k] = self.classes.get(k, 0) + n

    def cls(self, cls, n=1):
        k = cls if isinstance(cls, str) else "/".join(str(c) for c in cls)
        self.classes[k] = self.classes.get(k, 0) + n

    def sample(self, s, limit=6):
        if len(self.samples) < limit:
            self.samples.append(s)

    def count(self, name, n=1):
        self.counters[name] = self.counters.get(name, 0) + n

    def ratio(self, name, err, tol):
        r = float(err) / tol if tol > 0 else (0.0 if err == 0 else float("inf"))
        if r > self.maxratio.get(name, 0.0):
            self.maxratio[name] = r
        return r

    def inconc(self, reason, n=1):
        self.inconclusive[reason] = self.inconclusive.get(reason, 0) + n

    def violation(self, key, what, witness=None):
        """key: stable, specific identifier of *this* violation (used for known-findings matching)."""
        self.violations.append(dict(key=key, what=what, witness=witness))

    def sanitizer(self, rr, witness, prefix=""):
        """Route a RunResult's sanitizer report / crash / hang through the violation machinery.
        Returns True if something was reported."""
        if rr.san:
            self.violation(prefix + rr.san["key"], "sanitizer report " + rr.san["kind"], witness)
            return True
        if rr.timeout:
            return False
        if rr.signaled or rr.rc in (134, 139):
            tail = (rr.err or "")[-300:] if isinstance(rr.err, str) else ""
            m = re.search(r"terminate called after throwing an instance of '([^']+)'", rr.err or "") \
                if isinstance(rr.err, str) else None
            k = "abort:" + (m.group(1) if m else "signal%s" % rr.rc)
            self.violation(prefix + k, "abnormal termination rc=%s %s" % (rr.rc, tail), witness)
            return True
        return False

    # -- finishing
    def _match_known(self, v):
        for k in self.known:
            if "key" in k and k["key"] == v["key"]:
                return k
            if "key_regex" in k and re.fullmatch(k["key_regex"], v["key"]):
                return k
        return None

    def finish(self):
        wall = time.time() - self.t0
        new, known_hit = [], {}
        for v in self.violations:
            k = self._match_known(v)
            if k is not None:
                kid = k.get("key") or k.get("key_regex")
                known_hit.setdefault(kid, [k, 0])[1] += 1
            else:
                new.append(v)
        # dedupe new by key
        seen, uniq = set(), []
        for v in new:
            if v["key"] not in seen:
                seen.add(v["key"])
                uniq.append(v)
        replay_paths = []
        if uniq:
            os.makedirs(self.replay_dir, exist_ok=True)
            for i, v in enumerate(uniq[:20]):
                name = re.sub(r"[^A-Za-z0-9_.-]+", "_", v["key"])[:80]
                p = os.path.join(self.replay_dir, "%s-seed%d-%s.json" % (self.tier, self.seed, name))
                with open(p, "w") as f:
                    json.dump(dict(property=self.prop, tier=self.tier, seed=self.seed, **v), f, indent=1,
                              default=str)
                replay_paths.append(p)
        distinct = len(self.classes)
        ev = dict(
            property_id=self.prop, tier=self.tier, seed=self.seed, level=self.level,
            coverage=dict(
                evaluations=self.evaluations, distinct_nontrivial=distinct, rule=self.rule,
                samples=self.samples, classes=dict(sorted(self.classes.items())[:400]),
                counters=self.counters, max_error_over_tolerance=self.maxratio,
                inconclusive=self.inconclusive,
                known_findings_observed={k: c for k, (_, c) in known_hit.items()},
                new_violation_keys=[v["key"] for v in uniq][:50],
                repo=REPO,
            ),
            assumptions=self.assumptions, wall_s=round(wall, 2),
            violations=len(uniq) + sum(c for _, c in known_hit.values()),
        )
        os.makedirs(os.path.join(self.out_root, "evidence"), exist_ok=True)
        evp = os.path.join(self.out_root, "evidence", self.prop + ".json")
        tmp = evp + ".tmp%d" % os.getpid()
        with open(tmp, "w") as f:
            json.dump(ev, f, indent=1, default=str)
        os.replace(tmp, evp)
        if not os.environ.get("VERIF_KEEP_TMP"):
            shutil.rmtree(self.tmp, ignore_errors=True)

        for kid, (k, c) in known_hit.items():
            print("KNOWN-FINDING: property=%s %s [key=%s, seen %d×]" % (self.prop, k.get("what", ""), kid, c))
        print("[%s %s seed=%d] evaluations=%d classes=%d violations(new)=%d known=%d inconclusive=%s "
              "maxratio=%s wall=%.1fs" % (
                  self.prop, self.tier, self.seed, self.evaluations, distinct, len(uniq),
                  len(known_hit), dict(self.inconclusive),
                  {k: float("%.3g" % v) for k, v in self.maxratio.items()}, wall))
        if uniq:
            for v, p in zip(uniq, replay_paths):
                print("  violation key=%s : %s" % (v["key"], str(v["what"])[:300]))
            for p in replay_paths:
                print("VIOLATION property=%s replay=%s" % (self.prop, p))
            return 1
        if self.evaluations < self.minimum["evaluations"] or distinct < self.minimum["distinct"]:
            print("INCONCLUSIVE: observed too little (evaluations=%d, classes=%d; required %s)" % (
                self.evaluations, distinct, self.minimum))
            return 2
        for name, need in self.minimum.items():
            if name in ("evaluations", "distinct"):
                continue
            if self.counters.get(name, 0) < need:
                print("INCONCLUSIVE: counter %s=%d < %d" % (name, self.counters.get(name, 0), need))
                return 2
        return 0


def tier_n(tier, quick, thorough):
    return thorough if tier == "thorough" else quick
