"""C13 — the file written by --export is a valid input describing the same survey, re-adjusting it reproduces
the adjustment without further linearisation iterations, and exporting again is a fixed point.

Relational monitor over chains of runs of the real (sanitized) gama-local:

    in0 (netgen)  --adjust/export-->  in1  --adjust/export-->  in2  --adjust/export-->  in3  --adjust--> out3

Oracles (all independent of gama's export code):
  * an ElementTree reader of the gkf *text* written from the manual's semantics (`read_gkf`) — the primary
    model of an input file;
  * gama's own GKFparser (harness/modeldrv.cpp dumps the parsed LocalNetwork) — second view of the same file;
    the two views are cross-checked on every file (a disagreement is a parser defect or a reader bug);
  * the adjustment XMLs of consecutive rounds compared in physical terms (netlevel.compare_physical).

Relations, rounds k = 0, 1, 2:
  (a) in_{k+1} is well-formed XML, valid w.r.t. the documented elements/attributes, accepted by gama-local;
  (b) model(in_{k+1}) == model(in_k) apart from the approximate coordinates of the adjusted points, which must be
      the adjusted coordinates of out_k (to the printed precision);
  (c) out_{k+1} == out_k (1e-7 m / 1e-6 relative) and out_{k+1} needed 0 linearisation iterations if run k converged;
  (d) model(in_3) == model(in_2) including approximate coordinates.
"""
import json
import math
import os
import re
import xml.etree.ElementTree as ET
import numpy as np

from .. import runner, netgen, xmlout, netlevel, lsq
from ..runner import Check, tier_n

GNS = "{http://www.gnu.org/software/gama/gama-local}"
GON = math.pi / 200.0
ROUNDS = 3
MAX_ITER = 5                      # gama-local's default limit of linearisation iterations

# tolerances (stated in the task / following from the printed precision)
TOL_ANG = 1e-10 * GON             # 1e-10 gon on angular values
TOL_ANG_DMS = 0.5e-4 / 3600.0 * math.pi / 180.0 * 1.001     # half a unit of the 4th decimal of an arc second
TOL_LEN = 1e-9                    # m
TOL_REL = 1e-12                   # stdev, covariances, dist, parameters (17 significant digits are printed)
TOL_DH = 1e-9                     # instrument/target heights (8 significant digits printed; <= 5 generated)
TOL_XY = lambda v: 1e-9 + 2e-15 * abs(v)       # coordinates: a nanometre or the 16 printed digits

IDS_PLAIN = ["A", "B7", "station-12", "x_y", "001", "42", "Q.1", "S9", "k12", "ZZ"]
IDS_BLANK = ["pt 3", "A 1", "north  pillar", " lead", "trail ", "a b c", "7 7", "P 10", "x  y", "Q 2"]
IDS_UTF8 = ["Žižkov", "Ölberg", "点A", "Δ1", "ñandú", "Šárka 2", "θ", "ÅÄÖ", "Łódź", "бод 5"]
IDS_XML = ["C&1", "a<b", "x>y", 'q"1', "it's", "R&D <1>", "A&amp;", "<z/>", "m&m", "k'<"]
DESCRIPTIONS = [("plain", "generated network"),
                ("amp", "Survey A & B, part 1 && 2"),
                ("utf8", "Síť Žďár — měření №5 «τεστ»"),
                ("lines", "line one\n  line two\n\nline four"),
                ("gt-quot", "heights > 100 m, \"quoted\" and 'single'"),
                ("lt", "all sights < 2 km"),
                ("markup", "<b>bold</b> &amp; literal")]
EXTERNS = ["db:17", "k-001", "ř42", "a b", "obs/2024/07", "#9", "x=1;y=2"]
EXTERNS_XML = ["a&b", "k<1", 'q"uote']


# ===================================================================== independent reader of the gkf text

class Schema(Exception):
    """input not conforming to the documented elements / attributes"""

    def __init__(self, where, msg):
        Exception.__init__(self, msg)
        self.where = where


_DMS = re.compile(r"^\s*([+-]?)(\d+)-(\d+)-(\d+(?:\.\d*)?|\.\d+)\s*$")


def norm_id(s):
    return " ".join(s.split())


def _num(s, where):
    try:
        return float(s)
    except ValueError:
        raise Schema(where, "not a number: %r" % s)


def _angle(s, where):
    """-> (radians, given in sexagesimal degrees?)"""
    m = _DMS.match(s)
    if m:
        deg = int(m.group(2)) + int(m.group(3)) / 60.0 + float(m.group(4)) / 3600.0
        if m.group(1) == "-":
            deg = -deg
        return deg * math.pi / 180.0, True
    return _num(s, where) * GON, False


def _attrs(e, allowed, where):
    for k in e.attrib:
        if k not in allowed:
            raise Schema(where, "attribute %s is not defined for <%s>" % (k, e.tag.replace(GNS, "")))
    return e.attrib


def read_gkf(text):
    """Model of a gama-local input file, from the manual: params, points{id}, top{id} (raw coordinates of the
    <point> elements outside <coordinates>), clusters[].  Angles in radians, stdev / covariances in cc and mm.
    Raises ET.ParseError (ill-formed) or Schema."""
    root = ET.fromstring(text)
    if root.tag != GNS + "gama-local":
        raise Schema("root", "root element is %s" % root.tag)
    nets = [c for c in root if c.tag == GNS + "network"]
    if len(nets) != 1 or len(root) != 1:
        raise Schema("root", "exactly one <network> expected")
    net = nets[0]
    a = _attrs(net, ("axes-xy", "angles", "epoch"), "network")
    P = {"sigma-apr": 10.0, "conf-pr": 0.95, "tol-abs": 1000.0, "sigma-act": "aposteriori", "angular": "400",
         "algorithm-attr": "", "has-algorithm": False, "cov-band": -1, "has-epoch": "epoch" in a,
         "epoch": _num(a["epoch"], "network:epoch") if "epoch" in a else 0.0,
         "has-latitude": False, "latitude": 0.0, "has-ellipsoid": False, "ellipsoid": "",
         "axes-xy": a.get("axes-xy", "ne"), "angles": a.get("angles", "left-handed"), "description": ""}
    if P["axes-xy"] not in netgen.AXES_ALL or P["angles"] not in ("left-handed", "right-handed"):
        raise Schema("network", "bad axes-xy/angles")
    points, top, clusters = {}, {}, []

    def point(e, where):
        at = _attrs(e, ("id", "x", "y", "z", "fix", "adj"), where)
        if "id" not in at or not norm_id(at["id"]):
            raise Schema(where, "point without id")
        pid = norm_id(at["id"])
        q = points.setdefault(pid, dict(xy="unused", z="unused", has_xy=False, has_z=False))
        if ("x" in at) != ("y" in at):
            raise Schema(where, "x without y")
        if "x" in at:
            q["has_xy"], q["x"], q["y"] = True, _num(at["x"], where), _num(at["y"], where)
        if "z" in at:
            q["has_z"], q["zval"] = True, _num(at["z"], where)
        adj, fix = at.get("adj", ""), at.get("fix", "")
        if adj not in ("", "xy", "xyz", "z", "XY", "XYZ", "XYz", "xyZ", "Z"):
            raise Schema(where, "adj=%r" % adj)
        if fix not in ("", "xy", "xyz", "z", "XY", "XYZ", "XYz", "xyZ", "Z"):
            raise Schema(where, "fix=%r" % fix)
        if "xy" in adj:
            q["xy"] = "free"
        if "XY" in adj:
            q["xy"] = "constrained"
        if "z" in adj:
            q["z"] = "free"
        if "Z" in adj:
            q["z"] = "constrained"
        if "xy" in fix.lower():
            q["xy"] = "fixed"
        if "z" in fix.lower():
            q["z"] = "fixed"
        return pid, at

    def covmat(e, n, where):
        at = _attrs(e, ("dim", "band"), where)
        try:
            dim, band = int(at["dim"]), int(at["band"])
        except (KeyError, ValueError):
            raise Schema(where, "cov-mat dim/band")
        vals = [_num(w, where) for w in (e.text or "").split()]
        if len(e):
            raise Schema(where, "element inside cov-mat")
        if dim != n:
            raise Schema(where, "cov-mat dim %d for %d observations" % (dim, n))
        if not (0 <= band < dim) or len(vals) != dim * (band + 1) - band * (band + 1) // 2:
            raise Schema(where, "cov-mat band/number of elements")
        return dim, band, vals

    def finish(cl, cov_e, dms, where):
        n = len(cl["obs"])
        if cov_e is not None:
            dim, band, vals = covmat(cov_e, n, where)
        else:
            dim, band, vals = n, 0, [o.pop("_sd") ** 2 for o in cl["obs"]]
        for o in cl["obs"]:
            o.pop("_sd", None)
        # rows/columns of observations given in degrees are in arc seconds: 1" = 1/0.324 cc
        k = 0
        for i in range(dim):
            for j in range(i, min(dim, i + band + 1)):
                vals[k] *= (1 / 0.324 if dms[i] else 1.0) * (1 / 0.324 if dms[j] else 1.0)
                if j == i:
                    cl["obs"][i]["stdev"] = math.sqrt(vals[k]) if vals[k] >= 0 else float("nan")
                k += 1
        cl["cov"] = dict(dim=dim, band=band, values=vals)
        clusters.append(cl)

    for sec in net:
        tag = sec.tag.replace(GNS, "")
        if tag == "description":
            P["description"] = sec.text or ""
            if len(sec):
                raise Schema("description", "markup inside description")
        elif tag == "parameters":
            at = _attrs(sec, ("sigma-apr", "conf-pr", "tol-abs", "sigma-act", "algorithm", "language", "encoding",
                              "angular", "angles", "latitude", "ellipsoid", "cov-band"), "parameters")
            for k in ("sigma-apr", "conf-pr", "tol-abs"):
                if k in at:
                    P[k] = _num(at[k], "parameters:" + k)
            if "sigma-act" in at:
                if at["sigma-act"] not in ("apriori", "aposteriori"):
                    raise Schema("parameters:sigma-act", at["sigma-act"])
                P["sigma-act"] = at["sigma-act"]
            for k in ("angles", "angular"):          # 'angular' supersedes the deprecated 'angles'
                if k in at:
                    if at[k] not in ("400", "360"):
                        raise Schema("parameters:" + k, at[k])
                    P["angular"] = at[k]
            if "algorithm" in at:
                if at["algorithm"] not in netlevel.ALGS:
                    raise Schema("parameters:algorithm", at["algorithm"])
                P["has-algorithm"], P["algorithm-attr"] = True, at["algorithm"]
            if "cov-band" in at:
                P["cov-band"] = int(at["cov-band"])
            if "latitude" in at:
                m = _DMS.match(at["latitude"])
                P["has-latitude"] = True
                P["latitude"] = _angle(at["latitude"], "parameters:latitude")[0]      # gon (or d-m-s) -> rad
            if "ellipsoid" in at:
                P["has-ellipsoid"], P["ellipsoid"] = True, at["ellipsoid"]
        elif tag == "points-observations":
            at = _attrs(sec, ("distance-stdev", "direction-stdev", "angle-stdev", "zenith-angle-stdev",
                              "azimuth-stdev"), "points-observations")
            imp = {k: _num(at[k], k) for k in ("direction-stdev", "angle-stdev", "zenith-angle-stdev",
                                               "azimuth-stdev") if k in at}
            dabc = [_num(w, "distance-stdev") for w in at.get("distance-stdev", "").split()]
            if len(dabc) > 3:
                raise Schema("distance-stdev", at["distance-stdev"])

            def dist_sd(d):
                if not dabc:
                    return 0.0
                a_, b_, c_ = (dabc + [0.0, 1.0][len(dabc) - 1:])[:3] if len(dabc) < 3 else dabc
                return a_ + b_ * (d / 1000.0) ** c_

            for e in sec:
                t = e.tag.replace(GNS, "")
                if t == "point":
                    pid, pat = point(e, "point")
                    top[pid] = {k: _num(pat[k], "point") for k in ("x", "y", "z") if k in pat}
                elif t == "obs":
                    oa = _attrs(e, ("from", "orientation", "from_dh"), "obs")
                    st = norm_id(oa.get("from", ""))
                    cdh = _num(oa["from_dh"], "obs:from_dh") if "from_dh" in oa else 0.0
                    cl = dict(type="obs", station=st, obs=[])
                    dms, cov_e = [], None
                    for o in e:
                        ot = o.tag.replace(GNS, "")
                        if cov_e is not None:
                            raise Schema("obs", "element after cov-mat")
                        if ot == "cov-mat":
                            cov_e = o
                            continue
                        w = "obs:" + ot
                        if ot == "angle":
                            xa = _attrs(o, ("from", "bs", "fs", "val", "stdev", "from_dh", "bs_dh", "fs_dh", "extern"), w)
                        elif ot == "direction":
                            xa = _attrs(o, ("to", "val", "stdev", "from_dh", "to_dh", "extern"), w)
                        elif ot in ("distance", "s-distance", "z-angle", "azimuth"):
                            xa = _attrs(o, ("from", "to", "val", "stdev", "from_dh", "to_dh", "extern"), w)
                        else:
                            raise Schema("obs", "element <%s> inside <obs>" % ot)
                        frm = norm_id(xa["from"]) if "from" in xa else st
                        if not frm or "val" not in xa:
                            raise Schema(w, "missing from / val")
                        d = dict(type=ot, extern=norm_id(xa.get("extern", "")))
                        d["from"] = frm
                        d["from_dh"] = _num(xa["from_dh"], w) if "from_dh" in xa else cdh
                        if ot == "angle":
                            d["to"], d["fs"] = norm_id(xa["bs"]), norm_id(xa["fs"])
                            d["to_dh"] = _num(xa.get("bs_dh", "0"), w)
                            d["fs_dh"] = _num(xa.get("fs_dh", "0"), w)
                        else:
                            d["to"] = norm_id(xa["to"])
                            d["to_dh"] = _num(xa.get("to_dh", "0"), w)
                        isdms = False
                        if ot in ("distance", "s-distance"):
                            d["value"] = _num(xa["val"], w)
                            sd = dist_sd(d["value"])
                        else:
                            d["value"], isdms = _angle(xa["val"], w)
                            if ot in ("direction", "angle"):
                                d["value"] %= 2 * math.pi
                            sd = imp.get({"direction": "direction-stdev", "angle": "angle-stdev",
                                          "z-angle": "zenith-angle-stdev", "azimuth": "azimuth-stdev"}[ot], 0.0)
                        if "stdev" in xa:
                            sd = _num(xa["stdev"], w)
                        d["_sd"], d["dms"] = sd, isdms
                        dms.append(isdms)
                        cl["obs"].append(d)
                    finish(cl, cov_e, dms, "obs:cov-mat")
                elif t == "height-differences":
                    _attrs(e, (), "height-differences")
                    cl = dict(type="hdiff", obs=[])
                    cov_e = None
                    for o in e:
                        ot = o.tag.replace(GNS, "")
                        if cov_e is not None:
                            raise Schema("height-differences", "element after cov-mat")
                        if ot == "cov-mat":
                            cov_e = o
                            continue
                        if ot != "dh":
                            raise Schema("height-differences", "element <%s>" % ot)
                        xa = _attrs(o, ("from", "to", "val", "stdev", "dist", "extern"), "dh")
                        d = dict(type="dh", extern=norm_id(xa.get("extern", "")))
                        d["from"], d["to"] = norm_id(xa["from"]), norm_id(xa["to"])
                        d["value"] = _num(xa["val"], "dh")
                        d["dist"] = _num(xa.get("dist", "0"), "dh")
                        d["from_dh"] = d["to_dh"] = 0.0
                        # "If the standard deviation is defined, the section length is ignored"
                        d["_sd"] = _num(xa["stdev"], "dh") if "stdev" in xa else P["sigma-apr"] * math.sqrt(d["dist"])
                        cl["obs"].append(d)
                    finish(cl, cov_e, [False] * len(cl["obs"]), "height-differences:cov-mat")
                elif t == "coordinates":
                    ca = _attrs(e, ("extern",), "coordinates")
                    cl = dict(type="coords", extern=norm_id(ca.get("extern", "")), obs=[])
                    cov_e = None
                    for o in e:
                        ot = o.tag.replace(GNS, "")
                        if cov_e is not None:
                            raise Schema("coordinates", "element after cov-mat")
                        if ot == "cov-mat":
                            cov_e = o
                            continue
                        if ot != "point":
                            raise Schema("coordinates", "element <%s>" % ot)
                        pid, pat = point(o, "coordinates:point")
                        for k in ("x", "y", "z"):
                            if k in pat:
                                cl["obs"].append(dict(type=k, to="", extern="", from_dh=0.0, to_dh=0.0,
                                                      value=_num(pat[k], "coordinates:point"), _sd=0.0, **{"from": pid}))
                    if cov_e is None:
                        raise Schema("coordinates", "no cov-mat")
                    finish(cl, cov_e, [False] * len(cl["obs"]), "coordinates:cov-mat")
                elif t == "vectors":
                    _attrs(e, (), "vectors")
                    cl = dict(type="vectors", obs=[])
                    cov_e = None
                    for o in e:
                        ot = o.tag.replace(GNS, "")
                        if cov_e is not None:
                            raise Schema("vectors", "element after cov-mat")
                        if ot == "cov-mat":
                            cov_e = o
                            continue
                        if ot != "vec":
                            raise Schema("vectors", "element <%s>" % ot)
                        xa = _attrs(o, ("from", "to", "dx", "dy", "dz", "from_dh", "to_dh", "extern"), "vec")
                        for k in ("dx", "dy", "dz"):
                            cl["obs"].append(dict(type=k, to=norm_id(xa["to"]), extern=norm_id(xa.get("extern", "")),
                                                  from_dh=_num(xa.get("from_dh", "0"), "vec"),
                                                  to_dh=_num(xa.get("to_dh", "0"), "vec"),
                                                  value=_num(xa[k], "vec"), _sd=0.0, **{"from": norm_id(xa["from"])}))
                    if cov_e is None:
                        raise Schema("vectors", "no cov-mat")
                    finish(cl, cov_e, [False] * len(cl["obs"]), "vectors:cov-mat")
                else:
                    raise Schema("points-observations", "element <%s>" % t)
        else:
            raise Schema("network", "element <%s>" % tag)
    return dict(params=P, points=points, top=top, clusters=clusters)


def model_from_drv(d):
    """modeldrv's JSON in the shape of read_gkf's result"""
    pts = {}
    for p in d["points"]:
        pts[p["id"]] = {k: v for k, v in p.items() if k != "id"}
    return dict(params=d["params"], points=pts, top=None, clusters=d["clusters"])


# ===================================================================== comparison of two models

def _relerr(a, b):
    s = max(abs(a), abs(b))
    return 0.0 if s == 0 else abs(a - b) / s


def _kind(a, b, tol):
    """class of a numeric discrepancy (makes violation keys specific)"""
    if a == 0 or b == 0:
        return "lost" if b == 0 else "appeared"
    if abs(a + b) <= tol * max(abs(a), abs(b), 1.0):
        return "sign"
    r = b / a
    for name, f in (("x0.324", 0.324), ("/0.324", 1 / 0.324), ("x0.324^2", 0.324 ** 2), ("/0.324^2", 0.324 ** -2),
                    ("gon-as-rad", GON), ("rad-as-gon", 1 / GON)):
        if abs(r / f - 1) < 1e-6:
            return name
    return "value"


def compare_models(A, B, ck=None, label="", strict=False, approx_tol=None):
    """-> [(field, message)].  B is expected to be the same model as A.
    strict: A and B are two readings of the SAME file (tight tolerances, coordinates included).
    approx_tol: if not None, approximate coordinates are compared too (fixed point), else only given-ness
    and the coordinates of fixed components."""
    bad = []

    def rat(name, err, tol):
        if ck is not None:
            ck.ratio(label + name, err, tol)
        return err > tol

    pa, pb = A["params"], B["params"]
    for k in ("sigma-apr", "conf-pr", "tol-abs", "epoch", "latitude"):
        if rat("param " + k, _relerr(pa[k], pb[k]), TOL_REL):
            bad.append(("param:" + k, "%s: %.17g vs %.17g" % (k, pa[k], pb[k])))
    for k in ("sigma-act", "angular", "cov-band", "has-epoch", "has-latitude", "has-ellipsoid", "ellipsoid",
              "axes-xy", "angles", "description") + (("has-algorithm", "algorithm-attr") if strict else ()):
        if pa[k] != pb[k]:
            bad.append(("param:" + k, "%s: %r vs %r" % (k, pa[k], pb[k])))
    # ---- points
    ia, ib = set(A["points"]), set(B["points"])
    for pid in sorted(ia - ib):
        bad.append(("point-missing", "point %r (%s/%s) is not in the second model" % (
            pid, A["points"][pid]["xy"], A["points"][pid]["z"]), pid))
    for pid in sorted(ib - ia):
        bad.append(("point-added", "point %r only in the second model" % pid, pid))
    for pid in sorted(ia & ib):
        p, q = A["points"][pid], B["points"][pid]
        if (p["xy"], p["z"]) != (q["xy"], q["z"]):
            bad.append(("point-status", "point %r: xy %s z %s  vs  xy %s z %s" % (pid, p["xy"], p["z"], q["xy"], q["z"]), pid))
        for comp, has, names in (("xy", "has_xy", ("x", "y")), ("z", "has_z", ("zval",))):
            fixed = p[comp] == "fixed"
            if p[has] and not q[has]:
                bad.append(("point-coordinates-lost", "point %r: %s given in the first model only" % (pid, comp), pid))
                continue
            if q[has] and not p[has] and (strict or fixed):
                bad.append(("point-coordinates-appeared", "point %r: %s given in the second model only" % (pid, comp), pid))
                continue
            if not (p[has] and q[has]):
                continue
            for nm in names:
                d = abs(p[nm] - q[nm])
                if strict:
                    if d > 1e-13 * max(1.0, abs(p[nm])):
                        bad.append(("point-coordinate", "point %r %s: %.17g vs %.17g" % (pid, nm, p[nm], q[nm]), pid))
                elif fixed:
                    if rat("fixed coordinate", d, TOL_XY(p[nm])):
                        bad.append(("point-fixed-coordinate", "fixed point %r %s: %.17g vs %.17g" % (pid, nm, p[nm], q[nm]), pid))
                elif approx_tol is not None and p[comp] != "unused":
                    if rat("approximate coordinate (fixed point)", d, approx_tol(p[nm])):
                        bad.append(("approx-coordinate", "point %r %s: %.17g vs %.17g" % (pid, nm, p[nm], q[nm]), pid))
    # ---- clusters
    ca, cb = A["clusters"], B["clusters"]
    if [c["type"] for c in ca] != [c["type"] for c in cb]:
        bad.append(("clusters", "cluster sequence %s vs %s" % ([c["type"] for c in ca], [c["type"] for c in cb])))
        return bad
    for ci, (c, e) in enumerate(zip(ca, cb)):
        ct = c["type"]
        if ct == "obs" and c["station"] != e["station"]:
            bad.append(("cluster:station", "cluster %d: station %r vs %r" % (ci, c["station"], e["station"])))
        if ct == "coords" and c["extern"] != e["extern"]:
            bad.append(("cluster:extern:coords", "cluster %d <coordinates> extern %r vs %r" % (ci, c["extern"], e["extern"])))
        oa, ob = c["obs"], e["obs"]
        if [o["type"] for o in oa] != [o["type"] for o in ob]:
            bad.append(("obs:sequence:" + ct, "cluster %d (%s): observations %s vs %s" % (
                ci, ct, [o["type"] for o in oa][:12], [o["type"] for o in ob][:12])))
            continue
        tol_s = 1e-13 if strict else TOL_REL
        for oi, (o, u) in enumerate(zip(oa, ob)):
            ot = o["type"]
            grp = "vector" if ot in ("dx", "dy", "dz") else ("coordinate" if ot in ("x", "y", "z") else ot)
            who = "cluster %d %s %s %r->%r" % (ci, ct, ot, o["from"], o["to"] or o.get("fs"))
            for f in ("from", "to", "fs"):
                if o.get(f) != u.get(f):
                    bad.append(("obs:%s:%s" % (f, grp), "%s: %s %r vs %r" % (who, f, o.get(f), u.get(f))))
            ang = ot in ("direction", "angle", "azimuth", "z-angle")
            d = abs(o["value"] - u["value"])
            if ang:
                d = abs((o["value"] - u["value"] + math.pi) % (2 * math.pi) - math.pi)
                # an export with angular="360" writes every angular value in degrees-minutes-seconds
                dms = (bool(u.get("dms")) or pb["angular"] == "360") and not strict
                tol = 1e-13 if strict else TOL_ANG
                name = "angular value (sexagesimal export)" if dms else "angular value"
                if dms and TOL_ANG < d <= TOL_ANG_DMS:
                    # the value agrees to the 4 decimals of an arc second that the export prints
                    ck is not None and ck.ratio(label + name, d, tol)
                    bad.append(("obs:value:%s:sexagesimal-rounding" % grp, "%s: value %.17g vs %.17g rad (diff %.3g gon), "
                                "printed in degrees with 4 decimals of a second" % (who, o["value"], u["value"], d / GON)))
                    d = 0.0
            else:
                tol = 1e-13 * max(1.0, abs(o["value"])) if strict else TOL_LEN
                name = "linear value"
            if rat(name, d, tol):
                bad.append(("obs:value:%s:%s" % (grp, _kind(o["value"], u["value"], 1e-9)),
                            "%s: value %.17g vs %.17g (diff %.3g)" % (who, o["value"], u["value"], d)))
            if rat("stdev", _relerr(o["stdev"], u["stdev"]), tol_s):
                bad.append(("obs:stdev:%s:%s" % (grp, _kind(o["stdev"], u["stdev"], 1e-9)),
                            "%s: stdev %.17g vs %.17g" % (who, o["stdev"], u["stdev"])))
            for f in ("from_dh", "to_dh", "fs_dh"):
                if f in o or f in u:
                    x, y = o.get(f, 0.0), u.get(f, 0.0)
                    if rat("heights", abs(x - y), 1e-13 if strict else TOL_DH):
                        nm = {"to_dh": "bs_dh"}.get(f, f) if ot == "angle" else f
                        bad.append(("obs:%s:%s" % (nm, grp), "%s: %s %.17g vs %.17g" % (who, nm, x, y)))
            if ot == "dh":
                if rat("dist", _relerr(o["dist"], u["dist"]), tol_s):
                    bad.append(("obs:dist", "%s: dist %.17g vs %.17g" % (who, o["dist"], u["dist"])))
            if o["extern"] != u["extern"]:
                bad.append(("obs:extern:" + grp, "%s: extern %r vs %r" % (who, o["extern"], u["extern"])))
        va, vb = c["cov"], e["cov"]
        if va["dim"] != vb["dim"]:
            bad.append(("cov:dim:" + ct, "cluster %d: cov dim %d vs %d" % (ci, va["dim"], vb["dim"])))
            continue
        if va["band"] != vb["band"]:
            # a wider band holding zeros is the same matrix; a narrower one is not
            Fa, Fb = _full(va), _full(vb)
            if np.max(np.abs(Fa - Fb)) > TOL_REL * np.max(np.abs(Fa)):
                bad.append(("cov:band:" + ct, "cluster %d: cov band %d vs %d and different matrices" % (ci, va["band"], vb["band"])))
            else:
                bad.append(("cov:band-attribute:" + ct, "cluster %d: cov band %d vs %d (same matrix)" % (ci, va["band"], vb["band"])))
            continue
        scale = max([abs(v) for v in va["values"]] + [1e-300])
        worst = None
        for k, (x, y) in enumerate(zip(va["values"], vb["values"])):
            if rat("covariance", abs(x - y) / scale, tol_s):
                if worst is None or abs(x - y) > worst[0]:
                    worst = (abs(x - y), k, x, y)
        if worst is not None:
            bad.append(("cov:values:%s:%s" % (ct, _kind(worst[2], worst[3], 1e-9)),
                        "cluster %d (%s): cov element #%d %.17g vs %.17g" % (ci, ct, worst[1], worst[2], worst[3])))
    return bad


_NON_MATH = ("obs:extern", "cluster:extern", "param:description", "param:epoch", "param:has-epoch", "param:cov-band",
             "param:angular", "param:has-algorithm", "param:algorithm", "cov:band-attribute", "point-coordinates-appeared")


def _is_math(fld):
    """does a difference in this field change the adjustment (as opposed to carried information)?"""
    if fld.startswith(_NON_MATH) or fld.endswith(":sexagesimal-rounding"):
        return False
    m = re.match(r"obs:(from_dh|to_dh|bs_dh|fs_dh):(.*)", fld)
    if m:
        return m.group(2) in ("s-distance", "z-angle")      # only these are reduced by the heights
    return True


def _full(v):
    n, b = v["dim"], v["band"]
    F = np.zeros((n, n))
    k = 0
    for i in range(n):
        for j in range(i, min(n, i + b + 1)):
            F[i, j] = F[j, i] = v["values"][k]
            k += 1
    return F


# ===================================================================== workload

def _resolves(net, omitted):
    """the manual's strategy resolves the omitted points by construction: polar step from a station with known
    coordinates whose orientation is given by a direction to another known point; heights by levelling"""
    P = net.points
    have_xy = {i for i, q in P.items() if q.xy != "none" and i not in omitted}
    have_z = {i for i, q in P.items() if q.z != "none" and i not in omitted}
    need_xy = {i for i in omitted if P[i].xy != "none"}
    need_z = {i for i in omitted if P[i].z != "none"}
    progress = True
    while progress and (need_xy or need_z):
        progress = False
        for cl in net.clusters:
            if cl.kind == "obs" and cl.station in have_xy:
                dirs = {o.to for o in cl.obs if o.kind == "direction"}
                if not (dirs & have_xy):
                    continue
                dists = {o.to for o in cl.obs if o.kind == "distance"}
                for t in list(need_xy):
                    if t in dirs and t in dists:
                        need_xy.discard(t); have_xy.add(t); progress = True
            if cl.kind == "hdiff":
                for o in cl.obs:
                    if o.frm in have_z and o.to in need_z:
                        need_z.discard(o.to); have_z.add(o.to); progress = True
                    elif o.to in have_z and o.frm in need_z:
                        need_z.discard(o.frm); have_z.add(o.frm); progress = True
    return not need_xy and not need_z


def gen_case(seed, i, tier):
    """case i of the run: network (physical), frame, command-line arguments, measured feature list"""
    rng = np.random.default_rng([seed, i, 1313])
    dim = int(rng.choice([1, 2, 2, 3, 3, 3]))
    feats = []

    def pick(name, p, cond=True):
        if cond and rng.uniform() < p:
            feats.append(name)
            return True
        return False

    pick("angles", 0.6, dim >= 2); pick("azimuths", 0.4, dim >= 2); pick("cov", 0.5)
    pick("vectors", 0.45, dim == 3); pick("coords", 0.4, dim >= 2); pick("hdiff", 0.5, dim == 3)
    pick("dh-heights", 0.6, dim == 3)
    net = netgen.gen_net(rng, dim=dim, noise=False, features=tuple(feats))
    ids = list(net.points)
    P0 = net.points
    # ---- more structure than netgen draws by itself
    if pick("mixed-status", 0.3, dim == 3):          # fix="xy" adj="z" and the like on one point
        fx = [q for q in P0.values() if q.xy == "fixed" and q.z == "fixed"]
        fr_ = [q for q in P0.values() if q.xy == "free" and q.z == "free"]
        if len(fx) >= 2 and rng.uniform() < 0.5:
            fx[-1].z = "free"
        elif len(fx) >= 3:
            fx[-1].xy = "free"
        elif fr_:
            fr_[0].z = "constrained" if any(q.z == "constrained" for q in P0.values()) else "free"
    if pick("stationless-obs", 0.25, dim >= 2):      # <obs> without from=: every observation names its station
        cl = netgen.Cluster("obs", None)
        for _ in range(int(rng.integers(2, 5))):
            a_, b_ = [str(x) for x in rng.choice(ids, 2, replace=False)]
            cl.obs.append(netgen.Obs("distance", a_, b_, stdev=float(rng.choice([2.0, 5.0]))))
        if len(ids) >= 3:
            a_, b_, c_ = [str(x) for x in rng.choice(ids, 3, replace=False)]
            cl.obs.append(netgen.Obs("angle", a_, bs=b_, fs=c_, stdev=12.0))
        net.clusters.append(cl)
    if pick("foreign-station-obs", 0.35, dim >= 2):  # observations of another stand-point inside <obs from="S">
        # ("distances in an observation set do not need to share a common stand-point"; any type but direction)
        stc = [cl for cl in net.clusters if cl.kind == "obs" and cl.station is not None]
        for cl in stc[:int(rng.integers(1, 3))]:
            others = [x for x in ids if x != cl.station]
            for _ in range(int(rng.integers(1, 4))):
                a_, b_ = [str(x) for x in rng.choice(others, 2, replace=False)] if len(others) >= 2 else (None, None)
                if a_ is None:
                    break
                kinds_ = ["distance", "azimuth"] + (["s-distance", "z-angle"] if dim == 3 else [])
                kd = str(rng.choice(kinds_ + ["angle"] if len(others) >= 3 else kinds_))
                if kd == "angle":
                    c_ = str(rng.choice([x for x in others if x not in (a_, b_)]))
                    o = netgen.Obs("angle", a_, bs=b_, fs=c_, stdev=12.0)
                else:
                    o = netgen.Obs(kd, a_, b_, stdev=5.0 if "distance" in kd else 10.0)
                cl.obs.append(o)
                if cl.cov is not None:
                    C = cl.cov["C"]; k_ = C.shape[0]
                    C2 = np.zeros((k_ + 1, k_ + 1)); C2[:k_, :k_] = C; C2[k_, k_] = o.stdev ** 2
                    cl.cov = dict(cl.cov, C=C2)
    if pick("z-only-coords", 0.3, dim == 3):         # observed height only, in a <coordinates> of its own
        cand = [q for q in P0.values() if q.z in ("free", "constrained")]
        if cand:
            q = cand[int(rng.integers(len(cand)))]
            cl = netgen.Cluster("coords")
            cl.cpoints.append([q.id, None, None, q.H])
            cl.cov = dict(band=0, C=np.array([[36.0]]))
            net.clusters.append(cl)
    # ---- attributes the export has to carry
    if pick("all-heights", 0.3, dim >= 2):         # heights on observations that do not depend on them
        for cl, o in net.all_obs():
            if o.kind in ("direction", "distance", "azimuth") and rng.uniform() < 0.5:
                o.from_dh = round(float(rng.uniform(1.2, 1.8)), 3)
                o.to_dh = round(float(rng.uniform(0.1, 2.5)), 3)
            if o.kind == "angle":
                o.from_dh = round(float(rng.uniform(1.2, 1.8)), 3)
                o.bs_dh = round(float(rng.uniform(0.1, 2.5)), 3)
                o.fs_dh = round(float(rng.uniform(0.1, 2.5)), 3)
    if pick("obs-from_dh", 0.35, dim == 3):        # implicit instrument height of a whole <obs>
        for cl in net.clusters:
            if cl.kind == "obs" and rng.uniform() < 0.6:
                cl.from_dh_attr = round(float(rng.uniform(1.2, 1.8)), 3)
    if pick("vec-heights", 0.5, "vectors" in feats):
        for cl in net.clusters:
            for v in cl.vecs:
                if rng.uniform() < 0.7:
                    v[5] = round(float(rng.uniform(1.0, 2.0)), 4)
                    v[6] = round(float(rng.uniform(0.0, 2.0)), 4)
    # values consistent with the heights (slope distances / zenith angles depend on them)
    for cl, o in net.all_obs():
        h = getattr(cl, "from_dh_attr", None)
        saved = o.from_dh
        if h is not None and o.from_dh is None:
            o.from_dh = h
        o.true = o.val = netgen.model_value(net, cl, o)
        o.from_dh = saved
    netgen.add_noise(rng, net)
    xml_ext = pick("extern-xml-special", 0.06)
    if pick("extern", 0.45) or xml_ext:
        pool = EXTERNS + (EXTERNS_XML if xml_ext else [])
        for cl in net.clusters:
            for o in cl.obs:
                if rng.uniform() < 0.5:
                    o.extern = str(rng.choice(pool))
            if cl.kind == "coords" and rng.uniform() < 0.7:
                cl.extern = str(rng.choice(pool))
            if cl.kind == "vectors":
                cl.vec_extern = [str(rng.choice(pool)) if rng.uniform() < 0.6 else None for _ in cl.vecs]
    if pick("dist-only", 0.5, any(o.dist is not None for _, o in net.all_obs())):
        for cl, o in net.all_obs():
            if o.dist is not None and cl.cov is None and rng.uniform() < 0.6:
                o.stdev = None                    # stdev follows from sigma-apr * sqrt(dist)
    if any(o.dist is not None and o.stdev is not None and cl.cov is None for cl, o in net.all_obs()):
        feats.append("dist+stdev")
    if pick("implicit-stdev", 0.3, dim >= 2):
        kinds = [k for k in ("direction", "distance", "angle", "z-angle", "azimuth") if rng.uniform() < 0.6]
        names = {"direction": "direction-stdev", "angle": "angle-stdev", "z-angle": "zenith-angle-stdev",
                 "azimuth": "azimuth-stdev", "distance": "distance-stdev"}
        for k in kinds:
            net.params[names[k]] = str(rng.choice(["5 3 1", "4", "3 2", "5 3 0.5"])) if k == "distance" else \
                str(rng.choice(["10", "7.5", "12.25"]))
        for cl, o in net.all_obs():
            kk = "distance" if o.kind == "s-distance" else o.kind
            if kk in kinds and cl.cov is None and rng.uniform() < 0.7:
                o.stdev = None
    # ---- parameters
    p = net.params
    p["sigma_apr"] = float(rng.choice([1.0, 2.5, 5.0, 10.0, 7.25, 1.2345678]))
    p["conf_pr"] = float(rng.choice([0.95, 0.9, 0.99, 0.975]))
    p["tol_abs"] = float(rng.choice([1000.0, 500.0, 250.5, 2000.0]))
    p["sigma_act"] = str(rng.choice(["aposteriori", "apriori"]))
    alg = netlevel.ALGS[i % 4] if tier == "thorough" or rng.uniform() < 0.7 else None
    args = []
    if alg is not None:
        if rng.uniform() < 0.5:
            p["algorithm"] = alg
            feats.append("algorithm:file")
        else:
            args += ["--algorithm", alg]
            feats.append("algorithm:cmdline")
    if pick("cov-band", 0.3):
        p["cov-band"] = str(rng.choice([-1, 0, 1, 3]))
    hdr = ""
    if pick("epoch", 0.25):
        hdr = ' epoch="%s"' % repr(float(rng.choice([2020.5, 1999.123456789, 0.25])))
    if pick("ellipsoid", 0.12, dim >= 2):
        if rng.uniform() < 0.7:
            p["latitude"] = str(rng.choice(["50", "55.5", "49-30-15.5"]))
        if rng.uniform() < 0.7 or "latitude" not in p:
            p["ellipsoid"] = str(rng.choice(["wgs84", "bessel", "grs80"]))
    dname, net.description = DESCRIPTIONS[int(rng.choice(len(DESCRIPTIONS), p=[0.4, 0.15, 0.15, 0.1, 0.1, 0.05, 0.05]))]
    if dname != "plain":
        feats.append("description:" + dname)
    # ---- frame
    axes = str(rng.choice(netgen.AXES_ALL))
    hand = str(rng.choice(["left-handed", "right-handed"]))
    degrees = dim >= 2 and rng.uniform() < 0.3
    if degrees and rng.uniform() < 0.7:
        p["angular" if rng.uniform() < 0.6 else "angles_deprecated"] = "360"
    elif dim >= 2 and rng.uniform() < 0.1:
        p["angular"] = "360"                     # gon input, sexagesimal output requested
    shift = (0.0, 0.0, 0.0)
    if rng.uniform() < 0.3:
        mag = float(rng.choice([1e3, 1e5, 7e6]))
        shift = (mag * rng.uniform(0.5, 1), -mag * rng.uniform(0.5, 1), float(rng.uniform(-500, 3000)))
        feats.append("shift:%g" % mag)
    u = rng.uniform()
    idclass = "plain" if u < 0.35 else "blank" if u < 0.6 else "utf8" if u < 0.9 else "xml-special"
    pool = dict(plain=IDS_PLAIN, blank=IDS_BLANK, utf8=IDS_UTF8, **{"xml-special": IDS_XML})[idclass]
    names = [str(x) for x in rng.permutation(pool)]
    # ---- items gama removes
    removed = []
    if pick("dangling-point", 0.15, dim >= 2):
        st = [cl for cl in net.clusters if cl.kind == "obs" and cl.station is not None]
        cl = st[int(rng.integers(len(st)))]
        q = netgen.Pt("X1", net.points[cl.station].E + 50.0, net.points[cl.station].N + 20.0, 0.0, "free",
                      "free" if dim == 3 else "none", give_xy=bool(rng.uniform() < 0.5), give_z=True)
        net.points["X1"] = q
        o = netgen.Obs("distance", cl.station, "X1", stdev=5.0)
        o.val = o.true = netgen.model_value(net, cl, o)
        if cl.cov is None:
            cl.obs.append(o)
        else:
            c2 = netgen.Cluster("obs", cl.station)
            c2.obs.append(o)
            net.clusters.append(c2)
        removed.append("point")
    ids = list(net.points)
    idmap = dict(zip(ids, names + ["n%d" % k for k in range(len(ids))]))
    approx = str(rng.choice(["exact", "perturbed", "perturbed", "omitted"]))
    if approx == "perturbed":
        # small against tol-abs, so that gama does not exclude a sound observation because of the perturbation
        amp = float(rng.choice([0.002, 0.02, p["tol_abs"] / 1000.0 / 8]))
        for q in net.points.values():
            if q.xy == "free":
                q.dE, q.dN = [float(x) for x in rng.uniform(-amp, amp, 2)]
            if q.z == "free":
                q.dH = float(rng.uniform(-amp, amp))
        approx += ":%g" % amp
    elif approx == "omitted":
        cand = [j for j, q in net.points.items() if j != "X1" and (q.xy == "free" or q.z == "free")
                and "constrained" not in (q.xy, q.z) and "fixed" not in (q.xy, q.z)]
        om = []
        for c in [str(c) for c in rng.permutation(cand)][:3]:
            kxy = {j for j, q in net.points.items() if q.xy != "none"} - set(om) - {c}
            kz = {j for j, q in net.points.items() if q.z != "none"} - set(om) - {c}
            if (dim >= 2 and len(kxy) < 2) or (dim != 2 and len(kz) < 1):
                continue
            if _resolves(net, set(om + [c])):
                om.append(c)
        for j in om:
            net.points[j].give_xy = net.points[j].give_z = False
        approx = "omitted:%d" % len(om) if om else "exact"
    if pick("blunder", 0.25, not approx.startswith("omitted")):
        cand = [(cl, o) for cl, o in net.all_obs() if o.kind in ("distance", "s-distance", "dh") and o.to != "X1"]
        if cand:
            for k in rng.choice(len(cand), size=min(len(cand), int(rng.integers(1, 3))), replace=False):
                cand[int(k)][1].val += float(rng.choice([-1, 1])) * 3.0 * p["tol_abs"] / 1000.0
            removed.append("obs")
    fr = netgen.Frame(axes=axes, angles=hand, shift=shift, degrees=bool(degrees), idmap=idmap)
    mode = "xml+export" if rng.uniform() < 0.6 else "separate"
    return dict(index=i, net=net, frame=fr, feats=feats, args=args, hdr=hdr, idclass=idclass, approx=approx,
                mode=mode, planned_removed=removed, alg=alg)


def to_gkf13(net, fr, hdr=""):
    """netgen.to_gkf plus what netgen has no field for: <obs from_dh>, <vec extern>, deprecated angles=360"""
    p = net.params
    dep = p.pop("angles_deprecated", None)
    txt = netgen.to_gkf(net, fr, header_extra=hdr)
    if dep is not None:
        p["angles_deprecated"] = dep
    out = []
    it = iter(net.clusters)
    cur, kvec = None, 0
    for line in txt.split("\n"):
        if line.startswith("<parameters ") and dep is not None:
            line = line.replace(" />", ' angles="%s" />' % dep)
        if line.startswith(("<obs ", "<obs>", "<height-differences", "<vectors", "<coordinates")):
            cur, kvec = next(it), 0
            h = getattr(cur, "from_dh_attr", None)
            if cur.kind == "obs" and h is not None:
                line = line[:-1] + ' from_dh="%s">' % netgen.fmt(h)
        elif line.startswith("<vec ") and cur is not None:
            ext = getattr(cur, "vec_extern", None)
            if ext and ext[kvec] is not None:
                line = line.replace(" />", ' extern="%s" />' % netgen.esc(ext[kvec]))
            kvec += 1
        out.append(line)
    return "\n".join(out)


# ===================================================================== execution of one chain

def run_models(files, wd):
    """gama's own reading of each file -> list of (model | error dict | None)"""
    rr = runner.run([runner.binpath("san", "modeldrv")] + files, timeout=180, cwd=wd)
    res = {}
    for line in rr.out.split("\n"):
        line = line.strip()
        if line.startswith("{"):
            try:
                d = json.loads(line)
                res[d["file"]] = d
            except ValueError:
                pass
    return rr, [res.get(f) for f in files]


def run_chain(ck, case):
    """4 adjustments (3 exports).  Returns dict(texts[], runs[], drv_rr, drv[])"""
    i, fr, net = case["index"], case["frame"], case["net"]
    texts = [to_gkf13(net, fr, case["hdr"])]
    runs, exp_runs = [], []
    for k in range(ROUNDS + 1):
        name = "c%d-r%d" % (i, k)
        if case["mode"] == "xml+export" or k == ROUNDS:
            g = xmlout.run_gama_local(texts[k], ck.tmp, name, args=case["args"],
                                      outputs=("xml", "export") if k < ROUNDS else ("xml",), trace=True)
            ge = g
        else:
            g = xmlout.run_gama_local(texts[k], ck.tmp, name, args=case["args"], outputs=("xml",), trace=True)
            # without --text/--html gama-local writes the XML to stdout: a run that exports *without* producing
            # the XML needs another output
            ge = xmlout.run_gama_local(texts[k], ck.tmp, name + "e", args=case["args"], outputs=("text", "export"))
            ge.files.pop("text", None)
        # only the exclusion events are used; the (large) `adjust` events are dropped at once
        adj_ev = [e for e in g.trace if e.get("kind") == "adjust"]
        g.trace = [e for e in g.trace if e.get("kind") in ("rm_obs_abs_term", "rm_point")] + adj_ev[-1:]
        g.files.pop("xml", None)
        runs.append(g)
        exp_runs.append(ge)
        if k == ROUNDS or "export" not in ge.files:
            break
        try:
            texts.append(ge.files["export"].decode("utf-8"))
        except UnicodeDecodeError:
            texts.append(ge.files["export"].decode("utf-8", errors="replace"))
    files = []
    for k, t in enumerate(texts):
        f = os.path.join(ck.tmp, "c%d-m%d.gkf" % (i, k))
        with open(f, "w", encoding="utf-8") as fh:
            fh.write(t)
        files.append(f)
    drv_rr, drv = run_models(files, ck.tmp)
    return dict(texts=texts, runs=runs, exp_runs=exp_runs, drv_rr=drv_rr, drv=drv)


def where_ill_formed(text, err):
    """which construct made the exported text ill-formed"""
    m = re.search(r"line (\d+), column (\d+)", str(err))
    lines = text.split("\n")
    ln = int(m.group(1)) - 1 if m else 0
    L = lines[ln] if 0 <= ln < len(lines) else ""
    head = "\n".join(lines[:ln + 1])
    if "<description>" in head and "</description>" not in head.split("<description>")[-1].rsplit("\n", 1)[0] \
            or "<description>" in L:
        return "description", L
    if head.count("<description>") > head.count("</description>"):
        return "description", L
    col = int(m.group(2)) if m else 0
    before = L[:col + 1]
    am = re.findall(r'(\w+)="[^"]*$', before) or re.findall(r'(\w+)="', before)
    att = am[-1] if am else ""
    if att == "extern":
        return "extern", L
    if att in ("id", "from", "to", "bs", "fs"):
        return "id", L
    return "other", L


def effective_algorithm(case, model):
    """algorithm that run k uses: command line, else the file's attribute, else gama-local's default"""
    if "--algorithm" in case["args"]:
        return case["args"][case["args"].index("--algorithm") + 1]
    return model["params"]["algorithm-attr"] or "envelope"


def check_chain(ck, case, res, seed, tier):
    net, fr, i = case["net"], case["frame"], case["index"]
    texts, runs = res["texts"], res["runs"]
    base_cls = (net.kind, "+".join(sorted(f for f in case["feats"])) or "plain",
                "%s/%s/%s" % (fr.axes, fr.angles[0], "deg" if fr.degrees else "gon"),
                "ids:" + case["idclass"], case["approx"].split(":")[0], case["mode"])
    wit = dict(seed=seed, index=i, tier=tier, kind=net.kind, features=case["feats"], axes=fr.axes, angles=fr.angles,
               degrees=fr.degrees, ids=case["idclass"], approx=case["approx"], mode=case["mode"], args=case["args"])
    nviol = [0]

    def viol(key, what, **extra):
        w = dict(wit, **extra)
        if nviol[0] < 3 and len(ck.violations) < 40:
            w["inputs"] = {("in%d" % k): t for k, t in enumerate(texts[:2])}
        nviol[0] += 1
        ck.violation(key, "%s [case %d, %s]" % (what, i, net.kind), w)

    # sanitizer / crash in any process of the chain
    for k, g in enumerate(runs + [e for e in res["exp_runs"] if e not in runs]):
        if ck.sanitizer(g.rr, dict(wit, round=k, input=texts[min(k, len(texts) - 1)]), prefix="gama-local:"):
            return
        if g.rr.timeout:
            ck.inconc("timeout")
            return
    if ck.sanitizer(res["drv_rr"], dict(wit, inputs=texts[:2]), prefix="modeldrv(GKFparser):"):
        return
    oc0 = netlevel.outcome(runs[0])
    if oc0 == "ill-formed-xml" and (case["idclass"] == "xml-special" or "extern-xml-special" in case["feats"]) and len(texts) > 1:
        # ids with XML specials make the *adjustment* XML ill-formed (property C12); the export chain is still
        # examined as far as it does not need the adjustment results
        ck.count("chains examined without adjustment results (ill-formed adjustment XML, see C12)")
    elif oc0 != "adjusted":
        ck.inconc("generated network not adjusted: " + oc0)
        ck.count("not adjusted: " + oc0)
        return
    # the independent reading of in0 (our own file): must succeed, and gama's parser must agree with it
    P, M = [], []
    try:
        P.append(read_gkf(texts[0]))
    except (ET.ParseError, Schema) as e:
        raise runner.HarnessError("generated input of case %d is not readable: %s" % (i, e))
    explained = set()
    for k in range(len(texts)):
        d = res["drv"][k]
        if k > 0:
            P.append(None)
        M.append(model_from_drv(d) if d and d.get("ok") else None)

    for f in case["feats"]:
        ck.count("chains with feature " + f.split(":")[0])
    ck.count("chains: approx " + case["approx"].split(":")[0])
    ck.count("chains: ids " + case["idclass"])
    for k in range(ROUNDS):
        g = runs[k]
        rm_obs = [e for e in g.trace if e.get("kind") == "rm_obs_abs_term"]
        rm_pts = sorted({e["id"] for e in g.trace if e.get("kind") == "rm_point"})
        R = g.xml if (g.xml is not None and g.xml.get("kind") == "adjustment") else None
        it_k = R["iterations"] if R else -1
        cls = base_cls + ("round%d" % k, "removed:" + ("+".join((["obs"] if rm_obs else []) + (["point"] if rm_pts else [])) or "none"))
        ck.case(cls)
        ck.count("iterations in round %d: %d" % (k, it_k))
        if rm_obs:
            ck.count("rounds with observations removed by gama (abs. term)")
        if rm_pts:
            ck.count("rounds with points removed by gama")
        # ---------------- (a) export exists, well-formed, schema-valid, accepted
        if len(texts) <= k + 1:
            viol("export:missing:round%d" % k, "gama-local adjusted in%d but wrote no export file (rc %s)" % (k, res["exp_runs"][k].rc), round=k)
            return
        ck.count("exports")
        txt = texts[k + 1]
        try:
            P[k + 1] = read_gkf(txt)
        except ET.ParseError as e:
            where, line = where_ill_formed(txt, e)
            viol("export:ill-formed:%s" % where, "exported in%d is not well-formed XML (%s): %s" % (k + 1, e, line.strip()[:160]),
                 round=k, export=txt if nviol[0] < 2 else None)
            return
        except Schema as e:
            viol("export:ill-formed:description" if e.where == "description" else "export:schema:%s" % e.where, "exported in%d does not conform to the documented format: %s" % (k + 1, e),
                 round=k, export=txt if nviol[0] < 2 else None)
            return
        g1 = runs[k + 1]
        oc1 = netlevel.outcome(g1)
        d = res["drv"][k + 1]
        if d is None or not d.get("ok"):
            err = (d or {}).get("error", {})
            viol("export:rejected:parser:%s" % re.sub(r"[^A-Za-z ]+", "", str(err.get("what", "?")))[:40].strip().replace(" ", "-"),
                 "gama's parser rejects exported in%d: %s" % (k + 1, err), round=k, export=txt if nviol[0] < 2 else None)
            return
        # ---------------- reader vs gama's parser on the same file (in_k and, at the end, in_{k+1})
        for kk in ((k, k + 1) if k == ROUNDS - 1 else (k,)):
            if M[kk] is None or P[kk] is None:
                continue
            for b in compare_models(P[kk], M[kk], strict=True):
                fld = b[0]
                explained.add(fld)
                viol("parser:%s" % fld, "gama's parser and the independent reader disagree on in%d: %s" % (kk, b[1]), round=kk)
            ck.count("files read by both readers")
        if oc1 != "adjusted" and not (oc1 == "ill-formed-xml" and R is None):
            desc = (g1.xml or {}).get("descriptions") if g1.xml else (g1.out or "")[-200:]
            viol("export:rejected:%s" % oc1, "in%d adjusted, exported in%d: %s %s" % (k, k + 1, oc1, desc), round=k,
                 export=txt if nviol[0] < 2 else None)
            return
        # ---------------- (b) same model
        seen = set()
        math_diff = set()
        ell = P[k]["params"]["has-latitude"] or P[k]["params"]["has-ellipsoid"]
        for view, A, B in (("reader", P[k], P[k + 1]), ("parser", M[k], M[k + 1])):
            if A is None or B is None:
                continue
            lab = "" if view == "reader" else "(gama parser view) "
            for b in compare_models(A, B, ck=ck, label=lab):
                fld, msg = b[0], b[1]
                pid = b[2] if len(b) > 2 else None
                if view == "reader" and fld in explained:
                    continue
                if fld in ("point-missing", "point-status", "point-coordinates-lost") and pid is not None:
                    if any(norm_id(pid) == norm_id(x) for x in rm_pts):
                        fld += ":removed-by-adjustment"
                if fld.startswith("obs:value:") and ell and fld.endswith((":value", ":sexagesimal-rounding")):
                    # observations reduced to the ellipsoid (latitude / ellipsoid given) are exported reduced
                    fld = fld.rsplit(":", 1)[0] + ":ellipsoid-reduction"
                if _is_math(fld):
                    math_diff.add(fld)
                if fld in seen:
                    continue
                seen.add(fld)
                viol("model:%d:%s" % (k, fld), "in%d vs exported in%d (%s view): %s" % (k, k + 1, view, msg), round=k)
            ck.count("model pairs compared (%s view)" % view)
        # algorithm: the exported file must ask for the algorithm that produced the results
        want = effective_algorithm(case, P[k])
        got = P[k + 1]["params"]["algorithm-attr"] or "envelope"
        if want != got:
            viol("model:%d:param:algorithm" % k, "run %d used %s, exported in%d asks for %s" % (k, want, k + 1, got), round=k)
        # nothing later in the exported file may replace the approximate coordinates written in its <point> list
        overridden = False
        for pid, t in P[k + 1]["top"].items():
            q = P[k + 1]["points"][pid]
            for c, nm in (("x", "x"), ("y", "y"), ("z", "zval")):
                if c in t and nm in q and abs(t[c] - q[nm]) > TOL_XY(t[c]) and q["xy" if c != "z" else "z"] in ("free", "constrained"):
                    ck.ratio("approximate coordinate replaced by a later element of the export [m] (tolerance 1 m, information)", abs(t[c] - q[nm]), 1.0)
                    if not overridden:
                        overridden = True
                        ck.count("exports whose <coordinates> replace the updated approximate coordinates")
        if R is None:
            continue
        # approximate coordinates of in_{k+1} = adjusted coordinates of out_k
        worst = (0.0, None)
        for pid, v in R["adjusted"].items():
            t = P[k + 1]["top"].get(norm_id(pid))
            if t is None:
                viol("model:%d:point-missing:adjusted" % k, "adjusted point %r of out%d has no <point> in exported in%d" % (pid, k, k + 1), round=k)
                continue
            for kx, val in v.items():
                c = kx.lower()
                if c not in t:
                    viol("model:%d:approx-coordinate-missing" % k, "point %r: adjusted %s in out%d but not given in in%d" % (pid, c, k, k + 1), round=k)
                    continue
                r = ck.ratio("exported approximate coordinate vs adjusted coordinate", abs(t[c] - val), TOL_XY(val))
                ck.ratio("exported approximate - adjusted coordinate [m] (tolerance 1 m, information)", abs(t[c] - val), 1.0)
                if r > 1 and r > worst[0]:
                    worst = (r, "point %r %s: exported %.17g, adjusted %.17g (diff %.3g m, %d iterations)" % (pid, c, t[c], val, t[c] - val, it_k))
        if worst[1]:
            viol("model:%d:approx-not-adjusted:%s" % (k, "iterated" if it_k else "not-iterated"),
                 "approximate coordinates of exported in%d are not the adjusted coordinates of out%d: %s" % (k + 1, k, worst[1]), round=k)
        # ---------------- (c) same adjustment, no iterations
        if g1.xml is None or g1.xml.get("kind") != "adjustment":
            continue
        if math_diff:
            # the exported file describes a different mathematical model (reported above under its own key):
            # the relation between the two adjustments is not evaluated
            ck.count("adjustment comparisons skipped because the exported model differs")
            continue
        rm1 = sorted((e["type"], e["from"], e["to"]) for e in g1.trace if e.get("kind") == "rm_obs_abs_term")
        if rm1 != sorted((e["type"], e["from"], e["to"]) for e in rm_obs):
            # gama excludes observations by their absolute terms, which depend on the approximate coordinates; the
            # export (rightly) still describes them, and with updated coordinates the decision may change
            ck.inconc("round %d: observations excluded for gross absolute terms differ from the previous round" % (k + 1))
            continue
        A = netlevel.physical_result(R, fr)
        B = netlevel.physical_result(g1.xml, fr)
        # gama refreshes the reduction of a slope distance / zenith angle for instrument and target heights only
        # when it changes by more than 0.1 cc / 0.001 mm: after iterations the final adjustment of run k may use
        # reductions computed from older approximate coordinates, the re-adjustment computes them afresh
        stale = it_k > 0 and any(o["type"] in ("s-distance", "z-angle") and (o["from_dh"] or o["to_dh"])
                                 for c in P[k]["clusters"] for o in c["obs"])
        sexa = any(f.endswith(":sexagesimal-rounding") for f in seen)
        # qualifiers observed in this round's files come first, the one inferred from preconditions last
        sfx = ":approx-replaced-by-observed-coordinates" if overridden else (":sexagesimal-rounding" if sexa else (
            ":stale-dh-reduction" if stale else ""))
        sfx_txt = " (approx. replaced by observed coordinates)" if overridden else (
            " (angles exported with 4 decimals of an arc second)" if sexa else (" (stale dh reductions)" if stale else ""))
        seen_c = set()
        if it_k == g1.xml.get("iterations") and it_k < MAX_ITER:
            cmp_ = netlevel.compare_physical(A, B)
        else:
            # run k iterated (or ran into the iteration limit), the re-adjustment starts from its adjusted coordinates: the two
            # stopped at different linearisation points and agree to what gama's stopping rule leaves open
            # (first-order bound from the recorded system of run k + what Gauss-Newton neglects, which grows with
            # the residuals; see netlevel.linearisation_bound*)
            ck.count("adjustment pairs with different iteration counts (linearisation-criterion tolerances)")
            evs_k = netlevel.adjust_events(g)
            lin_mm = 0.0
            if evs_k:
                r_k = lsq.Reference(netlevel.event_problem(evs_k[-1]))
                coords_k = [j + 1 for j, u in enumerate(evs_k[-1]["unknowns"]) if u["type"] in ("X", "Y", "Z")]
                if r_k.ok and r_k.T is not None:
                    lin_mm = netlevel.linearisation_bound(r_k, coords_k) + netlevel.linearisation_bound_residual_term(
                        r_k, coords_k, evs_k[-1]["x"], netlevel.min_sight(net))
            tol_m = max(1e-6, 2e-3 * lin_mm)
            if os.environ.get("VERIF_DEBUG"):
                print("DEBUG C13 pair", k, "it_k", it_k, "g1 it", g1.xml.get("iterations"), "events", len(evs_k), "lin_mm", lin_mm, "dmin", netlevel.min_sight(net))
            ck.ratio("adjustment pairs: coordinate tolerance between linearisation points [m] / 1e-6", tol_m, 1e-6)
            dmin_mm = max(netlevel.min_sight(net), 1.0) * 1000.0
            cmp_ = netlevel.compare_physical(A, B, tol_m=tol_m, rel=max(netlevel.rel_between_linearisation_points(net), 2e-3 * lin_mm / 1e-3 * 1e-4),
                                             res_tol=max(1e-2, tol_m * 1e3 * max(1.0, 636620.0 / dmin_mm)))
        for key, msg, okey in cmp_:
            if key in seen_c:
                continue
            seen_c.add(key)
            viol("adjust:%d:%s%s" % (k, key, sfx), "out%d vs out%d: %s" % (k, k + 1, msg), round=k)
        for pid, dA in A["points"].items():
            dB = B["points"].get(pid, {})
            for c in dA:
                if c in dB:
                    ck.ratio("adjusted coordinates round k vs k+1 [m]" + sfx_txt, abs(dA[c] - dB[c]), 1e-7)
        ck.ratio("sum of squares round k vs k+1 (relative)" + sfx_txt, _relerr(A["ss"], B["ss"]), 1.1e-6)
        ck.count("adjustment pairs compared")
        ck.count("fields compared between adjustments", len(A["points"]) * 3 + sum(len(v) for v in A["obs"].values()) + len(A["cov"]))
        converged = it_k < MAX_ITER
        if converged and g1.xml["iterations"] != 0:
            viol("iterations:%d%s" % (k, sfx), "run %d converged after %d iterations, but adjusting the exported in%d needed %d more" % (
                k, it_k, k + 1, g1.xml["iterations"]), round=k)
        if converged:
            ck.count("iteration checks")
        else:
            ck.count("rounds that hit the iteration limit")
    # ---------------- (d) fixed point
    def _excl(g_):
        return sorted((e.get("kind"), e.get("type"), e.get("from"), e.get("to"), e.get("id")) for e in g_.trace
                      if e.get("kind") in ("rm_obs_abs_term", "rm_point"))
    if len(texts) > ROUNDS and P[ROUNDS] is not None and P[ROUNDS - 1] is not None and ROUNDS >= 2 \
            and _excl(runs[ROUNDS - 2]) != _excl(runs[ROUNDS - 1]):
        # the two adjustments whose exports are compared worked with different sets of observations (gama excludes by
        # absolute terms, which depend on the approximate coordinates: a chain that starts far from the solution may
        # need more rounds to settle) -- as for relation (c), nothing to relate
        ck.inconc("fixed point: exclusions differ between the last two rounds")
    elif len(texts) > ROUNDS and P[ROUNDS] is not None and P[ROUNDS - 1] is not None:
        seen = set()
        for view, A, B in (("reader", P[ROUNDS - 1], P[ROUNDS]), ("parser", M[ROUNDS - 1], M[ROUNDS])):
            if A is None or B is None:
                continue
            ell = A["params"]["has-latitude"] or A["params"]["has-ellipsoid"]
            for b in compare_models(A, B, ck=ck, label="(fixed point) ", approx_tol=TOL_XY):
                fld = b[0]
                if ell and fld.startswith("obs:value:") and fld.endswith((":value", ":sexagesimal-rounding")):
                    fld = fld.rsplit(":", 1)[0] + ":ellipsoid-reduction"
                elif ell and fld in ("approx-coordinate", "point-status"):
                    # (the drifting zenith angles of the known finding end up beyond tol-abs in a later round only,
                    # the point they determine is removed there and is exported as unused)
                    fld += ":ellipsoid-reduction"
                if fld in seen:
                    continue
                seen.add(fld)
                viol("fixed-point:%s" % fld, "in%d vs in%d (%s view): %s" % (ROUNDS - 1, ROUNDS, view, b[1]))
        tA, tB = P[ROUNDS - 1]["top"], P[ROUNDS]["top"]
        for pid in tA:
            for c in tA[pid]:
                if pid in tB and c in tB[pid]:
                    if ck.ratio("(fixed point) <point> coordinate as written", abs(tA[pid][c] - tB[pid][c]), TOL_XY(tA[pid][c])) > 1 \
                            and "top" not in seen:
                        seen.add("top")
                        viol("fixed-point:point-coordinate" + (":ellipsoid-reduction" if ell else ""), "in%d vs in%d: <point id=%r> %s %.17g vs %.17g" % (
                            ROUNDS - 1, ROUNDS, pid, c, tA[pid][c], tB[pid][c]))
        ck.count("fixed-point comparisons")
        ck.cls(base_cls + ("fixed-point",))
    if i < 3:
        ck.sample(dict(index=i, kind=net.kind, features=case["feats"], frame=base_cls[2], ids=case["idclass"],
                       approx=case["approx"], mode=case["mode"], iterations=[g.xml["iterations"] for g in runs if g.xml and g.xml.get("kind") == "adjustment"],
                       head=texts[0].split("\n")[2:5]))


def run(tier, seed, only=None):
    runner.build("san", targets=["modeldrv", "gama-local"])
    ck = Check("C13", tier, seed,
               "chains in0 -> (adjust, export) -> in1 -> in2 -> in3 of generated networks (1D/2D/3D; fixed/free/mixed "
               "datum; directions, distances, angles, azimuths, slope distances, zenith angles, height differences "
               "with/without dist, vectors, observed coordinates, correlated clusters of every band; from_dh/to_dh/"
               "bs_dh/fs_dh incl. <obs from_dh> and <vec>; extern; implicit stdev; 8 axes x 2 handedness; degrees; "
               "translation; ids with blanks/UTF-8/XML specials; exact/perturbed/omitted approximate coordinates; "
               "blunders and undetermined points that gama removes; --export with and without --xml); each file "
               "read by an independent ElementTree reader and by gama's GKFparser (modeldrv); class = (kind, "
               "features, axes/handedness/unit, id class, approx, output mode, round, removed items)")
    n = tier_n(tier, 240, 4000)
    idx = [k for k in range(n) if only is None or k == only]

    def work(k):
        case = gen_case(seed, k, tier)
        return case, run_chain(ck, case)

    for b in range(0, len(idx), 160):                  # batches bound the memory held by finished chains
        for case, res in runner.pmap(work, idx[b:b + 160]):
            check_chain(ck, case, res, seed, tier)
    ck.assumptions += [
        "the reader of the gkf text follows the manual (gama-local-input.texi) and gama-local.xsd",
        "tolerances: angular values 1e-10 gon (a larger difference that is within half a unit of the 4th decimal of an "
        "arc second of a sexagesimal export gets the key suffix :sexagesimal-rounding), lengths 1e-9 m, heights 1e-9 m, stdev/covariances/parameters 1e-12 relative, coordinates 1e-9 m + 16 "
        "printed digits; adjustments 1e-7 m / 1e-6 relative (netlevel.compare_physical)",
        "parameters, heights and section lengths are generated with at most 8 significant digits (the export prints 8)",
        "a run 'converged' if it needed fewer than the default limit of 5 linearisation iterations",
        "relation (c) is evaluated only when relation (b) found no difference that changes the mathematical model "
        "(such a difference is reported under its own model:<round>:<field> key), and only when both rounds excluded "
        "the same observations for gross absolute terms (otherwise inconclusive)",
        "chains whose adjustment XML is ill-formed because of XML specials in ids/extern (property C12) are examined "
        "for relations (a), (b), (d) only"]
    if only is None:
        ck.minimum = dict(evaluations=tier_n(tier, 400, 7000), distinct=100,
                          **{"fixed-point comparisons": tier_n(tier, 100, 2000), "exports": tier_n(tier, 400, 7000),
                             "model pairs compared (reader view)": tier_n(tier, 400, 7000),
                             "model pairs compared (parser view)": tier_n(tier, 400, 7000),
                             "adjustment pairs compared": tier_n(tier, 150, 2500),
                             "iteration checks": tier_n(tier, 150, 2500),
                             "rounds with observations removed by gama (abs. term)": tier_n(tier, 30, 500),
                             "rounds with points removed by gama": tier_n(tier, 15, 250)})
    return ck.finish()


def replay(path):
    w = json.load(open(path))
    return run(w["witness"].get("tier", w["tier"]), w["witness"]["seed"], only=w["witness"]["index"])
