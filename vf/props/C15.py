"""C15 — dense matrix library (lib/matvec) obeys the algebra it implements.

Runtime monitor: the sanitized driver `matdrv` (harness/matdrv.cpp) generates the workload AND holds the
oracle (long-double naive loops written from the definitions).  This module shards the cases of the five
sub-checks over the cores, restarts a shard behind a case that died (sanitizer report / abort), routes
every report through the violation machinery and aggregates the driver's counters into the evidence.

  exhaustive  all dims 0..3 (thorough 0..4) x entries in {-1,0,1,2}; all assignments when the operands have
              <= 9 (thorough 10) entries, otherwise a deterministic subset of 16384 (65536); exact comparison
  random      sizes <= 30, constructed condition number: identities judged for kappa <= 1e4 with tolerance
              100*n*eps*kappa*scale; kappa 1e8..1e14 and exactly singular: only "no sanitizer report / crash"
              (non-finite results without an exception are counted in the evidence, not reported)
  history     random sequences (<= 30 steps) of copy/assign/move/reset/set/write over pools of 4 objects of
              Mat, Vec, SymMat, BandMat, CovMat against a shadow model; sources mutated after every copy
  conform     non-conforming operands for every operator/function => Exception::matvec
  leak        object life-cycle scenarios, one per process, with LeakSanitizer enabled

Keys: violations seen by the oracle are `<subcheck>:<operation>[:<detail>]`; sanitizer reports are keyed by
their root cause (kind + source line + top library frames), whatever operation reached it.
"""
import json
import os
import re

from .. import runner
from ..runner import Check, tier_n

NSHARD = 64


def _params(tier, sub):
    if sub == "exhaustive":
        return tier_n(tier, ["--maxdim", "3", "--allk", "9", "--budget", "16384"],
                      ["--maxdim", "4", "--allk", "10", "--budget", "65536"])
    return []


def _sabotage(sub):
    s = os.environ.get("VERIF_C15_SABOTAGE", "")      # "<subcheck>:<k>"  sensitivity self-test only
    if s.startswith(sub + ":"):
        return ["--sabotage", s.split(":", 1)[1]]
    return []


class Shard:
    def __init__(self):
        self.K, self.k, self.R, self.V, self.S, self.F = {}, {}, {}, [], [], {}
        self.crashes = []          # (case id, label, RunResult, argv)
        self.timeouts = []
        self.done = 0
        self.vcount = {}

    def parse(self, out):
        for ln in out.splitlines():
            if not ln:
                continue
            t = ln[0]
            if ln.startswith("K ") or ln.startswith("k "):
                cls, n = ln[2:].rsplit(" ", 1)
                d = self.K if t == "K" else self.k
                d[cls] = d.get(cls, 0) + int(n)
            elif ln.startswith("R "):
                _, name, val = ln.split(" ", 2)
                v = float(val)
                if v > self.R.get(name, -1.0):
                    self.R[name] = v
            elif ln.startswith("V "):
                parts = [p.strip() for p in ln[2:].split(" | ")]
                if len(parts) >= 3:
                    self.V.append((parts[0], " | ".join(parts[1:-1]), parts[-1]))
            elif ln.startswith("F "):
                key, n = ln[2:].rsplit(" ", 1)
                self.F[key] = self.F.get(key, 0) + int(n)
            elif ln.startswith("S "):
                self.S.append(ln[2:])
            elif ln.startswith("N "):
                key, n = ln[2:].rsplit(" ", 1)
                self.vcount[key] = self.vcount.get(key, 0) + int(n)
            elif ln.startswith("DONE "):
                self.done += int(ln.split()[1])


def _argv(exe, sub, seed, first, n, stride, params):
    return [exe, sub, str(seed), str(first), str(n), str(stride)] + params


def _run_shard(exe, sub, seed, first, n, stride, params, timeout, san_extra=None):
    """Run cases first, first+stride, ... (n of them); restart behind a case that kills the process."""
    sh = Shard()
    cur, remaining = first, n
    while remaining > 0:
        rr = runner.run(_argv(exe, sub, seed, cur, remaining, stride, params) + _sabotage(sub),
                        timeout=timeout, san_extra=san_extra)
        sh.parse(rr.out or "")
        clean = rr.rc == 0 and not rr.timeout and re.search(r"^DONE \d+\s*\Z", rr.out or "", re.M) is not None
        if clean:
            break
        last = None
        for m in re.finditer(r"^C (\d+) (\S+)$", rr.err or "", re.M):
            last = m
        if last is None:
            raise runner.HarnessError("matdrv %s died before its first case: rc=%s %s" % (sub, rr.rc, (rr.err or "")[-400:]))
        cid, label = int(last.group(1)), last.group(2)
        one = _argv(exe, sub, seed, cid, 1, 1, params)
        if rr.timeout:
            sh.timeouts.append((cid, label, one))
        else:
            sh.crashes.append((cid, label, rr, one))
        ndone = (cid - cur) // stride + 1
        cur, remaining = cid + stride, remaining - ndone
    return sh


def _san_prefix(rr):
    """'<file>:<line>#<hash>|' of the innermost library frame: makes the key readable and its replay file name unique
    (the runner truncates file names at 80 characters, before the frames that tell two reports apart)."""
    import hashlib
    m = re.search(r"#\d+ 0x[0-9a-f]+ in .*? /\S*?/lib/matvec/([\w.]+):(\d+)", rr.err or "")
    loc = "%s:%s" % (m.group(1), m.group(2)) if m else "?"
    h = hashlib.sha1((rr.san["key"] if rr.san else "rc%s" % rr.rc).encode()).hexdigest()[:4]
    return "%s#%s|" % (loc, h)


def _witness(sub, seed, cid, label, argv):
    return dict(subcheck=sub, seed=seed, case=cid, label=label, argv=argv[1:], cmd="matdrv " + " ".join(argv[1:]))


def run(tier, seed):
    runner.build("san", targets=["matdrv"])
    exe = runner.binpath("san", "matdrv")
    ck = Check("C15", tier, seed,
               "class = (sub-check, type, operation, size bucket | conditioning bucket | history mode); an evaluation = "
               "one operand assignment (exhaustive), one generated problem (random), one history step, one "
               "non-conforming call; non-trivial = result compared with the long-double reference / shadow model")
    plan = []      # (sub, total cases)
    rr = runner.run([exe, "exhaustive", "count"] + _params(tier, "exhaustive"))
    nex = int(rr.out.split()[0])
    rr = runner.run([exe, "conform", "count"])
    ncf = int(rr.out.split()[1])
    rr = runner.run([exe, "random", "count"])
    nrf = int(rr.out.split()[1])
    rr = runner.run([exe, "leak", "count"])
    nlk = int(rr.out.split()[0])
    plan.append(("exhaustive", nex))
    plan.append(("random", nrf * tier_n(tier, 600, 4000)))
    plan.append(("history", tier_n(tier, 16000, 120000)))
    plan.append(("conform", ncf * tier_n(tier, 40, 200)))
    jobs = []
    for sub, total in plan:
        ns = min(NSHARD, total)
        for s in range(ns):
            n = (total - s + ns - 1) // ns
            jobs.append((sub, s, n, ns))
    # leak scenarios: one process each, LeakSanitizer on
    for i in range(nlk):
        jobs.append(("leak", i, 1, 1))
    timeout = tier_n(tier, 900, 3600)

    def work(j):
        sub, first, n, stride = j
        return j, _run_shard(exe, sub, seed, first, n, stride, _params(tier, sub), timeout,
                             san_extra="detect_leaks=1:alloc_dealloc_mismatch=1" if sub == "leak" else "alloc_dealloc_mismatch=1")

    results = runner.pmap(work, jobs)

    seen_san = {}
    wit_by_key = {}
    samples = {}
    for (sub, first, n, stride), sh in results:
        for cls, cnt in sh.K.items():
            ck.case(cls, cnt)
        for cls, cnt in sh.k.items():
            ck.cls(cls, cnt)
        for name, v in sh.R.items():
            ck.ratio(name, v, 1.0)
        for key, cnt in sh.F.items():       # observed, not judged (the property is silent on singular operands)
            ck.count("nonfinite_without_exception:" + key, cnt)
        ck.count("cases_" + sub, n)
        for s in sh.S[:1]:
            samples.setdefault(sub, []).append(s)
        for key, what, wit in sh.V:
            toks = wit.split()
            wit_by_key.setdefault(key, "matdrv " + wit)
            ck.violation(key, what, dict(subcheck=toks[0], seed=int(toks[1]), case=int(toks[2]), cmd="matdrv " + wit,
                                         argv=[t for t in toks if not t.startswith("(") and not t.endswith(")")]))
        for key, cnt in sh.vcount.items():
            ck.count("oracle_violations", cnt)
        for cid, label, one in sh.timeouts:
            r1 = runner.run(one, timeout=timeout)
            if r1.timeout:
                ck.violation("hang:" + label, "case does not finish within %d s on its own" % timeout, _witness(sub, seed, cid, label, one))
            else:
                ck.inconc("watchdog fired in a batch, case finishes alone")
        for cid, label, rr, one in sh.crashes:
            ck.count("process_deaths")
            w = _witness(sub, seed, cid, label, one)
            if sub == "leak":     # label = leak:<Type>:<scenario>; the five container kinds share MemRep, other types keep their name
                lp = label.split(":")
                prefix = "leak:%s|" % (lp[2] if lp[1] in ("Mat", "Vec", "SymMat", "BandMat", "CovMat") and not lp[2].startswith(("operators", "transpose", "exception", "cholDec")) else ":".join(lp[1:]))
            else:
                prefix = _san_prefix(rr)
            skey = prefix + (rr.san["key"] if rr.san else "rc%s" % rr.rc)
            if skey not in seen_san:
                # first sighting of this root cause: reproduce it from the single-case witness
                if sub == "leak":
                    r1 = rr
                else:
                    r1 = runner.run(one + _sabotage(sub), timeout=timeout, san_extra="alloc_dealloc_mismatch=1")
                same = bool(r1.san) and bool(rr.san) and r1.san["key"] == rr.san["key"]
                seen_san[skey] = same
                ck.count("root_causes_reproduced_alone" if same else "root_causes_not_reproduced_alone")
                if not same and not r1.san and not (r1.signaled or r1.rc in (134, 139)):
                    ck.inconc("process death in a batch not reproduced by the single case")
                    w["note"] = "seen in batch only: " + " ".join(_argv("matdrv", sub, seed, first, n, stride, _params(tier, sub)))
            ck.count("sanitizer:" + label)
            wit_by_key.setdefault(prefix + (rr.san["key"] if rr.san else ""), w["cmd"] + (" [LeakSanitizer on]" if sub == "leak" else ""))
            if not ck.sanitizer(rr, w, prefix=prefix):
                ck.violation("death:" + label, "driver process ended abnormally rc=%s: %s" % (rr.rc, (rr.err or "")[-300:]), w)
    for sub in ("exhaustive", "random", "history", "conform"):
        for s in samples.get(sub, [])[:2]:
            ck.sample(s, limit=8)
    ck.counters["witness_by_key"] = wit_by_key
    ck.assumptions += [
        "operands of the equalities are scaled O(0.1..100): Mat::invert / cholDec / SVD / GSO use absolute or "
        "sqrt(eps)-relative pivot tolerances; smaller scales are outside 'numerically unambiguous' and not generated",
        "tolerances: exact for small-integer operands; 100*n*eps*kappa*scale for identities on operands with "
        "constructed kappa <= 1e4; least squares through GSO 100*(m+n)*eps*kappa^2; products 2(k+2)*eps*sum|a||b|; "
        "eigenvalues/singular values 100*n*eps*norm",
        "moved-from objects are only assigned to or destroyed; contents after reset(r,c) are treated as unspecified",
        "Vec*TransMat is judged as b'*A (its own dimension check and TransVec result admit no other conforming reading)",
        "TransMat*scalar cannot be instantiated (transmat.h:67 does not compile) and is not covered",
    ]
    ck.minimum = dict(evaluations=tier_n(tier, 1000000, 10000000), distinct=150,
                      cases_exhaustive=nex, cases_random=1000, cases_history=1000, cases_conform=ncf, cases_leak=nlk)
    return ck.finish()


def replay(path):
    w = json.load(open(path))["witness"]
    exe = runner.binpath("san", "matdrv") if os.path.exists(os.path.join(runner.build_dir("san"), "matdrv")) else None
    if exe is None:
        runner.build("san", targets=["matdrv"])
        exe = runner.binpath("san", "matdrv")
    argv = [exe] + list(w["argv"])
    leak = w.get("subcheck") == "leak"
    rr = runner.run(argv, timeout=3600, san_extra="detect_leaks=1:alloc_dealloc_mismatch=1" if leak else "alloc_dealloc_mismatch=1")
    print("replay:", " ".join(argv))
    print(rr.out[-3000:])
    if rr.err:
        print(rr.err[-3000:])
    bad = rr.rc != 0 or rr.san is not None or any(l.startswith("V ") for l in rr.out.splitlines())
    print("replay verdict:", "VIOLATION reproduced" if bad else "held")
    return 1 if bad else 0
