"""C04 — solver answers do not depend on the order or history of queries.
History monitor with a fresh-object oracle: random and bounded-exhaustive sequences of API calls on a live
solver object (bare AdjBase solvers as LocalNetwork drives them, and the general class Adj); after every
query the same question is put to a brand-new object holding the same input and the regularisation in
force (adjdrv's FRESH).  Network-object histories are in netlevel (netdrv)."""
import itertools
import json
import numpy as np

from .. import runner, lsq, solver
from ..runner import Check, tier_n

QUERIES_BASE = ["X", "R", "SS", "DEF", "QXX", "QBB", "QBX", "Q0", "LINDEP"]
QUERIES_ADJ = ["X", "R", "SS", "DEF", "QXX", "QBB"]


def gen_history(rng, P, ref, kind, length, idx_pool, obs_pool):
    n, m = ref.n, ref.m
    cmds = []
    for _ in range(length):
        u = rng.uniform()
        if kind == "base":
            if u < 0.08 and ref.defect:
                # a subset that resolves the defect (validated by the reference)
                for _t in range(10):
                    k = int(rng.integers(ref.defect, n + 1))
                    S = sorted(int(i) for i in rng.choice(n, k, replace=False))
                    if np.linalg.svd(ref.G[S, :], compute_uv=False)[-1] > 0.2:
                        cmds.append("MINX %d " % k + " ".join(str(s + 1) for s in S))
                        break
                continue
            if u < 0.12:
                cmds.append("MINXALL"); continue
            if u < 0.17:
                cmds.append("RESET"); continue
            q = str(rng.choice(QUERIES_BASE))
        else:
            if u < 0.06:
                cmds.append("RESET"); continue
            if u < 0.14:
                cmds.append("ALG " + str(rng.choice(lsq.ALGS))); continue
            q = str(rng.choice(QUERIES_ADJ))
        if q in ("QXX", "Q0"):
            cmds.append("%s %d %d" % (q, rng.choice(idx_pool), rng.choice(idx_pool)))
        elif q == "QBB":
            cmds.append("QBB %d %d" % (rng.choice(obs_pool), rng.choice(obs_pool)))
        elif q == "QBX":
            cmds.append("QBX %d %d" % (rng.choice(obs_pool), rng.choice(idx_pool)))
        elif q == "LINDEP":
            cmds.append("LINDEP %d" % rng.choice(idx_pool))
        else:
            cmds.append(q)
    return cmds


def is_query(c):
    return c.split()[0] not in ("MINX", "MINXALL", "RESET", "ALG", "NEW")


def with_oracle(cmds):
    out = []
    for c in cmds:
        out.append(c)
        if is_query(c):
            out.append("FRESH " + c)
    return out


def compare(a, b, tol):
    """a: answer in history, b: fresh answer."""
    if a[0] == "NA" or b[0] == "NA":
        return None
    if a[0] != b[0]:
        return "history answered %s %s, a fresh object answers %s %s" % (a[0], str(a[1])[:60], b[0], str(b[1])[:60])
    if a[0] == "EXC":
        return None if a[1].split()[0] == b[1].split()[0] else "different exception %s vs %s" % (a[1], b[1])
    if a[0] != "OK":
        return None
    va, vb = np.array(a[1]), np.array(b[1])
    if va.shape != vb.shape:
        return "shape differs"
    if not np.all(np.isfinite(va)) and np.all(np.isfinite(vb)):
        return "non-finite value in history"
    if len(va) == 0:
        return None
    d = float(np.max(np.abs(va - vb)))
    if d > tol * max(1.0, float(np.max(np.abs(vb)))):
        return "history value differs from a fresh object's by %.3g (fresh max |v| %.3g)" % (d, float(np.max(np.abs(vb))))
    return None


def first_divergence(P, kind, alg, cmds, tol):
    """Run history with oracle; returns (index into cmds, message, crash RunResult|None) or None."""
    script = ["NEW %s %s" % (kind, alg)] + with_oracle(cmds)
    r = solver.run_scripts([(P, script)], batch=1)[0]
    reps = r["replies"][1:]
    pos = 0
    for k, c in enumerate(cmds):
        if pos >= len(reps):
            return (k, "process died at %s" % (r["crash_cmd"]), r["crash"])
        if is_query(c):
            if pos + 1 >= len(reps):
                return (k, "process died at %s" % (r["crash_cmd"]), r["crash"])
            msg = compare(reps[pos], reps[pos + 1], tol)
            if msg:
                return (k, msg, None)
            pos += 2
        else:
            pos += 1
    if r["crash"] is not None:
        return (len(cmds) - 1, "process died", r["crash"])
    return None


def minimise(P, kind, alg, cmds, k, tol):
    """Greedy delta-debugging: keep the failing query (last), drop earlier commands while it still fails."""
    seq = cmds[:k + 1]
    changed = True
    while changed and len(seq) > 1:
        changed = False
        for i in range(len(seq) - 1):
            trial = seq[:i] + seq[i + 1:]
            d = first_divergence(P, kind, alg, trial, tol)
            if d is not None and d[0] == len(trial) - 1:
                seq = trial
                changed = True
                break
    return seq


def shape(seq):
    """history signature without concrete indices; equal index pairs are marked (i,i)."""
    out = []
    for c in seq:
        t = c.split()
        if t[0] in ("QXX", "Q0", "QBB") and len(t) == 3:
            out.append(t[0] + ("(i,i)" if t[1] == t[2] else "(i,j)"))
        elif t[0] == "MINX":
            out.append("MINX(S)")
        elif t[0] == "ALG":
            out.append("ALG")
        else:
            out.append(t[0])
    return ">".join(out)


def problems(seed, n, tier):
    for i in range(n):
        rng = np.random.default_rng([seed, i, 404])
        force = {}
        if i % 4 != 0:
            force["defect"] = int(rng.integers(1, 4))
        if i % 2 == 0:
            force["pattern"] = str(rng.choice(["banded", "network"]))
            force["n"] = int(rng.integers(10, 22))
        force["subset"] = "none"
        yield i, rng, lsq.gen_problem(rng, force=force)


NET_QUERIES = ["SOLVE", "RES", "PVV", "M0", "M0APOST", "DOF", "NULL", "NUNK", "NOBS", "CONFCOEF", "CONNECTED",
               "QXX", "QBB", "STDEVOBS", "WCOEF", "STDEVRES", "STUDRES", "OBSCTRL", "LINDEP", "UNKSTDEV", "ELLIPSE"]
NET_STATE = ["SETALG", "UPDATE", "SIGMAACT", "CONFPR", "APRIORI", "TOLABS"]


def net_history(rng, nunk, nobs, nell, length):
    cmds = []
    up = [int(x) for x in rng.choice(nunk, min(4, nunk), replace=False) + 1]
    op = [int(x) for x in rng.choice(nobs, min(4, nobs), replace=False) + 1]
    for _ in range(length):
        u = rng.uniform()
        if u < 0.06:
            cmds.append("SETALG " + str(rng.choice(lsq.ALGS)))
        elif u < 0.14:
            cmds.append("UPDATE " + str(rng.choice(["points", "observations", "residuals", "adjustment"])))
        elif u < 0.17:
            cmds.append("SIGMAACT " + str(rng.choice(["apriori", "aposteriori"])))
        elif u < 0.19:
            cmds.append("CONFPR %s" % rng.choice(["0.9", "0.95", "0.5"]))
        else:
            q = str(rng.choice(NET_QUERIES))
            if q in ("QXX",):
                cmds.append("QXX %d %d" % (rng.choice(up), rng.choice(up)))
            elif q == "QBB":
                cmds.append("QBB %d %d" % (rng.choice(op), rng.choice(op)))
            elif q in ("STDEVOBS", "WCOEF", "STDEVRES", "STUDRES", "OBSCTRL"):
                cmds.append("%s %d" % (q, rng.choice(op)))
            elif q in ("LINDEP", "UNKSTDEV"):
                cmds.append("%s %d" % (q, rng.choice(up)))
            elif q == "ELLIPSE":
                if nell:
                    cmds.append("ELLIPSE %d" % int(rng.integers(1, nell + 1)))
            else:
                cmds.append(q)
    return cmds


def net_is_query(c):
    return c.split()[0] not in NET_STATE


def network_histories(ck, tier, seed):
    """history monitor on live LocalNetwork objects (nethistdrv): generated networks x 4 algorithms x random
    histories; every answer compared with a freshly parsed and prepared network given the same settings"""
    import os
    from scipy import stats as scipy_stats
    from .. import netgen, netlevel
    runner.build("san", targets=["nethistdrv"])
    exe = runner.binpath("san", "nethistdrv")
    n = tier_n(tier, 12, 300)
    nh = tier_n(tier, 2, 4)
    fr = netgen.Frame()
    jobs = []
    for i in range(n):
        rng, net, feats = netlevel.gen_mixed(seed, i, 4040)
        txt = netgen.to_gkf(net, fr)
        path = os.path.join(ck.tmp, "h%d.gkf" % i)
        with open(path, "w") as f:
            f.write(txt)
        nunk = max(2, 2 * sum(1 for q in net.points.values() if q.xy in ("free", "constrained")) +
                   sum(1 for q in net.points.values() if q.z in ("free", "constrained")))
        nobs = max(2, sum(len(c.obs) for c in net.clusters))
        nell = sum(1 for q in net.points.values() if q.xy in ("free", "constrained"))
        for alg in lsq.ALGS:
            for h in range(nh):
                cmds = net_history(rng, nunk, nobs, nell, int(rng.integers(3, 15)))
                jobs.append((i, net.kind, feats, alg, path, cmds))
        # directed: every setting that a derived statistic depends on is changed between two readings of it
        jobs.append((i, net.kind, feats, lsq.ALGS[i % 4], path,
                     ["CONFCOEF", "M0", "CONFPR 0.9", "CONFCOEF", "SIGMAACT apriori", "M0", "CONFCOEF", "UNKSTDEV 1",
                      "CONFPR 0.5", "CONFCOEF", "SIGMAACT aposteriori", "M0", "CONFCOEF", "UNKSTDEV 1", "CONFPR 0.95",
                      "CONFCOEF", "STUDRES 1", "APRIORI 3.5", "M0", "STDEVOBS 1", "SIGMAACT apriori", "M0", "STDEVOBS 1"]))

    def run_hist(path, alg, cmds):
        script = []
        for c in cmds:
            script.append(c)
            if net_is_query(c):
                script.append("FRESH " + c)
        rr = runner.run([exe, path, alg], stdin="\n".join(script) + "\n", timeout=300)
        return rr, script

    def divergence(rr, cmds):
        out = [l for l in (rr.out or "").split("\n") if l != ""]
        if not out or out[0] != "NET-OK":
            return ("setup", out[0] if out else "no output"), None
        reps = [solver.parse_reply(l) for l in out[1:]]
        pos = 0
        for k, c in enumerate(cmds):
            if net_is_query(c):
                if pos + 1 >= len(reps):
                    return None, (k, "process died at %s" % c)
                a, b = reps[pos], reps[pos + 1]
                msg = compare(a, b, 1e-9)
                if msg:
                    return None, (k, msg)
                if c == "CONFCOEF" and a[0] == "OK" and len(a[1]) == 4:
                    # independent oracle (scipy): the fresh object shares process-wide state with the live one
                    coef, dof, p, apost = a[1]
                    ref = None
                    if apost and dof > 0:
                        ref = float(scipy_stats.t.ppf(1 - (1 - p) / 2, dof)); tol = 5e-4 * ref
                    elif not apost:
                        ref = float(scipy_stats.norm.ppf(1 - (1 - p) / 2)); tol = 1e-6 * ref
                    if ref is not None and abs(coef - ref) > tol:
                        return None, (k, "confidence coefficient %.9g is not the quantile %.9g for probability %g, dof %d (%s)" % (
                            coef, ref, p, dof, "Student" if apost else "normal"))
                pos += 2
            else:
                if pos >= len(reps):
                    return None, (k, "process died at %s" % c)
                pos += 1
        return None, None

    def work(job):
        i, kind, feats, alg, path, cmds = job
        rr, script = run_hist(path, alg, cmds)
        return job, rr

    for (i, kind, feats, alg, path, cmds), rr in runner.pmap(work, jobs):
        wit = dict(seed=seed, index=i, level="network", kind=kind, features=feats, alg=alg, history=cmds)
        if rr.timeout:
            ck.inconc("timeout"); continue
        setup, div = divergence(rr, cmds)
        if setup:
            ck.inconc("network set-up failed: %s" % str(setup[1])[:60]); continue
        for k, c in enumerate(cmds):
            if net_is_query(c):
                ck.case(("network", alg, c.split()[0], "pos%d" % min(k, 4)))
            else:
                ck.count("network state-changing ops")
        if div is None and not rr.san and rr.rc == 0:
            ck.count("network histories held")
            continue
        k = div[0] if div else len(cmds) - 1
        # minimise: drop earlier commands while the last query still diverges
        seq = cmds[:k + 1]
        changed = True
        while changed and len(seq) > 1:
            changed = False
            for j in range(len(seq) - 1):
                trial = seq[:j] + seq[j + 1:]
                r2, _ = run_hist(path, alg, trial)
                _, d2 = divergence(r2, trial)
                if (d2 and d2[0] == len(trial) - 1) or r2.san:
                    seq, changed = trial, True
                    break
        r3, _ = run_hist(path, alg, seq)
        _, d3 = divergence(r3, seq)
        key = "network:%s:%s" % (alg, shape(seq))
        wit["history"] = seq
        with open(path) as f:
            wit["input"] = f.read()
        if ck.sanitizer(r3, wit, prefix=key + ":"):
            continue
        ck.violation(key, "%s [minimal history: %s; %s case %d]" % (d3[1] if d3 else div[1], " ; ".join(seq), kind, i), wit)


def memcheck_sample(ck, seed, n=48):
    """valgrind memcheck over a sample of histories (plain build): ASan does not see reads of uninitialised
    members, which is exactly what a history-dependent answer can be made of (e.g. a member set only by a
    state-changing call that the history did not make)."""
    import os, shutil
    if not shutil.which("valgrind"):
        ck.inconc("valgrind not available")
        return
    runner.build("plain", targets=["adjdrv"])
    exe = runner.binpath("plain", "adjdrv")
    jobs = []
    for i, rng, P in problems(seed, n, "thorough"):
        ref = lsq.Reference(P)
        if not ref.ok or ref.kappa > 1e4:
            continue
        nn, m = ref.n, ref.m
        idx_pool = [int(x) for x in rng.choice(nn, min(5, nn), replace=False) + 1]
        obs_pool = [int(x) for x in rng.choice(m, min(5, m), replace=False) + 1]
        for kind in ("base", "adj"):
            alg = lsq.ALGS[(i + (kind == "adj")) % 4]
            cmds = gen_history(rng, P, ref, kind, 8, idx_pool, obs_pool)
            jobs.append((i, kind, alg, P, cmds))

    def work(job):
        i, kind, alg, P, cmds = job
        script = "\n".join(lsq.to_script(P) + ["NEW %s %s" % (kind, alg)] + cmds) + "\n"
        rr = runner.run(["valgrind", "--quiet", "--error-exitcode=97", "--track-origins=no", exe], stdin=script, timeout=900)
        return job, rr

    for (i, kind, alg, P, cmds), rr in runner.pmap(work, jobs):
        if rr.timeout:
            ck.inconc("memcheck timeout")
            continue
        ck.case(("memcheck", kind, alg))
        ck.count("memcheck histories")
        if rr.rc == 97 or "uninitialised" in (rr.err or "") or "Invalid read" in (rr.err or "") or "Invalid write" in (rr.err or ""):
            import re as _re
            m = _re.search(r"==\d+== (Conditional jump|Use of uninitialised|Invalid read|Invalid write)[^\n]*", rr.err or "")
            frames = _re.findall(r"==\d+==\s+(?:at|by) 0x[0-9A-F]+: ([\w:~<>, ]+?)(?:\(|\s\()", rr.err or "")
            frames = [f for f in frames if "GNU_gama" in f][:2]
            key = "memcheck:%s:%s|%s" % (kind, (m.group(1) if m else "error").replace(" ", "-"), ">".join(f.split("<")[0] for f in frames))
            ck.violation(key, "valgrind memcheck: %s in %s" % (m.group(0)[:120] if m else "error", frames),
                         dict(seed=seed, index=i, kind=kind, alg=alg, history=cmds, meta=P["meta"], stderr=(rr.err or "")[:1500]))


def run(tier, seed, only=None):
    runner.build("san", targets=["adjdrv"])
    ck = Check("C04", tier, seed,
               "query histories over {unknowns,residuals,sum_of_squares,defect,q_xx,q_bb,q_bx,q0_xx,lindep,min_x(S),"
               "min_x(),reset,set_algorithm} on live solver objects, each answer compared with a fresh object's; "
               "class = (entry, algorithm, singular?, op, position bucket); random histories of length <= 16 with "
               "indices from a pool of 5 (3-slot cache => hits, evictions, key collisions) + all histories of length "
               "<= 2 (3 thorough) over a reduced alphabet")
    nprob = tier_n(tier, 120, 1200)
    nhist = tier_n(tier, 2, 4)
    items, info = [], []
    exh_problems = []
    exh_regular = []
    for i, rng, P in problems(seed, nprob, tier):
        if only is not None and i != only:
            continue
        ref = lsq.Reference(P)
        if not ref.ok or ref.kappa > 1e4:
            ck.inconc("not admitted")
            continue
        n, m = ref.n, ref.m
        idx_pool = [int(x) for x in rng.choice(n, min(5, n), replace=False) + 1]
        obs_pool = [int(x) for x in rng.choice(m, min(5, m), replace=False) + 1]
        tol = ref.tol(1.0)
        for kind in ("base", "adj"):
            for alg in lsq.ALGS:
                for h in range(nhist):
                    cmds = gen_history(rng, P, ref, kind, int(rng.integers(3, 17)), idx_pool, obs_pool)
                    if not cmds:
                        continue
                    items.append((P, ["NEW %s %s" % (kind, alg)] + with_oracle(cmds)))
                    info.append((i, P, ref, kind, alg, cmds, tol, "random"))
        if len(exh_problems) < tier_n(tier, 2, 12) and ref.defect and n >= 6:
            exh_problems.append((i, P, ref, idx_pool, obs_pool, tol))
        if len(exh_regular) < tier_n(tier, 2, 6) and not ref.defect:
            # a regular problem created with a regularisation subset (all unknowns): switching the regularisation
            # of a decomposed regular system must be a no-op
            exh_regular.append((i, dict(P, minx=list(range(1, n + 1))), ref, idx_pool, obs_pool, tol))
    # bounded-exhaustive histories over a reduced alphabet
    depth = tier_n(tier, 2, 3)
    for i, P, ref, idx_pool, obs_pool, tol in exh_problems:
        a, b = idx_pool[0], idx_pool[1]
        o1 = obs_pool[0]
        alpha_base = ["X", "SS", "DEF", "QXX %d %d" % (a, b), "QXX %d %d" % (b, b), "Q0 %d %d" % (a, b),
                      "QBB %d %d" % (o1, o1), "LINDEP %d" % a, "MINXALL", "RESET"]
        alpha_adj = ["X", "R", "SS", "DEF", "QXX %d %d" % (a, b), "QBB %d %d" % (o1, o1), "RESET", "ALG cholesky", "ALG envelope"]
        for kind, alpha in (("base", alpha_base), ("adj", alpha_adj)):
            for alg in lsq.ALGS:
                for L in range(1, depth + 1):
                    for cmds in itertools.product(alpha, repeat=L):
                        cmds = list(cmds)
                        if not is_query(cmds[-1]):
                            continue
                        items.append((P, ["NEW %s %s" % (kind, alg)] + with_oracle(cmds)))
                        info.append((i, P, ref, kind, alg, cmds, tol, "exhaustive"))
    for i, P, ref, idx_pool, obs_pool, tol in exh_regular:
        a, b = idx_pool[0], idx_pool[-1]
        alpha = ["X", "DEF", "QXX %d %d" % (a, b), "MINXALL",
                 "MINX %d " % ref.n + " ".join(str(k) for k in range(1, ref.n + 1)), "RESET"]
        for alg in lsq.ALGS:
            for L in range(1, 4):
                for cmds in itertools.product(alpha, repeat=L):
                    cmds = list(cmds)
                    if not is_query(cmds[-1]):
                        continue
                    items.append((P, ["NEW base %s" % alg] + with_oracle(cmds)))
                    info.append((i, P, ref, "base", alg, cmds, tol, "exhaustive"))
    res = solver.run_scripts(items, batch=30)
    found = {}
    for (i, P, ref, kind, alg, cmds, tol, mode), r in zip(info, res):
        reps = r["replies"][1:]
        pos, div = 0, None
        for k, c in enumerate(cmds):
            if is_query(c):
                if pos + 1 >= len(reps):
                    div = (k, "process died at: %s" % r["crash_cmd"], r["crash"])
                    break
                msg = compare(reps[pos], reps[pos + 1], tol)
                ck.case((kind, alg, "singular" if ref.defect else "regular", c.split()[0], "pos%d" % min(k, 4), mode))
                if msg:
                    div = (k, msg, None)
                    break
                pos += 2
            else:
                if pos >= len(reps):
                    div = (k, "process died at: %s" % r["crash_cmd"], r["crash"])
                    break
                ck.count("state-changing ops")
                pos += 1
        if div is None and r["crash"] is not None:
            div = (len(cmds) - 1, "process died", r["crash"])
        if div is None:
            ck.count("histories held")
            if len(ck.samples) < 3 and mode == "random":
                ck.sample(dict(problem=i, kind=kind, alg=alg, history=cmds))
            continue
        k, msg, crash = div
        sing = "singular" if ref.defect else "regular"
        if crash is not None and crash.timeout:
            ck.inconc("timeout")
            continue
        # minimise (bounded number of minimisations per signature)
        seq = cmds[:k + 1]
        sig0 = (kind, alg, sing, shape(seq[-3:]))
        if found.get(sig0, 0) < 2:
            found[sig0] = found.get(sig0, 0) + 1
            seq = minimise(P, kind, alg, cmds, k, tol)
        else:
            continue
        d2 = first_divergence(P, kind, alg, seq, tol)
        if d2 is not None:
            msg, crash = d2[1], d2[2]
        key = "%s:%s:%s:%s" % (kind, alg, sing, shape(seq))
        wit = dict(seed=seed, index=i, kind=kind, alg=alg, history=seq, meta=P["meta"])
        if crash is not None and (crash.san or crash.signaled or crash.rc not in (0, None)):
            if ck.sanitizer(crash, wit, prefix=key + ":"):
                continue
        ck.violation(key, "%s  [minimal history: %s; problem %d m=%d n=%d defect=%d]" % (
            msg, " ; ".join(seq), i, ref.m, ref.n, ref.defect), wit)
    if only is None:
        network_histories(ck, tier, seed)
    if only is None and tier == "thorough":
        memcheck_sample(ck, seed)
    ck.assumptions += ["the oracle is gama's own code on a fresh object (the property is about history independence, "
                       "not about correctness of the value, which C01/C03 decide)",
                       "a fresh Adj is asked x() before q_xx/q_bb/defect (documented usage)"]
    ck.minimum = dict(evaluations=tier_n(tier, 3000, 50000), distinct=60)
    return ck.finish()


def replay(path):
    w = json.load(open(path))
    wit = w["witness"]
    runner.build("san", targets=["adjdrv"])
    for i, rng, P in problems(wit["seed"], wit["index"] + 1, w["tier"]):
        pass
    ref = lsq.Reference(P)
    d = first_divergence(P, wit["kind"], wit["alg"], wit["history"], ref.tol(1.0))
    print("replay:", wit["history"], "->", d[:2] if d else "no divergence")
    if d and d[2] is not None:
        print(d[2].err[-3000:])
    return 1 if d else 0
