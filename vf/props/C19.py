"""C19 — gama-g3 reproduces consistent global networks, independent of algorithm.

Relational / reference-model monitor on the real gama-g3 binary (sanitizer build) and on gama's general
adjustment class (harness/adjdrv).  vf/g3gen.py draws an ellipsoid, a place and 4-12 points, derives error-free
observations from its own observation model and writes variants of the same network:
  E  approximate coordinates = truth, consistent observations           -> relation a (+ c)
  P  approximate coordinates of the unknown points perturbed by delta   -> relation b (+ c), Jacobian / misclosure
                                                                            of the --project-equations dump against
                                                                            the numerically differentiated model
  N  observations with noise ~ N(0, C)                                  -> relations c, d, e, f and the reference
                                                                            Gauss-Newton step (numpy, own Jacobian)
Violation keys (mix = observation kinds with the markers angle>200gon, angle(target-dh), angle(blh), (dh); a suffix
:<alg>:singular is added where the adjusted system has a rank defect):
  reproduce:<mix>:<exact|perturbed>[:<alg>:singular]      relations a, b
  algorithms:<field>:<algA>-vs-<algB>:<regular|singular>  relation c
  order:<field>:<alg>:<regular|singular>                  relation d
  redundancy:counts, redundancy:<alg>, defect:<datum>:<alg>, dropped-observations:<kind>:points-as-<forms>,
  datum-invariance:<field>:<alg>, ellipsoid:<id>          relation e
  project-equations:{shape,parameter-order,rhs:<kind>,jacobian:<kind>,cov,minx,x:<alg>,defect:<alg>,sum-of-squares:<alg>,
  reference:<alg>,...}                                    relation f
  reference-step:<mix>:<any | alg:singular>               corrections vs the numpy Gauss-Newton step
  rejected:<what>, output-xml:<variant>, gama-g3:<sanitizer key>, adjdrv:<alg>:<sanitizer key>
"""
import json
import math
import os
import re

import numpy as np

from .. import runner, lsq, solver, g3gen
from ..runner import Check, tier_n

ALGS = lsq.ALGS
EPS = np.finfo(float).eps
C_BOUND = 10.0            # adjusted = truth within C_BOUND * delta^2 / D_min + TOL_M after the single Gauss-Newton step
TOL_M = 1e-6
LD = np.longdouble

# (kinds, datum) schedule: case i takes entry i mod len (so the quick tier covers every entry)
SCHEDULE = [
    ("vector", "fixed"), ("vector", "free"), ("vector+xyz", "free"), ("vector+distance", "fixed"),
    ("vector+zenith", "fixed"), ("vector+angle", "fixed"), ("vector+height+hdiff", "fixed"),
    ("vector+distance", "free"), ("distance+height+hdiff", "fixed"), ("vector", "mixed"),
    ("vector+xyz+distance+height+hdiff+zenith+angle", "fixed"), ("vector+azimuth", "fixed"),
    ("vector+xyz+distance", "free"), ("distance+zenith", "fixed"), ("vector+xyz", "mixed"),
    ("vector+distance+height+hdiff", "fixed"), ("vector+height+hdiff", "mixed"), ("vector+zenith", "mixed"),
    ("distance+angle+height", "fixed"), ("vector+xyz+distance+height+hdiff", "mixed"), ("vector+angle", "mixed"),
    ("vector+xyz", "fixed"), ("vector+distance", "mixed"), ("vector+distance+zenith+angle", "mixed"),
]
# free networks (no fixed point) are generated from vectors, observed coordinates and distances only: ellipsoidal heights,
# zenith angles and angles refer to the ellipsoid, a translation changes them at second order, so the datum defect of such
# a network is not an exact rank defect (singular values ~1e-4: "numerically ambiguous", DESIGN 1.4)
FEATURES = ("dh", "deg", "blh", "clusters", "mixed-cluster", "inline", "partial", "wide-angles", "derived", "angle-target-dh",
            "idle-point")


# ------------------------------------------------------------------ case construction

def build_case(seed, i):
    rng = np.random.default_rng([seed, i, 1919])
    kinds, datum = SCHEDULE[i % len(SCHEDULE)]
    kinds = kinds.split("+")
    feats = [f for f in FEATURES if rng.uniform() < (0.3 if f != "idle-point" else 0.12)]
    if "dh" in feats and "derived" in feats:
        feats.remove("derived")       # gama-g3 derives approximate coordinates along vectors without their dh
    if "dh" not in feats and "angle-target-dh" in feats:
        feats.remove("angle-target-dh")
    if "vector" in kinds and len(kinds) == 1 and i % 2 == 0:
        feats = [f for f in feats if f != "mixed-cluster"]
    net = g3gen.gen_net(rng, kinds, datum, features=feats)
    return rng, net, kinds, datum, feats


def mix_label(net):
    """observation mix as used in violation keys: kinds, with markers for sub-classes that have their own behaviour"""
    kinds = []
    for k in g3gen.KINDS:
        obs = [o for _, o in net.all_obs() if o.kind == k]
        if not obs:
            continue
        lab = k
        if k == "angle" and any(float(o.true[0]) > math.pi for o in obs):
            lab = "angle>200gon"
        if k == "angle" and any(o.dh[1] != 0 or o.dh[2] != 0 for o in obs):
            lab += "(target-dh)"
        if k == "angle" and any(net.pts[q].form == "blh" for o in obs for q in o.pts):
            lab += "(blh)"
        kinds.append(lab)
    s = "+".join(kinds)
    if any(any(d != 0 for d in o.dh) for _, o in net.all_obs()):
        s += "(dh)"
    return s


def linear(net):
    return all(o.kind in ("vector", "xyz") for _, o in net.all_obs())


# ------------------------------------------------------------------ running gama-g3

class Out:
    """plain, picklable result of one worker"""

    def __init__(self):
        self.violations, self.ratios, self.classes, self.counts, self.inconc, self.samples = [], [], [], {}, [], []
        self.assume = set()

    def violation(self, key, what, wit=None):
        self.violations.append((key, what, wit))

    def ratio(self, name, err, tol):
        self.ratios.append((name, float(err), float(tol)))
        return float(err) / tol if tol > 0 else (0.0 if err == 0 else float("inf"))

    def count(self, name, n=1):
        self.counts[name] = self.counts.get(name, 0) + n


def san_violation(out, rr, wit, prefix="gama-g3:"):
    if rr.san:
        out.violation(prefix + rr.san["key"], "sanitizer report " + rr.san["kind"], wit)
        return True
    if rr.timeout:
        return False
    if rr.signaled or rr.rc in (134, 139):
        m = re.search(r"terminate called after throwing an instance of '([^']+)'", rr.err or "")
        out.violation(prefix + "abort:" + (m.group(1) if m else "signal%s" % rr.rc),
                      "abnormal termination rc=%s %s" % (rr.rc, (rr.err or "")[-300:]), wit)
        return True
    return False


def run_g3(text, tmp, name, alg, projeq=False):
    inp = os.path.join(tmp, name + ".xml")
    outp = os.path.join(tmp, name + "-%s-adj.xml" % alg)
    pe = os.path.join(tmp, name + "-%s-pe.xml" % alg)
    with open(inp, "w") as f:
        f.write(text)
    cmd = [runner.binpath("san", "gama-g3"), "--algorithm", alg]
    if projeq:
        cmd += ["--project-equations", pe]
    cmd += [inp, outp]
    rr = runner.run(cmd, timeout=180)
    g = dict(rr=rr, R=None, pe=None, cmd=" ".join(["gama-g3"] + cmd[1:]), xml_error=None)
    if os.path.exists(outp):
        try:
            with open(outp) as f:
                g["R"] = g3gen.parse_results(f.read())
        except (g3gen.ParseFailure, AttributeError, TypeError, ValueError) as e:
            g["xml_error"] = "%s: %s" % (type(e).__name__, e)
        os.unlink(outp)
    if projeq and os.path.exists(pe):
        with open(pe) as f:
            g["pe"] = f.read()
        os.unlink(pe)
    return g


def usable(out, g, wit, mix, what):
    """sanitizer / refusal / malformed output handling; True when there is a parsed result"""
    rr = g["rr"]
    if san_violation(out, rr, wit):
        return False
    if rr.timeout:
        out.inconc.append("timeout")
        return False
    if g["R"] is None:
        msg = (rr.err or "").strip().split("\n")
        line = next((l for l in msg if l.startswith("###")), msg[-1] if msg else "")
        slug = re.sub(r"[^A-Za-z]+", "-", re.sub(r"\d+", "", line)).strip("-")[:50]
        if g["xml_error"]:
            out.violation("output-xml:%s" % what, "adjustment XML not readable: %s" % g["xml_error"], wit)
        elif "azimuth" in mix:
            out.violation("rejected:azimuth", "a consistent valid network with <azimuth> observations is refused: rc=%s %s" % (
                rr.rc, " | ".join(l for l in msg if l)[:300]), wit)
        else:
            out.violation("rejected:%s:%s" % (mix, slug), "a consistent valid network is refused: rc=%s %s" % (
                rr.rc, " | ".join(l for l in msg if l)[:300]), wit)
        return False
    return True


# ------------------------------------------------------------------ field comparison (relations c, d)

COV_NEU = ("cnn", "cne", "cnu", "cee", "ceu", "cuu")
COV_XYZ = ("cxx", "cxy", "cxz", "cyy", "cyz", "czz")


def flatten(R, with_corr=True):
    """result -> {key: (class, value)}; key = (group, ids..., field)"""
    F = {}
    S = R["stats"]
    for k in ("parameters", "equations", "defect", "redundancy"):
        F[("stat", k)] = ("int", S[k])
    F[("stat", "sum-of-squares")] = ("ss", S["sum_of_squares"])
    F[("stat", "aposteriori-variance")] = ("ss", S["aposteriori_variance"])
    F[("stat", "design-matrix-graph")] = ("str", S["graph"])
    for pid, P in R["points"].items():
        F[("pt", pid, "status")] = ("str", "".join(P["status"].get(c, "?")[:2] for c in "neu"))
        if with_corr:
            for c in "neu":
                if "d" + c in P:
                    F[("pt", pid, "d" + c)] = ("corr", P["d" + c])
            for k in ("x", "y", "z"):
                if k + "-correction" in P:
                    F[("pt", pid, k + "-correction")] = ("xyzc", P[k + "-correction"])
            for k in ("h-correction", "height-correction"):
                if k in P:
                    F[("pt", pid, k)] = ("h", P[k])
        for k in COV_NEU + COV_XYZ:
            if k in P:
                F[("pt", pid, k)] = ("cov:" + pid, P[k])
        for k in ("x", "y", "z"):
            if k + "-adjusted" in P:
                F[("pt", pid, k + "-adjusted")] = ("xyz", P[k + "-adjusted"])
        if "b-adjusted" in P:
            F[("pt", pid, "b-adjusted")] = ("lat", float(g3gen.parse_dms(P["b-adjusted"])))
            F[("pt", pid, "l-adjusted")] = ("lon:" + pid, float(g3gen.parse_dms(P["l-adjusted"])))
            F[("pt", pid, "h-adjusted")] = ("h", P["h-adjusted"])
        if "height-adjusted" in P:
            F[("pt", pid, "height-adjusted")] = ("h", P["height-adjusted"])
    occ = {}
    for O in R["obs"]:
        ident = (O["kind"], O.get("from", O.get("id", "")), O.get("to", ""))
        occ[ident] = occ.get(ident, 0) + 1
        ident = ident + (occ[ident],)
        for k, v in O.items():
            if k in ("kind", "from", "to", "id", "ind") or not isinstance(v, float):
                continue
            if k.endswith("residual"):
                cls = "res"
            elif k.endswith("adjusted") or k.endswith("observed"):
                cls = "val"
            elif k.endswith("stdev-obs") or k.endswith("stdev-adj"):
                cls = "sd"
            else:
                cls = "cov:obs:%s:%s:%s:%d" % ident
            F[("obs",) + ident + (k,)] = (cls, v)
    return F


def field_name(key):
    if key[0] == "obs":
        return "%s:%s" % (key[1], key[-1])
    return key[-1]


def compare(FA, FB, ctx, skip=()):
    """-> list of (field, message, err, tol).  ctx: tn (relative numerical tolerance), xs (max |correction| mm),
    bs (max |rhs| in mm/cc), axis{pid: distance from the rotation axis}, ss_scale"""
    bad = []
    tn = ctx["tn"]
    covscale = {}
    for F in (FA, FB):
        for k, (cls, v) in F.items():
            if cls.startswith("cov"):
                covscale[cls] = max(covscale.get(cls, 0.0), abs(v))
                g = "cov:obs" if cls.startswith("cov:obs") else "cov:pt"
                covscale[g] = max(covscale.get(g, 0.0), abs(v))
    keys = set(FA) | set(FB)
    ratios = {}
    for k in sorted(keys, key=str):
        name = field_name(k)
        if name in skip or k[-1] in skip:
            continue
        if k not in FA or k not in FB:
            bad.append((name + ":presence", "%s present in only one result" % (k,), 1.0, 0.0))
            continue
        cls, a = FA[k]
        b = FB[k][1]
        if cls in ("int", "str"):
            if a != b:
                bad.append((name, "%s: %r vs %r" % (k, a, b), 1.0, 0.0))
            continue
        if not (math.isfinite(a) and math.isfinite(b)):
            if not (a == b or (math.isnan(a) and math.isnan(b))):
                bad.append((name + ":nonfinite", "%s: %r vs %r" % (k, a, b), 1.0, 0.0))
            continue
        xs_m = ctx["xs"] / 1000.0
        if cls == "corr":
            tol = 1.01e-3 + tn * ctx["xs"]
        elif cls == "xyzc":
            tol = 2.1e-9 + tn * xs_m
        elif cls == "xyz":
            tol = 4.1e-9 + tn * xs_m
        elif cls == "lat":
            tol = 4.95e-13 + (4.1e-9 + tn * xs_m) / 6.3e6
        elif cls.startswith("lon:"):
            tol = 4.95e-13 + (4.1e-9 + tn * xs_m) / max(ctx["axis"].get(cls[4:], 6.3e6), 1.0)
            d = abs(a - b)
            if d > math.pi:
                a = a - math.copysign(2 * math.pi, a - b)
        elif cls == "h":
            tol = 1.01e-5 + tn * xs_m
        elif cls.startswith("cov"):
            # (a point kept in place by the regularisation has covariances that are zero up to rounding: the scale of
            # the rounding errors is the size of the covariances in the network, not of this point)
            glob = covscale["cov:obs" if cls.startswith("cov:obs") else "cov:pt"]
            tol = 2.1e-7 * max(abs(a), abs(b)) + 20 * tn * covscale[cls] + 1e-9 * glob + 1e-300
        elif cls == "ss":
            tol = 2.1e-5 * max(abs(a), abs(b)) + tn * ctx["ss_scale"] + 1e-300
        elif cls == "res":
            tol = 1.01e-5 + tn * max(ctx["bs"], ctx["xs"]) / 1000.0
        elif cls == "val":
            tol = 1.01e-5 + tn * max(ctx["bs"], ctx["xs"]) / 1000.0
        elif cls == "sd":
            tol = 1.01e-3 + 1e-6 * max(abs(a), abs(b)) + 20 * tn * max(abs(a), abs(b)) + 3e-5 * math.sqrt(covscale.get("cov:obs", 0.0))
        else:
            tol = 0.0
        e = abs(a - b)
        r = e / tol if tol > 0 else (0.0 if e == 0 else float("inf"))
        ratios[cls.split(":")[0]] = max(ratios.get(cls.split(":")[0], 0.0), r)
        if e > tol:
            bad.append((name, "%s: %.12g vs %.12g (diff %.3g, tol %.3g)" % (k, a, b, e, tol), e, tol))
    return bad, ratios


# ------------------------------------------------------------------ the oracle for one network

def neu_of(net, pid, approx):
    b, l, _ = net.ell.xyz2blh(approx[pid])
    return g3gen.frame(b, l)


def truth_errors(net, R):
    """max |adjusted - truth| over the non-fixed points [m], id of the worst point, number of points compared"""
    X = net.truth()
    worst, wid, cnt = 0.0, None, 0
    for pid, P in R["points"].items():
        if "x-adjusted" not in P:
            continue
        cnt += 1
        e = max(abs(LD(P[k + "-adjusted"]) - X[pid][i]) for i, k in enumerate("xyz"))
        if float(e) > worst:
            worst, wid = float(e), pid
    return worst, wid, cnt


def expected_counts(net):
    eq = sum(o.dim for _, o in net.all_obs() if g3gen.active(net, o))
    return eq, len(g3gen.parameters(net))


def sfx(R, ref):
    return ":%s:singular" % R["stats"]["algorithm"] if ref is not None and ref.defect else ""


def check_exact(out, net, R, mix, wit, ref=None):
    ok = True
    e, wid, cnt = truth_errors(net, R)
    out.ratio("a: |adjusted-truth| [m] / 1e-6", e, TOL_M)
    cmax = max([abs(P.get("d" + c, 0.0)) for P in R["points"].values() for c in "neu"] + [0.0])
    out.ratio("a: |correction| [mm] / 1e-3", cmax, 1.0e-3 * 1.01)
    rmax, rk = 0.0, None
    for O in R["obs"]:
        for k, v in O.items():
            if k.endswith("residual") and abs(v) > rmax:
                rmax, rk = abs(v), (O["kind"], O.get("from", O.get("id")), O.get("to"), k)
    out.ratio("a: |residual| [m] / 1.5e-5", rmax, 1.5e-5)
    eq = R["stats"]["equations"]
    ss = R["stats"]["sum_of_squares"]
    out.ratio("a: sum of squares / (1e-6 x equations)", ss, 1e-6 * max(eq, 1))
    if R["rejected"]:
        out.violation("rejected:observation:%s" % R["rejected"][0]["kind"],
                      "gama-g3 rejected %d observation(s) of an error-free network: %s" % (len(R["rejected"]), R["rejected"][:2]), wit)
        ok = False
    if e > TOL_M or cmax > 1.01e-3 or rmax > 1.5e-5 or not (ss <= 1e-6 * max(eq, 1)):
        out.violation("reproduce:%s:exact%s" % (mix, sfx(R, ref)),
                      "error-free network with true approximate coordinates: max |adjusted-truth| %.3g m (point %s), max "
                      "|dn,de,du| %.3g mm, max |residual| %.3g m %s, sum of squares %.3g (%d points, %d equations)" % (
                          e, wid, cmax, rmax, rk, ss, cnt, eq), wit)
        ok = False
    return ok


def check_perturbed(out, net, R, mix, wit, delta, dmin, ref=None):
    e, wid, cnt = truth_errors(net, R)
    lin = linear(net)
    # second-order term of the one Gauss-Newton step: ~ delta^2 / D per observation, carried into the coordinates by
    # the geometry of the network; C_BOUND covers well-conditioned networks, the condition number of the reference
    # system (whitened design matrix, own Jacobian) scales it for weak ones
    amp = max(1.0, (ref.kappa / 30.0) if (ref is not None and getattr(ref, "kappa", None) and np.isfinite(ref.kappa)) else 1.0)
    bound = TOL_M if lin else C_BOUND * amp * delta * delta / dmin + TOL_M
    out.ratio("b: amplification factor max(1, kappa/30) (of 1000)", amp, 1000.0)
    name = "b: |adjusted-truth| / 1e-6 m (linear networks)" if lin else "b: |adjusted-truth| / (10 delta^2/Dmin + 1e-6 m)"
    out.ratio(name, e, bound)
    if R["rejected"]:
        out.violation("rejected:observation:%s" % R["rejected"][0]["kind"],
                      "gama-g3 rejected %d observation(s) of an error-free network (tol-abs %s): %s" % (
                          len(R["rejected"]), net.tol_abs, R["rejected"][:2]), wit)
        return False
    if e > bound:
        out.violation("reproduce:%s:perturbed%s" % (mix, sfx(R, ref)),
                      "error-free network, approximate coordinates off by <= %.3g m: after gama-g3's single Gauss-Newton "
                      "step max |adjusted-truth| = %.3g m at %s (bound %.3g m = %s, D_min %.1f m)" % (
                          delta, e, wid, bound, "1e-6 (linear model)" if lin else "10 max(1, kappa/30) d^2/D_min + 1e-6, kappa %.3g" % (ref.kappa if ref is not None else float("nan")), dmin), wit)
        return False
    return True


def check_dump_against_model(out, net, D, Pref, params, rows, R, mix, wit, variant):
    """--project-equations dump vs the numerically differentiated observation model (relation f, first half):
    shape, misclosures, Jacobian rows per observation kind, cofactor blocks, regularisation list"""
    A, b = D["A"], D["b"]
    if A.shape != Pref["A"].shape or len(b) != len(Pref["b"]):
        out.violation("project-equations:shape", "dump holds a %dx%d system with %d right-hand sides, the network has %d "
                      "equations and %d parameters" % (A.shape + (len(b),) + Pref["A"].shape), wit)
        return False
    if D["meta"]["duplicates"]:
        out.violation("project-equations:duplicate-entries", "%d sparse rows hold the same column twice" % D["meta"]["duplicates"], wit)
    # column order: the <ind> of the result file must be the order of first appearance
    for j, (pid, c) in enumerate(params):
        ind = R["points"].get(pid, {}).get("ind", {}).get(c)
        if ind != j + 1:
            out.violation("project-equations:parameter-order", "parameter %s/%s has <ind> %s, expected %d (order of first "
                          "appearance in the observations)" % (pid, c, ind, j + 1), wit)
            return False
    ok = True
    Rq = 6.37e6
    X = net.approx()
    seen = set()
    for r, (ci, o, k) in enumerate(rows):
        sight = 0.0
        for q in o.pts[1:]:
            v = X[q] - X[o.pts[0]]
            sight = max(sight, float(np.sqrt(v @ v)))
        kind = o.kind + ("(dh)" if any(d != 0 for d in o.dh) else "")
        if o.kind == "angle" and float(o.true[0]) > math.pi:
            kind = "angle>200gon"
        if o.kind == "angle" and (o.dh[1] != 0 or o.dh[2] != 0):
            kind = "angle(target-dh)"
        # misclosure
        if o.kind in g3gen.ANGULAR:
            smin = min(float(np.sqrt((X[q] - X[o.pts[0]]) @ (X[q] - X[o.pts[0]]))) for q in o.pts[1:])
            tolb = 2e-8 / smin * float(g3gen.RAD_TO_CC) + 1e-9 * abs(Pref["b"][r]) + 1e-7
        else:
            tolb = 2e-5 + 1e-9 * abs(Pref["b"][r])
        eb = abs(b[r] - Pref["b"][r])
        out.ratio("f: misclosure dump vs model", eb, tolb)
        if eb > tolb and ("rhs", kind) not in seen:
            seen.add(("rhs", kind))
            out.violation("project-equations:rhs:%s" % kind,
                          "misclosure of %s %s in the dump %.9g, observed - model(approximate coordinates) = %.9g [%s] "
                          "(variant %s)" % (o.kind, "->".join(o.pts), b[r], Pref["b"][r],
                                            "cc" if o.kind in g3gen.ANGULAR else "mm", variant), wit)
            ok = False
        # Jacobian row; gama neglects the dependence of the station's normal / local frame on the position, a
        # relative effect of (sight length / Earth radius) for zenith angles, angles and azimuths, and dh / R otherwise
        sc = float(np.max(np.abs(Pref["A"][r])))
        rel = 1e-6 + (3.0 * sight / Rq if o.kind in g3gen.ANGULAR else 1e-6)
        ea = float(np.max(np.abs(A[r] - Pref["A"][r])))
        # + the tilt of the station's vertical with its position (1/R per metre = 1e-4 cc/mm): gama-g3 has that term for
        # zenith angles (there only 5 % of it is allowed, for its second-order companions), not for angles / azimuths
        tilt = float(g3gen.RAD_TO_CC) / 1000.0 / Rq
        tola = rel * sc + 1e-8 + ((0.05 if o.kind == "zenith" else 1.5) * tilt if o.kind in g3gen.ANGULAR else 0.0)
        out.ratio("f: jacobian dump vs model (%s)" % (o.kind if o.kind in g3gen.ANGULAR else "linear"), ea, tola)
        if ea > tola and ("jac", kind) not in seen:
            seen.add(("jac", kind))
            j = int(np.argmax(np.abs(A[r] - Pref["A"][r])))
            out.violation("project-equations:jacobian:%s" % kind,
                          "row of %s %s: coefficient of %s/%s is %.9g in the dump, d(model)/d(parameter) = %.9g (row scale "
                          "%.3g, sight %.0f m, tolerance %.1e relative; variant %s)" % (
                              o.kind, "->".join(o.pts), params[j][0], params[j][1], A[r, j], Pref["A"][r, j], sc, sight, rel, variant), wit)
            ok = False
    # covariance blocks
    if len(D["blocks"]) != len(Pref["blocks"]):
        out.violation("project-equations:cov", "%d covariance blocks in the dump, %d clusters with active observations" % (
            len(D["blocks"]), len(Pref["blocks"])), wit)
        ok = False
    else:
        for (dim, w, C), (dim2, w2, C2) in zip(D["blocks"], Pref["blocks"]):
            if dim != dim2 or C.shape != C2.shape:
                out.violation("project-equations:cov", "block of dimension %d, cluster has %d active rows" % (dim, dim2), wit)
                ok = False
                break
            e = float(np.max(np.abs(C - C2)))
            t = 1e-13 * float(np.max(np.abs(C2)))
            out.ratio("f: cofactor blocks dump vs file", e, t)
            if e > t:
                i, j = np.unravel_index(int(np.argmax(np.abs(C - C2))), C.shape)
                out.violation("project-equations:cov", "cofactor (%d,%d) of a block is %.15g, covariance/apriori^2 from the input "
                              "is %.15g" % (i + 1, j + 1, C[i, j], C2[i, j]), wit)
                ok = False
                break
    if (D["minx"] or None) != (Pref["minx"] or None) and sorted(D["minx"] or []) != sorted(Pref["minx"] or []):
        out.violation("project-equations:minx", "regularisation list %s, constrained parameters are %s" % (D["minx"], Pref["minx"]), wit)
        ok = False
    return ok


def check_dump_with_adj(out, net, D, runs, wit, approx):
    """relation f, second half: the dumped system adjusted by gama's general class Adj (adjdrv) with all four
    algorithms gives the corrections gama-g3 printed; + C01's defining equations through lsq.Reference"""
    items = [(D, ["NEW adj %s" % alg, "X", "DEF", "SS"]) for alg in ALGS]
    res = solver.run_scripts(items, batch=4)
    try:
        ref = lsq.Reference(D)
    except np.linalg.LinAlgError:
        ref = None
    ok = True
    for alg, r in zip(ALGS, res):
        if r["crash"] is not None:
            rr = r["crash"]
            if not san_violation(out, rr, dict(wit, alg=alg), prefix="adjdrv:%s:" % alg):
                if rr.timeout:
                    out.inconc.append("adjdrv timeout")
                else:
                    out.violation("project-equations:adj:%s:driver-died" % alg, "rc=%s at %s %s" % (rr.rc, r["crash_cmd"], (rr.err or "")[-200:]), wit)
            ok = False
            continue
        reps = r["replies"][1:]
        if any(rp[0] != "OK" for rp in reps):
            out.violation("project-equations:adj:%s:%s" % (alg, [rp[0] for rp in reps if rp[0] != "OK"][0]),
                          "Adj on the dumped system answered %s" % (reps,), wit)
            ok = False
            continue
        x = solver.vec(reps[0])
        d = int(solver.scalar(reps[1]))
        ss = solver.scalar(reps[2])
        g = runs.get(alg)
        if g is None or g["R"] is None:
            continue
        R = g["R"]
        xs = max(float(np.max(np.abs(x))) if len(x) else 0.0, 1e-3)
        tn = (ref.tol(1.0) * 10) if ref is not None else 1e-6
        # printed corrections dn/de/du [mm, 3 decimals] and x/y/z corrections [m, 9 decimals]
        worst, worst_xyz = 0.0, 0.0
        for pid, P in R["points"].items():
            v = np.zeros(3)
            has = False
            for k, c in enumerate("neu"):
                if c in P["ind"]:
                    has = True
                    j = P["ind"][c] - 1
                    if j >= len(x):
                        out.violation("project-equations:index", "<ind> %d beyond the %d unknowns of the dump" % (j + 1, len(x)), wit)
                        return False
                    v[k] = x[j]
                    worst = max(worst, abs(P["d" + c] - x[j]))
            if has and "x-correction" in P:
                Rm = neu_of(net, pid, {pid: np.array([LD(P["x-given"]), LD(P["y-given"]), LD(P["z-given"])])})
                dx = np.array(Rm @ np.array(v, dtype=LD) / 1000, dtype=float)
                for k, c in enumerate("xyz"):
                    worst_xyz = max(worst_xyz, abs(dx[k] - P[c + "-correction"]))
        t1 = 0.51e-3 + tn * xs
        t2 = 1.6e-9 + tn * xs / 1000 + 1e-9 * xs / 1000
        out.ratio("f: Adj(dump) x vs dn/de/du", worst, t1)
        out.ratio("f: Adj(dump) x rotated vs x/y/z-correction", worst_xyz, t2)
        if worst > t1 or worst_xyz > t2:
            out.violation("project-equations:x:%s:%s" % (alg, "singular" if d else "regular"),
                          "dumped system solved by Adj/%s: x differs from gama-g3's printed corrections by %.3g mm (dn/de/du) / "
                          "%.3g m (x/y/z-correction)" % (alg, worst, worst_xyz), wit)
            ok = False
        if d != R["stats"]["defect"]:
            out.violation("project-equations:defect:%s" % alg, "Adj/%s on the dump reports defect %d, gama-g3 printed %d" % (
                alg, d, R["stats"]["defect"]), wit)
            ok = False
        sa = R["stats"]["sum_of_squares"]
        t = 1.1e-5 * max(abs(ss), abs(sa)) + tn * max(float(ref.bw @ ref.bw) if ref is not None else 1.0, 1e-6) + 1e-300
        out.ratio("f: Adj(dump) sum of squares vs printed", abs(ss - sa), t)
        if abs(ss - sa) > t:
            out.violation("project-equations:sum-of-squares:%s" % alg, "Adj/%s on the dump: %.9g, gama-g3 printed %.9g" % (alg, ss, sa), wit)
            ok = False
        # C01's defining equations on that system
        if ref is not None and ref.ok and ref.subset_ok:
            e = float(np.max(np.abs(x - ref.x))) if len(x) else 0.0
            t = ref.tol(max(float(np.max(np.abs(ref.xp))) if ref.n else 0.0, xs)) * 10
            out.ratio("f: Adj(dump) x vs numpy reference", e, t)
            if e > t:
                out.violation("project-equations:reference:%s:%s" % (alg, "singular" if ref.defect else "regular"),
                              "Adj/%s on the dumped system: x differs from the numpy minimum-norm least-squares solution by %.3g "
                              "(kappa %.3g, defect %d)" % (alg, e, ref.kappa, ref.defect), wit)
                ok = False
            if d != ref.defect:
                out.violation("project-equations:reference-defect:%s" % alg, "defect %d, n - rank(numpy) = %d" % (d, ref.defect), wit)
                ok = False
    return ok


def ctx_for(ref, Pref, R, net):
    xs = 1e-3
    for P in R["points"].values():
        for c in "neu":
            xs = max(xs, abs(P.get("d" + c, 0.0)))
    axis = {}
    X = net.approx()
    for pid in net.pts:
        axis[pid] = float(np.sqrt(X[pid][0] ** 2 + X[pid][1] ** 2))
    bs = float(np.max(np.abs(Pref["b"]))) if len(Pref["b"]) else 0.0
    return dict(tn=ref.tol(1.0) * 10, xs=xs, bs=bs, axis=axis, ss_scale=max(float(ref.bw @ ref.bw), 1e-6),
                defect=ref.defect)


def algorithms_agree(out, runs, ctx, wit, variant):
    sing = "singular" if ctx["defect"] else "regular"
    F = {alg: flatten(g["R"]) for alg, g in runs.items() if g["R"] is not None}
    algs = [a for a in ALGS if a in F]
    seen = set()
    for a in range(len(algs)):
        for b in range(a + 1, len(algs)):
            bad, ratios = compare(F[algs[a]], F[algs[b]], ctx)
            for cls, r in ratios.items():
                out.ratio("c: algorithms, " + cls, r, 1.0)
            for name, msg, e, tol in bad:
                key = "algorithms:%s:%s-vs-%s:%s" % (name, algs[a], algs[b], sing)
                if key in seen:
                    continue
                seen.add(key)
                out.violation(key, "%s [variant %s]" % (msg, variant), wit)
    return not seen


def permuted_order(rng, net):
    po = [int(i) for i in rng.permutation(len(net.pts))]
    co = [int(i) for i in rng.permutation(len(net.clusters))]
    oo = {ci: [int(i) for i in rng.permutation(len(c.obs))] for ci, c in enumerate(net.clusters)}
    return po, co, oo


def alt_subset(rng, net, ref_defect):
    """another constrained subset resolving the same datum defect"""
    alt = net.clone()
    con = [pid for pid, p in alt.pts.items() if p.st["n"] == "constr"]
    free = [pid for pid, p in alt.pts.items() if p.st["n"] == "free" and p.st["u"] == "free"]
    if free and rng.uniform() < 0.6:
        for pid in free:                       # all points constrained
            alt.pts[pid].st = dict(n="constr", e="constr", u="constr")
    elif len(con) > 3:
        drop = [con[i] for i in rng.permutation(len(con))[:len(con) - 3]]
        for pid in drop[:max(1, len(drop) // 2)]:
            alt.pts[pid].st = dict(n="free", e="free", u="free")
    elif free:
        for pid in free[:max(1, len(free) // 2)]:
            alt.pts[pid].st = dict(n="constr", e="constr", u="constr")
    else:
        return None
    return alt


def work(job):
    seed, i, tier, tmp, keep_input = job
    out = Out()
    try:
        _work(out, seed, i, tier, tmp, keep_input)
    except Exception:                          # a failure of the check machinery must not look like a pass
        import traceback
        out.inconc.append("harness exception: " + traceback.format_exc()[-600:])
    return out


def _work(out, seed, i, tier, tmp, keep_input):
    rng, net, kinds, datum, feats = build_case(seed, i)
    m = net.meta
    if not m.get("admitted"):
        out.inconc.append("not admitted (rank ambiguous / conditioning): %s %s" % ("+".join(kinds), datum))
        return
    mix = mix_label(net)
    dmin = g3gen.min_sight(net)
    place = (m["band"] + m["hemi"], m["lon"])
    base_wit = dict(seed=seed, index=i, mix=mix, datum=datum, features=feats, place=place, lat=m["lat"], lon=m["lon_deg"],
                    ellipsoid=m["ell"], points=m["n"], size_m=round(m["size"]))
    if i < 3:
        out.samples.append(dict(base_wit, equations=sum(o.dim for _, o in net.all_obs()), min_sight_m=round(dmin, 1)))
    lin = linear(net)

    def wit_for(variant, alg, text, g=None):
        w = dict(base_wit, variant=variant, alg=alg)
        if g is not None:
            w["command"] = g["cmd"]
        if keep_input:
            w["input"] = text
        return w

    def four(net_v, name, projeq_algs=()):
        text = g3gen.to_xml(net_v)
        runs = {}
        for alg in ALGS:
            runs[alg] = run_g3(text, tmp, name, alg, projeq=alg in projeq_algs)
        return text, runs

    # ---------------- variant E: exact approximations (relation a, c)
    E = net.clone()
    E.ref = "apriori"
    if "derived" in feats:
        # approximate coordinates of some unknown points left to gama-g3 (it derives them along vectors / from
        # observed coordinates; error-free observations give exact values)
        have = {pid for pid, p in E.pts.items() if p.st["n"] != "free" or p.st["u"] != "free"}
        cand = [pid for pid in E.pts if pid not in have]
        for pid in cand[:max(1, len(cand) // 2)]:
            if any(o.kind == "vector" and pid in o.pts for _, o in E.all_obs()) and E.pts[pid].geoid is None:
                E.pts[pid].form = "none"
        # resolvable?  every point without coordinates must be reachable through vectors from one with coordinates
        known = {pid for pid, p in E.pts.items() if p.form != "none"}
        grew = True
        while grew:
            grew = False
            for _, o in E.all_obs():
                if o.kind == "vector" and (o.pts[0] in known) != (o.pts[1] in known):
                    known |= set(o.pts)
                    grew = True
        for pid, p in E.pts.items():
            if pid not in known:
                p.form = "xyz"
        # gama-g3 needs coordinates of a point before it meets it in a non-vector observation: only vector-type
        # observations may touch a derived point
        for _, o in E.all_obs():
            if o.kind not in ("vector", "xyz"):
                for pid in o.pts:
                    E.pts[pid].form = "xyz" if E.pts[pid].form == "none" else E.pts[pid].form
    derived = sum(1 for p in E.pts.values() if p.form == "none")
    textE, runsE = four(E, "c%d-E" % i)
    P0, params0, rows0 = g3gen.ref_system(E)
    ref0 = lsq.Reference(P0)
    okE = {}
    for alg, g in runsE.items():
        w = wit_for("exact", alg, textE, g)
        out.classes.append((mix, datum, place[0], "exact" + ("+derived" if derived else ""), alg, "a"))
        if not usable(out, g, w, mix, "exact"):
            continue
        okE[alg] = g
        if n_dropped(E, g["R"]):
            check_counts(out, E, g["R"], ref0, datum, w)     # reports the dropped observations
            del okE[alg]
            continue
        check_exact(out, E, g["R"], mix, w, ref0)
        check_counts(out, E, g["R"], ref0, datum, w)
    if len(okE) == 4:
        out.count("networks adjusted by all four algorithms")
    if len(okE) >= 2:
        out.classes.append((mix, datum, place[0], "exact", "x4", "c"))
        algorithms_agree(out, okE, ctx_for(ref0, P0, next(iter(okE.values()))["R"], E), wit_for("exact", "all", textE), "exact")
    if not okE:
        return                 # refused, or adjusted without some of its observations (reported): another network

    # ---------------- variant P: perturbed approximations (relation b, c; dump vs model)
    delta = float(rng.choice([0.05, 0.2, 1.0]))
    Pn = net.clone()
    Pn.ref = "apriori"
    Pn.tol_abs = 1e5
    g3gen.perturb(rng, Pn, delta)
    dmax = max(float(np.linalg.norm(p.d)) for p in Pn.pts.values())
    textP, runsP = four(Pn, "c%d-P" % i, projeq_algs=(ALGS[i % 4],))
    P1, params1, rows1 = g3gen.ref_system(Pn)
    ref1 = lsq.Reference(P1)
    okP = {}
    for alg, g in runsP.items():
        w = wit_for("perturbed-%g" % delta, alg, textP, g)
        out.classes.append((mix, datum, place[0], "perturbed-%g" % delta, alg, "b"))
        if not usable(out, g, w, mix, "perturbed"):
            continue
        okP[alg] = g
        check_perturbed(out, Pn, g["R"], mix, w, dmax, dmin, ref1)
        if g["pe"] is not None and n_dropped(Pn, g["R"]) == 0:
            try:
                D = g3gen.parse_adj_input(g["pe"])
                check_dump_against_model(out, Pn, D, P1, params1, rows1, g["R"], mix, w, "perturbed")
            except g3gen.ParseFailure as e:
                out.violation("project-equations:unreadable", "dump not readable: %s" % e, w)
    if len(okP) >= 2 and ref1.ok:
        out.classes.append((mix, datum, place[0], "perturbed-%g" % delta, "x4", "c"))
        algorithms_agree(out, okP, ctx_for(ref1, P1, next(iter(okP.values()))["R"], Pn), wit_for("perturbed", "all", textP), "perturbed")

    # ---------------- variant N: noisy observations (relations c, d, e, f, reference step)
    N = net.clone()
    N.noisy = True
    N.ref = "aposteriori" if rng.uniform() < 0.5 else "apriori"
    N.tol_abs = 1e5
    if not lin:
        g3gen.perturb(rng, N, 0.02)
    else:
        g3gen.perturb(rng, N, float(rng.choice([0.0, 0.5, 30.0])))     # linear model: approximations do not matter
    textN, runsN = four(N, "c%d-N" % i, projeq_algs=ALGS)
    P2, params2, rows2 = g3gen.ref_system(N)
    ref2 = lsq.Reference(P2)
    okN = {}
    for alg, g in runsN.items():
        w = wit_for("noisy", alg, textN, g)
        out.classes.append((mix, datum, place[0], "noisy", alg, "e"))
        if not usable(out, g, w, mix, "noisy"):
            continue
        okN[alg] = g
        check_counts(out, N, g["R"], ref2, datum, w)
    if not okN:
        return
    any_R = next(iter(okN.values()))["R"]
    if n_dropped(N, any_R):
        return                                  # reported by check_counts; the reference describes another system
    ctx = ctx_for(ref2, P2, any_R, N)
    if not (ref2.ok and ref2.subset_ok):
        out.inconc.append("noisy variant: reference rank ambiguous")
        return
    out.classes.append((mix, datum, place[0], "noisy", "x4", "c"))
    algorithms_agree(out, okN, ctx, wit_for("noisy", "all", textN), "noisy")
    # reference Gauss-Newton step (own Jacobian, numpy): corrections
    for alg, g in okN.items():
        R = g["R"]
        x = np.zeros(len(params2))
        miss = False
        for j, (pid, c) in enumerate(params2):
            P = R["points"].get(pid)
            if P is None or "d" + c not in P:
                miss = True
                break
            x[j] = P["d" + c]
        if miss:
            out.violation("reference-step:missing-parameter", "a parameter of the network is not in gama-g3's result", wit_for("noisy", alg, textN, g))
            continue
        e = float(np.max(np.abs(x - ref2.x)))
        xs = float(np.max(np.abs(ref2.x)))
        # tolerance: printing + numerical + Jacobian approximations gama documents in its comments (station normal /
        # frame taken as constant: relative (sight / R) for angular observations, (dh / sight) for lengths with dh)
        ang = any(o.kind in g3gen.ANGULAR for _, o in N.all_obs())
        hasdh = "(dh)" in mix
        smax = 0.0
        Xa = N.approx()
        for _, o in N.all_obs():
            if o.kind in g3gen.ANGULAR:
                for q in o.pts[1:]:
                    smax = max(smax, float(np.sqrt((Xa[q] - Xa[o.pts[0]]) @ (Xa[q] - Xa[o.pts[0]]))))
        rel = 1e-6 + (3.0 * smax / 6.37e6 + 1e-4 if ang else 0.0) + (2.5 / dmin if hasdh else 0.0)
        t = 1.01e-3 + ref2.tol(xs) * 10 + rel * xs * min(ref2.kappa, 100.0)
        out.ratio("reference step: |x - x_ref| / tol (%s)" % ("angular" if ang else "dh" if hasdh else "plain"), e, t)
        if e > t:
            out.violation("reference-step:%s:%s" % (mix, alg + ":singular" if ref2.defect else "any"),
                          "corrections differ from the numpy Gauss-Newton step (own Jacobian) by %.3g mm (max |x| %.3g mm, "
                          "tolerance %.3g, kappa %.3g) with %s" % (e, xs, t, ref2.kappa, alg), wit_for("noisy", alg, textN, g))
    # relation f
    out.classes.append((mix, datum, place[0], "noisy", "x4", "f"))
    gd = okN.get(ALGS[i % 4]) or next(iter(okN.values()))
    if gd["pe"] is None:
        out.violation("project-equations:missing", "--project-equations wrote no file", wit_for("noisy", "any", textN, gd))
    else:
        try:
            D = g3gen.parse_adj_input(gd["pe"])
            texts = {alg: g["pe"] for alg, g in okN.items()}
            if len(set(texts.values())) != 1:
                out.violation("project-equations:algorithm-dependent", "the dump differs between algorithms", wit_for("noisy", "all", textN))
            if check_dump_against_model(out, N, D, P2, params2, rows2, gd["R"], mix, wit_for("noisy", "any", textN, gd), "noisy") is not None:
                check_dump_with_adj(out, N, D, okN, wit_for("noisy", "all", textN, gd), N.approx())
        except g3gen.ParseFailure as e:
            out.violation("project-equations:unreadable", "dump not readable: %s" % e, wit_for("noisy", "any", textN, gd))
    # relation d: record order
    alg = ALGS[(i + 1) % 4]
    if alg in okN:
        po, co, oo = permuted_order(rng, N)
        textO = g3gen.to_xml(N, po, co, oo)
        gO = run_g3(textO, tmp, "c%d-O" % i, alg)
        w = wit_for("noisy-permuted", alg, textO, gO)
        w["original_input"] = textN if keep_input else None
        out.classes.append((mix, datum, place[0], "noisy", alg, "d"))
        if usable(out, gO, w, mix, "permuted"):
            bad, ratios = compare(flatten(okN[alg]["R"]), flatten(gO["R"]), ctx)
            for cls, r in ratios.items():
                out.ratio("d: order, " + cls, r, 1.0)
            seen = set()
            for name, msg, e, tol in bad:
                if name in seen:
                    continue
                seen.add(name)
                out.violation("order:%s:%s:%s" % (name, alg, "singular" if ref2.defect else "regular"),
                              "%s after permuting points / clusters / observations [%s]" % (msg, alg), w)
    # relation e (second half): another constrained subset changes only the datum
    if ref2.defect > 0:
        alg = ALGS[(i + 2) % 4]
        alt = alt_subset(rng, N, ref2.defect)
        if alt is not None and alg in okN:
            P3, params3, rows3 = g3gen.ref_system(alt)
            ref3 = lsq.Reference(P3)
            if ref3.ok and ref3.subset_ok and ref3.defect == ref2.defect and \
                    np.linalg.svd(ref3.G[[j - 1 for j in P3["minx"]], :], compute_uv=False)[-1] > 0.05:
                textA = g3gen.to_xml(alt)
                gA = run_g3(textA, tmp, "c%d-A" % i, alg)
                w = wit_for("noisy-other-constrained-subset", alg, textA, gA)
                out.classes.append((mix, datum, place[0], "noisy", alg, "e-datum"))
                if usable(out, gA, w, mix, "alt-subset"):
                    check_counts(out, alt, gA["R"], ref3, datum, w)
                    FA, FB = flatten(okN[alg]["R"], with_corr=False), flatten(gA["R"], with_corr=False)
                    # datum-dependent: coordinates and their covariances, status flags
                    drop = lambda F: {k: v for k, v in F.items() if k[0] != "pt"}
                    bad, ratios = compare(drop(FA), drop(FB), ctx)
                    for cls, r in ratios.items():
                        out.ratio("e: constrained subset, " + cls, r, 1.0)
                    seen = set()
                    for name, msg, e, tol in bad:
                        if name not in seen:
                            seen.add(name)
                            out.violation("datum-invariance:%s:%s" % (name, alg), "%s after changing the constrained subset [%s]" % (msg, alg), w)
                    if lin and ref2.defect == 3 and not any(o.kind == "xyz" for _, o in N.all_obs()):
                        # translation defect: the two solutions differ by one common shift
                        sh = []
                        for pid, Pa in okN[alg]["R"]["points"].items():
                            Pb = gA["R"]["points"].get(pid)
                            if Pb and "x-adjusted" in Pa and "x-adjusted" in Pb:
                                sh.append([Pb[k + "-adjusted"] - Pa[k + "-adjusted"] for k in "xyz"])
                        if len(sh) >= 2:
                            sh = np.array(sh)
                            e = float(np.max(np.abs(sh - sh.mean(axis=0))))
                            t = 8.2e-9 + 4 * ctx["tn"] * ctx["xs"] / 1000
                            out.ratio("e: common shift of a free vector network", e, t)
                            if e > t:
                                out.violation("datum-invariance:shape:%s" % alg, "adjusted coordinates of two constrained subsets differ by "
                                              "more than a common translation (%.3g m)" % e, w)


def n_dropped(net, R):
    exp = sum(1 for _, o in net.all_obs() if g3gen.active(net, o))
    return exp - len(R["obs"])


def check_counts(out, net, R, ref, datum, wit):
    """relation e: equations, parameters, defect, redundancy"""
    S = R["stats"]
    eq, par = expected_counts(net)
    ok = True
    # every active observation appears (possibly as an empty element) among the adjusted observations
    exp, got = {}, {}
    for _, o in net.all_obs():
        if g3gen.active(net, o):
            exp[o.kind] = exp.get(o.kind, 0) + 1
    for O in R["obs"]:
        got[O["kind"]] = got.get(O["kind"], 0) + 1
    for k in sorted(set(exp) | set(got)):
        if exp.get(k, 0) != got.get(k, 0):
            forms = sorted({net.pts[q].form for _, o in net.all_obs() if o.kind == k for q in o.pts})
            out.count("runs with silently dropped observations")
            out.violation("dropped-observations:%s:points-as-%s" % (k, "+".join(forms)),
                          "%d %s observations in the input, %d in the adjustment (no rejection reported; points given as %s)" % (
                              exp.get(k, 0), k, got.get(k, 0), "/".join(forms)), wit)
            ok = False
    if not ok:
        return False
    if S["equations"] != eq or S["parameters"] != par:
        out.violation("redundancy:counts", "gama-g3 reports %d equations / %d parameters, the network has %d / %d" % (
            S["equations"], S["parameters"], eq, par), wit)
        ok = False
    if ref.ok:
        if S["defect"] != ref.defect:
            out.violation("defect:%s:%s" % (datum, S["algorithm"]), "defect %d reported, parameters - rank(reference Jacobian) = %d (singular values "
                          "%s ... %s)" % (S["defect"], ref.defect, ref.sv[:2], ref.sv[-4:]), wit)
            ok = False
        if S["redundancy"] != eq - par + ref.defect:
            out.violation("redundancy:%s" % S["algorithm"], "redundancy %d reported; equations - parameters + defect = %d - %d + %d = %d" % (
                S["redundancy"], eq, par, ref.defect, eq - par + ref.defect), wit)
            ok = False
        if linear(net) and datum == "free" and not any(o.kind == "xyz" for _, o in net.all_obs()) and ref.defect != 3:
            out.inconc.append("reference defect of a free vector network is %d" % ref.defect)
    elif S["redundancy"] != S["equations"] - S["parameters"] + S["defect"]:
        out.violation("redundancy", "redundancy %d != %d - %d + %d" % (S["redundancy"], S["equations"], S["parameters"], S["defect"]), wit)
        ok = False
    # ellipsoid echoed
    a, b = float(net.ell.a), float(net.ell.b)
    if abs(S["ell_a"] - a) > 1.1e-5 or abs(S["ell_b"] - b) > 1.1e-5:
        out.violation("ellipsoid:%s" % (net.ell.name if net.ell.how == "id" else net.ell.how),
                      "ellipsoid a=%.5f b=%.5f reported, input defines a=%.5f b=%.5f" % (S["ell_a"], S["ell_b"], a, b), wit)
        ok = False
    return ok


# ------------------------------------------------------------------ driver

def run(tier, seed, only=None):
    runner.build("san", targets=["gama-g3", "adjdrv"])
    ck = Check("C19", tier, seed,
               "generated ECEF networks (4-12 points, 0.1-50 km, any latitude incl. polar caps, any longitude incl. the date "
               "line, named / custom ellipsoids, points as XYZ or BLH) with error-free GNSS vectors (full / banded block "
               "covariances), observed coordinates, distances, ellipsoidal heights, height differences, zenith angles, angles, "
               "azimuths; fixed / free / constrained n-e-u; variants exact / perturbed (0.05, 0.2, 1 m) / noisy; x4 algorithms. "
               "class = (observation mix, datum, latitude band, variant, algorithm, relation a-f)")
    n = tier_n(tier, 72, 1008)
    jobs = [(seed, i, tier, ck.tmp, True) for i in range(n) if only is None or i == only]
    outs = runner.pmap_proc(work, jobs) if len(jobs) > 1 else [work(j) for j in jobs]
    nviol = 0
    for job, o in zip(jobs, outs):
        for cls in o.classes:
            ck.case(cls)
        for key, what, wit in o.violations:
            nviol += 1
            if wit is not None and nviol > 40:
                wit = {k: v for k, v in wit.items() if k not in ("input", "original_input")}
            ck.violation(key, what, wit)
        for name, err, tol in o.ratios:
            # head-room of the comparisons that held; exceedances are violations and are kept apart
            ck.ratio(name if err <= tol else name + " [in violating cases]", err, tol)
        for name, c in o.counts.items():
            ck.count(name, c)
        for r in o.inconc:
            ck.inconc(r if len(r) < 120 else r[:120])
            if r.startswith("harness exception"):
                print(r)
        for s in o.samples:
            ck.sample(s)
    ck.assumptions += [
        "gama-g3 has no manual; observation definitions (vf/g3gen.py docstring) follow the comments of g3_model_linearization.cpp: "
        "instrument/target heights along the ellipsoidal normal, zenith angle from the normal at the station, angle = clockwise "
        "difference of the azimuths of the right and the left target in the station's horizon, height = H - geoid",
        "adjusted angles / zenith angles / azimuths are not printed by gama-g3 (empty elements): their residuals are covered only "
        "through the dumped system (relation f) and the coordinates",
        "bound for relation b: 10 max(1, kappa/30) delta^2 / D_min + 1e-6 m, D_min the shortest sight, kappa the condition number of the reference system; vector/xyz-only networks 1e-6 m (the sharper oracle for perturbed networks is the reference Gauss-Newton step)",
        "numerical tolerance (1e-9 + 100 eps kappa^2) x 10 x scale, kappa from the numpy SVD of the whitened reference Jacobian; "
        "floors from the printed precision of each field",
        "networks are admitted only if the reference rank is unambiguous and kappa <= 2e3 (terrestrial-only free networks have "
        "near-singular orientation on the ellipsoid and are not generated)",
        "Jacobian rows of the dump are compared with the differentiated model up to the terms gama-g3 drops by design (dependence "
        "of the station's horizon on its position: 3 x sight / R relative for angular rows, 1/R per metre absolute for angles and "
        "azimuths, 5 % of that for zenith angles, whose tilt term gama-g3 carries); relation b bounds their effect on the result",
        "deflections of the vertical are zero; <unused> points and the <height> attribute are not exercised"]
    if only is None:
        ck.minimum = dict(evaluations=tier_n(tier, 700, 10000), distinct=tier_n(tier, 200, 1500),
                          **{"networks adjusted by all four algorithms": tier_n(tier, 40, 500)})
    return ck.finish()


def replay(path):
    w = json.load(open(path))
    return run(w["tier"], w["witness"]["seed"], only=w["witness"]["index"])
