"""C14 — exclusions are reported and equal to deleting the excluded items.

Runtime monitor on the real gama-local binary (ASan/UBSan build, trace hooks on).  A generated, otherwise well
determined network (netgen; 1D/2D/3D; all approximate coordinates given, so the linearisation point is known)
gets defects injected whose consequences are known by construction:

  isolated points (with / without coordinates), targets with one determining element (single direction,
  distance, slope distance), targets without coordinates that cannot be computed, stations with a single
  direction (also two directions to one target, or a second target that is unusable), passive clusters,
  heights no observation touches, floating pairs (1D, fixed datum), weak intersections (a priori stdev ~ 100 m:
  'indeterminable'), borderline intersections (a priori stdev within 15 % of gama's 10 m limit: removal not
  predicted, exercised for safety / visibility / deletion), and blunders planted at tol-abs*(1 +- 1e-6),
  (1 +- 1e-2) and far on both sides on every kind of observation, tol-abs in {10, 1000, 1e5}.

Three sources are compared per run:  (E) what must be excluded by construction / by the independent
recomputation of the positional misclosures,  (H) what gama did (hooks rm_point, rm_obs_abs_term, revision_obs),
(V) what the user can see (text: 'Removed points and coordinates', 'Outlying absolute terms', counts; XML:
<adjusted>, <observations>, summaries).  Then exactly the excluded items are deleted from the generated
network and the result of that input must be the same, with nothing further excluded.  All four algorithms
run on every input; they must exclude the same items.

Specification of the positional misclosure (manual, 'Gross absolute terms'; property statement):
  lengths, height differences, coordinates, coordinate differences: |observed - computed| [mm];
  directions, azimuths: |b| [rad] * horizontal sight length; angles: |b| * max(left arm, right arm);
  zenith angles: |b| * slope length (not in the manual; 'positional misclosure' read as transverse deviation at
  the target; the band between mark-to-mark and instrument-to-target length is not judged).
Nothing here is taken from gama's code: the misclosures come from netgen.model_value at the approximate
coordinates written to the input and the approximate orientation reported by the `adjust` hook.

Violation keys (stable):
  invisible:point:<reason code> | invisible:point:unreported-<xy|z> | invisible:obs:abs-term:<kind> |
  invisible:obs:abs-term-note | invisible:obs:xml-list | phantom:<what> | count-mismatch:<which count> |
  abs-term-rule:<kind>:<excluded-below|kept-above> | abs-term-value:<kind> | reason:point:<code>:<expected> |
  unexpected-exclusion:point:<code> | missing-exclusion:point:<defects> | exclusion-set:observations |
  deletion:<field> | further-exclusion-after-deletion | algorithm-dependent-exclusion:<defect kinds> (all
  algorithms adjust, different items excluded) | algorithm-dependent-outcome:<defect kinds> (some refuse) |
  not-adjusted:<defect kinds>:<outcome> | gama-local:<sanitizer key>.
A deviation from the decision rule that a *known* defect explains is named after it, so that any other deviation
keeps the plain key:  abs-term-rule:homogenized-rhs:<kind>:<side> / abs-term-value:homogenized-rhs:<kind>
(remove_huge_abs_terms() tests angular terms multiplied by sigma-apr/stdev), ...:correlated-cluster:... (the same
inside a cluster with a non-diagonal covariance matrix: terms mixed by the Cholesky factor), ...:left-arm:angle:...
(only the left arm of an angle is used), phantom:outlying-terms-(note|section):homogenized-rhs (section announced
on the raw terms, nothing listed or removed on the homogenised ones).
"""
import json
import math
import os
import re
import shutil
import time
import numpy as np

from .. import runner, netgen, xmlout, netlevel, lsq
from ..runner import Check, tier_n
from ..netgen import Pt, Obs, Cluster, GON

TOLS = (10.0, 1000.0, 1e5)
ALGS = netlevel.ALGS
CC = 200e4 / math.pi            # cc per radian

CXX = {"direction": "Direction", "distance": "Distance", "angle": "Angle", "azimuth": "Azimuth",
       "s-distance": "S_Distance", "z-angle": "Z_Angle", "dh": "H_Diff",
       "dx": "Xdiff", "dy": "Ydiff", "dz": "Zdiff", "x": "X", "y": "Y", "z": "Z"}
ANGULAR = ("direction", "angle", "azimuth", "z-angle")
XML_TAG = {"direction": "direction", "distance": "distance", "angle": "angle", "azimuth": "azimuth",
           "s-distance": "slope-distance", "z-angle": "zenith-angle", "dh": "height-diff",
           "dx": "dx", "dy": "dy", "dz": "dz", "x": "coordinate-x", "y": "coordinate-y", "z": "coordinate-z"}
XML_SUMMARY = {"distance": "distances", "direction": "directions", "angle": "angles", "x": "xyz-coords",
               "y": "xyz-coords", "z": "xyz-coords", "dh": "h-diffs", "z-angle": "z-angles", "s-distance": "s-dists",
               "dx": "vectors", "azimuth": "azimuths"}
TEXT_COUNT = {"direction": "Number of directions", "angle": "Number of angles", "distance": "Number of distances",
              "x": "Coordinates", "y": "Coordinates", "z": "Coordinates", "dh": "Leveling differences",
              "z-angle": "Zenith angles", "s-distance": "Slope distances"}
TEXT_LABEL = {"direction": "dir.", "distance": "dist.", "angle": "angle", "azimuth": "azim.", "dh": "h dif",
              "s-distance": "slope", "z-angle": "zen.", "x": "x", "y": "y", "z": "z", "dx": "x dif", "dy": "y dif",
              "dz": "z dif"}
# LocalNetwork::rm_points -> (component(s), word the reason printed with --language en must contain)
RM_CODE = {0: ("xyz", "missing"), 1: ("xy", "missing"), 2: ("z", "missing"), 3: ("xy", "singular"),
           4: ("z", "singular"), 5: ("xyz", "indeterminable"), 6: ("xy", "indeterminable"), 7: ("z", "indeterminable")}
RM_NAME = {0: "missing-xyz", 1: "missing-xy", 2: "missing-z", 3: "singular-xy", 4: "singular-z",
           5: "huge-cov-xyz", 6: "huge-cov-xy", 7: "huge-cov-z"}

ILL_POSED = {"floating-pair", "floating-pair-without-heights", "weak-intersection", "borderline-intersection"}
FACTORS_NEAR = (1 - 1e-6, 1 + 1e-6, 1 - 1e-2, 1 + 1e-2)
FACTORS_FAR = (0.3, 0.7, 1.5, 3.0, 10.0)


def defect_of(info, pid):
    """the injected defect a point belongs to (points of the k-th injection are named D<k>...), 'base' otherwise"""
    m = re.match(r"D(\d+)", pid)
    if m and int(m.group(1)) <= len(info["defects"]):
        return info["defects"][int(m.group(1)) - 1]
    return "base"


def side_of(f):
    if abs(f - 1) < 1e-4:
        return "1-1e-6" if f < 1 else "1+1e-6"
    if abs(f - 1) < 0.1:
        return "1-1e-2" if f < 1 else "1+1e-2"
    return "far-below" if f < 1 else "far-above"


def cxx_type(name):
    m = re.match(r"N8GNU_gama5local(\d+)(\w+)E$", name or "")
    return m.group(2)[:int(m.group(1))] if m else str(name)


def wrap200(g):
    """gon -> (-200, 200]"""
    g = (g + 200.0) % 400.0 - 200.0
    return 200.0 if g == -200.0 else g


# ---------------------------------------------------------------------------- flat view of the observations

class Item:
    __slots__ = ("n", "ci", "oi", "sub", "kind", "typ", "frm", "to", "fs", "val", "obs", "stdev")

    def key(self):
        return (self.typ, self.frm, self.to)

    def points(self):
        return [p for p in (self.frm, self.to, self.fs) if p]

    def label(self):
        return "%s %s->%s%s" % (self.kind, self.frm, self.to, ("/" + self.fs) if self.fs else "")


def flatten(net):
    """observations in the order gama holds them (clusters in input order; vectors dx,dy,dz; coordinates x,y,z).
    Default frame only (axes ne: x = N, y = E)."""
    items = []

    def add(ci, oi, sub, kind, frm, to, fs, val, obs, stdev):
        it = Item()
        it.n, it.ci, it.oi, it.sub, it.kind, it.typ = len(items), ci, oi, sub, kind, CXX[kind]
        it.frm, it.to, it.fs, it.val, it.obs, it.stdev = frm, to, fs, val, obs, stdev
        items.append(it)

    for ci, cl in enumerate(net.clusters):
        if cl.kind in ("obs", "hdiff"):
            for oi, o in enumerate(cl.obs):
                add(ci, oi, None, o.kind, o.frm, o.bs if o.kind == "angle" else o.to,
                    o.fs if o.kind == "angle" else None, o.val, o, o.stdev)
        elif cl.kind == "vectors":
            for vi, v in enumerate(cl.vecs):
                for sub, (kind, val) in enumerate((("dx", v[3]), ("dy", v[2]), ("dz", v[4]))):
                    add(ci, vi, sub, kind, v[0], v[1], None, val, None, None)
        elif cl.kind == "coords":
            for pi, c in enumerate(cl.cpoints):
                if c[1] is not None:
                    add(ci, pi, "x", "x", c[0], "", None, c[2], None, None)
                    add(ci, pi, "y", "y", c[0], "", None, c[1], None, None)
                if c[3] is not None:
                    add(ci, pi, "z", "z", c[0], "", None, c[3], None, None)
    return items


def approx_points(net):
    """the approximate coordinates as written to the input (physical frame).  A <point> inside <coordinates>
    (observed coordinates) defines the point's coordinates as well (manual, 'Control coordinates'), and the
    cluster follows the point list in the file: its values are the linearisation point."""
    P = {}
    for i, q in net.points.items():
        P[i] = Pt(i, q.E + q.dE, q.N + q.dN, q.H + q.dH, q.xy, q.z)
    for cl in net.clusters:
        if cl.kind == "coords":
            for c in cl.cpoints:
                if c[0] in P:
                    if c[1] is not None:
                        P[c[0]].E, P[c[0]].N = c[1], c[2]
                    if c[3] is not None:
                        P[c[0]].H = c[3]
    return P


def hdist(a, b):
    return math.hypot(b.E - a.E, b.N - a.N)


def sight_lengths(net, it, P):
    """(length used for the positional misclosure [m], alternative length or None)"""
    k = it.kind
    a = P[it.frm]
    if k in ("direction", "azimuth"):
        return hdist(a, P[it.to]), None
    if k == "angle":
        return max(hdist(a, P[it.to]), hdist(a, P[it.fs])), None
    if k == "z-angle":
        b = P[it.to]
        d = hdist(a, b)
        dh0 = b.H - a.H
        dh1 = dh0 + (it.obs.to_dh or 0.0) - (it.obs.from_dh or 0.0)
        return math.hypot(d, dh0), math.hypot(d, dh1)
    return None, None


def misclosure(net, it, P, ori_gon=None):
    """independent absolute term of the observation at the approximate coordinates:
    -> (b in mm or cc (signed), positional misclosure in mm, alternative positional misclosure or None).
    Directions need the approximate orientation (gon) of their station; None -> (None, None, None)."""
    k = it.kind
    cl = net.clusters[it.ci]
    if k in ("distance", "s-distance", "dh"):
        b = (it.val - netgen.model_value(net, cl, it.obs, P)) * 1000.0
        return b, abs(b), None
    if k in ("dx", "dy", "dz"):
        a, c = P[it.frm], P[it.to]
        comp = {"dx": c.N - a.N, "dy": c.E - a.E, "dz": c.H - a.H}[k]
        b = (it.val - comp) * 1000.0
        return b, abs(b), None
    if k in ("x", "y", "z"):
        a = P[it.frm]
        b = (it.val - {"x": a.N, "y": a.E, "z": a.H}[k]) * 1000.0
        return b, abs(b), None
    if k == "direction":
        if ori_gon is None:
            return None, None, None
        g = wrap200(it.val + ori_gon - netgen.bearing_gon(P[it.frm], P[it.to]))
    elif k == "azimuth":
        g = wrap200(it.val - netgen.bearing_gon(P[it.frm], P[it.to]))
    elif k == "angle":
        g = wrap200(it.val - (netgen.bearing_gon(P[it.frm], P[it.fs]) - netgen.bearing_gon(P[it.frm], P[it.to])))
    elif k == "z-angle":
        g = it.val - netgen.model_value(net, cl, it.obs, P)
    else:
        raise ValueError(k)
    L, L2 = sight_lengths(net, it, P)
    rad = g * GON
    return g * 1e4, abs(rad) * L * 1000.0, (abs(rad) * L2 * 1000.0 if L2 is not None else None)


# ---------------------------------------------------------------------------- usability of observations

def needs(it):
    """[(point id, requirement)] with requirement in 'xy' (adjustable/fixed xy), 'z', 'xy-known' (coordinates only)"""
    k = it.kind
    if k in ("direction", "distance", "azimuth", "dx", "dy"):
        return [(p, "xy") for p in (it.frm, it.to)]
    if k == "angle":
        return [(p, "xy") for p in (it.frm, it.to, it.fs)]
    if k in ("x", "y"):
        return [(it.frm, "xy")]
    if k == "z":
        return [(it.frm, "z")]
    if k in ("dh", "dz"):
        return [(p, "z") for p in (it.frm, it.to)]
    if k == "s-distance":
        return [(p, r) for p in (it.frm, it.to) for r in ("xy", "z")]
    if k == "z-angle":
        return [(p, r) for p in (it.frm, it.to) for r in ("xy-known", "z")]
    raise ValueError(k)


def closure(net, items, removed, missing, abs_excluded):
    """The observations that cannot take part in the adjustment (documented rules): observations touching an
    unusable point component, observations with gross absolute terms, and the directions of a station left
    with fewer than two targets.  removed: set of (id, 'xy'|'z') taken out of the adjustment; missing: subset of
    it whose coordinates are not even known.  -> set of item numbers."""
    def ok(p, req):
        q = net.points.get(p)
        if q is None:
            return False
        if req == "xy":
            return q.xy in ("fixed", "free", "constrained") and (p, "xy") not in removed
        if req == "z":
            return q.z in ("fixed", "free", "constrained") and (p, "z") not in removed
        return q.xy != "none" and (p, "xy") not in missing          # xy-known
    passive = set(abs_excluded)
    for it in items:
        if any(not ok(p, r) for p, r in needs(it)):
            passive.add(it.n)
    by_cluster = {}
    for it in items:
        if it.kind == "direction":
            by_cluster.setdefault(it.ci, []).append(it)
    for ci, dirs in by_cluster.items():
        if len({it.to for it in dirs if it.n not in passive}) < 2:
            passive.update(it.n for it in dirs)
    return passive


def homogenized(net, items, bval, active, m0):
    """What the absolute terms become when the equations are homogenised (multiplied by the inverse Cholesky
    factor of the cofactor matrix of their cluster): for an uncorrelated observation b*m0/stdev.  Used only to
    *name* deviations from the documented rule that this scaling explains.  -> ({item: value}, {correlated clusters})"""
    y, corr = {}, set()
    for ci, cl in enumerate(net.clusters):
        its = [it for it in items if it.ci == ci and it.n in active]
        if cl.kind != "obs" or not its:
            continue
        if cl.cov is None:
            for it in its:
                if bval[it.n][0] is not None and it.stdev:
                    y[it.n] = bval[it.n][0] * m0 / it.stdev
            continue
        C = np.array(cl.cov["C"], dtype=float)
        if np.any(C - np.diag(np.diag(C))):
            corr.add(ci)
        bb = []
        for it in its:
            b0 = bval[it.n][0]
            if b0 is None and it.kind == "direction":
                # no approximate orientation from the hook: the circle zero of the generator serves for naming
                b0 = wrap200(it.val - netgen.model_value(net, cl, it.obs, approx_points(net))) * 1e4
            bb.append(b0)
        idx = [it.oi for it in its]
        Q = C[np.ix_(idx, idx)] / (m0 * m0)
        try:
            Lc = np.linalg.cholesky(Q)
        except np.linalg.LinAlgError:
            continue
        v = np.linalg.solve(Lc, np.array(bb))
        for it, val in zip(its, v):
            y[it.n] = float(val)
    return y, corr


# ---------------------------------------------------------------------------- determinacy guard (numpy)

def design(net, items, active, P):
    """numeric Jacobian of the active observations w.r.t. the adjustable coordinates of the points they touch and
    the orientations of the direction sets; rows scaled by 1/stdev (mm or cc).  -> (J, column labels)"""
    cols = {}

    def col(label):
        return cols.setdefault(label, len(cols))
    rows = []
    h = 1e-3
    for it in items:
        if it.n not in active:
            continue
        cl = net.clusters[it.ci]
        sd = it.stdev if it.stdev else 5.0
        row = {}
        pts = it.points()

        def f(PP):
            if it.kind in ("dx", "dy", "dz"):
                a, c = PP[it.frm], PP[it.to]
                return {"dx": c.N - a.N, "dy": c.E - a.E, "dz": c.H - a.H}[it.kind] * 1000.0
            if it.kind in ("x", "y", "z"):
                a = PP[it.frm]
                return {"x": a.N, "y": a.E, "z": a.H}[it.kind] * 1000.0
            v = netgen.model_value(net, cl, it.obs, PP)
            return v * 1e4 if it.kind in ANGULAR else v * 1000.0
        for p in pts:
            q = net.points[p]
            comps = []
            if q.xy in ("free", "constrained") and it.kind not in ("dh", "dz", "z"):
                comps += ["E", "N"]
            if q.z in ("free", "constrained") and it.kind in ("dh", "dz", "z", "s-distance", "z-angle"):
                comps += ["H"]
            for c in comps:
                PP = dict(P)
                a = P[p]
                up = Pt(p, a.E, a.N, a.H); dn = Pt(p, a.E, a.N, a.H)
                setattr(up, c, getattr(a, c) + h); setattr(dn, c, getattr(a, c) - h)
                PP[p] = up
                fu = f(PP)
                PP[p] = dn
                fd = f(PP)
                d = fu - fd
                if it.kind in ("direction", "angle", "azimuth"):
                    d = wrap200(d / 1e4) * 1e4
                row[col((p, c))] = d / (2 * h * 1000.0) / sd       # per mm
        if it.kind == "direction":
            row[col(("ori", it.ci))] = -1.0 / sd
        rows.append(row)
    J = np.zeros((len(rows), len(cols)))
    for i, r in enumerate(rows):
        for j, v in r.items():
            J[i, j] = v
    lab = [None] * len(cols)
    for k, j in cols.items():
        lab[j] = k
    return J, lab


def determinacy(net, items, active, P):
    """-> (rank, n columns, {label: apriori stdev in mm (inf if undetermined)}) of the system of active observations"""
    J, lab = design(net, items, active, P)
    if J.size == 0:
        return 0, 0, {}
    U, s, Vt = np.linalg.svd(J, full_matrices=False)
    tol = 1e-9 * (s[0] if len(s) else 1.0)
    rank = int(np.sum(s > tol))
    sd = {}
    inv = np.where(s > tol, 1.0 / np.maximum(s, 1e-300), 0.0)
    Q = (Vt.T * inv ** 2) @ Vt
    null = Vt[rank:] if rank < len(lab) else np.zeros((0, len(lab)))
    # columns with a component in the null space are undetermined
    if J.shape[0] < J.shape[1]:
        # svd with full_matrices=False hides part of the null space; recompute fully
        U, s2, Vt2 = np.linalg.svd(J, full_matrices=True)
        null = Vt2[rank:]
    for j, l in enumerate(lab):
        und = null.shape[0] > 0 and float(np.max(np.abs(null[:, j]))) > 1e-6
        sd[l] = float("inf") if und else float(math.sqrt(max(Q[j, j], 0.0)))
    return rank, len(lab), sd


# ---------------------------------------------------------------------------- case generation

NEEDS_FIXED = ("weak-intersection", "borderline-intersection", "floating-pair")


def gen_case(seed, i):
    rng = np.random.default_rng([seed, i, 1414])
    dim = (2, 3, 1, 2, 3, 2)[i % 6] if rng.uniform() < 0.8 else int(rng.choice([1, 2, 3]))
    feats = []
    if dim >= 2 and rng.uniform() < 0.6:
        feats.append("angles")
    if dim >= 2 and rng.uniform() < 0.4:
        feats.append("azimuths")
    if rng.uniform() < 0.3:
        feats.append("cov")
    if dim == 3 and rng.uniform() < 0.4:
        feats.append("hdiff")
    if dim == 3 and rng.uniform() < 0.3:
        feats.append("dh-heights")
    if dim == 3 and rng.uniform() < 0.25:
        feats.append("vectors")
    if dim >= 2 and rng.uniform() < 0.25:
        feats.append("coords")
    # defects: the first one rotates through the menu with the case number, further ones are random
    menu = defect_menu(dim)
    ndef = int(rng.choice([0, 1, 1, 2, 3])) if (i % 5) else 1
    chosen = []
    for k in range(ndef):
        chosen.append(menu[(i // 6) % len(menu)] if k == 0 else str(rng.choice(menu)))
    datum = str(rng.choice(["fixed", "fixed", "free", "mixed"]))
    if chosen and (chosen[0] in NEEDS_FIXED or (dim == 1 and chosen[0] == "passive-cluster")):
        datum = "fixed"
    net = netgen.gen_net(rng, dim=dim, datum=datum, noise=False, features=tuple(feats))
    if dim == 3 and "vectors" not in feats and "coords" not in feats and rng.uniform() < 0.4:
        # steep terrain: height differences comparable with the horizontal distances, so that slope length and
        # horizontal length of a sight differ (the gross-term test of a zenith angle works with the slope length)
        f = float(rng.uniform(3.0, 12.0))
        for q in net.points.values():
            q.H *= f
        for cl, o in net.all_obs():
            o.true = o.val = netgen.model_value(net, cl, o)
        feats.append("steep")
    tol = TOLS[(i // 2) % 3] if rng.uniform() < 0.8 else float(rng.choice(TOLS))
    net.params["tol_abs"] = tol
    info = dict(index=i, seed=seed, dim=dim, feats=feats, tol=tol, defects=[], blunders=[], exp_points={},
                base=set(net.points), notes=[], datum=datum)
    # approximate coordinates: exact or slightly off (well inside tol-abs)
    if rng.uniform() < 0.5:
        amp = min(0.03, 0.05 * tol / 1000.0)
        for q in net.points.values():
            if q.xy == "free":
                q.dE, q.dN = [float(x) for x in rng.uniform(-amp, amp, 2)]
            if q.z == "free":
                q.dH = float(rng.uniform(-amp, amp))
        info["approx"] = "perturbed"
    else:
        info["approx"] = "exact"
    netgen.add_noise(rng, net, scale=float(rng.choice([0.3, 1.0])))
    tame_noise(net, tol)
    for k, name in enumerate(chosen):
        INJECT[name](rng, net, info, "D%d" % (k + 1))
    # blunders
    nbl = int(rng.choice([0, 1, 1, 2, 3])) if ndef else int(rng.choice([1, 1, 2, 3]))
    if "steep" in feats and rng.uniform() < 0.7:
        # a zenith-angle blunder just above tol-abs on the steepest sight
        info["force"] = ("z-angle", 1 + 1e-2)
        nbl = max(nbl, 1)
    plant_blunders(rng, net, info, nbl, i)
    return net, info


def tame_noise(net, tol):
    """shrink the deviations of the observations from the model at the approximate coordinates so that the
    natural positional misclosures stay below 0.3 tol-abs (factor 2 for directions: the approximate orientation
    is itself an estimate from the noisy directions)"""
    P = approx_points(net)
    worst = 0.0
    devs = []
    for cl in net.clusters:
        if cl.kind not in ("obs", "hdiff"):
            continue
        for o in cl.obs:
            m = netgen.model_value(net, cl, o, P)
            if o.kind in ANGULAR:
                d = wrap200(o.val - m) if o.kind != "z-angle" else o.val - m
                a, b = P[o.frm], P[o.to if o.kind != "angle" else o.bs]
                L = hdist(a, b)
                if o.kind == "angle":
                    L = max(L, hdist(a, P[o.fs]))
                if o.kind == "z-angle":
                    L = math.hypot(L, b.H - a.H) + 3.0
                pm = abs(d) * GON * L * 1000.0 * (2.0 if o.kind == "direction" else 1.0)
            else:
                d = o.val - m
                pm = abs(d) * 1000.0
            devs.append((cl, o, m, d))
            worst = max(worst, pm)
    if worst > 0.3 * tol:
        f = 0.3 * tol / worst
        for cl, o, m, d in devs:
            o.val = m + d * f
            if o.kind in ("direction", "angle", "azimuth"):
                o.val %= 400.0
    for cl in net.clusters:
        if cl.kind == "vectors":
            for v in cl.vecs:
                a, b = P[v[0]], P[v[1]]
                for k, c in ((2, b.E - a.E), (3, b.N - a.N), (4, b.H - a.H)):
                    d = v[k] - c
                    if abs(d) * 1000.0 > 0.3 * tol:
                        v[k] = c + math.copysign(0.3 * tol / 1000.0, d) * 0.9
        elif cl.kind == "coords":
            for c in cl.cpoints:
                a = P[c[0]]
                for k, t in ((1, a.E), (2, a.N), (3, a.H)):
                    if c[k] is not None and abs(c[k] - t) * 1000.0 > 0.3 * tol:
                        c[k] = t + math.copysign(0.3 * tol / 1000.0, c[k] - t) * 0.9


def defect_menu(dim):
    if dim == 1:
        return ["isolated", "isolated-nocoord", "passive-cluster", "floating-pair", "isolated", "isolated-nocoord"]
    m = ["isolated", "isolated-nocoord", "single-direction-target", "single-distance-target",
         "uncomputable-target", "single-direction-station", "duplicate-direction-station",
         "station-second-target-unusable", "passive-cluster", "weak-intersection", "borderline-intersection",
         "single-angle-fs-target", "single-angle-bs-target"]
    if dim == 3:
        m += ["single-slope-target", "unobserved-height"]
    return m


def _new_point(rng, net, name, xy, z, near=None):
    """a new point inside the network's extent, not too close to any existing point"""
    P = net.points
    E = [q.E for q in P.values()]; N = [q.N for q in P.values()]; H = [q.H for q in P.values()]
    size = max(max(E) - min(E), max(N) - min(N), 50.0)
    for _ in range(200):
        e, n = float(rng.uniform(min(E), max(E))), float(rng.uniform(min(N), max(N)))
        if all(math.hypot(e - q.E, n - q.N) > size / 12 for q in P.values()):
            break
    hh = float(rng.uniform(min(H), max(H))) if net.dim != 2 else 0.0
    q = Pt(name, e, n, hh, xy, z)
    P[name] = q
    return q


def _stations(net, base_only=None):
    return [cl for cl in net.clusters if cl.kind == "obs" and cl.station is not None
            and (base_only is None or cl.station in base_only)]


def _add_obs(net, cl, kind, frm, to, stdev, **kw):
    o = Obs(kind, frm, to, stdev=stdev, **kw)
    o.true = netgen.model_value(net, cl, o)
    o.val = netgen.model_value(net, cl, o, approx_points(net))
    if cl.cov is not None:
        C = np.array(cl.cov["C"], dtype=float)
        n = C.shape[0]
        C2 = np.zeros((n + 1, n + 1))
        C2[:n, :n] = C
        C2[n, n] = stdev * stdev
        cl.cov = dict(band=cl.cov["band"], C=C2)
    cl.obs.append(o)
    return o


def _xyz_status(rng, net):
    """status of a new point: (xy, z)"""
    if net.dim == 1:
        return "none", "free"
    if net.dim == 2:
        return "free", "none"
    return "free", ("free" if rng.uniform() < 0.6 else "none")


def inj_isolated(rng, net, info, name, give=True):
    xy, z = _xyz_status(rng, net)
    q = _new_point(rng, net, name, xy, z)
    if not give:
        if net.dim == 3 and z != "none" and rng.uniform() < 0.4:
            q.give_z = False          # xy given, z missing
        else:
            q.give_xy = q.give_z = False
    if xy != "none":
        info["exp_points"][(name, "xy")] = "missing" if not q.give_xy else "indeterminable"
    if z != "none":
        info["exp_points"][(name, "z")] = "missing" if not q.give_z else "indeterminable"
    info["defects"].append("isolated" if give else "isolated-nocoord")


def inj_single_target(rng, net, info, name, elem="direction", give=None):
    """a new point observed by exactly one determining element from a base station"""
    give = (rng.uniform() < 0.6) if give is None else give
    xy, z = _xyz_status(rng, net)
    if elem == "s-distance":
        z = "free"
    if give and info.get("datum") in ("free", "mixed") and xy == "free" and z == "none" and rng.uniform() < 0.5:
        # a *constrained* point of a free network that has to be removed: it must leave the datum with its unknowns
        xy = "constrained"
        info["notes"].append("removed point %s is a constrained point" % name)
    q = _new_point(rng, net, name, xy, z)
    q.give_xy = q.give_z = give
    cl = _stations(net, info["base"])[int(rng.integers(0, len(_stations(net, info["base"]))))]
    if elem == "s-distance" and net.points[cl.station].z == "none":
        elem = "distance"
    if elem in ("angle-fs", "angle-bs"):
        # the new point is one arm of a single angle, the other arm goes to a base point
        others = [p for p in sorted(info["base"]) if p != cl.station and net.points[p].xy != "none"]
        other = str(others[int(rng.integers(0, len(others)))])
        if elem == "angle-fs":
            _add_obs(net, cl, "angle", cl.station, None, 10.0, bs=other, fs=name)
        else:
            _add_obs(net, cl, "angle", cl.station, None, 10.0, bs=name, fs=other)
    else:
        _add_obs(net, cl, elem, cl.station, name, 10.0 if elem == "direction" else 5.0)
    info["exp_points"][(name, "xy")] = "indeterminable" if give else "missing"
    if z != "none":
        info["exp_points"][(name, "z")] = "indeterminable" if give else "missing"
    info["defects"].append({"direction": "single-direction-target", "distance": "single-distance-target",
                            "s-distance": "single-slope-target", "angle-fs": "single-angle-fs-target",
                            "angle-bs": "single-angle-bs-target"}[elem] if give else "uncomputable-target")


def inj_unobserved_height(rng, net, info, name):
    """3D: a new point well determined in xy (directions and distances from three base stations) whose height is
    to be adjusted but is touched by no observation"""
    q = _new_point(rng, net, name, "free", "free")
    if rng.uniform() < 0.3:
        q.give_z = False
    sts = _stations(net, info["base"])
    for k in [int(x) for x in rng.permutation(len(sts))[:3]]:
        cl = sts[k]
        _add_obs(net, cl, "direction", cl.station, name, 10.0)
        _add_obs(net, cl, "distance", cl.station, name, 5.0)
    info["exp_points"][(name, "z")] = "indeterminable" if q.give_z else "missing"
    info["defects"].append("unobserved-height")


def _new_station(rng, net, info, name):
    """a new xy station determined by distances to three base points (and no direction yet)"""
    q = _new_point(rng, net, name, "free", "none")
    cl = Cluster("obs", name)
    cl.zero = float(rng.uniform(0, 400))
    base = [p for p in info["base"] if net.points[p].xy != "none"]
    tg = [str(x) for x in rng.permutation(sorted(base))[:3]]
    net.clusters.append(cl)
    for t in tg:
        _add_obs(net, cl, "distance", name, t, 5.0)
    return q, cl, tg


def inj_single_direction_station(rng, net, info, name, variant="single"):
    q, cl, tg = _new_station(rng, net, info, name)
    if len(tg) < 3:
        info["notes"].append("too few base points for a new station")
    _add_obs(net, cl, "direction", name, tg[0], 10.0)
    if variant == "duplicate":
        _add_obs(net, cl, "direction", name, tg[0], 10.0)
    elif variant == "unusable":
        u = name + "u"
        uq = _new_point(rng, net, u, "free", "none")
        uq.give_xy = bool(rng.uniform() < 0.5)
        _add_obs(net, cl, "direction", name, u, 10.0)
        info["exp_points"][(u, "xy")] = "indeterminable" if uq.give_xy else "missing"
    info["defects"].append({"single": "single-direction-station", "duplicate": "duplicate-direction-station",
                            "unusable": "station-second-target-unusable"}[variant])


def inj_passive_cluster(rng, net, info, name):
    """a cluster all of whose observations are excluded"""
    if net.dim == 1:
        # a second levelling section: one height difference between two new points without heights.  gama gives
        # such a pair heights in a local system (no 'missing' report), after which it is a floating pair
        if info["datum"] != "fixed":
            return inj_isolated(rng, net, info, name, False)
        a, b = name, name + "b"
        for p in (a, b):
            q = _new_point(rng, net, p, "none", "free")
            q.give_z = False
            info["exp_points"][(p, "z")] = "any"
        cl = Cluster("hdiff")
        net.clusters.append(cl)
        o = Obs("dh", a, b, stdev=2.0); o.true = o.val = 0.5
        cl.obs.append(o)
        info["defects"].append("floating-pair-without-heights")
        return
    else:
        v = int(rng.integers(0, 2))
        base = [p for p in sorted(info["base"]) if net.points[p].xy != "none"]
        s = str(rng.choice(base))
        cl = Cluster("obs", s)
        cl.zero = float(rng.uniform(0, 400))
        net.clusters.append(cl)
        if v == 0:
            # a second set at a base station with one direction only
            t = str(rng.choice([p for p in base if p != s]))
            _add_obs(net, cl, "direction", s, t, 10.0)
        else:
            # a set whose only observation is a distance to a point without coordinates
            q = _new_point(rng, net, name, "free", "none")
            q.give_xy = False
            o = Obs("distance", s, name, stdev=5.0); o.true = o.val = 123.456
            cl.obs.append(o)
            info["exp_points"][(name, "xy")] = "missing"
    info["defects"].append("passive-cluster")


def inj_floating_pair(rng, net, info, name):
    """1D, fixed datum: two new heights tied to each other by a height difference but not to the network (with a
    free datum the pair adds to the network defect, which is C20's subject)"""
    if info["datum"] != "fixed":
        return inj_isolated(rng, net, info, name, True)
    a, b = name + "a", name + "b"
    _new_point(rng, net, a, "none", "free")
    _new_point(rng, net, b, "none", "free")
    cl = [c for c in net.clusters if c.kind == "hdiff"][0]
    _add_obs(net, cl, "dh", a, b, 2.0)
    info["exp_points"][(a, "z")] = "indeterminable"
    info["exp_points"][(b, "z")] = "indeterminable"
    info["defects"].append("floating-pair")


def inj_weak_intersection(rng, net, info, name, borderline=False):
    """a new point intersected by two low-precision directions from two base stations under a very acute angle:
    determined, but with an a priori standard deviation of hundreds of metres (documented: 'indeterminable')"""
    sts = _stations(net, info["base"])
    if len(sts) < 2 or info["datum"] != "fixed":
        return inj_isolated(rng, net, info, name)
    k = [int(x) for x in rng.permutation(len(sts))]
    c1 = sts[k[0]]
    c2 = next((sts[j] for j in k[1:] if sts[j].station != c1.station), None)
    if c2 is None:
        return inj_isolated(rng, net, info, name)
    a, b = net.points[c1.station], net.points[c2.station]
    d = hdist(a, b)
    t = float(rng.uniform(0.35, 0.65))
    sd = next((o.stdev for o in c1.obs if o.kind == "direction"), 10.0)
    ux, uy = (b.E - a.E) / d, (b.N - a.N) / d
    sg = 1 if rng.uniform() < 0.5 else -1
    # geometry only moderately acute (1e-3 .. 2e-3 of the base line) and directions of low precision, so that the
    # point stays numerically well separated from a singular one (condition of the weighted design ~ 1e4) while
    # its a priori standard deviation is about ten times gama's limit of 10 m
    eps = float(rng.choice([1e-3, 2e-3]))
    off = d * eps * sg
    q = Pt(name, a.E + t * (b.E - a.E) - uy * off, a.N + t * (b.N - a.N) + ux * off, 0.5 * (a.H + b.H),
           "free", "none")
    rows = []
    for s in (a, b):
        dd = hdist(s, q)
        rows.append([(q.N - s.N) / dd / dd * CC / 1000.0, -(q.E - s.E) / dd / dd * CC / 1000.0])
    J = np.array(rows)
    pred1 = float(np.sqrt(np.max(np.diag(np.linalg.inv(J.T @ J)))))      # for stdev 1 cc
    if borderline:
        # a priori standard deviation within 15 % of gama's limit (10 m): whether the point is removed, and in which
        # linearisation iteration, is not predicted; everything else (visibility, deletion, safety) is judged
        sdw = min(1000.0, max(1.0, float(1e4 * rng.uniform(0.85, 1.15) / pred1)))
        pred = pred1 * sdw
        if not 0.8e4 < pred < 1.2e4:
            return inj_isolated(rng, net, info, name)
    else:
        sdw = min(1000.0, max(sd, float(round(1e5 / pred1))))
        pred = pred1 * sdw
        if pred < 3e4:
            return inj_isolated(rng, net, info, name)
    sd = sdw
    info["notes"].append("weak intersection: predicted a priori stdev %.3g mm (eps %.2g)" % (pred, eps))
    net.points[name] = q
    _add_obs(net, c1, "direction", c1.station, name, sd)
    _add_obs(net, c2, "direction", c2.station, name, sd)
    info["exp_points"][(name, "xy")] = "maybe" if borderline else "indeterminable"
    info["defects"].append("borderline-intersection" if borderline else "weak-intersection")


INJECT = {
    "isolated": lambda r, n, f, nm: inj_isolated(r, n, f, nm, True),
    "isolated-nocoord": lambda r, n, f, nm: inj_isolated(r, n, f, nm, False),
    "single-direction-target": lambda r, n, f, nm: inj_single_target(r, n, f, nm, "direction", True),
    "single-distance-target": lambda r, n, f, nm: inj_single_target(r, n, f, nm, "distance", True),
    "single-slope-target": lambda r, n, f, nm: inj_single_target(r, n, f, nm, "s-distance", True),
    "single-angle-fs-target": lambda r, n, f, nm: inj_single_target(r, n, f, nm, "angle-fs", True),
    "single-angle-bs-target": lambda r, n, f, nm: inj_single_target(r, n, f, nm, "angle-bs", True),
    "uncomputable-target": lambda r, n, f, nm: inj_single_target(
        r, n, f, nm, str(r.choice(["direction", "distance"])), False),
    "unobserved-height": inj_unobserved_height,
    "single-direction-station": lambda r, n, f, nm: inj_single_direction_station(r, n, f, nm, "single"),
    "duplicate-direction-station": lambda r, n, f, nm: inj_single_direction_station(r, n, f, nm, "duplicate"),
    "station-second-target-unusable": lambda r, n, f, nm: inj_single_direction_station(r, n, f, nm, "unusable"),
    "passive-cluster": inj_passive_cluster,
    "floating-pair": inj_floating_pair,
    "weak-intersection": inj_weak_intersection,
    "borderline-intersection": lambda r, n, f, nm: inj_weak_intersection(r, n, f, nm, True),
}

# observed coordinates cannot carry a blunder relative to the approximate coordinates: they *are* the
# approximate coordinates (see approx_points); their absolute terms are judged like all others (always 0)
BLUNDER_KINDS = ("direction", "distance", "angle", "azimuth", "s-distance", "z-angle", "dh", "dx", "dy", "dz")


def plant_blunders(rng, net, info, nbl, i):
    """choose observations between base points and move them to a chosen multiple of tol-abs away from the
    model at the approximate coordinates; keeps the remaining network determined (numpy guard)"""
    if nbl == 0:
        return
    tol = info["tol"]
    items = flatten(net)
    P = approx_points(net)
    base = info["base"]
    cand = [it for it in items if all(p in base for p in it.points()) and it.kind in BLUNDER_KINDS]
    kinds = sorted({it.kind for it in cand}, key=BLUNDER_KINDS.index)
    if not kinds:
        return
    all_active = {it.n for it in items if all(p in base for p in it.points())}
    rank0 = determinacy(net, items, all_active, P)[0]
    chosen, removed_now = [], set()
    ndir = {}
    for it in cand:
        if it.kind == "direction":
            ndir[it.ci] = ndir.get(it.ci, 0) + 1
    clean = set()                 # stations whose directions were made noise-free
    for b in range(nbl):
        kind = kinds[(i // 3 + b * 5) % len(kinds)] if b == 0 or rng.uniform() < 0.5 else str(rng.choice(kinds))
        if b == 0:
            f = (FACTORS_NEAR + FACTORS_FAR)[(i // 7) % 9] if rng.uniform() < 0.8 else float(
                rng.choice(FACTORS_NEAR + FACTORS_FAR))
        else:
            f = float(rng.choice(FACTORS_NEAR + FACTORS_FAR))
        forced = b == 0 and info.get("force") and info["force"][0] in kinds
        if forced:
            kind, f = info["force"]
        pool = [it for it in cand if it.kind == kind and it.n not in {c["n"] for c in chosen}]
        if forced:
            # steepest sights first (slope and horizontal length differ most)
            def steep(it):
                a, c = P[it.frm], P[it.to]
                d0 = math.hypot(a.E - c.E, a.N - c.N)
                return d0 / max(math.sqrt(d0 * d0 + (a.H - c.H) ** 2), 1e-9)
            pool = sorted(pool, key=steep)[:2]
        if kind == "direction":
            pool = [it for it in pool if ndir[it.ci] >= 4 and not any(c["ci"] == it.ci for c in chosen)]
        for it in [pool[int(k)] for k in rng.permutation(len(pool))[:6]]:
            L, _ = sight_lengths(net, it, P)
            sign = 1.0 if rng.uniform() < 0.5 else -1.0
            if kind in ANGULAR:
                rad = f * tol / (L * 1000.0)
                lim = 0.8 if kind == "z-angle" else 2.8
                if rad > lim:
                    # beyond what an angle can express at this sight length: use the largest feasible factor
                    # on the same side if there is one
                    if f < 1:
                        continue
                    alt = [g for g in (3.0, 1.5, 1 + 1e-2, 1 + 1e-6) if g * tol / (L * 1000.0) <= lim and g < f]
                    if not alt:
                        info["notes"].append("no feasible blunder above tol-abs for %s at %.0f m" % (kind, L))
                        continue
                    f = alt[0]
                    rad = f * tol / (L * 1000.0)
            # would the network without this observation (if it gets excluded) stay determined?
            if f > 1:
                trial = all_active - removed_now - {it.n}
                trial = trial - closure_dirs(items, trial)
                if determinacy(net, items, trial, P)[0] < rank0:
                    continue
                removed_now.add(it.n)
            cl = net.clusters[it.ci]
            if kind in ("distance", "s-distance", "dh"):
                m = netgen.model_value(net, cl, it.obs, P)
                if m + sign * f * tol / 1000.0 <= 1.0 and kind != "dh":
                    sign = 1.0
                it.obs.val = m + sign * f * tol / 1000.0
            elif kind in ("dx", "dy", "dz"):
                a, c = P[it.frm], P[it.to]
                comp = {"dx": c.N - a.N, "dy": c.E - a.E, "dz": c.H - a.H}[kind]
                cl.vecs[it.oi][{"dx": 3, "dy": 2, "dz": 4}[kind]] = comp + sign * f * tol / 1000.0
            elif kind in ("x", "y", "z"):
                a = P[it.frm]
                cl.cpoints[it.oi][{"x": 2, "y": 1, "z": 3}[kind]] = {"x": a.N, "y": a.E, "z": a.H}[kind] + \
                    sign * f * tol / 1000.0
            elif kind == "direction":
                # all directions of this set exactly consistent with the approximate coordinates, so that the
                # approximate orientation (median of the estimates) equals the circle zero whatever one blunder does
                if it.ci not in clean:
                    for o in cl.obs:
                        if o.kind == "direction":
                            o.val = netgen.model_value(net, cl, o, P)
                    clean.add(it.ci)
                it.obs.val = (netgen.model_value(net, cl, it.obs, P) + sign * rad / GON) % 400.0
            elif kind == "z-angle":
                if forced and cl.cov is None:
                    # weight 1: the homogenised term equals the raw one, so the known defect of the gross-term test
                    # (term x sigma-apr / stdev) cannot explain a deviation away
                    it.obs.stdev = float(net.params["sigma_apr"])
                mz = netgen.model_value(net, cl, it.obs, P)
                if not 1.0 < mz + sign * rad / GON < 199.0:
                    sign = -sign          # a zenith angle must stay inside (0, 200) gon to be a valid input
                it.obs.val = mz + sign * rad / GON
            else:
                it.obs.val = (netgen.model_value(net, cl, it.obs, P) + sign * rad / GON) % 400.0
            chosen.append(dict(n=it.n, ci=it.ci, kind=kind, factor=f, side=side_of(f), label=it.label()))
            break
    info["blunders"] = chosen


def closure_dirs(items, active):
    """directions of sets with fewer than two targets among the active observations"""
    by = {}
    for it in items:
        if it.kind == "direction" and it.n in active:
            by.setdefault(it.ci, []).append(it)
    out = set()
    for ci, dirs in by.items():
        if len({d.to for d in dirs}) < 2:
            out.update(d.n for d in dirs)
    return out


# ---------------------------------------------------------------------------- reading gama's outputs

def parse_text(txt):
    """what the text listing shows about exclusions -> dict(removed=[(id, reason)], outlying=[dict], counts={},
    abs_removed_note=bool)"""
    out = dict(removed=[], outlying=[], counts={}, note=False, has_outlying=False)
    m = re.search(r"^Removed points and coordinates\n\*+\n\n(.*?)\n\n", txt, re.S | re.M)
    if m:
        for line in m.group(1).split("\n"):
            mm = re.match(r"^\s*(\S+)\s{3}(.*\S)\s*$", line)
            if mm:
                out["removed"].append((mm.group(1), mm.group(2)))
            elif line.strip():
                out["removed"].append((None, line))
    m = re.search(r"^Outlying absolute terms in project equations\n\*+\n\n(.*?)\n\n\n", txt, re.S | re.M)
    if m:
        out["has_outlying"] = True
        body = m.group(1).split("\n")
        rows = []
        for line in body[2:]:
            if not line.strip():
                continue
            mm = re.match(r"^\s*(\d+)\s+(\S+)\s+(\S+)(.*)$", line)
            if mm and not rows or (mm and rows and rows[-1].get("complete", True)):
                r = dict(index=int(mm.group(1)), frm=mm.group(2), to=mm.group(3), complete=True)
                rest = mm.group(4)
                if not rest.strip():
                    r["complete"] = False          # angle: continues on the next line
                else:
                    _tail(r, rest)
                rows.append(r)
            elif rows and not rows[-1].get("complete", True):
                mm = re.match(r"^\s*(\S+)\s+(angle)\s+(\S+)\s+(\S+)\s*$", line)
                if mm:
                    rows[-1].update(fs=mm.group(1), label="angle", value=float(mm.group(3)), term=float(mm.group(4)),
                                    complete=True)
                else:
                    rows[-1].update(complete=True, garbled=line)
            else:
                rows.append(dict(garbled=line, complete=True))
        out["outlying"] = rows
    out["note"] = "Observations with outlying absolute terms removed" in txt
    for label in ("Number of directions", "Number of angles", "Number of distances", "Coordinates",
                  "Leveling differences", "Zenith angles", "Slope distances", "Total of observations",
                  "Number of project equations", "Number of unknowns", "Degrees of freedom", "Network defect",
                  "Number of bearings"):
        mm = re.search(r"(?:^|\s{3,})" + re.escape(label) + r"\s*:\s*(-?\d+)", txt, re.M)
        if mm:
            out["counts"][label] = int(mm.group(1))
    m = re.search(r"^Adjusted\s*:\s*(\d+)\s+(\d+)\s+(\d+)", txt, re.M)
    if m:
        out["counts"]["adjusted"] = tuple(int(x) for x in m.groups())
    return out


def _tail(r, rest):
    mm = re.match(r"^\s*(dir\.|dist\.|h dif|slope|zen\.|azim\.|x dif|y dif|z dif|x|y|z)\s+(\S+)\s+(\S+)\s*$", rest)
    if mm:
        r["label"] = mm.group(1)
        try:
            r["value"], r["term"] = float(mm.group(2)), float(mm.group(3))
        except ValueError:
            r["garbled"] = rest
    else:
        r["garbled"] = rest


class Seen:
    """hook events of one run, normalised"""

    def __init__(self, g):
        self.rm_points = []          # (id, code) in order
        self.abs = []                # rm_obs_abs_term events
        self.rev = []                # revision_obs events
        self.adjust = []
        self.rm_points_pre = []      # removed before the absolute terms were tested (revision, singular_coords)
        for e in g.trace:
            k = e.get("kind")
            if k == "rm_point":
                self.rm_points.append((e["id"], int(e["code"])))
                if not self.abs:
                    # (when no gross term is removed at all, points removed later on are counted as well: the
                    # observations touching them are then simply not judged)
                    self.rm_points_pre.append((e["id"], int(e["code"])))
            elif k == "rm_obs_abs_term":
                self.abs.append(e)
            elif k == "revision_obs":
                self.rev.append(e)
            elif k == "adjust":
                self.adjust.append(e)

    def removed_components(self, before_abs=False):
        s = set()
        for pid, code in (self.rm_points_pre if before_abs else self.rm_points):
            for c in (("xy", "z") if RM_CODE[code][0] == "xyz" else (RM_CODE[code][0],)):
                s.add((pid, c))
        return s

    def passive_keys(self):
        """multiset {(type, from, to): count} of the observations finally passive"""
        d = {}
        if self.rev:
            for o in self.rev[-1]["removed"]:
                k = (cxx_type(o["type"]), o["from"], o["to"])
                d[k] = d.get(k, 0) + 1
        return d


def multiset(keys):
    d = {}
    for k in keys:
        d[k] = d.get(k, 0) + 1
    return d


def ms_diff(a, b):
    """elements of multiset a not in b"""
    out = {}
    for k, v in a.items():
        if v > b.get(k, 0):
            out[k] = v - b.get(k, 0)
    return out


# ---------------------------------------------------------------------------- deletion

def delete_excluded(net, items, passive_items, removed, missing):
    """the generated network with exactly the excluded items deleted: passive observations (with their rows and
    columns of the cluster covariance), removed point components; a point without any remaining role is
    dropped.  -> (net', None) or (None, reason) when the reduced survey cannot be expressed in the input format."""
    v = net.clone()
    by_cluster = {}
    for it in items:
        if it.n in passive_items:
            by_cluster.setdefault(it.ci, []).append(it)
    drop_clusters = []
    for ci, its in by_cluster.items():
        cl = v.clusters[ci]
        if cl.kind in ("obs", "hdiff"):
            gone = {it.oi for it in its}
            keep = [k for k in range(len(cl.obs)) if k not in gone]
            cl.obs = [cl.obs[k] for k in keep]
            if cl.cov is not None:
                C = np.array(cl.cov["C"], dtype=float)[np.ix_(keep, keep)]
                nz = [abs(a - b) for a in range(len(keep)) for b in range(len(keep)) if C[a, b] != 0.0]
                cl.cov = dict(band=max(nz) if nz else 0, C=C)
            if not cl.obs:
                drop_clusters.append(ci)
        elif cl.kind == "vectors":
            per = {}
            for it in its:
                per.setdefault(it.oi, set()).add(it.sub)
            if any(len(s) != 3 for s in per.values()):
                return None, "part of a vector excluded"
            keep = [k for k in range(len(cl.vecs)) if k not in per]
            rows = [3 * k + j for k in keep for j in range(3)]
            cl.vecs = [cl.vecs[k] for k in keep]
            C = np.array(cl.cov["C"], dtype=float)[np.ix_(rows, rows)]
            cl.cov = dict(band=0, C=C)
            if not cl.vecs:
                drop_clusters.append(ci)
        elif cl.kind == "coords":
            per = {}
            for it in its:
                per.setdefault(it.oi, set()).add(it.sub)
            rows, r, newp = [], 0, []
            for k, c in enumerate(cl.cpoints):
                gone = per.get(k, set())
                has_xy, has_z = c[1] is not None, c[3] is not None
                if has_xy and len(gone & {"x", "y"}) == 1:
                    return None, "one of the two horizontal coordinates of an observed point excluded"
                c2 = list(c)
                if has_xy:
                    if "x" in gone:
                        c2[1] = c2[2] = None
                    else:
                        rows += [r, r + 1]
                    r += 2
                if has_z:
                    if "z" in gone:
                        c2[3] = None
                    else:
                        rows.append(r)
                    r += 1
                if c2[1] is not None or c2[3] is not None:
                    newp.append(c2)
            cl.cpoints = newp
            C = np.array(cl.cov["C"], dtype=float)[np.ix_(rows, rows)]
            cl.cov = dict(band=0, C=C)
            if not newp:
                drop_clusters.append(ci)
    v.clusters = [cl for ci, cl in enumerate(v.clusters) if ci not in drop_clusters]
    # points
    for (pid, comp) in removed:
        q = v.points.get(pid)
        if q is None:
            continue
        if comp == "xy":
            q.xy = "none" if (pid, "xy") in missing or not q.give_xy else "known"
        else:
            q.z = "none" if (pid, "z") in missing or not q.give_z else "known"
    used = set()
    for it in flatten(v):
        used.update(it.points())
    for pid in list(v.points):
        q = v.points[pid]
        adjustable = q.xy in ("fixed", "free", "constrained") or q.z in ("fixed", "free", "constrained")
        if pid not in used and not adjustable:
            del v.points[pid]
        elif pid not in used and (pid, "xy") in removed or pid not in used and (pid, "z") in removed:
            # nothing refers to it any more and part of it was removed: an isolated remainder would be
            # removed again; it is kept only if gama kept the other part
            pass
    return v, None


# ---------------------------------------------------------------------------- the oracle for one run

def evaluate(ck, net, info, items, alg, g, txt, wit):
    """visibility + decision rule + expectation for one run; -> dict describing what was excluded (for the
    deletion step and the comparison between algorithms) or None"""
    tol = info["tol"]
    oc = netlevel.outcome(g)
    if oc != "adjusted":
        return None                  # judged in run(): all algorithms refuse / only some do
    R = g.xml
    S = Seen(g)
    T = parse_text(g.files.get("text", b"").decode("utf-8", errors="replace"))
    P = approx_points(net)
    if not S.adjust or not S.rev:
        ck.inconc("no adjust/revision hook event")
        return None
    ev0 = S.adjust[0]

    # ---- approximate values used for the linearisation (hook) confirm the input
    ori = {}
    dup_station = set()
    for u in ev0["unknowns"]:
        if u["type"] == "R":
            if u["id"] in ori:
                dup_station.add(u["id"])
            ori[u["id"]] = u["approx"] / GON
        elif u["type"] in "XYZ":
            q = P.get(u["id"])
            if q is not None and ev0["iteration"] == 0:
                mine = {"X": q.N, "Y": q.E, "Z": q.H}[u["type"]]
                given = net.points[u["id"]].give_xy if u["type"] in "XY" else net.points[u["id"]].give_z
                if given and abs(mine - u["approx"]) > 1e-9 * max(1.0, abs(mine)):
                    ck.inconc("approximate coordinate in the hook differs from the input")
                    return None
    # ---- (E) expected exclusions
    hook_removed = S.removed_components()
    hook_missing = {(pid, c) for pid, code in S.rm_points if RM_CODE[code][1] == "missing"
                    for c in (("xy", "z") if RM_CODE[code][0] == "xyz" else (RM_CODE[code][0],))
                    if not (net.points[pid].give_xy if c == "xy" else net.points[pid].give_z)} \
        if all(pid in net.points for pid, _ in S.rm_points) else set()
    exp_missing = {k for k, v in info["exp_points"].items() if v == "missing"}
    # observations passive before the test of the absolute terms: those touching points removed before it
    pre_removed = S.removed_components(before_abs=True)
    pre = closure(net, items, pre_removed, hook_missing & pre_removed, set())
    # the hook's observations -> items, by (type, from, to) and the raw absolute term
    bval = {}
    for it in items:
        bval[it.n] = misclosure(net, it, P, _ori_for(it, ori, dup_station))
    hook_abs_items = set()
    for e in S.abs:
        k = (cxx_type(e["type"]), e["from"], e["to"])
        cands = [it for it in items if it.key() == k and it.n not in hook_abs_items]
        best, bd = None, None
        for it in cands:
            b0 = bval[it.n][0]
            d = abs((b0 if b0 is not None else 0.0) - e["rhs"])
            if bd is None or d < bd:
                best, bd = it, d
        if best is None:
            ck.violation("phantom:hook-abs-term", "rm_obs_abs_term reports %s which is not in the input" % (k,), wit)
            continue
        hook_abs_items.add(best.n)
        e["_item"] = best.n
    yh, corr = homogenized(net, items, bval, {it.n for it in items if it.n not in pre}, net.params["sigma_apr"])
    ungiven = {pid for pid, q in net.points.items()
               if (q.xy != "none" and not q.give_xy) or (q.z != "none" and not q.give_z)}
    n_judged = 0
    flagged_raw = False          # would the documented rule (or its left-arm variant) find any gross term?
    any_hom = [False, False]     # would the rule applied to the homogenised terms find any? (both arms / left arm)
    for it in items:
        if it.n in pre:
            continue
        b, m, m2 = bval[it.n]
        planted = next((bl for bl in info["blunders"] if bl["n"] == it.n), None)
        excluded = it.n in hook_abs_items
        if b is None:
            ck.count("rule: direction without known approximate orientation (not judged)")
            continue
        if any(p in ungiven for p in it.points()):
            ck.count("rule: observation to a point whose approximate coordinates gama computed itself (not judged)")
            continue
        # alternative decision rules that known defects of gama would produce
        y = yh.get(it.n)
        Lspec = sight_lengths(net, it, P)[0]
        Lleft = hdist(P[it.frm], P[it.to]) if it.kind == "angle" else Lspec
        if it.kind in ANGULAR:
            m_left = abs(b) / 1e4 * GON * Lleft * 1000.0
            m_hom = abs(y) / 1e4 * GON * Lspec * 1000.0 if y is not None else None
            m_hom_left = abs(y) / 1e4 * GON * Lleft * 1000.0 if y is not None else None
        else:
            m_left = m_hom = m_hom_left = m
        flagged_raw = flagged_raw or m_left > tol or m > tol
        any_hom[0] = any_hom[0] or (m_hom is not None and m_hom > tol * (1 + 1e-9))
        any_hom[1] = any_hom[1] or (m_hom_left is not None and m_hom_left > tol * (1 + 1e-9))
        e = next((e for e in S.abs if e.get("_item") == it.n), None)
        if e is not None:
            # value of the absolute term the hook saw vs the independent one
            scale = max(abs(b), 1e-6)
            err = abs(e["rhs"] - b)
            ck.ratio("absolute term: |hook rhs - independent| / (1e-7 rel + 1e-6)", err, 1e-7 * scale + 1e-6)
            if err > 1e-7 * scale + 1e-6:
                ck.violation("abs-term-value:%s" % it.kind,
                             "absolute term of %s: gama %.12g, independent recomputation from the approximate "
                             "coordinates %.12g" % (it.label(), e["rhs"], b), wit)
            elif it.kind in ANGULAR and abs(e["test"] - b) > 1e-7 * scale + 1e-6:
                why = ""
                if y is not None and abs(e["test"] - y) <= 1e-7 * max(abs(y), 1e-6) + 1e-6:
                    why = "correlated-cluster:" if it.ci in corr else "homogenized-rhs:"
                ck.violation("abs-term-value:%s%s" % (why, it.kind),
                             "the value tested against tol-abs for %s is %.10g cc, the absolute term of the "
                             "observation is %.10g cc (independent: %.10g; homogenised: %s); sigma-apr %.4g, stdev %s" % (
                                 it.label(), e["test"], e["rhs"], b, "%.10g" % y if y is not None else "?",
                                 net.params["sigma_apr"], it.stdev), wit)
        lo, hi = (min(m, m2), max(m, m2)) if m2 is not None else (m, m)
        if lo <= tol <= hi and hi > lo:
            ck.count("rule: between mark and instrument sight length (not judged)")
            continue
        if abs(m - tol) < 1e-9 * tol:
            ck.count("rule: at equality (not judged)")
            continue
        n_judged += 1
        should = m > tol
        if planted:
            ck.cls(("rule", it.kind, "tol=%g" % tol, planted["side"], alg))
            ck.count("rule/planted/%s/%s" % (it.kind, planted["side"]))
            ck.count("rule/planted/tol=%g/%s" % (tol, planted["side"]))
            ck.ratio("planted blunder: |m/tol - factor| / 1e-9", abs(m / tol - planted["factor"]), 1e-9)
        elif should:
            ck.cls(("rule", it.kind, "tol=%g" % tol, "natural-above", alg))
            ck.count("rule/natural-above/%s" % it.kind)
        if should != excluded:
            # is the decision the one a known defect produces?  (homogenised right-hand side; left arm of angles)
            side = "kept-above" if should else "excluded-below"
            fam = ""
            if it.kind in ANGULAR:
                def dec(v):
                    # (a value within rounding of tol-abs explains either decision)
                    return v is not None and (abs(v - tol) <= 1e-9 * tol or (v > tol) == excluded)
                hom = "correlated-cluster" if it.ci in corr else "homogenized-rhs"
                if dec(m_hom):
                    fam = hom + ":"
                elif it.kind == "angle" and dec(m_left):
                    fam = "left-arm:"
                elif it.kind == "angle" and dec(m_hom_left):
                    fam = hom + "+left-arm:"
            ck.violation("abs-term-rule:%s%s:%s" % (fam, it.kind, side),
                         "%s: positional misclosure %.9g mm (b = %.9g %s) vs tol-abs %g: %s by gama (%s)%s" % (
                             it.label(), m, b, "cc" if it.kind in ANGULAR else "mm", tol,
                             "excluded" if excluded else "kept", alg,
                             "; homogenised term %s cc -> %s mm; left arm only -> %s mm; sigma-apr %g, stdev %s%s" % (
                                 "%.9g" % y if y is not None else "?", "%.9g" % m_hom if m_hom is not None else "?",
                                 "%.9g" % m_left, net.params["sigma_apr"], it.stdev,
                                 ", correlated cluster" if it.ci in corr else "") if it.kind in ANGULAR else ""),
                         dict(wit, observation=it.label()))
    ck.count("observations judged by the rule", n_judged)
    ck.count("gross absolute terms excluded by gama", len(S.abs))
    abs_rule = hook_abs_items        # each decision was judged above; the rest follows what gama decided

    # ---- (H) vs (E): points
    exp_pts = set(info["exp_points"])
    weakened = None
    for (pid, comp) in sorted(hook_removed - exp_pts):
        if weakened is None:
            weakened = base_weakened(net, items, info, P, S.passive_keys(), hook_abs_items)
        if weakened:
            ck.count("point removed from a base network that the exclusions left under-determined (not judged)")
            continue
        code = next(c for p, c in S.rm_points if p == pid and comp in (RM_CODE[c][0] if RM_CODE[c][0] != "xyz" else "xyz"))
        ck.violation("unexpected-exclusion:point:%s" % RM_NAME[code],
                     "gama removed %s of point %s (%s) which is determined by construction [%s]" % (
                         comp, pid, RM_NAME[code], alg), wit)
    silently = []
    for (pid, comp) in sorted(exp_pts - hook_removed):
        adj = {k.lower() for k in R["adjusted"].get(pid, {})}
        if info["exp_points"][(pid, comp)] == "maybe" and (("x" in adj) if comp == "xy" else ("z" in adj)):
            ck.count("borderline point kept")
        elif ("x" in adj) if comp == "xy" else ("z" in adj):
            ck.violation("missing-exclusion:point:%s" % "+".join(sorted(set(info["defects"]))),
                         "%s of point %s is %s by construction but was adjusted [%s]%s" % (
                             comp, pid, info["exp_points"][(pid, comp)], alg,
                             "; " + "; ".join(info["notes"]) if info["notes"] else ""), wit)
        else:
            silently.append((pid, comp))     # neither adjusted nor reported: see 'invisible:point:unreported'
    # reason vs construction
    for pid, code in S.rm_points:
        comp, word = RM_CODE[code]
        for c in (("xy", "z") if comp == "xyz" else (comp,)):
            want = info["exp_points"].get((pid, c))
            if want is None:
                continue
            ck.cls(("point", "%dd" % info["dim"], want, RM_NAME[code], alg))
            ck.count("point/expected %s/removed as %s" % (want, RM_NAME[code]))
            if want not in ("any", "maybe") and (want == "missing") != (word == "missing"):
                ck.violation("reason:point:%s:%s" % (RM_NAME[code], want),
                             "point %s %s: coordinates %s in the input, removed as '%s'" % (
                                 pid, c, "not given and not computable" if want == "missing" else "given", RM_NAME[code]),
                             wit)

    # ---- (V) visibility of points: text list and XML
    listed = list(T["removed"])
    for pid, code in S.rm_points:
        comp, word = RM_CODE[code]
        hit = None
        for k, (lid, reason) in enumerate(listed):
            if lid == pid and word in reason.lower() and re.search(r"\b%s\s*$" % comp, reason):
                hit = k
                break
        if hit is None:
            ck.violation("invisible:point:%s" % RM_NAME[code],
                         "point %s removed (%s) but not listed with that reason in the text output; listed: %s" % (
                             pid, RM_NAME[code], T["removed"][:6]), wit)
        else:
            listed.pop(hit)
        adj = R["adjusted"].get(pid, {})
        keys = {k.lower() for k in adj}
        for c in (("xy", "z") if comp == "xyz" else (comp,)):
            if (c == "xy" and ("x" in keys or "y" in keys)) or (c == "z" and "z" in keys):
                ck.violation("phantom:adjusted-point:%s" % RM_NAME[code],
                             "point %s removed (%s) but <adjusted> has %s" % (pid, RM_NAME[code], sorted(keys)), wit)
    for lid, reason in listed:
        ck.violation("phantom:removed-point-listed", "text lists removed point %r (%s) which no hook reported" % (
            lid, reason), wit)
    # every adjustable component of the input is adjusted or reported
    unreported = False
    for pid, q in net.points.items():
        adj = {k.lower() for k in R["adjusted"].get(pid, {})}
        for comp, st, present in (("xy", q.xy, "x" in adj and "y" in adj), ("z", q.z, "z" in adj)):
            if st not in ("free", "constrained"):
                continue
            if present == ((pid, comp) in hook_removed):
                if present:
                    continue        # reported above as phantom
                dk = info["exp_points"].get((pid, comp))
                unreported = True
                ck.violation("invisible:point:unreported-%s" % comp,
                             "%s of point %s is to be adjusted (adj=), is not in <adjusted> and is not listed among "
                             "the removed points (no rm_point event either)%s [%s]" % (
                                 comp, pid, "; by construction it is " + dk if dk else "", alg),
                             dict(wit, point=pid))

    # ---- (H) vs (E): observations
    # (the rules for observations are applied to the points gama actually took out, reported or not)
    exp_passive = closure(net, items, hook_removed | set(silently), hook_missing | (exp_missing & set(silently)),
                          abs_rule)
    hook_passive = S.passive_keys()
    exp_keys = multiset(items[n].key() for n in exp_passive)
    d1, d2 = ms_diff(hook_passive, exp_keys), ms_diff(exp_keys, hook_passive)
    if d1 or d2:
        ck.violation("exclusion-set:observations",
                     "observations made passive by gama differ from the documented rules: only gama %s, only "
                     "expected %s [%s]" % (sorted(d1.items(), key=str)[:4], sorted(d2.items(), key=str)[:4], alg), wit)
    ck.count("observations excluded through the revision", max(0, sum(hook_passive.values()) - len(S.abs)))

    # ---- (V) visibility of observations
    n_in = len(items)
    n_passive = sum(hook_passive.values())
    # outlying table
    rows = {r.get("index"): r for r in T["outlying"] if "index" in r}
    for e in S.abs:
        it = items[e["_item"]] if "_item" in e else None
        r = rows.pop(e["index"], None)
        kind = it.kind if it else "?"
        okrow = r is not None and r.get("frm") == e["from"] and r.get("to") == e["to"] and "garbled" not in r \
            and (it is None or r.get("label") == TEXT_LABEL[it.kind]) \
            and abs(r.get("term", float("nan")) - e["rhs"]) <= 1e-4 * abs(e["rhs"]) + 1e-6
        if it is not None and it.kind == "angle" and r is not None and r.get("fs") != it.fs:
            okrow = False
        if not okrow:
            ck.violation("invisible:obs:abs-term:%s" % kind,
                         "%s excluded for a gross absolute term (index %d, term %.6g) is not listed correctly in "
                         "'Outlying absolute terms': row %s" % (it.label() if it else e, e["index"], e["rhs"], r), wit)
    for idx, r in rows.items():
        ck.violation("phantom:outlying-term-listed",
                     "'Outlying absolute terms' lists row %s which was not excluded" % r, wit)
    # the section is announced on the flag huge_abs_terms() (raw terms) while the rows and the removal come from
    # a second evaluation: known defect when that one runs on the homogenised terms
    why = ":homogenized-rhs" if (flagged_raw and not all(any_hom) and not S.abs) else ""
    if bool(S.abs) != T["note"]:
        ck.violation(("phantom:outlying-terms-note" + why) if T["note"] else "invisible:obs:abs-term-note",
                     "'Observations with outlying absolute terms removed' %s, %d observations removed" % (
                         "printed" if T["note"] else "not printed", len(S.abs)), wit)
    if T["has_outlying"] and not S.abs:
        ck.violation("phantom:outlying-terms-section" + why,
                     "'Outlying absolute terms' section printed, nothing listed and nothing removed", wit)
    # counts
    active_keys = ms_diff(multiset(it.key() for it in items), hook_passive)
    by_type_active = {}
    for (typ, f, t), c in active_keys.items():
        by_type_active[typ] = by_type_active.get(typ, 0) + c
    n_active = n_in - n_passive
    checks = [("xml:equations", R["equations"], n_active),
              ("text:project-equations", T["counts"].get("Number of project equations"), n_active),
              ("text:total-of-observations", T["counts"].get("Total of observations"), n_active),
              ("hook:adjust-rows", S.adjust[-1]["m"], n_active),
              ("xml:observation-list", len(R["observations"]), n_active)]
    xs = {}
    for kind, name in XML_SUMMARY.items():
        xs[name] = xs.get(name, 0) + by_type_active.get(CXX[kind], 0)
    for name, want in xs.items():
        checks.append(("xml:summary:" + name, R["observations_summary"].get(name), want))
    ts = {}
    for kind, name in TEXT_COUNT.items():
        ts[name] = ts.get(name, 0) + by_type_active.get(CXX[kind], 0)
    for name, want in ts.items():
        got = T["counts"].get(name)
        if got is None and (want == 0 or name == "Leveling differences"):
            continue
        checks.append(("text:" + name.lower().replace(" ", "-"), got, want))
    for name, got, want in checks:
        if got is None:
            continue
        if got != want:
            ck.violation("count-mismatch:%s" % name,
                         "%s = %s, but %d observations in the input - %d excluded (hooks) = %d [%s]" % (
                             name, got, n_in, n_passive, want, alg) if "summary" not in name and "text:number" not in name
                         else "%s = %s, expected %d active observations of that kind [%s]" % (name, got, want, alg), wit)
    # the XML list of adjusted observations holds exactly the active ones
    xml_keys = {}
    for o in R["observations"]:
        tag = o["tag"]
        k = (tag, o.get("from", o.get("id")), o.get("left") if tag == "angle" else o.get("to", ""))
        xml_keys[k] = xml_keys.get(k, 0) + 1
    want_keys = {}
    inv_tag = {CXX[k]: XML_TAG[k] for k in CXX}
    for (typ, f, t), c in active_keys.items():
        k = (inv_tag[typ], f, t)
        want_keys[k] = want_keys.get(k, 0) + c
    e1, e2 = ms_diff(xml_keys, want_keys), ms_diff(want_keys, xml_keys)
    if e1:
        ck.violation("phantom:xml-observation", "XML lists adjusted observations that were excluded: %s" % sorted(
            e1.items(), key=str)[:4], wit)
    if e2:
        ck.violation("invisible:obs:xml-list", "active observations missing from the XML list: %s" % sorted(
            e2.items(), key=str)[:4], wit)
    # coordinate summary = what <adjusted> holds
    cs = R["coordinates_summary"]["adjusted"]
    got = (cs["count-xyz"], cs["count-xy"], cs["count-z"])
    have = [0, 0, 0]
    for pid, vals in R["adjusted"].items():
        k = {x.lower() for x in vals}
        if "x" in k and "z" in k:
            have[0] += 1
        elif "x" in k:
            have[1] += 1
        elif "z" in k:
            have[2] += 1
    if tuple(have) != got and not unreported:
        ck.violation("count-mismatch:xml:coordinates-summary-adjusted",
                     "summary says (xyz, xy, z) = %s, <adjusted> holds %s" % (got, tuple(have)), wit)
    if T["counts"].get("adjusted") is not None and T["counts"]["adjusted"] != got:
        ck.violation("count-mismatch:text:coordinates-adjusted", "text %s vs XML %s" % (T["counts"]["adjusted"], got), wit)

    for d in set(info["defects"]) or {"none"}:
        ck.case((info["kind"], d, "tol=%g" % tol, alg))
        ck.count("defect/%dd/%s" % (info["dim"], d))
    return dict(points=tuple(sorted(S.rm_points)), removed=hook_removed, missing=hook_missing,
                passive=hook_passive, abs_items=hook_abs_items, exp_passive=exp_passive,
                silently=silently)


def base_weakened(net, items, info, P, passive_keys, abs_items):
    """did the observations gama excluded leave the generated base network rank deficient or a base point with
    an a priori standard deviation above 1 m?  (then the removal of a base point is no longer 'unexpected')"""
    base = info["base"]
    all_base = {it.n for it in items if all(p in base for p in it.points())}
    pit, _ = passive_items(items, passive_keys, abs_items, None)
    r0 = determinacy(net, items, all_base, P)
    r1 = determinacy(net, items, all_base - pit, P)
    if r1[0] < r0[0] or r1[1] < r0[1]:
        return True
    return any(v > 1e3 for v in r1[2].values())


def _ori_for(it, ori, dup_station):
    if it.kind != "direction":
        return None
    if it.frm in dup_station:
        return None              # two active direction sets at one station: which orientation is whose is unknown
    return ori.get(it.frm)


def passive_items(items, passive_keys, abs_items, exp_passive):
    """map the multiset of passive (type, from, to) onto items: the independent expectation decides between
    duplicates"""
    out = set()
    need = dict(passive_keys)
    for prefer in (abs_items, exp_passive, ()):
        for it in items:
            k = it.key()
            if it.n in out or need.get(k, 0) <= 0:
                continue
            if prefer == () or (prefer is not None and it.n in prefer):
                out.add(it.n)
                need[k] -= 1
    return out, {k: v for k, v in need.items() if v > 0}


# ---------------------------------------------------------------------------- driver

def run(tier, seed, only=None):
    runner.build("san", targets=["gama-local"])
    ck = Check("C14", tier, seed,
               "generated 1D/2D/3D networks (netgen; all approximate coordinates given) with injected defects "
               "{isolated points with/without coordinates, targets with one determining element, uncomputable "
               "targets, stations with one direction / two directions to one target / second target unusable, "
               "passive clusters, unobserved heights, floating pairs, weak intersections} and blunders planted at "
               "tol-abs*(1+-1e-6), (1+-1e-2), far below/above on every observation kind, tol-abs in {10,1000,1e5}; "
               "every input with the four algorithms; class = (network kind, defect kind, tol-abs, algorithm) + "
               "(rule, network kind, observation kind, tol-abs, side, algorithm) + (deletion, ...)")
    n = tier_n(tier, 300, 2500)
    all_idx = [i for i in range(n) if only is None or i == only]
    CH = 48      # networks per batch: results of a batch are evaluated and dropped (bounded memory and disk)
    for c0 in range(0, len(all_idx), CH):
        idx = all_idx[c0:c0 + CH]
        wd = os.path.join(ck.tmp, "b%d" % c0)
        cases = {}
        for i in idx:
            net, info = gen_case(seed, i)
            info["kind"] = net.kind
            cases[i] = (net, info, netgen.to_gkf(net), flatten(net))

        def work(job):
            i, alg, stage, txt = job
            for attempt in range(6):
                try:
                    g = xmlout.run_gama_local(txt, wd, "c%d-%s-%s" % (i, stage, alg),
                                              args=["--algorithm", alg, "--language", "en"], outputs=("xml", "text"),
                                              trace=True)
                    return job, g
                except OSError:
                    # the shared build tree is being relinked by another check (binary momentarily not executable)
                    if attempt == 5:
                        raise
                    time.sleep(5)

        res = {}
        for (i, alg, stage, txt), g in runner.pmap(work, [(i, a, "in", cases[i][2]) for i in idx for a in ALGS]):
            res[(i, alg)] = g

        second = []
        summary = {}
        for i in idx:
            net, info, txt, items = cases[i]
            per_alg = {}
            crashed = False
            for alg in ALGS:
                g = res[(i, alg)]
                wit = dict(seed=seed, index=i, alg=alg, kind=net.kind, tol_abs=info["tol"], defects=info["defects"],
                           blunders=[(b["label"], b["factor"]) for b in info["blunders"]],
                           expected_points=sorted("%s:%s:%s" % (k[0], k[1], v) for k, v in info["exp_points"].items()),
                           cmd="gama-local in.gkf --algorithm %s --language en --text out.txt --xml out.xml" % alg,
                           input=txt if len(ck.violations) < 12 else None)
                if ck.sanitizer(g.rr, dict(wit, input=txt), prefix="gama-local:"):
                    crashed = True
                    continue
                if g.rr.timeout:
                    ck.inconc("timeout")
                    crashed = True
                    continue
                per_alg[alg] = (evaluate(ck, net, info, items, alg, g, txt, wit), wit)
            # the four algorithms exclude the same items (the reason code may differ between 'singular' and
            # 'indeterminable' for a weak point: counted, not judged)
            sig, sigc = {}, {}
            ocs = {alg: netlevel.outcome(res[(i, alg)]) for alg in per_alg}
            for alg, (ex, wit) in per_alg.items():
                s = ocs[alg] if ex is None else (tuple(sorted(ex["removed"])), tuple(sorted(ex["passive"].items())))
                sig.setdefault(s, []).append(alg)
                if ex is not None:
                    sigc.setdefault(ex["points"], []).append(alg)
            ill = sorted(set(info["defects"]) & ILL_POSED)
            dk = "+".join(ill or sorted(set(info["defects"]))) or "blunders-only"
            if crashed:
                ck.count("networks with a sanitizer report / timeout (comparison between algorithms skipped)")
            elif len(sig) > 1:
                # name the disagreement after the injected defects the disputed points belong to
                sets = [set(s[0]) for s in sig if not isinstance(s, str)]
                if len(sets) > 1:
                    disputed = set.union(*sets) - set.intersection(*sets)
                    kinds = sorted({defect_of(info, pid) for pid, _ in disputed})
                    if kinds:
                        dk = "+".join(kinds)
                # some algorithms refuse / fail while others adjust: its own key (a different matter than adjusted
                # results that differ in what was excluded)
                fam = "algorithm-dependent-outcome" if any(isinstance(x, str) for x in sig) else \
                    "algorithm-dependent-exclusion"
                ck.violation("%s:%s" % (fam, dk),
                             "the algorithms exclude different items for the same input (%s): %s" % (
                                 "+".join(sorted(set(info["defects"]))) or "blunders only",
                                 {",".join(a): (s if isinstance(s, str) else "points %s, %d passive observations %s" % (
                                     list(s[0]), sum(c for _, c in s[1]),
                                     sorted(set(s[1]) ^ set(next(x for x in sig if not isinstance(x, str))[1]), key=str)[:3]))
                                  for s, a in sig.items()}),
                             dict(seed=seed, index=i, kind=net.kind, defects=info["defects"], outcomes=ocs, input=txt))
            elif len(sig) == 1 and isinstance(next(iter(sig)), str):
                ck.violation("not-adjusted:%s:%s" % (dk, next(iter(sig))),
                             "a network that stays determined after the exclusions was adjusted by no algorithm: %s" % (
                                 (res[(i, ALGS[0])].xml or {}).get("descriptions") or (res[(i, ALGS[0])].out or "")[-300:]),
                             dict(seed=seed, index=i, kind=net.kind, defects=info["defects"], outcomes=ocs, input=txt))
            elif len(sigc) > 1:
                ck.count("same items removed with different reason codes by different algorithms")
            # deletion
            for alg, (ex, wit) in per_alg.items():
                if ex is None:
                    continue
                if not crashed and len(sig) > 1:
                    # the algorithms dispute what has to be excluded (reported above): there is no agreed set of
                    # exclusions whose deletion could be compared
                    ck.count("deletion not evaluated: algorithms disagree on the exclusions")
                    continue
                pit, rest = passive_items(items, ex["passive"], ex["abs_items"], ex["exp_passive"])
                if rest:
                    ck.inconc("passive observation of the hook not found in the input")
                    continue
                removed = set(ex["removed"]) | set(ex["silently"])
                if not pit and not removed:
                    ck.count("runs without any exclusion")
                    continue
                v, why = delete_excluded(net, items, pit, removed, ex["missing"] | {
                    k for k in ex["silently"] if info["exp_points"].get(k) == "missing"})
                if v is None:
                    ck.count("deletion not expressible: " + why)
                    continue
                second.append((i, alg, "del", netgen.to_gkf(v)))
                summary[(i, alg)] = (v, ex, wit, len(pit), len(removed))

        for (i, alg, stage, txt2), g2 in runner.pmap(work, second):
            net, info, txt, items = cases[i]
            v, ex, wit, npass, nrem = summary[(i, alg)]
            g1 = res[(i, alg)]
            wit = dict(wit, reduced_input=txt2 if len(ck.violations) < 12 else None)
            if ck.sanitizer(g2.rr, wit, prefix="gama-local:reduced:"):
                continue
            if g2.rr.timeout:
                ck.inconc("timeout")
                continue
            oc2 = netlevel.outcome(g2)
            cls = ("deletion", "%dd" % info["dim"], "points" if nrem else "-", "observations" if npass else "-", alg)
            ck.case(cls)
            ck.count("deletion runs compared")
            if oc2 != "adjusted":
                ck.violation("deletion:outcome", "input with the excluded items deleted: %s %s" % (
                    oc2, (g2.xml or {}).get("descriptions") if g2.xml else (g2.out or "")[-200:]), wit)
                continue
            S2 = Seen(g2)
            further = S2.rm_points or S2.abs or (S2.rev and S2.rev[-1]["removed"])
            if further:
                ck.violation("further-exclusion-after-deletion",
                             "after deleting everything gama excluded, the reduced input has further exclusions: points %s, "
                             "abs terms %d, passive %s [%s]" % (S2.rm_points, len(S2.abs),
                                                               (S2.rev[-1]["removed"] if S2.rev else [])[:3], alg), wit)
            fr = netgen.Frame()
            A = netlevel.physical_result(g1.xml, fr)
            B = netlevel.physical_result(g2.xml, fr)
            # same linearisation point only if both runs iterated equally often (see netlevel / DESIGN 7.1)
            if g1.xml.get("iterations") == g2.xml.get("iterations"):
                bad = netlevel.compare_physical(A, B, tol_m=1e-7, rel=1e-6)
            else:
                ck.count("deletion: runs with different iteration counts (linearisation-criterion tolerances)")
                # what the stopping rule leaves open in the coordinates, from the recorded system of the run with
                # exclusions (weak intersections amplify it); residuals follow with the design-matrix coefficients
                evs1 = netlevel.adjust_events(g1)
                lin_mm = 0.0
                if evs1:
                    r1 = lsq.Reference(netlevel.event_problem(evs1[-1]))
                    coords1 = [k + 1 for k, u in enumerate(evs1[-1]["unknowns"]) if u["type"] in ("X", "Y", "Z")]
                    if r1.ok and r1.T is not None:
                        lin_mm = netlevel.linearisation_bound(r1, coords1) + netlevel.linearisation_bound_residual_term(
                            r1, coords1, evs1[-1]["x"], netlevel.min_sight(net))
                tol_m = max(1e-6, 2e-3 * lin_mm)      # two runs
                dmin_mm = max(netlevel.min_sight(net), 1.0) * 1000.0
                res_tol = max(1e-2, tol_m * 1e3 * max(1.0, 636620.0 / dmin_mm))
                ck.ratio("deletion: coordinate tolerance between linearisation points [m] / 1e-6", tol_m, 1e-6)
                bad = netlevel.compare_physical(A, B, tol_m=tol_m, rel=netlevel.rel_between_linearisation_points(net), res_tol=res_tol)
            seen_k = set()
            for key, msg, okey in bad:
                if key in seen_k:
                    continue
                seen_k.add(key)
                ck.violation("deletion:%s" % key, "%s [run with exclusions vs reduced input, %s, case %d; iterations %s vs %s]" % (
                    msg, alg, i, g1.xml.get("iterations"), g2.xml.get("iterations")), wit)
            ck.count("deletion: fields compared", len(A["points"]) * 3 + sum(len(x) for x in A["obs"].values()) + len(A["cov"]))
            if i < 3 and alg == ALGS[i % 4]:
                ck.sample(dict(index=i, kind=net.kind, tol_abs=info["tol"], defects=info["defects"],
                               blunders=[(b["label"], b["factor"]) for b in info["blunders"]],
                               removed_points=[(p, RM_NAME[c]) for p, c in ex["points"]],
                               passive_observations=sum(ex["passive"].values())))
        shutil.rmtree(wd, ignore_errors=True)
    # witnesses of repaired defects, kept as regression inputs: no sanitizer report, and the four algorithms end the
    # same way with the same (defect, degrees of freedom, sum of squares)
    if only is None:
        fdir = os.path.join(os.path.dirname(os.path.dirname(os.path.dirname(os.path.abspath(__file__)))), "findings")
        for name in ("C14-repro-singular-during-iterations.gkf", "C14-repro-singular-height-reason.gkf",
                     "C14-repro-test-linearization-overflow.gkf", "C14-repro-unobserved-height.gkf",
                     "C14-repro-angle-right-arm.gkf"):
            path = os.path.join(fdir, name)
            if not os.path.exists(path):
                continue
            runs = netlevel.run4(open(path).read(), ck.tmp, "regress-" + name.split(".")[0], outputs=("xml", "text"), trace=False)
            vals = {}
            for alg, g in runs.items():
                if ck.sanitizer(g.rr, dict(regress=name, alg=alg), prefix="gama-local:"):
                    continue
                oc = netlevel.outcome(g)
                vals[alg] = (oc, g.xml["defect"], g.xml["dof"], round(g.xml["sum_of_squares"], 2)) if oc == "adjusted" else (oc,)
            ck.case(("regress", name))
            if len(set(vals.values())) > 1:
                ck.violation("regress:%s:algorithms-differ" % name.split(".")[0][4:],
                             "the four algorithms treat the witness of a repaired defect differently: %s" % vals, dict(regress=name))
    ck.assumptions += [
        "positional misclosure as in the manual (lengths: |obs - computed|; directions/azimuths: |b| d0; angles: |b| "
        "max(d_left, d_right)); zenith angles: |b| * slope length, the band between mark-to-mark and "
        "instrument-to-target length is not judged; |m - tol| < 1e-9 tol not judged",
        "approximate orientation of a direction set is read from the `adjust` hook (first event); directions of "
        "stations with several sets or without a remaining orientation unknown are not judged",
        "expected removals follow from the construction of the injected defects; the generated base network keeps "
        "its rank when planted blunders are excluded (numpy guard)",
        "deletion: 1e-7 m on coordinates, 1e-6 relative elsewhere (netlevel.compare_physical) when both runs iterated equally often, otherwise the linearisation-criterion tolerances"]
    if only is None:
        ck.minimum = dict(evaluations=tier_n(tier, 600, 15000), distinct=tier_n(tier, 300, 800))
        ck.minimum["observations judged by the rule"] = tier_n(tier, 10000, 300000)
        ck.minimum["gross absolute terms excluded by gama"] = tier_n(tier, 80, 2500)
        ck.minimum["deletion runs compared"] = tier_n(tier, 150, 5000)
    return ck.finish()


def replay(path):
    w = json.load(open(path))
    return run(w["tier"], w["witness"]["seed"], only=w["witness"]["index"])
