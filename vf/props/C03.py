"""C03 — reported cofactors are the true (generalised) inverse.
Reference-model monitor at solver level (all q_xx(i,j), both triangles, incl. pairs outside the sparse
envelope; all q_bb(i,j)) and at network level (cov-mat in the XML for several --cov-band, see netlevel)."""
import json
import numpy as np

from .. import runner, lsq, solver
from ..runner import Check, tier_n

CMDS = ["X", "QXXALL", "QBBALL"]


def check_q(ck, P, ref, kind, alg, reps):
    bad = []
    meta = P["meta"]
    for rp, c in zip(reps, CMDS):
        if rp[0] != "OK":
            bad.append(("%s:%s:%s:%s" % (kind, alg, c, rp[0]), "%s answered %r" % (c, rp[1])))
            return bad
    n, m = ref.n, ref.m
    Q = solver.vec(reps[1]).reshape(n, n)
    Qbb = solver.vec(reps[2]).reshape(m, m)
    if not (np.all(np.isfinite(Q)) and np.all(np.isfinite(Qbb))):
        return [("%s:%s:nonfinite" % (kind, alg), "non-finite cofactor")]
    N = ref.N
    nN = np.linalg.norm(N, 2)
    qs = max(float(np.max(np.abs(ref.Q))), 1e-300)
    tolq = ref.tol(qs)
    sub = meta.get("subset")
    sing = "singular" if ref.defect else "regular"
    # symmetry (observed, not assumed)
    e = float(np.max(np.abs(Q - Q.T)))
    if ck.ratio("Qxx symmetric", e, tolq) > 1:
        bad.append(("%s:%s:qxx:asymmetric:%s" % (kind, alg, sing), "max |Q-Q'| = %.3g (|Q| %.3g)" % (e, qs)))
    # equals the reference g-inverse of the chosen regularisation
    e = float(np.max(np.abs(Q - ref.Q)))
    if ck.ratio("Qxx = T N+ T'", e, tolq * 10) > 1:
        bad.append(("%s:%s:qxx:value:%s:%s" % (kind, alg, sing, sub),
                    "max |Q - T N+ T'| = %.3g (|Q| %.3g, kappa %.3g)" % (e, qs, ref.kappa)))
    # N Q N = N, Q N Q = Q
    e = float(np.max(np.abs(N @ Q @ N - N)))
    if ck.ratio("NQN=N", e, ref.tol(nN) * 10) > 1:
        bad.append(("%s:%s:qxx:NQN:%s" % (kind, alg, sing), "max |NQN-N| = %.3g (|N| %.3g)" % (e, nN)))
    e = float(np.max(np.abs(Q @ N @ Q - Q)))
    if ck.ratio("QNQ=Q", e, tolq * 10) > 1:
        bad.append(("%s:%s:qxx:QNQ:%s" % (kind, alg, sing), "max |QNQ-Q| = %.3g" % e))
    if ref.defect == 0:
        e = float(np.max(np.abs(Q @ N - np.eye(n))))
        if ck.ratio("QN=I", e, ref.tol(1.0) * 10) > 1:
            bad.append(("%s:%s:qxx:QN=I" % (kind, alg), "max |QN-I| = %.3g" % e))
    # positive semi-definite
    ev = np.linalg.eigvalsh((Q + Q.T) / 2)
    if ck.ratio("Qxx PSD", max(0.0, -float(ev.min())), tolq * 10) > 1:
        bad.append(("%s:%s:qxx:not-psd:%s" % (kind, alg, sing), "min eigenvalue %.3g" % ev.min()))
    # adjusted observations
    homog = (kind == "base")
    Qb_ref = ref.Qbb_h if homog else ref.Qbb
    bs = max(float(np.max(np.abs(Qb_ref))), 1e-300)
    e = float(np.max(np.abs(Qbb - Qb_ref)))
    if ck.ratio("Qbb = A Q A'", e, ref.tol(bs) * 10) > 1:
        bad.append(("%s:%s:qbb:value:%s" % (kind, alg, sing), "max |Qbb - A Q A'| = %.3g (|Qbb| %.3g)" % (e, bs)))
    if homog:
        e = float(np.max(np.abs(Qbb @ Qbb - Qbb)))
        if ck.ratio("Qbb projector", e, ref.tol(1.0) * 10) > 1:
            bad.append(("%s:%s:qbb:not-idempotent:%s" % (kind, alg, sing), "max |Qbb Qbb - Qbb| = %.3g" % e))
        d = np.diag(Qbb)
        t = ref.tol(1.0) * 10
        if d.min() < -t or d.max() > 1 + t:
            bad.append(("%s:%s:qbb:diag-range:%s" % (kind, alg, sing), "diagonal in [%.6g, %.6g]" % (d.min(), d.max())))
        dof = m - n + ref.defect
        e = abs(float(np.sum(1 - d)) - dof)
        if ck.ratio("redundancy sum", e, ref.tol(max(m, 1)) * 10) > 1:
            bad.append(("%s:%s:qbb:redundancy-sum:%s" % (kind, alg, sing), "sum(1-q_ii) = %.9g, dof = %d" % (np.sum(1 - d), dof)))
    return bad


def cases(seed, n, tier):
    # a batch of small, deeply singular problems (defect 3-4, proper regularisation subsets): the pivoting and
    # Gram-Schmidt steps of the regularisation are only exercised by defects >= 2-3
    for i in range(n, n + (150 if tier != "thorough" else 2500)):
        rng = np.random.default_rng([seed, i, 304])
        nn = int(rng.integers(6, 11))
        yield i, lsq.gen_problem(rng, n_max=nn, m_max=nn + 6, force=dict(
            n=nn, defect=int(rng.integers(3, 5)), subset=str(rng.choice(["subset", "subset", "all"])),
            pattern=str(rng.choice(["dense", "network", "sparse"]))))
    for i in range(n):
        rng = np.random.default_rng([seed, i, 303])
        force = {}
        if i % 3 == 1:
            force["defect"] = int(rng.integers(1, 5))
        if i % 5 == 2:
            force["pattern"] = "banded"       # narrow envelope -> out-of-envelope pairs
            force["n"] = int(rng.integers(8, 26))
        yield i, lsq.gen_problem(rng, force=force)


def network_level(ck, tier, seed):
    """cov-mat of the XML output = m0^2 Q for any --cov-band; identical on the common entries across band settings;
    dim / band clipping and the flattened order checked through original-index."""
    import math
    from .. import netgen, xmlout, netlevel
    runner.build("san", targets=["gama-local"])
    n = tier_n(tier, 16, 400)
    fr = netgen.Frame()
    jobs = []
    for i in range(n):
        rng, net, feats = netlevel.gen_mixed(seed, i, 333)
        net.params["sigma_act"] = str(rng.choice(["aposteriori", "apriori"]))
        txt = netgen.to_gkf(net, fr)
        alg = netlevel.ALGS[i % 4]
        for band in ("-1", "0", "1", "2", "dim-1", "dim+5"):
            jobs.append((i, net, feats, alg, band, txt))

    def work(job):
        i, net, feats, alg, band, txt = job
        # dim is not known before the run: 'dim-1'/'dim+5' use a generous upper bound / are resolved after a first run
        nunk = 3 * len(net.points) + len(net.clusters)
        b = {"dim-1": str(max(nunk - 1, 0)), "dim+5": str(nunk + 5)}.get(band, band)
        args = ["--algorithm", alg] + ([] if band == "-1" and i % 2 else ["--cov-band", b])
        return job, xmlout.run_gama_local(txt, ck.tmp, "cb%d-%s" % (i, band.replace("+", "p")), args=args, trace=True)

    groups = {}
    for (i, net, feats, alg, band, txt), g in runner.pmap(work, jobs):
        wit = dict(seed=seed, index=i, alg=alg, band=band, kind=net.kind, features=feats, level="network",
                   input=txt if len(ck.violations) < 3 else None)
        if ck.sanitizer(g.rr, wit, prefix="gama-local:"):
            continue
        if g.rr.timeout or netlevel.outcome(g) != "adjusted":
            ck.inconc("not adjusted / timeout")
            continue
        R = g.xml
        ev = netlevel.adjust_events(g)[-1]
        ref = lsq.Reference(netlevel.event_problem(ev))
        if not (ref.ok and ref.subset_ok):
            ck.inconc("system not admitted")
            continue
        m0 = R["apriori"] if R["used"] == "apriori" else (math.sqrt(ev["pvv"] / R["dof"]) if R["dof"] > 0 else 0.0)
        dim = R["cov_dim"]
        if dim != ev["n"]:
            ck.violation("network:cov:dim", "cov-mat dim %d, unknowns %d" % (dim, ev["n"]), wit)
            continue
        want = {"-1": dim - 1, "0": 0, "1": min(1, dim - 1), "2": min(2, dim - 1), "dim-1": dim - 1, "dim+5": dim - 1}[band]
        if R["cov_band"] != want:
            ck.violation("network:cov:band-clipping:%s" % band, "--cov-band %s on dim %d: <band> %d, expected %d" % (
                band, dim, R["cov_band"], want), wit)
            continue
        try:
            ratio, msg, cnt, C, order = netlevel.xml_cov_against_reference(R, ev, ref, m0)
        except xmlout.ParseFailure as e:
            ck.violation("network:cov:element-count:%s" % band, str(e), wit)
            continue
        ck.ratio("network cov-mat", ratio, 1.0)
        if msg:
            ck.violation("network:cov:value:%s:band=%s" % (alg, band), msg + " [%s, case %d]" % (net.kind, i), wit)
        if R["original_index"] != order:
            ck.violation("network:cov:original-index", "original-index %s..., rows of the matrix belong to unknowns %s..." % (
                R["original_index"][:6], order[:6]), wit)
        ck.count("network cofactors compared", cnt)
        ck.case(("network", alg, "band=" + band, "singular" if ref.defect else "regular", net.kind))
        groups.setdefault(i, {})[band] = C
    for i, d in groups.items():
        if "-1" not in d:
            continue
        full = d["-1"]
        for band, C in d.items():
            if C.shape != full.shape:
                continue
            m = ~np.isnan(C)
            if np.any(np.abs(C[m] - full[m]) > 1e-6 * np.abs(full[m]) + 1e-12 * np.max(np.abs(full))):
                ck.violation("network:cov:band-dependent-values", "cov-mat entries differ between --cov-band %s and the "
                             "full matrix (case %d)" % (band, i), dict(seed=seed, index=i))


def run(tier, seed, only=None):
    runner.build("san", targets=["adjdrv"])
    ck = Check("C03", tier, seed,
               "random adjustment problems as in C01 x 4 algorithms x {Adj, bare solver}: the full matrices q_xx "
               "(both triangles, so pairs outside the envelope are always included) and q_bb are requested; class = "
               "(entry, algorithm, singular?, covariance kind, subset kind, pattern)")
    n = tier_n(tier, 120, 1500)
    items, info = [], []
    for i, P in cases(seed, n, tier):
        if only is not None and i != only:
            continue
        ref = lsq.Reference(P)
        if not ref.ok or not ref.subset_ok:
            ck.inconc("not admitted (rank ambiguous / scale)")
            continue
        for kind in ("adj", "base"):
            for alg in lsq.ALGS:
                items.append((P, ["NEW %s %s" % (kind, alg)] + CMDS))
                info.append((i, P, ref, kind, alg))
    res = solver.run_scripts(items, batch=10)
    for (i, P, ref, kind, alg), r in zip(info, res):
        meta = P["meta"]
        wit = dict(seed=seed, index=i, kind=kind, alg=alg, meta=meta)
        if r["crash"] is not None:
            rr = r["crash"]
            if not ck.sanitizer(rr, wit, prefix="%s:%s:" % (kind, alg)):
                if rr.timeout:
                    ck.inconc("timeout")
                else:
                    ck.violation("%s:%s:driver-died" % (kind, alg), "rc=%s at %s: %s" % (rr.rc, r["crash_cmd"], rr.err[-300:]), wit)
            continue
        for key, what in check_q(ck, P, ref, kind, alg, r["replies"][1:]):
            ck.violation(key, what + " [case %d: m=%d n=%d defect=%d cov=%s pattern=%s subset=%s]" % (
                i, ref.m, ref.n, ref.defect, meta["cov"], meta["pattern"], meta.get("subset")), wit)
        ck.case((kind, alg, "singular" if ref.defect else "regular", meta["cov"], meta.get("subset"), meta["pattern"]))
        ck.count("cofactors compared", ref.n * ref.n + ref.m * ref.m)
        if i < 2 and kind == "adj" and alg == "envelope":
            ck.sample(dict(index=i, meta=meta, minx=P["minx"]))
    if only is None:
        network_level(ck, tier, seed)
    ck.assumptions += ["numpy pinv/SVD reference: Q = T N+ T', T = I - G (Gs'Gs)^-1 Gs'",
                       "admission rule as in C01"]
    ck.minimum = dict(evaluations=tier_n(tier, 500, 10000), distinct=40)
    return ck.finish()


def replay(path):
    w = json.load(open(path))
    wit = w["witness"]
    return run(w["tier"], wit["seed"], only=wit["index"])
