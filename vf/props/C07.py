"""C07 — equivalent descriptions of the same survey give the same adjustment.
Relational monitor with a physical oracle: netgen holds a noisy survey in physical terms and expresses it in
different but equivalent ways (translation, circle zero, order, names, degrees, swapped distance ends, all
axes-xy x handedness).  Results are mapped back to the physical frame and must agree."""
import json
import math
import numpy as np

from .. import runner, netgen, xmlout, netlevel
from ..runner import Check, tier_n

NEAR = [0.0, 1e-9, 200.0 - 1e-9, 200.0, 200.0 + 1e-9, 400.0 - 1e-9, 100.0, 300.0]
IDS_ASCII = ["A", "B7", "station-12", "x_y", "001", "42", "Q.1", "pt 3"]
IDS_UTF8 = ["Žižkov", "Ölberg", "点A", "Δ1", "ñandú", "Šárka 2", "θ", "ÅÄÖ"]


def gen_base(seed, i):
    rng = np.random.default_rng([seed, i, 707])
    dim = int(rng.choice([2, 2, 3, 1]))
    feats = []
    if rng.uniform() < 0.6:
        feats.append("angles")
    if rng.uniform() < 0.4:
        feats.append("azimuths")
    if rng.uniform() < 0.4:
        feats.append("cov")
    if dim == 3 and rng.uniform() < 0.4:
        feats.append("vectors")
    if dim >= 2 and rng.uniform() < 0.3:
        feats.append("coords")
    if dim == 3 and rng.uniform() < 0.4:
        feats.append("hdiff")
    net = netgen.gen_net(rng, dim=dim, noise=True, features=tuple(feats))
    if dim == 3 and rng.uniform() < 0.35:
        # reduction of zenith angles / directions to the ellipsoid (mean latitude given): the corrections refer to the
        # centroid of the network, so every re-expression must still give the same adjustment
        net.params["latitude"] = "%.4f" % float(rng.uniform(20.0, 75.0))
        feats.append("latitude")
        if rng.uniform() < 0.7:
            # a few points without height (sighted by directions and distances only): the numbers of points with
            # xy and with z differ
            sts = [c for c in net.clusters if c.kind == "obs" and c.station is not None]
            for k in range(int(rng.integers(1, 3))):
                pid = "T%d" % (k + 1)
                E0 = [q.E for q in net.points.values()]; N0 = [q.N for q in net.points.values()]
                net.points[pid] = netgen.Pt(pid, float(rng.uniform(min(E0), max(E0))), float(rng.uniform(min(N0), max(N0))),
                                            0.0, "free", "none")
                for c in [sts[int(j)] for j in rng.permutation(len(sts))[:3]]:
                    for kind, sd in (("direction", 10.0), ("distance", 5.0)):
                        o = netgen.Obs(kind, c.station, pid, stdev=sd)
                        o.true = netgen.model_value(net, c, o)
                        o.val = o.true + float(rng.normal(0, sd)) * (1e-3 if kind == "distance" else 1e-4)
                        if c.cov is not None:
                            C = np.array(c.cov["C"]); n0 = C.shape[0]
                            C2 = np.zeros((n0 + 1, n0 + 1)); C2[:n0, :n0] = C; C2[n0, n0] = sd ** 2
                            c.cov = dict(band=c.cov["band"], C=C2)
                        c.obs.append(o)
            feats.append("2d-points-in-3d")
    if dim >= 2 and rng.uniform() < 0.4:
        # sightings to a reference mark that is not a point of the network: gama leaves them out (passive
        # observations in the middle of a cluster); every re-expression must still give the same adjustment
        for cl in net.clusters:
            if cl.kind == "obs" and rng.uniform() < 0.6:
                o = netgen.Obs("direction", cl.station, "REFMARK", stdev=float(rng.choice([3.0, 7.0, 15.0])))
                o.val = o.true = float(rng.uniform(0, 400))
                pos = int(rng.integers(0, len(cl.obs)))
                cl.obs.insert(pos, o)
                if cl.cov is not None:
                    C = np.array(cl.cov["C"]); n0 = C.shape[0]
                    C2 = np.zeros((n0 + 1, n0 + 1))
                    idx = [k for k in range(n0 + 1) if k != pos]
                    C2[np.ix_(idx, idx)] = C
                    C2[pos, pos] = o.stdev ** 2
                    nz = [abs(a - b) for a in range(n0 + 1) for b in range(n0 + 1) if C2[a, b] != 0]
                    cl.cov = dict(band=max(nz) if nz else 0, C=C2)
        feats.append("passive-sightings")
    return rng, net, feats


def transformations(rng, net, tier):
    """yield (name, net', frame, order)"""
    ids = list(net.points)
    # 1 translation
    mag = float(rng.choice([1e3, 1e5, 7e6]))
    # (with the reduction to the ellipsoid switched on heights are distances from the ellipsoid, i.e. content: only the
    # horizontal coordinates are translated then)
    dz = 0.0 if "latitude" in net.params else rng.uniform(-500, 3000)
    yield "translation", net, netgen.Frame(shift=(mag * rng.uniform(0.5, 1), -mag * rng.uniform(0.5, 1), dz)), None
    # 2 circle zero
    v = net.clone()
    for cl in v.clusters:
        if cl.kind == "obs":
            u = rng.uniform()
            if u < 0.35:
                d = float(rng.choice(NEAR))
            elif u < 0.7:
                # the circle zero itself points (almost) exactly north / east / south / west: the orientation shift is
                # then 0, 100, 200 or 300 gon and the noisy estimates from the single targets straddle that value
                d = (float(rng.choice([0.0, 100.0, 200.0, 300.0])) + float(rng.choice([0.0, 1e-7, -1e-7])) - cl.zero) % 400.0
            else:
                d = float(rng.uniform(0, 400))
            cl.zero = (cl.zero + d) % 400.0
            for o in cl.obs:
                if o.kind == "direction":
                    o.val = (o.val - d) % 400.0
    yield "circle-zero", v, netgen.Frame(), None
    # 3 permutations
    order = dict(points=[str(x) for x in rng.permutation(ids)],
                 clusters=[int(x) for x in rng.permutation(len(net.clusters))],
                 obs={ci: [int(x) for x in rng.permutation(len(cl.obs))] for ci, cl in enumerate(net.clusters)
                      if cl.kind in ("obs", "hdiff")})
    yield "permutation", net, netgen.Frame(), order
    # 4 renaming
    pool = IDS_UTF8 if rng.uniform() < 0.5 else IDS_ASCII
    names = [str(x) for x in rng.permutation(pool)][:len(ids)]
    while len(names) < len(ids):
        names.append("n%d" % len(names))
    yield ("rename-utf8" if pool is IDS_UTF8 else "rename-ascii"), net, netgen.Frame(idmap=dict(zip(ids, names))), None
    # 5 degrees
    yield "degrees", net, netgen.Frame(degrees=True), None
    # 6 swapped ends of distances
    v = net.clone()
    n_sw = 0
    for cl in v.clusters:
        if cl.kind == "obs":
            for o in cl.obs:
                if o.kind == "distance" and rng.uniform() < 0.7:
                    o.frm, o.to = o.to, o.frm
                    n_sw += 1
    if n_sw:
        yield "swap-distance-ends", v, netgen.Frame(), None
    # 7 axes x handedness
    combos = [(a, h) for a in netgen.AXES_ALL for h in ("left-handed", "right-handed")]
    pick = combos if tier == "thorough" else [combos[int(k)] for k in rng.choice(len(combos), 4, replace=False)]
    if tier != "thorough" and any(o.kind == "azimuth" for _, o in net.all_obs()):
        # azimuths tie the network to north: every axes-xy value at least once
        pick = list(dict.fromkeys(pick + [(a, str(rng.choice(["left-handed", "right-handed"]))) for a in netgen.AXES_ALL]))
    for a, h in pick:
        if (a, h) == ("ne", "left-handed"):
            continue
        yield "axes:%s:%s" % (a, h), net, netgen.Frame(axes=a, angles=h), None


def run(tier, seed, only=None):
    runner.build("san", targets=["gama-local"])
    ck = Check("C07", tier, seed,
               "noisy generated networks (1D/2D/3D, fixed/free/mixed datum, angles, azimuths, correlated clusters, "
               "vectors, observed coordinates) x re-expressions {translation, circle zero incl. values within 1e-9 of "
               "0/200/400 gon, permutation of points/clusters/observations, renaming incl. UTF-8 and inner blanks, "
               "degrees, swapped distance ends, 8 axes-xy x 2 handedness}; class = (transformation, network kind, "
               "inconsistent handedness?, features)")
    n = tier_n(tier, 100, 600)
    jobs = []
    for i in range(n):
        if only is not None and i != only:
            continue
        rng, net, feats = gen_base(seed, i)
        alg = netlevel.ALGS[i % 4]
        jobs.append((i, "base", net, netgen.Frame(), None, feats, alg))
        for name, v, fr, order in transformations(rng, net, tier):
            jobs.append((i, name, v, fr, order, feats, alg))

    def work(job):
        i, name, net, fr, order, feats, alg = job
        txt = netgen.to_gkf(net, fr, order)
        g = xmlout.run_gama_local(txt, ck.tmp, "c%d-%s" % (i, name.replace(":", "_")), args=["--algorithm", alg])
        return job, g, txt

    results = runner.pmap(work, jobs)
    base = {}
    for (i, name, net, fr, order, feats, alg), g, txt in results:
        if name == "base":
            base[i] = (g, txt, fr)
    for (i, name, net, fr, order, feats, alg), g, txt in results:
        wit = dict(seed=seed, index=i, transformation=name, alg=alg, kind=net.kind, features=feats)
        if ck.sanitizer(g.rr, wit, prefix="gama-local:"):
            continue
        if g.rr.timeout:
            ck.inconc("timeout")
            continue
        g0, txt0, fr0 = base[i]
        oc0, oc = netlevel.outcome(g0), netlevel.outcome(g)
        if name == "base":
            if oc != "adjusted":
                ck.inconc("base network not adjusted: " + oc)
            continue
        if oc0 != "adjusted":
            continue
        cls = (name.split(":")[0] if not name.startswith("axes") else "axes", net.kind,
               "handed:" + ("consistent" if _consistent(fr) else "inconsistent") if name.startswith("axes") else "-",
               "+".join(sorted(feats)) or "plain")
        ck.case(cls)
        if oc != "adjusted":
            ck.violation("outcome:%s" % name.split(":")[0], "base input adjusted, re-expressed input (%s): %s %s" % (
                name, oc, (g.xml or {}).get("descriptions") if g.xml else g.out[-200:]),
                dict(wit, base_input=txt0, input=txt))
            continue
        A = netlevel.physical_result(g0.xml, fr0)
        B = netlevel.physical_result(g.xml, fr)
        what = ["points", "obs", "stats", "ellipses", "cov"]
        # the two runs share the linearisation point only if they iterated equally often (a translation by 1e6 m or
        # another axes orientation moves the rounding of the approximate coordinates and can flip gama's borderline
        # decision to iterate once more): otherwise the results agree to the linearisation criterion only
        same_point = g0.xml.get("iterations") == g.xml.get("iterations")
        ck.count("runs with equal iteration counts" if same_point else "runs with different iteration counts")
        bad = netlevel.compare_physical(A, B, what=what) if same_point else \
            netlevel.compare_physical(A, B, what=what, tol_m=1e-6, rel=netlevel.rel_between_linearisation_points(net), res_tol=1e-2)
        corr = netlevel.correlated_obs_keys(net)
        seen_k = set()
        for key, msg, okey in bad:
            if okey is not None and okey in corr and key.split(":")[1] in ("stdev", "qrr", "f"):
                # known weakness: standard deviation / qrr / f of a *correlated* observation are taken from the
                # homogenised system and depend on the order inside the cluster
                key = "correlated-cluster:obs:" + key.split(":")[1]
                tname = name.split(":")[0]
            else:
                tname = name
            if (tname, key) in seen_k or len(seen_k) >= 4:
                continue
            seen_k.add((tname, key))
            ck.violation("%s:%s" % (tname, key),
                         "%s [%s, %s, case %d]" % (msg, name, net.kind, i),
                         dict(wit, base_input=txt0 if len(ck.violations) < 4 else None,
                              input=txt if len(ck.violations) < 4 else None))
        ck.count("fields compared", len(A["points"]) * 3 + sum(len(v) for v in A["obs"].values()) + len(A["cov"]))
        if i < 1 and name.startswith("axes"):
            ck.sample(dict(index=i, transformation=name, kind=net.kind, features=feats,
                           head=txt.split("\n")[2]))
    ck.assumptions += ["the physical observation model and the axes/handedness mapping follow the manual",
                       "tolerances: 1e-7 m on coordinates, 1e-6 relative (+ printed precision) elsewhere when both runs iterated equally often; 1e-6 m, 2e-4 relative, 1e-2 mm|cc on residuals otherwise (gama's linearisation criterion)"]
    ck.minimum = dict(evaluations=tier_n(tier, 150, 3000), distinct=25)
    return ck.finish()


def _consistent(fr):
    left = fr.axes in netgen.AXES_LEFT
    return left == (fr.angles == "left-handed")


def replay(path):
    w = json.load(open(path))
    return run(w["tier"], w["witness"]["seed"], only=w["witness"]["index"])
