"""C05 — linearised observation equations equal the true Jacobian and misclosure.

Reference-model monitor by differentiation.  The real (sanitized) gama-local is run on generated networks;
the FIRST `adjust` trace event of a run exposes the linear system gama built: sparse design-matrix rows, right
hand sides, the unknown table (index -> X/Y/Z/R, point, approximate value = linearisation point) and the
observation table (row order).  The oracle reads the *input text* with its own small reader (manual's
semantics), evaluates its own implementation of the 13 observation functions in numpy longdouble in the
*physical* frame (E east, N north, H up, clockwise bearings from north; the file's axes-xy / angles attributes
and the event's y_sign only map gama's unknowns to physical displacements), differentiates them numerically
(4th-order central differences, two step sizes, Richardson consistency) and compares every coefficient, the
structure of every row (coefficients exactly for the adjustable coordinates of the points involved, -1 for the
station's orientation), the numbering of the unknowns and every right-hand side (observed - computed, mm / cc,
angular ones reduced to half a circle; the sign at exactly +-200 gon is not observable and either endpoint is
accepted).  Slope distances / zenith angles with instrument and target heights: the rhs is checked against the
reduced value and the reduction itself against the geometric reduction at the approximate coordinates.

A second monitor (harness/netdrv.cpp) asks LocalLinearization directly, one observation per tiny network,
thousands per process, for adversarial single-observation geometry; it shares the oracle.
"""
import json
import math
import os
import re
import xml.etree.ElementTree as ET

import numpy as np

from .. import runner, netgen, xmlout
from ..runner import Check, tier_n

LD = np.longdouble
PI = LD(4) * np.arctan(LD(1))
TWO_PI = 2 * PI
RAD2CC = LD(2000000) / PI          # radians -> cc (1e-4 gon)
GON2RAD = PI / LD(200)
EPS = float(np.finfo(np.float64).eps)
LDEPS = np.finfo(LD).eps

KINDS = ("direction", "distance", "angle", "azimuth", "s-distance", "z-angle", "dh",
         "x", "y", "z", "dx", "dy", "dz")
KID = {k: i for i, k in enumerate(KINDS)}
ANGULAR = ("direction", "angle", "azimuth", "z-angle")
HORIZ_ANG = ("direction", "angle", "azimuth")
TYPE2KIND = {"Direction": "direction", "Distance": "distance", "Angle": "angle", "Azimuth": "azimuth",
             "S_Distance": "s-distance", "Z_Angle": "z-angle", "H_Diff": "dh", "X": "x", "Y": "y", "Z": "z",
             "Xdiff": "dx", "Ydiff": "dy", "Zdiff": "dz"}
# which coordinate groups of the points involved an observation function depends on
USES_XY = ("direction", "distance", "angle", "azimuth", "s-distance", "z-angle", "x", "y", "dx", "dy")
USES_Z = ("s-distance", "z-angle", "dh", "z", "dz")
SLOTS = ("from-x", "from-y", "from-z", "to-x", "to-y", "to-z", "fs-x", "fs-y", "fs-z", "orientation")

TOL_COEFF_REL = 1e-6       # of the row's largest coefficient
TOL_RHS = 1e-6             # mm / cc
TOL_APPROX = 1e-9          # m: linearisation point vs the coordinates written
TOL_RED_LIN = 1.5e-3       # mm: reduction to the marks (1 um: far below any instrument height's precision)
TOL_RED_ANG = 0.15         # cc
SING_SINZ = 1e-3           # zenith angle function is singular where sin z -> 0
RICHARDSON = 1e-7          # the two finite-difference estimates must agree to this (rel. to the row's largest)

_BREAK = {}                # sensitivity self-test switches (CONVENTIONS rule 7); empty in normal operation


# ---------------------------------------------------------------------------- independent reader of the input

def _strip(tag):
    return tag.split("}")[-1]


def _ang_text(s):
    """angular value text -> gon (longdouble); sexagesimal d-m-s means degrees (manual: Angular units)"""
    s = s.strip()
    if re.match(r"^[+-]?\d+-\d+-[\d.]", s):
        neg = s.startswith("-")
        parts = s.lstrip("+-").split("-")
        d = LD(float(parts[0]))
        m = LD(float(parts[1])) if len(parts) > 1 and parts[1] else LD(0)
        sec = LD(float(parts[2])) if len(parts) > 2 and parts[2] else LD(0)
        deg = d + m / 60 + sec / 3600
        if neg:
            deg = -deg
        return deg / LD(9) * LD(10)
    return LD(float(s))


def _status(p, fix, adj):
    if fix is not None:
        f = fix.lower()
        if "xy" in f:
            p["sxy"] = "F"
        if "z" in f:
            p["sz"] = "F"
    if adj is not None:
        if "xy" in adj:
            p["sxy"] = "f"
        elif "XY" in adj:
            p["sxy"] = "c"
        if "z" in adj:
            p["sz"] = "f"
        elif "Z" in adj:
            p["sz"] = "c"


def parse_gkf(text):
    """Reads a gama-local input the way the manual describes it.  -> dict(axes, angles, points, obs)
    points: id -> dict(x, y, z (float|None), sxy, sz in 'F' fixed | 'f' free | 'c' constrained | None)
    obs: list in file order of dict(kind, frm, to, fs, val (longdouble; gon or m), fdh, tdh, cl)"""
    root = ET.fromstring(text)
    net = [e for e in root.iter() if _strip(e.tag) == "network"][0]
    P = dict(axes=net.get("axes-xy", "ne"), angles=net.get("angles", "left-handed"), points={}, obs=[])
    pts = P["points"]

    def point(e):
        pid = e.get("id")
        p = pts.setdefault(pid, dict(x=None, y=None, z=None, sxy=None, sz=None))
        if e.get("x") is not None and e.get("y") is not None:
            p["x"], p["y"] = float(e.get("x")), float(e.get("y"))
        if e.get("z") is not None:
            p["z"] = float(e.get("z"))
        _status(p, e.get("fix"), e.get("adj"))
        return pid

    ncl = 0
    for po in net:
        if _strip(po.tag) != "points-observations":
            continue
        for e in po:
            t = _strip(e.tag)
            if t == "point":
                point(e)
            elif t == "obs":
                ncl += 1
                station = e.get("from")
                dfdh = e.get("from_dh")
                for o in e:
                    k = _strip(o.tag)
                    if k == "cov-mat":
                        continue
                    frm = o.get("from", station)
                    fdh = o.get("from_dh", dfdh)
                    d = dict(kind=k, frm=frm, to=o.get("to"), fs=None, cl=ncl,
                             fdh=float(fdh) if fdh is not None else 0.0,
                             tdh=float(o.get("to_dh")) if o.get("to_dh") is not None else 0.0)
                    if k == "angle":
                        d["to"], d["fs"] = o.get("bs"), o.get("fs")
                    d["val"] = _ang_text(o.get("val")) if k in ANGULAR else LD(float(o.get("val")))
                    P["obs"].append(d)
            elif t == "height-differences":
                ncl += 1
                for o in e:
                    if _strip(o.tag) == "dh":
                        P["obs"].append(dict(kind="dh", frm=o.get("from"), to=o.get("to"), fs=None, cl=ncl,
                                             fdh=0.0, tdh=0.0, val=LD(float(o.get("val")))))
            elif t == "vectors":
                ncl += 1
                for o in e:
                    if _strip(o.tag) == "vec":
                        for k in ("dx", "dy", "dz"):
                            P["obs"].append(dict(kind=k, frm=o.get("from"), to=o.get("to"), fs=None, cl=ncl,
                                                 fdh=float(o.get("from_dh", 0.0)), tdh=float(o.get("to_dh", 0.0)),
                                                 val=LD(float(o.get(k)))))
            elif t == "coordinates":
                ncl += 1
                for o in e:
                    if _strip(o.tag) == "point":
                        # a <point> inside <coordinates> is a point definition as well (manual: "The type of
                        # the points may be defined either directly within the <coordinates> tag or outside")
                        pid = point(o)
                        if o.get("x") is not None and o.get("y") is not None:
                            P["obs"].append(dict(kind="x", frm=pid, to=None, fs=None, cl=ncl, fdh=0.0, tdh=0.0,
                                                 val=LD(float(o.get("x")))))
                            P["obs"].append(dict(kind="y", frm=pid, to=None, fs=None, cl=ncl, fdh=0.0, tdh=0.0,
                                                 val=LD(float(o.get("y")))))
                        if o.get("z") is not None:
                            P["obs"].append(dict(kind="z", frm=pid, to=None, fs=None, cl=ncl, fdh=0.0, tdh=0.0,
                                                 val=LD(float(o.get("z")))))
    return P


# ---------------------------------------------------------------------------- frame (manual: axes-xy, angles)

def frame_of(axes, angles, y_sign):
    """-> (M, sense, az_x): M maps displacements of gama's unknowns (X, Y) to physical (dE, dN):
    file x = X, file y = y_sign * Y (gama changes the sign of all y internally for inconsistent systems and
    says so in the event); axes-xy names the physical direction of the file's +x and +y axes.
    sense = +1 for clockwise (left-handed) observed angles, -1 for counterclockwise;
    az_x = azimuth of the +x axis (rad), needed only to relate the orientation unknown (manual:
    direction + orientation shift = bearing, bearings counted from the x axis in the sense of the angles)."""
    def vec(c):
        return {"n": (0.0, 1.0), "s": (0.0, -1.0), "e": (1.0, 0.0), "w": (-1.0, 0.0)}[c]
    ex, ey = vec(axes[0]), vec(axes[1])
    M = ((ex[0], ey[0] * y_sign), (ex[1], ey[1] * y_sign))      # [dE; dN] = M [dX; dY]
    sense = 1.0 if angles == "left-handed" else -1.0
    az_x = {"n": 0, "e": 100, "s": 200, "w": 300}[axes[0]]
    return M, sense, az_x


# ---------------------------------------------------------------------------- observation functions (vectorised)

def _wrap(a):
    """to (-pi, pi]"""
    a = a - TWO_PI * np.ceil((a - PI) / TWO_PI)
    return a


def obs_function(kind, Q, aux):
    """Value of the observation function in the *file's* convention (radians for angular kinds, metres
    otherwise) for rows of one kind.  Q: (n, 9) longdouble coordinates of (from, to|bs, fs) as gama's
    unknowns (X, Y, Z), relative to the from point; aux: per-row arrays m00, m01, m10, m11, sense, azx,
    ori, ysign, base (n,3 absolute coordinates of the from point)."""
    dX1, dY1, dZ1 = Q[:, 3] - Q[:, 0], Q[:, 4] - Q[:, 1], Q[:, 5] - Q[:, 2]
    dE1 = aux["m00"] * dX1 + aux["m01"] * dY1
    dN1 = aux["m10"] * dX1 + aux["m11"] * dY1
    if kind == "direction":
        # clockwise bearing from north, expressed in the file's angular sense from the file's x axis,
        # minus the orientation shift
        return aux["sense"] * (np.arctan2(dE1, dN1) - aux["azx"]) - aux["ori"]
    if kind == "azimuth":
        return aux["sense"] * np.arctan2(dE1, dN1)
    if kind == "angle":
        dX2, dY2 = Q[:, 6] - Q[:, 0], Q[:, 7] - Q[:, 1]
        dE2 = aux["m00"] * dX2 + aux["m01"] * dY2
        dN2 = aux["m10"] * dX2 + aux["m11"] * dY2
        return aux["sense"] * (np.arctan2(dE2, dN2) - np.arctan2(dE1, dN1))
    if kind == "distance":
        return np.sqrt(dE1 * dE1 + dN1 * dN1)
    if kind == "s-distance":
        return np.sqrt(dE1 * dE1 + dN1 * dN1 + dZ1 * dZ1)
    if kind == "z-angle":
        return np.arctan2(np.sqrt(dE1 * dE1 + dN1 * dN1), dZ1)
    if kind in ("dh", "dz"):
        return dZ1
    if kind == "dx":
        return dX1                               # file x = X
    if kind == "dy":
        return aux["ysign"] * dY1                # file y = y_sign * Y
    if kind == "x":
        return aux["base"][:, 0] + Q[:, 0]
    if kind == "y":
        return aux["ysign"] * (aux["base"][:, 1] + Q[:, 1])
    if kind == "z":
        return aux["base"][:, 2] + Q[:, 2]
    raise ValueError(kind)


def _scale_length(kind, Q, aux):
    """length scale of the geometry (finite-difference steps are a fixed fraction of it)"""
    d1 = np.sqrt((Q[:, 3] - Q[:, 0]) ** 2 + (Q[:, 4] - Q[:, 1]) ** 2)
    if kind in ("direction", "azimuth", "distance", "z-angle"):
        return d1
    if kind == "angle":
        d2 = np.sqrt((Q[:, 6] - Q[:, 0]) ** 2 + (Q[:, 7] - Q[:, 1]) ** 2)
        return np.minimum(d1, d2)
    if kind == "s-distance":
        return np.sqrt(d1 * d1 + (Q[:, 5] - Q[:, 2]) ** 2)
    return np.ones(len(Q), dtype=LD)


def oracle_kind(kind, R):
    """R: dict of per-row arrays for rows of one kind.  -> dict(coef (n,10) expected coefficients in gama's
    units, fderr (n,10), rhs (n,) expected right-hand side before range reduction (cc / mm), F0, sing)"""
    n = len(R["Q"])
    Q0 = R["Q"].astype(LD)
    base = Q0[:, 0:3].copy()
    Q = Q0 - np.tile(base, (1, 3))
    aux = dict(m00=R["M"][:, 0].astype(LD), m01=R["M"][:, 1].astype(LD), m10=R["M"][:, 2].astype(LD),
               m11=R["M"][:, 3].astype(LD), sense=R["sense"].astype(LD), azx=R["azx"].astype(LD) * GON2RAD,
               ori=R["ori"].astype(LD), ysign=R["ysign"].astype(LD), base=base)
    ang = kind in ANGULAR
    srow = R["srow"].astype(LD)
    F0 = obs_function(kind, Q, aux)
    L = _scale_length(kind, Q, aux)
    unit = (RAD2CC / 1000) if ang else LD(1)      # d(cc)/d(mm) from d(rad)/d(m);  d(mm)/d(mm)
    coef = np.zeros((n, 10), dtype=LD)
    fderr = np.zeros((n, 10), dtype=LD)
    h1 = L / 1024
    if _BREAK.get("fd-step"):
        h1 = L / 2

    def dF(j, h):
        Qp = Q.copy()
        Qp[:, j] = Qp[:, j] + h
        d = obs_function(kind, Qp, aux) - F0
        return _wrap(d) if (ang and kind != "z-angle") else d

    for j in range(9):
        if kind not in ("angle",) and j >= 6:
            continue
        if kind in ("x", "y", "z") and j >= 3:
            continue
        f = {k: dF(j, k * h1) for k in (-4, -2, -1, 1, 2, 4)}
        D1 = (-f[2] + 8 * f[1] - 8 * f[-1] + f[-2]) / (12 * h1)
        D2 = (-f[4] + 8 * f[2] - 8 * f[-2] + f[-4]) / (24 * h1)
        coef[:, j] = D1 * unit * srow
        # truncation (Richardson difference) + rounding of the longdouble function values in the quotient
        fderr[:, j] = (np.abs(D1 - D2) + 16 * LDEPS * np.maximum(np.abs(F0), 1) / h1) * unit
    if kind == "direction":
        coef[:, 9] = -1          # manual: direction + orientation shift = bearing
    if ang:
        rhs = (R["val"] * GON2RAD + R["red"].astype(LD) - F0) * RAD2CC
        comp = np.full(n, float(TWO_PI)) * float(RAD2CC)
    else:
        rhs = (R["val"] + R["red"].astype(LD) - F0) * 1000
        comp = np.abs(F0) * 1000
    rhs = rhs * srow
    dh = np.sqrt((Q[:, 3] - Q[:, 0]) ** 2 + (Q[:, 4] - Q[:, 1]) ** 2)
    ds = np.sqrt(dh * dh + (Q[:, 5] - Q[:, 2]) ** 2)
    sing = np.zeros(n, dtype=bool)
    if kind == "z-angle":
        sing = np.asarray(dh < SING_SINZ * ds)
    # geometric reduction of slope observations to the marks (approximate coordinates):
    red = np.zeros(n, dtype=LD)
    if kind in ("s-distance", "z-angle"):
        dzi = (Q[:, 5] - Q[:, 2]) + R["tdh"].astype(LD) - R["fdh"].astype(LD)
        if kind == "s-distance":
            red = ds - np.sqrt(dh * dh + dzi * dzi)
        else:
            red = np.arctan2(dh, Q[:, 5] - Q[:, 2]) - np.arctan2(dh, dzi)
    return dict(coef=coef, fderr=fderr, rhs=rhs, comp=comp, sing=sing, red=red, L=L, F0=F0)


# ---------------------------------------------------------------------------- event -> rows

def _kind_of_type(t):
    m = re.search(r"5local\d+([A-Za-z_]+?)E$", t)
    name = m.group(1) if m else t
    return TYPE2KIND.get(name)


def _quad(dx, dy):
    if dx == 0 and dy == 0:
        return "0"
    if dy == 0:
        return "+x" if dx > 0 else "-x"
    if dx == 0:
        return "+y" if dy > 0 else "-y"
    return "Q%d" % (1 if dx > 0 and dy > 0 else 2 if dx < 0 and dy > 0 else 3 if dx < 0 else 4)


class Rows:
    """accumulates the rows of all networks for the vectorised oracle"""

    def __init__(self):
        self.meta = []      # per row: dict(net, row, kind, frm, to, fs, cls, status, geo, written ...)
        self.arr = {k: [] for k in ("kid", "Q", "M", "sense", "azx", "ori", "ysign", "srow", "val", "red",
                                    "fdh", "tdh", "g", "mask", "grhs", "extra")}

    def add(self, meta, **kw):
        self.meta.append(meta)
        for k, v in kw.items():
            self.arr[k].append(v)


def collect(ck, rows, P, ev, netinfo, source, first=True):
    """Interprets one `adjust` event against the parsed input P: network-level checks (numbering of the
    unknowns), and one record per design-matrix row for the vectorised oracle.  Returns number of rows taken."""
    wit0 = dict(netinfo)
    y_sign = float(ev["y_sign"])
    M, sense, az_x = frame_of(P["axes"], P["angles"], y_sign)
    consistent = (P["axes"] in netgen.AXES_LEFT) == (P["angles"] == "left-handed")
    if (y_sign > 0) != consistent:
        ck.violation("index:y-sign", "event says y_sign=%g for axes-xy=%s angles=%s" % (y_sign, P["axes"], P["angles"]),
                     wit0)
    U = ev["unknowns"]
    n = ev["n"]
    pts = P["points"]
    if len(U) != n:
        ck.violation("index:unknown-table-size", "%d columns, %d unknowns listed" % (n, len(U)), wit0)
        return 0
    # --- the unknown table
    idx_of, seen = {}, {}
    lin = {}        # point id -> [X, Y, Z] linearisation point in gama's frame
    for pid, p in pts.items():
        lin[pid] = [p["x"] if p["x"] is not None else float("nan"),
                    y_sign * p["y"] if p["y"] is not None else float("nan"),
                    p["z"] if p["z"] is not None else float("nan")]
    approx_bad = None
    exact = 0
    for i, u in enumerate(U, 1):
        t, pid = u["type"], u["id"]
        if t not in ("X", "Y", "Z", "R") or pid not in pts:
            ck.violation("index:unassigned-unknown", "unknown %d of %d is not assigned to a parameter (type %r, "
                         "point %r)" % (i, n, t, pid), wit0)
            return 0
        if t == "R":
            continue
        if (pid, t) in idx_of:
            ck.violation("index:duplicate-unknown", "point %s coordinate %s has two indices (%d, %d)" % (
                pid, t, idx_of[(pid, t)], i), wit0)
            return 0
        idx_of[(pid, t)] = i
        st = pts[pid]["sxy"] if t in "XY" else pts[pid]["sz"]
        if st not in ("f", "c"):
            ck.violation("index:unknown-for-non-adjustable", "unknown %d is coordinate %s of point %s whose status "
                         "in the input is %r" % (i, t, pid, st), wit0)
            return 0
        if bool(u["constrained"]) != (st == "c"):
            ck.violation("index:constrained-flag", "unknown %d (%s of %s): constrained=%s, input status %r" % (
                i, t, pid, u["constrained"], st), wit0)
        k = "XYZ".index(t)
        a = float(u["approx"])
        if first:
            if not abs(a - lin[pid][k]) <= TOL_APPROX:
                approx_bad = (pid, t, a, lin[pid][k])
            elif a == lin[pid][k]:
                exact += 1
        lin[pid][k] = a
    if approx_bad:
        ck.inconc("linearisation point differs from the coordinates written")
        ck.count("approx-mismatch", 1)
        if len(ck.counters.get("approx-mismatch samples", [])) < 3:
            ck.counters.setdefault("approx-mismatch samples", []).append(dict(netinfo, unknown=approx_bad[:2],
                                                                               event=approx_bad[2], written=approx_bad[3]))
        return 0
    ck.count("approximate coordinates equal to the input, bit for bit", exact)
    # X and Y of a point come together
    for (pid, t) in list(idx_of):
        if t in "XY" and ((pid, "X") in idx_of) != ((pid, "Y") in idx_of):
            ck.violation("index:x-without-y", "point %s has only one of X, Y among the unknowns" % pid, wit0)
    # --- match rows to the observations of the input (file order, active ones form a subsequence)
    O = P["obs"]
    E = ev["obs"]
    if len(E) != ev["m"] or len(ev["rows"]) != ev["m"] or len(ev["rhs"]) != ev["m"]:
        ck.violation("index:row-count", "m=%d, %d rows, %d rhs, %d observations" % (
            ev["m"], len(ev["rows"]), len(ev["rhs"]), len(E)), wit0)
        return 0
    def same(o, e, k):
        return o["kind"] == k and o["frm"] == e["from"] and (o["to"] or "") == e["to"]

    def value_agrees(o, e):
        """the value gama holds is the one written here (used only to tell apart observations of the same
        kind between the same points when gama left one of them out)"""
        raw, val = float(e["raw"]), float(o["val"])
        if o["kind"] in ANGULAR:
            d = (raw - val * math.pi / 200.0) % (2 * math.pi)
            return min(d, 2 * math.pi - d) < 1e-9
        return abs(abs(raw) - abs(val)) <= 1e-9 * max(1.0, abs(val))

    match = []
    j = 0
    for e in E:
        k = _kind_of_type(e["type"])
        while j < len(O) and not same(O[j], e, k):
            j += 1
        if j == len(O):
            ck.inconc("rows could not be matched to the input's observations")
            return 0
        if not value_agrees(O[j], e):
            for j2 in range(j + 1, len(O)):
                if same(O[j2], e, k) and value_agrees(O[j2], e):
                    j = j2
                    break
        match.append(O[j])
        j += 1
    ck.count("observations of the input not in the adjustment", len(O) - len(E))
    if len(O) != len(E):
        # (gama leaves out e.g. a direction set with a single direction; exclusions are C14's subject)
        taken_ids = set(id(o) for o in match)
        for o in O:
            if id(o) not in taken_ids:
                ck.count("not in the adjustment: " + o["kind"], 1)
    # --- orientations: one R unknown per direction set, station = the set's station
    r_of_cluster, cluster_of_r = {}, {}
    used = set()
    taken = 0
    dim = 3 if any(p["z"] is not None and p["x"] is not None for p in pts.values()) else \
        (2 if any(p["x"] is not None for p in pts.values()) else 1)
    for ri, (o, e, row, grhs) in enumerate(zip(match, E, ev["rows"], ev["rhs"])):
        kind = o["kind"]
        ids = [o["frm"], o["to"], o["fs"]]
        g = [0.0] * 10
        extra = 0.0
        bad_entry = None
        rix = None
        for (ix, c) in row:
            used.add(ix)
            if not (1 <= ix <= n):
                ck.violation("index:out-of-range", "row %d refers to unknown %d of %d" % (ri + 1, ix, n), wit0)
                return taken
            u = U[ix - 1]
            if u["type"] == "R":
                if kind == "direction" and u["id"] == o["frm"]:
                    g[9] += c
                    rix = ix
                else:
                    extra = max(extra, abs(c))
                    bad_entry = (ix, u, c)
                continue
            slot = None
            for s, pid in enumerate(ids):
                if pid is not None and pid == u["id"]:
                    slot = 3 * s + "XYZ".index(u["type"])
                    break
            if slot is None:
                extra = max(extra, abs(c))
                bad_entry = (ix, u, c)
            else:
                g[slot] += c
        if kind == "direction":
            if rix is None:
                ck.violation("coeff:direction:orientation", "direction row %d has no orientation unknown" % (ri + 1),
                             dict(wit0, row=row, obs=e))
            else:
                prev = r_of_cluster.setdefault(o["cl"], rix)
                if prev != rix:
                    ck.violation("index:orientation-not-shared", "directions of one set use orientation unknowns "
                                 "%d and %d" % (prev, rix), wit0)
                pc = cluster_of_r.setdefault(rix, o["cl"])
                if pc != o["cl"]:
                    ck.violation("index:orientation-shared-between-sets", "orientation unknown %d is used by two "
                                 "direction sets" % rix, wit0)
        # expected structure: which slots carry a coefficient
        mask = [0.0] * 10
        Q = [0.0] * 9
        stat = []
        ok = True
        for s, pid in enumerate(ids):
            if pid is None:
                continue
            p = pts.get(pid)
            if p is None:
                ok = False
                break
            c = lin[pid]
            for k in range(3):
                Q[3 * s + k] = c[k] if c[k] == c[k] else 0.0
            code = ""
            if kind in USES_XY:
                if p["x"] is None:
                    ok = False
                code += p["sxy"] or "-"
                if p["sxy"] in ("f", "c"):
                    mask[3 * s] = mask[3 * s + 1] = 1.0
            if kind in USES_Z:
                if p["z"] is None:
                    ok = False
                code += (p["sz"] or "-")        # e.g. "fF": xy free, z fixed ('F' fixed, 'f' free, 'c' constrained)
                if p["sz"] in ("f", "c"):
                    mask[3 * s + 2] = 1.0
            stat.append(code)
        if not ok:
            ck.inconc("row of an observation whose points lack coordinates in the input")
            continue
        if kind == "direction":
            mask[9] = 1.0
        ori = float(U[rix - 1]["approx"]) if rix else 0.0
        srow = y_sign if kind in ("y", "dy") else 1.0
        dx, dy = Q[3] - Q[0], Q[4] - Q[1]
        geo = "-"
        if kind in ("direction", "distance", "azimuth", "s-distance", "z-angle"):
            geo = _quad(dx, dy)
        elif kind == "angle":
            geo = _quad(dx, dy) + "," + _quad(Q[6] - Q[0], Q[7] - Q[1])
        meta = dict(net=netinfo, row=ri + 1, kind=kind, frm=o["frm"], to=o["to"], fs=o["fs"], status=">".join(stat),
                    geo=geo, dim=dim, consistent=consistent, axes=P["axes"], angles=P["angles"],
                    bad_entry=bad_entry, gama_row=row, gama_rhs=grhs, value=e["value"], raw=e["raw"],
                    written=float(o["val"]), fdh=o["fdh"], tdh=o["tdh"], source=source)
        rows.add(meta, kid=KID[kind], Q=Q, M=[M[0][0], M[0][1], M[1][0], M[1][1]], sense=sense, azx=float(az_x),
                 ori=ori, ysign=y_sign, srow=srow, val=o["val"], red=float(e["value"]) - float(e["raw"]),
                 fdh=o["fdh"], tdh=o["tdh"], g=g, mask=mask, grhs=float(grhs), extra=extra)
        taken += 1
    if used != set(range(1, n + 1)):
        ck.violation("index:gap", "unknowns %s of 1..%d appear in no row" % (sorted(set(range(1, n + 1)) - used)[:5], n),
                     wit0)
    ck.count("networks", 1)
    ck.count("unknowns", n)
    return taken


# ---------------------------------------------------------------------------- comparison

def judge(ck, rows, want_text):
    """vectorised oracle over all collected rows + comparison with gama's rows"""
    if not rows.meta:
        return
    A = rows.arr
    kid = np.array(A["kid"])
    Qa = np.array(A["Q"], dtype=np.float64)
    Ma = np.array(A["M"], dtype=np.float64)
    G = np.array(A["g"], dtype=np.float64)
    MASK = np.array(A["mask"], dtype=np.float64)
    GR = np.array(A["grhs"], dtype=np.float64)
    EX = np.array(A["extra"], dtype=np.float64)
    VAL = np.array(A["val"], dtype=LD)
    col = {k: np.array(A[k], dtype=np.float64) for k in ("sense", "azx", "ori", "ysign", "srow", "red", "fdh", "tdh")}
    nviol = {}

    def viol(key, what, i, extra=None):
        c = nviol.get(key, 0)
        nviol[key] = c + 1
        if c >= 3:
            return
        m = rows.meta[i]
        w = dict(m)
        w["net"] = dict(m["net"])
        w["coordinates(from,to,fs as X,Y,Z in gama's frame)"] = [repr(float(x)) for x in Qa[i]]
        if extra:
            w.update(extra)
        if want_text is not None and c == 0:
            w["input"] = want_text(m["net"])
        ck.violation(key, what, w)

    for kind in KINDS:
        sel = np.nonzero(kid == KID[kind])[0]
        if not len(sel):
            continue
        R = dict(Q=Qa[sel], M=Ma[sel], val=VAL[sel], **{k: v[sel] for k, v in col.items()})
        out = oracle_kind(kind, R)
        coefE = out["coef"] * MASK[sel]
        fderr = out["fderr"] * MASK[sel]
        if _BREAK.get("coeff-sign") == kind:
            coefE[:, 3] = -coefE[:, 3]
        g = G[sel]
        rowmax = np.maximum(np.max(np.abs(coefE), axis=1), np.max(np.abs(g), axis=1)).astype(np.float64)
        rowmaxE = np.max(np.abs(out["coef"]), axis=1).astype(np.float64)
        rich = np.max(out["fderr"], axis=1).astype(np.float64)
        ang = kind in ANGULAR
        tolM = TOL_COEFF_REL * rowmax[:, None] + fderr.astype(np.float64) + 1e-300
        ratioM = np.abs(g - coefE.astype(np.float64)) / tolM
        okrow = ~np.asarray(out["sing"]) & (rich <= RICHARDSON * rowmaxE + 1e-300) & np.isfinite(rich)
        if okrow.any():
            ck.ratio("coefficient error / tolerance", float(ratioM[okrow].max()), 1.0)
        for li, i in enumerate(sel):
            m = rows.meta[i]
            if out["sing"][li]:
                ck.inconc("zenith angle with |sin z| < 1e-3 (function singular)")
                continue
            if not (rich[li] <= RICHARDSON * rowmaxE[li] + 1e-300) or not np.isfinite(rich[li]):
                ck.inconc("finite-difference estimates disagree (near-singular geometry)")
                continue
            # ---- coefficients
            if ratioM[li].max() > 1.0:
                for j in range(10):
                    if ratioM[li, j] > 1.0:
                        viol("coeff:%s:%s" % (kind, SLOTS[j]),
                             "%s row: coefficient of %s is %.12g, derivative of the observation function is %.12g "
                             "(status %s, %s/%s, geometry %s)" % (kind, SLOTS[j], g[li, j], float(coefE[li, j]),
                                                                  m["status"], m["axes"], m["angles"], m["geo"]), i,
                             dict(expected_row=[float(x) for x in coefE[li]], gama_dense=[float(x) for x in g[li]],
                                  tolerance=float(tolM[li, j])))
            if EX[i] > 0:
                viol("coeff:%s:unexpected-unknown" % kind,
                     "%s row has a non-zero coefficient %r for an unknown that is neither a coordinate of its "
                     "points nor its station's orientation" % (kind, m["bad_entry"]), i)
            elif m["bad_entry"] is not None:
                ck.count("zero coefficients stored for unrelated unknowns", 1)
            # ---- right-hand side
            e = float(out["rhs"][li])
            if _BREAK.get("rhs-offset") == kind:
                e += 1e-4
            tol = TOL_RHS + 8 * EPS * float(out["comp"][li])
            gr = float(GR[i])
            wrap = "-"
            if kind in HORIZ_ANG:
                k = round(e / 4e6) if abs(e) > 2e6 else 0
                er = e - 4e6 * k
                near = abs(abs(er) - 2e6) <= max(tol, 1e-3)
                # wrap side as gama meets it: observed and computed value both in [0, 400) gon
                vn = float(VAL[i]) % 400.0
                cn = (vn - e / 1e4) % 400.0
                raw = vn - cn
                wrap = ("near%+d" % (200 if er > 0 else -200)) if near else \
                    ("none" if abs(raw) < 200 else ("over+200" if raw > 0 else "under-200"))
                if not 0.0 <= float(VAL[i]) < 400.0:
                    wrap += ",written outside [0,400)"
                d = gr - er
                kk = round(d / 4e6)
                dw = d - 4e6 * kk
                ck.ratio("rhs error / tolerance", abs(dw), tol)
                if abs(dw) > tol:
                    viol("rhs:%s" % kind, "%s row: rhs %.9f cc, observed - computed = %.9f cc (difference %.3g)" % (
                        kind, gr, er, dw), i, dict(expected_rhs=er))
                elif abs(gr) > 2e6 + tol or (kk != 0 and not abs(abs(er) - 2e6) <= tol):
                    viol("rhs-range:%s" % kind, "%s row: rhs %.9f cc is congruent to observed - computed (%.9f cc) "
                         "but not reduced to (-200, 200] gon" % (kind, gr, er), i, dict(expected_rhs=er))
            else:
                d = gr - e
                if kind == "dz" and (m["fdh"] != 0 or m["tdh"] != 0):
                    # <vec from_dh to_dh>: the manual lists the attributes ("instrument height", "target height")
                    # but not their effect; both readings are accepted and which one gama implements is counted
                    d2 = gr - (e - (m["tdh"] - m["fdh"]) * 1000.0)
                    ck.count("dz of a vector with instrument/target heights: heights %s" % (
                        "ignored" if abs(d) <= tol else "applied" if abs(d2) <= tol else "neither"), 1)
                    if abs(d2) < abs(d):
                        d = d2
                ck.ratio("rhs error / tolerance", abs(d), tol)
                if abs(d) > tol:
                    viol("rhs:%s" % kind, "%s row: rhs %.9f, observed - computed = %.9f %s (difference %.3g)" % (
                        kind, gr, e, "cc" if ang else "mm", d), i, dict(expected_rhs=e))
                if ang and abs(gr) > 2e6 + tol:
                    viol("rhs-range:%s" % kind, "%s row: rhs %.9f cc outside half a circle" % (kind, gr), i)
            # ---- reduction to the marks
            red_class = "-"
            if kind in ("s-distance", "z-angle"):
                has = (m["fdh"] != 0 or m["tdh"] != 0)
                red_class = "dh" if has else "nodh"
                gred = float(col["red"][i])
                ered = float(out["red"][li]) if has else 0.0
                if _BREAK.get("reduction") == kind and has:
                    ered = -ered
                if kind == "s-distance":
                    err, tolr = abs(gred - ered) * 1000, TOL_RED_LIN
                else:
                    err, tolr = abs(gred - ered) * float(RAD2CC), TOL_RED_ANG
                if has:
                    ck.ratio("reduction error / tolerance", err, tolr)
                    ck.count("reductions checked:" + kind, 1)
                if err > tolr:
                    viol("reduction:%s" % kind, "%s with from_dh=%g to_dh=%g: gama's reduction %.12g, geometric "
                         "reduction at the approximate coordinates %.12g" % (kind, m["fdh"], m["tdh"], gred, ered), i)
            ck.case((kind, m["geo"], m["status"], wrap, "consistent" if m["consistent"] else "y-flipped",
                     "%dD" % m["dim"], red_class) if red_class != "-" else
                    (kind, m["geo"], m["status"], wrap, "consistent" if m["consistent"] else "y-flipped",
                     "%dD" % m["dim"]))
            ck.count("rows:" + kind, 1)
            ck.count("rows via " + m["source"], 1)
            if kind in HORIZ_ANG:
                ck.count("misclosure %s: %s" % (kind, wrap), 1)
            if kind == "z-angle":
                zg = float(out["F0"][li] / GON2RAD)
                ck.count("zenith %s gon" % ("1-5" if zg < 5 else "5-95" if zg < 95 else "95-105" if zg <= 105 else
                                            "105-195" if zg <= 195 else "195-199"), 1)
            cm = float(np.max(np.abs(Qa[i])))
            ck.count("coordinates up to 1e%d" % (int(math.floor(math.log10(cm))) + 1 if cm >= 1 else 0), 1)
            if m["net"].get("degrees"):
                ck.count("rows of inputs in degrees", 1)
            ck.count("frame %s/%s" % (m["axes"], m["angles"][0]), 1)
            if kind not in ("dh", "x", "y", "z", "dx", "dy", "dz"):
                L = float(out["L"][li])
                ck.count("sight length 1e%d m" % int(math.floor(math.log10(L))) if L > 0 else "sight length 0", 1)
            if li == 1 and kind in ("direction", "angle", "azimuth", "s-distance", "z-angle", "dy"):
                ck.sample(dict(kind=kind, frm=m["frm"], to=m["to"], fs=m["fs"], status=m["status"], geo=m["geo"],
                               frame=m["axes"] + "/" + m["angles"], written=m["written"], gama_row=m["gama_row"],
                               gama_rhs=m["gama_rhs"], oracle_row=[float("%.12g" % float(x)) for x in coefE[li]],
                               oracle_rhs=float("%.9f" % (er if kind in HORIZ_ANG else e))))
    for k, c in nviol.items():
        if c > 3:
            ck.count("violations:" + k, c)


# ---------------------------------------------------------------------------- generators

FRAMES = [(a, h) for h in ("left-handed", "right-handed") for a in netgen.AXES_ALL]


def _fmt(v):
    return repr(float(v))


class Adv:
    """adversarial star networks, generated directly in the file's frame: hubs with satellites at chosen
    bearings (exactly on the axes, next to them, anywhere) and distances (0.5 m .. 50 km), zenith angles
    1..199 gon, every status mix, observed values = function value at the approximate coordinates + a chosen
    misclosure (small, or next to / across the +-200 gon boundary, or whole turns away).  All adjustable
    coordinates are also observed (a <coordinates> set), so every network is regular."""

    STREAM = 505

    def __init__(self, seed, i):
        self.i, self.seed = i, seed
        rng = self.rng = np.random.default_rng([seed, i, self.STREAM])
        self.axes, self.angles = FRAMES[i % 16]
        self.dim = 3 if rng.uniform() < 0.65 else 2
        self.degrees = rng.uniform() < 0.15
        mag = float(rng.choice([0.0, 1e3, 1e5, 7e6]))
        self.origin = (mag * rng.uniform(0.3, 1) * rng.choice([-1, 1]), mag * rng.uniform(0.3, 1) * rng.choice([-1, 1]),
                       float(rng.uniform(-200, 3000)))
        self.pts = {}        # id -> dict(x,y,z,sxy,sz)
        self.clusters = []   # list of (kind, station, [xml lines], cov lines)
        self.build()

    def status(self):
        return str(self.rng.choice(["F", "f", "c"]))

    def add_point(self, pid, x, y, z):
        self.pts[pid] = dict(x=float(x), y=float(y), z=float(z) if self.dim == 3 else None,
                             sxy=self.status(), sz=self.status() if self.dim == 3 else None)

    def place(self):
        """offset of a target from its station: bearing exactly on an axis / next to one / anywhere,
        0.5 m .. 50 km, zenith angle 1 .. 199 gon (level and steep sights over-represented), |dz| <= 2 km"""
        rng = self.rng
        d = 10 ** rng.uniform(math.log10(0.5), math.log10(5e4))
        bc = rng.choice(["axis", "near", "quad"], p=[0.3, 0.15, 0.55])
        k = int(rng.integers(4))
        if bc == "axis":
            dx, dy = [(d, 0.0), (0.0, d), (-d, 0.0), (0.0, -d)][k]
        else:
            a = k * math.pi / 2 + (rng.choice([-1, 1]) * 10 ** rng.uniform(-12, -4) if bc == "near"
                                   else rng.uniform(0.01, math.pi / 2 - 0.01))
            dx, dy = d * math.cos(a), d * math.sin(a)
        zc = rng.choice(["any", "level", "steep"], p=[0.6, 0.2, 0.2])
        zen = rng.uniform(1.0, 199.0) if zc == "any" else \
            (100.0 + rng.choice([-1, 1]) * 10 ** rng.uniform(-9, -1) if zc == "level" else
             rng.choice([rng.uniform(1.0, 4.0), rng.uniform(196.0, 199.0)]))
        dz = d / math.tan(zen * math.pi / 200)
        if abs(dz) > 2000:
            dz = math.copysign(rng.uniform(0, 2000), dz)
        return dx, dy, dz

    def build(self):
        rng = self.rng
        ox, oy, oz = self.origin
        nh = int(rng.integers(1, 4))
        hubs, sats = [], {}
        for h in range(nh):
            hid = "H%d" % (h + 1)
            self.add_point(hid, ox + rng.uniform(-3000, 3000), oy + rng.uniform(-3000, 3000), oz + rng.uniform(-50, 50))
            hubs.append(hid)
        for hid in hubs:
            H = self.pts[hid]
            sats[hid] = []
            for s in range(int(rng.integers(4, 11))):
                sid = "%sS%d" % (hid, s + 1)
                dx, dy, dz = self.place()
                self.add_point(sid, H["x"] + dx, H["y"] + dy, (H["z"] or 0.0) + dz)
                sats[hid].append(sid)
        allp = list(self.pts)
        if not any(p["sxy"] in "fc" or (p["sz"] or "F") in "fc" for p in self.pts.values()):
            self.pts[allp[0]]["sxy"] = "f"
        # height-only benchmarks
        self.bench = []
        if self.dim == 3:
            for b in range(int(rng.integers(0, 3))):
                bid = "B%d" % (b + 1)
                self.pts[bid] = dict(x=None, y=None, z=float(oz + rng.uniform(-2000, 2000)), sxy=None, sz=self.status())
                self.bench.append(bid)
        for hid in hubs:
            targets = sats[hid] + [h for h in hubs if h != hid]
            self.station(hid, targets, full=True)
            if rng.uniform() < 0.3:     # a second set of directions on the same station: its own orientation
                self.station(hid, [str(x) for x in rng.choice(targets, int(rng.integers(1, 4)), replace=False)],
                             full=True, only_directions=True)
        for hid in hubs:
            for sid in sats[hid]:
                if rng.uniform() < 0.3:
                    others = [p for p in allp if p != sid]
                    tg = [hid] + [str(x) for x in rng.choice(others, int(rng.integers(1, 4)), replace=False) if x != hid]
                    self.station(sid, tg, full=False)
        if self.dim == 3:
            self.levelling(allp + self.bench)
            self.vectors(allp)
        self.coordinates(allp + self.bench)

    # --- values
    def _aux(self, n, ori=0.0):
        M, sense, azx = frame_of(self.axes, self.angles, 1.0)      # generator works in the file's frame: y_sign 1
        f = lambda v: np.full(n, v, dtype=np.float64)
        return dict(M=np.tile([M[0][0], M[0][1], M[1][0], M[1][1]], (n, 1)).astype(np.float64), sense=f(sense),
                    azx=f(azx), ori=f(ori), ysign=f(1.0), srow=f(1.0), red=f(0.0), fdh=f(0.0), tdh=f(0.0))

    def value(self, kind, frm, to=None, fs=None, ori=0.0, dh=(0.0, 0.0)):
        """function value at the approximate coordinates in the file's convention (gon / m), with the
        instrument and target heights applied (what the instrument would read)"""
        Q = []
        for pid in (frm, to, fs):
            p = self.pts.get(pid) if pid else None
            Q += [p["x"] or 0.0, p["y"] or 0.0, p["z"] or 0.0] if p else [0.0, 0.0, 0.0]
        Q[2] += dh[0]
        if to:
            Q[5] += dh[1]
        aux = self._aux(1, ori)
        Q0 = np.array([Q], dtype=LD)
        base = Q0[:, 0:3].copy()
        a = dict(m00=aux["M"][:, 0].astype(LD), m01=aux["M"][:, 1].astype(LD), m10=aux["M"][:, 2].astype(LD),
                 m11=aux["M"][:, 3].astype(LD), sense=aux["sense"].astype(LD), azx=aux["azx"].astype(LD) * GON2RAD,
                 ori=aux["ori"].astype(LD), ysign=aux["ysign"].astype(LD), base=base)
        v = obs_function(kind, Q0 - np.tile(base, (1, 3)), a)[0]
        return float(v / GON2RAD) if kind in ANGULAR else float(v)

    def ang_misclosure(self, d):
        """misclosure (gon) of a horizontal angular observation"""
        rng = self.rng
        c = rng.uniform()
        small = float(rng.uniform(-1, 1) * min(0.2 / d, 0.05) * 200 / math.pi)
        if c < 0.6:
            return small
        u = float(10 ** rng.uniform(-10, 1.5)) * (1 if rng.uniform() < 0.8 else 0)
        side = float(rng.choice([-1, 1]))
        fam = rng.choice(["in", "out", "turn"])
        if fam == "in":
            return side * (200.0 - u)
        if fam == "out":
            return side * (200.0 + u)
        return side * (400.0 - min(u, 399.0)) if rng.uniform() < 0.5 else side * 399.0 * rng.uniform()

    def write_ang(self, v, normalise=None):
        """text of a horizontal angular value: normalised to [0,400) or left up to a turn outside"""
        rng = self.rng
        if normalise is None:
            normalise = self.degrees or rng.uniform() < 0.6
        if normalise:
            v = v % 400.0
            if v >= 400.0:
                v = 0.0
        else:
            v = math.fmod(v, 400.0) + float(rng.choice([-400.0, 0.0, 400.0]))
        if self.degrees:
            return netgen.gon_to_dms(v)
        return _fmt(v)

    def write_zen(self, v):
        return netgen.gon_to_dms(v) if self.degrees else _fmt(v)

    def dist(self, a, b):
        A, B = self.pts[a], self.pts[b]
        return math.hypot(B["x"] - A["x"], B["y"] - A["y"])

    # --- single observation lines
    def l_direction(self, sid, t, ori, mis, sd='stdev="10.0"'):
        v = self.value("direction", sid, t, ori=ori * math.pi / 200)
        return '<direction to="%s" val="%s" %s />' % (t, self.write_ang(v + mis), sd)

    def l_distance(self, sid, t):
        d = self.value("distance", sid, t)
        v = d + self.rng.uniform(-0.2, 0.2)
        if v <= 0:
            v = d * self.rng.uniform(0.5, 1.5)
        return '<distance from="%s" to="%s" val="%s" stdev="5.0" />' % (sid, t, _fmt(v))

    def l_slope(self, kind, sid, t, p_dh=0.5, set_fdh=None):
        """s-distance / z-angle, with instrument / target heights with probability p_dh (set_fdh: the set's
        implicit instrument height, which an own attribute overrides); None if the value would not be a valid
        reading"""
        rng = self.rng
        dh, att = (set_fdh or 0.0, 0.0), ""
        if rng.uniform() < p_dh:
            fdh = round(float(rng.uniform(1.2, 1.8)), 3) if rng.uniform() < 0.8 else 0.0
            tdh = round(float(rng.uniform(0.0, 2.5)), 3) if rng.uniform() < 0.8 else 0.0
            if set_fdh is not None and rng.uniform() < 0.5:
                fdh = set_fdh                  # inherited, not written
            elif fdh or set_fdh is not None:
                att += ' from_dh="%s"' % _fmt(fdh)
            dh = (fdh, tdh)
            if tdh:
                att += ' to_dh="%s"' % _fmt(tdh)
        v = self.value(kind, sid, t, dh=dh)
        if kind == "s-distance":
            v += rng.uniform(-0.2, 0.2)
            if v <= 0:
                return None
            txt = _fmt(v)
        else:
            d3 = max(self.dist(sid, t), 0.5)
            v += float(rng.uniform(-1, 1) * min(0.2 / d3, 0.01) * 200 / math.pi)
            if not 0.01 < v < 199.99:
                return None
            txt = self.write_zen(v)
        return '<%s from="%s" to="%s" val="%s" stdev="5.0"%s />' % (kind, sid, t, txt, att)

    def l_azimuth(self, sid, t):
        v = self.value("azimuth", sid, t) + self.ang_misclosure(self.dist(sid, t))
        return '<azimuth from="%s" to="%s" val="%s" stdev="20.0" />' % (sid, t, self.write_ang(v))

    def l_angle(self, sid, a, b):
        v = self.value("angle", sid, a, b) + self.ang_misclosure(min(self.dist(sid, a), self.dist(sid, b)))
        return '<angle from="%s" bs="%s" fs="%s" val="%s" stdev="14.0" />' % (sid, a, b, self.write_ang(v))

    def station(self, sid, targets, full, only_directions=False):
        rng = self.rng
        targets = [t for t in targets if t != sid]
        lines = []
        ori = float(rng.uniform(0, 400))
        sd = 'stdev="%s"' % _fmt(rng.choice([3.0, 10.0, 30.0]))
        # an instrument height given once for the whole set (manual: <obs from_dh="...">)
        set_fdh = round(float(rng.uniform(1.2, 1.8)), 3) if (self.dim == 3 and rng.uniform() < 0.25) else None
        # directions: most of a set are consistent with one orientation, so gama's approximate orientation is
        # the intended one and the chosen misclosures appear in the rows
        dirs = list(targets) if (full or rng.uniform() < 0.7) else []
        for k, t in enumerate(dirs):
            mis = 0.0 if k % 2 == 0 else self.ang_misclosure(self.dist(sid, t))
            lines.append(self.l_direction(sid, t, ori, mis, sd))
        for t in ([] if only_directions else targets):
            if rng.uniform() < 0.5:
                lines.append(self.l_distance(sid, t))
            if self.dim == 3:
                for kind in ("s-distance", "z-angle"):
                    if rng.uniform() < 0.5:
                        lines.append(self.l_slope(kind, sid, t, set_fdh=set_fdh))
            if rng.uniform() < 0.35:
                lines.append(self.l_azimuth(sid, t))
        if len(targets) >= 2 and not only_directions:
            for _ in range(max(1, len(targets) // 2)):
                a, b = [str(x) for x in rng.choice(targets, 2, replace=False)]
                lines.append(self.l_angle(sid, a, b))
        lines = [l for l in lines if l]
        if lines:
            order = rng.permutation(len(lines)) if rng.uniform() < 0.5 else range(len(lines))
            self.clusters.append(['<obs from="%s"%s>' % (sid, ' from_dh="%s"' % _fmt(set_fdh) if set_fdh else "")] +
                                 [lines[int(k)] for k in order] + ["</obs>"])

    def levelling(self, ids):
        rng = self.rng
        lines = []
        for _ in range(int(rng.integers(3, 10))):
            a, b = [str(x) for x in rng.choice(ids, 2, replace=False)]
            v = self.pts[b]["z"] - self.pts[a]["z"] + rng.uniform(-0.2, 0.2)
            lines.append('<dh from="%s" to="%s" val="%s" stdev="2.0"%s />' % (
                a, b, _fmt(v), ' dist="%s"' % _fmt(round(rng.uniform(0.05, 3), 3)) if rng.uniform() < 0.3 else ""))
        self.clusters.append(["<height-differences>"] + lines + ["</height-differences>"])

    def _cov(self, n):
        rng = self.rng
        band = int(rng.integers(0, min(n - 1, 3) + 1))
        C = netgen.rand_cov(rng, np.full(n, float(rng.choice([3.0, 8.0]))), band)
        out = ['<cov-mat dim="%d" band="%d">' % (n, band)]
        for r in range(n):
            out.append(" ".join(_fmt(C[r, c]) for c in range(r, min(n, r + band + 1))))
        return out + ["</cov-mat>"]

    def vectors(self, ids):
        rng = self.rng
        k = int(rng.integers(2, 6))
        lines = []
        for _ in range(k):
            a, b = [str(x) for x in rng.choice(ids, 2, replace=False)]
            A, B = self.pts[a], self.pts[b]
            lines.append('<vec from="%s" to="%s" dx="%s" dy="%s" dz="%s" />' % (
                a, b, _fmt(B["x"] - A["x"] + rng.uniform(-0.2, 0.2)), _fmt(B["y"] - A["y"] + rng.uniform(-0.2, 0.2)),
                _fmt(B["z"] - A["z"] + rng.uniform(-0.2, 0.2))))
        self.clusters.append(["<vectors>"] + lines + self._cov(3 * k) + ["</vectors>"])

    def coordinates(self, ids, keep=0.3):
        """observed coordinates of every point with an adjustable component (and of some fixed ones).  The
        <point> inside <coordinates> also redefines the approximate coordinates, so the point definitions are
        repeated after the set (except sometimes: then the linearisation point is the observed position)."""
        rng = self.rng
        lines, n, redefine = [], 0, []
        for pid in ids:
            p = self.pts[pid]
            adj = (p["sxy"] in ("f", "c")) or (p["sz"] in ("f", "c"))
            if not adj and rng.uniform() >= keep:
                continue
            s = '<point id="%s"' % pid
            if p["x"] is not None:
                s += ' x="%s" y="%s"' % (_fmt(p["x"] + rng.uniform(-0.2, 0.2)), _fmt(p["y"] + rng.uniform(-0.2, 0.2)))
                n += 2
            if p["z"] is not None:
                s += ' z="%s"' % _fmt(p["z"] + rng.uniform(-0.2, 0.2))
                n += 1
            lines.append(s + " />")
            if rng.uniform() < 0.85:
                redefine.append(pid)
        self.clusters.append(["<coordinates>"] + lines + self._cov(n) + ["</coordinates>"] +
                             [self.point_xml(pid) for pid in redefine])
        self.coords_cluster = self.clusters[-1]

    def point_xml(self, pid):
        p = self.pts[pid]
        s = '<point id="%s"' % pid
        if p["x"] is not None:
            s += ' x="%s" y="%s"' % (_fmt(p["x"]), _fmt(p["y"]))
        if p["z"] is not None:
            s += ' z="%s"' % _fmt(p["z"])
        fix = ("xy" if p["sxy"] == "F" else "") + ("z" if p["sz"] == "F" else "")
        adj = {"f": "xy", "c": "XY"}.get(p["sxy"], "") + {"f": "z", "c": "Z"}.get(p["sz"], "")
        if fix:
            s += ' fix="%s"' % fix
        if adj:
            s += ' adj="%s"' % adj
        return s + " />"

    def text(self):
        rng = np.random.default_rng([self.seed, self.i, 17])
        out = ['<?xml version="1.0" ?>', '<gama-local xmlns="http://www.gnu.org/software/gama/gama-local">',
               '<network axes-xy="%s" angles="%s">' % (self.axes, self.angles),
               "<description>C05 adversarial network %d</description>" % self.i,
               '<parameters sigma-apr="10" conf-pr="0.95" tol-abs="1e15" sigma-act="apriori" />',
               "<points-observations>"]
        ids = [str(x) for x in rng.permutation(list(self.pts))]
        out += [self.point_xml(pid) for pid in ids]
        for k in rng.permutation(len(self.clusters)):
            out += self.clusters[int(k)]
        out += ["</points-observations>", "</network>", "</gama-local>", ""]
        return "\n".join(out)


class Solo(Adv):
    """one observation (one small set of directions / one vector / one or two observed points) in a network
    of four points, for the direct driver: no adjustment is run, so nothing has to be determined, every point
    may be fixed, and the approximate orientation of a direction set is dictated (ORI line)"""
    STREAM = 507

    def build(self):
        rng = self.rng
        kind = self.kind = KINDS[self.i % 13]
        self.ori = []
        self.dim = 3 if (kind in USES_Z or kind in ("dx", "dy") or rng.uniform() < 0.3) else 2
        ox, oy, oz = self.origin
        self.add_point("A", ox + rng.uniform(-3000, 3000), oy + rng.uniform(-3000, 3000), oz + rng.uniform(-50, 50))
        A = self.pts["A"]
        for pid in ("B", "C", "D"):
            dx, dy, dz = self.place()
            self.add_point(pid, A["x"] + dx, A["y"] + dy, (A["z"] or 0.0) + dz)
        lines = None
        if kind == "direction":
            ori = float(rng.uniform(0, 400))
            self.ori.append(ori * math.pi / 200)
            tg = ["B", "C", "D"][:int(rng.integers(1, 4))]
            lines = [self.l_direction("A", t, ori, self.ang_misclosure(self.dist("A", t))) for t in tg]
        elif kind == "distance":
            lines = [self.l_distance("A", "B")]
        elif kind in ("s-distance", "z-angle"):
            lines = [self.l_slope(kind, "A", "B", p_dh=0.7)]
        elif kind == "azimuth":
            lines = [self.l_azimuth("A", "B")]
        elif kind == "angle":
            lines = [self.l_angle("A", "B", "C")]
        if lines is not None:
            lines = [l for l in lines if l]
            if lines:
                self.clusters.append(['<obs from="A">'] + lines + ["</obs>"])
        elif kind == "dh":
            v = self.pts["B"]["z"] - A["z"] + rng.uniform(-0.2, 0.2)
            self.clusters.append(["<height-differences>", '<dh from="A" to="B" val="%s" stdev="2.0" />' % _fmt(v),
                                  "</height-differences>"])
        elif kind in ("dx", "dy", "dz"):
            B = self.pts["B"]
            att = ""
            if rng.uniform() < 0.3:
                att = ' from_dh="%s" to_dh="%s"' % (_fmt(round(float(rng.uniform(1.2, 1.8)), 3)),
                                                    _fmt(round(float(rng.uniform(0.0, 2.5)), 3)))
            self.clusters.append(["<vectors>", '<vec from="A" to="B" dx="%s" dy="%s" dz="%s"%s />' % (
                _fmt(B["x"] - A["x"] + rng.uniform(-0.2, 0.2)), _fmt(B["y"] - A["y"] + rng.uniform(-0.2, 0.2)),
                _fmt(B["z"] - A["z"] + rng.uniform(-0.2, 0.2)), att)] + self._cov(3) + ["</vectors>"])
        else:
            self.coordinates(["A", "B"][:int(rng.integers(1, 3))], keep=1.0)

    def header(self):
        return ["ORI " + " ".join(repr(v) for v in self.ori)] if self.ori else []


def run_netdrv(ck, cases, seed):
    """cases: list of (id, header lines, gkf text).  -> {id: event | None}; sanitizer reports become violations"""
    exe = runner.binpath("san", "netdrv")

    def feed(batch):
        return "".join("NET %s\n%s%s%%%%END\n" % (cid, "".join(h + "\n" for h in hdr), text if text.endswith("\n")
                                                  else text + "\n") for cid, hdr, text in batch)

    def parse(out):
        res, cur = {}, None
        for line in out.split("\n"):
            if line.startswith("#case "):
                cur = line[6:]
                res[cur] = None
            elif line.startswith("{") and cur is not None:
                try:
                    res[cur] = json.loads(line)
                except ValueError:
                    res[cur] = dict(error="unparsable reply")
        return res

    def work(batch):
        rr = runner.run([exe], stdin=feed(batch), timeout=600)
        return batch, rr, parse(rr.out or "")

    size = 400
    batches = [cases[k:k + size] for k in range(0, len(cases), size)]
    events = {}
    for batch, rr, res in runner.pmap(work, batches):
        if rr.san or rr.signaled or rr.timeout or rr.rc != 0:
            # find the culprit: one case per process
            for case in batch:
                r1 = runner.run([exe], stdin=feed([case]), timeout=60)
                if not ck.sanitizer(r1, dict(seed=seed, family="solo", index=case[0], input=case[2], header=case[1]),
                                    prefix="netdrv:"):
                    if r1.timeout:
                        ck.inconc("netdrv timeout")
                    events.update(parse(r1.out or ""))
            continue
        events.update(res)
    return events


def gen_realistic(seed, i):
    """determined networks from the shared generator (all stations observe most others; angles, azimuths,
    levelling, vectors, observed coordinates, heights of instrument / target), noisy values, approximate
    coordinates of all adjustable points off by up to 0.2 m, any frame, shifts up to 7e6 m"""
    rng = np.random.default_rng([seed, i, 506])
    dim = int(rng.choice([1, 2, 2, 3, 3]))
    feats = [f for f, pr in (("angles", 0.6), ("azimuths", 0.5), ("hdiff", 0.5), ("dh-heights", 0.6), ("vectors", 0.5),
                             ("coords", 0.4)) if rng.uniform() < pr]
    net = netgen.gen_net(rng, dim=dim, noise=True, features=tuple(feats))
    for q in net.points.values():
        if q.xy in ("free", "constrained"):
            q.dE, q.dN = [float(x) for x in rng.uniform(-0.2, 0.2, 2)]
        if q.z in ("free", "constrained"):
            q.dH = float(rng.uniform(-0.2, 0.2))
    net.params["tol_abs"] = 1e15
    axes, angles = FRAMES[(i * 7 + 3) % 16]
    mag = float(rng.choice([0.0, 1e3, 1e5, 7e6]))
    fr = netgen.Frame(axes=axes, angles=angles, degrees=bool(rng.uniform() < 0.2),
                      shift=(mag * rng.uniform(0.3, 1), -mag * rng.uniform(0.3, 1), float(rng.uniform(-500, 3000))))
    return netgen.to_gkf(net, fr), dict(kind=net.kind, features=feats, degrees=fr.degrees)


def gen_text(family, seed, i):
    if family == "adv":
        g = Adv(seed, i)
        return g.text(), dict(dim=g.dim, degrees=g.degrees)
    if family == "solo":
        g = Solo(seed, i)
        return g.text(), dict(dim=g.dim, degrees=g.degrees, header=g.header())
    return gen_realistic(seed, i)


# ---------------------------------------------------------------------------- run

RULE = ("design-matrix rows + right-hand sides of the linear systems gama builds for generated inputs, each compared "
        "with numerically differentiated observation functions: (a) gama-local on adversarial star networks (hubs + "
        "satellites exactly on / next to / off the axes, 0.5 m..50 km, zenith 1..199 gon, coordinates up to 7e6, "
        "every fixed/free/constrained mix, 8 axes-xy x 2 handedness, gon and degrees, horizontal angular "
        "misclosures next to and across +-200 gon and whole turns, values written outside [0,400), instrument/"
        "target heights per observation and per set, several direction sets per station), first linearisation; "
        "(b) gama-local on realistic determined networks of the shared generator, every linearisation of the run; "
        "(c) LocalLinearization asked directly (netdrv) for single observations, dictated orientations, all-fixed "
        "mixes; all 13 observation kinds.  evaluations = rows compared; class = (kind, quadrant/axis of the "
        "sight(s) in gama's frame, status mix of the points from>to[>fs] with F fixed / f free / c constrained for "
        "xy then z as far as the kind uses them, wrap side of the misclosure, consistent / y-flipped "
        "frame, dimension[, with/without heights]) measured on each row")


def run(tier, seed, only=None):
    # sensitivity self-test of the comparison path (CONVENTIONS rule 7): VERIF_C05_BREAK="coeff-sign=angle",
    # "rhs-offset=dh", "reduction=z-angle", "fd-step=1" deliberately falsify the ORACLE's expectation
    _BREAK.clear()
    for kv in os.environ.get("VERIF_C05_BREAK", "").split(","):
        if "=" in kv:
            _BREAK[kv.split("=")[0]] = kv.split("=")[1]
    runner.build("san", targets=["gama-local", "netdrv"])
    ck = Check("C05", tier, seed, RULE)
    n_adv = tier_n(tier, 160, 1600)
    n_real = tier_n(tier, 80, 800)
    n_solo = tier_n(tier, 13 * 16 * 25, 13 * 16 * 300)
    jobs = [("adv", i) for i in range(n_adv)] + [("real", i) for i in range(n_real)]
    solo = list(range(n_solo))
    if only is not None:
        jobs = [j for j in jobs if list(j) == list(only)]
        solo = [i for i in solo if ["solo", i] == list(only)]
    rows = Rows()

    def work(job):
        fam, i = job
        text, info = gen_text(fam, seed, i)
        # adversarial networks: only the first linearisation (their misclosures are up to half a circle, an
        # iteration from there is meaningless); realistic ones: every linearisation of the run, the later ones
        # at the coordinates and orientations gama arrived at itself
        args = ["--cov-band", "0"] + (["--iterations", "0"] if fam == "adv" else [])
        g = xmlout.run_gama_local(text, ck.tmp, "%s%d" % (fam, i), args=args, outputs=("xml",), trace=True)
        ev = [{k: e[k] for k in ("y_sign", "m", "n", "rows", "rhs", "unknowns", "obs", "iteration")}
              for e in g.trace if e.get("kind") == "adjust"] or None
        tail = (g.out or "")[-300:] if ev is None else None
        xmlerr = g.xml.get("descriptions") if (g.xml and g.xml.get("kind") == "error") else None
        for p in (g.input, g.input[:-4] + ".trace", g.input[:-4] + ".out.xml"):
            try:
                os.unlink(p)
            except OSError:
                pass
        return job, text, info, g.rr, ev, tail, xmlerr

    chunk = 256
    for c0 in range(0, len(jobs), chunk):
        for job, text, info, rr, ev, tail, xmlerr in runner.pmap(work, jobs[c0:c0 + chunk]):
            fam, i = job
            netinfo = dict(seed=seed, family=fam, index=i, **info)
            if ck.sanitizer(rr, dict(netinfo, input=text), prefix="gama-local:"):
                continue
            if rr.timeout:
                ck.inconc("timeout")
                continue
            if ev is None:
                ck.inconc("no adjust event (network not adjusted)")
                ck.count("not adjusted:" + fam, 1)
                if len(ck.counters.get("not adjusted samples", [])) < 3:
                    ck.counters.setdefault("not adjusted samples", []).append(dict(netinfo, tail=tail, xml=xmlerr))
                continue
            if ev[0]["iteration"] != 0:
                ck.inconc("first event is not the first linearisation")
                continue
            try:
                P = parse_gkf(text)
            except Exception as ex:       # the oracle's own reader failing is a harness problem
                raise runner.HarnessError("oracle reader failed on generated input %s: %s" % (job, ex))
            for k, e in enumerate(ev):
                collect(ck, rows, P, e, dict(netinfo, linearisation=k), source="gama-local", first=(k == 0))
                ck.count("linearisations checked: %s" % ("first" if k == 0 else "later (gama's own coordinates)"), 1)

    # ---- monitor B: LocalLinearization asked directly, one observation per network
    cases = []
    for i in solo:
        g = Solo(seed, i)
        cases.append((str(i), g.header(), g.text(), dict(dim=g.dim, degrees=g.degrees)))
    events = run_netdrv(ck, [c[:3] for c in cases], seed) if cases else {}
    for cid, hdr, text, info in cases:
        ev = events.get(cid)
        netinfo = dict(seed=seed, family="solo", index=int(cid), **info)
        if ev is None:
            ck.inconc("netdrv gave no reply")
            continue
        if "error" in ev:
            ck.inconc("netdrv: gama refused a generated input")
            if len(ck.counters.get("netdrv refusals", [])) < 3:
                ck.counters.setdefault("netdrv refusals", []).append(dict(netinfo, error=ev))
            continue
        collect(ck, rows, parse_gkf(text), ev, netinfo, source="netdrv")

    def want_text(net):
        t, info = gen_text(net["family"], net["seed"], net["index"])
        return "\n".join(info.get("header", []) + [t])

    judge(ck, rows, want_text)
    ck.assumptions += [
        "observation functions, axes-xy/angles semantics and 'direction + orientation shift = bearing' are the "
        "manual's (doc/gama-local-input.texi); the orientation's approximate value is taken from the event",
        "Y / dy observations are compared as gama holds them (multiplied by y_sign, like the y unknowns)",
        "tolerances: coefficients 1e-6 of the row's largest + finite-difference error estimate; rhs 1e-6 mm/cc + "
        "8 eps |computed|; reductions 1.5e-3 mm / 0.15 cc",
        "z-angle rows with |sin z| < 1e-3 and rows whose two finite-difference estimates disagree are inconclusive",
    ]
    ck.minimum = dict(evaluations=tier_n(tier, 20000, 250000), distinct=tier_n(tier, 2000, 8000),
                      **{"rows:" + k: tier_n(tier, 500, 8000) for k in KINDS})
    ck.minimum.update({"rows via gama-local": tier_n(tier, 15000, 150000), "rows via netdrv": tier_n(tier, 5000, 80000),
                       "reductions checked:s-distance": tier_n(tier, 300, 5000),
                       "reductions checked:z-angle": tier_n(tier, 300, 5000)})
    if only is not None:
        ck.minimum = dict(evaluations=1, distinct=1)
    return ck.finish()


def replay(path):
    w = json.load(open(path))
    net = (w.get("witness") or {}).get("net") or w.get("witness") or {}
    return run(w["tier"], net.get("seed", w["seed"]), only=(net.get("family"), net.get("index")))
