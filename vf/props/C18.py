"""C18 — geodetic primitives round-trip: ellipsoidal coordinates, angle strings, literals, bearings.

Reference-model monitor.  gama's functions run in the sanitized `libdrv`; the oracles are
  (1) the manual's closed formula for (B,L,H)->(X,Y,Z) evaluated in numpy longdouble (64-bit mantissa)
      with the ellipsoid constants of the *documented* table xml/ellipsoids.xml,
  (2) exact integer / longdouble arithmetic on the printed sexagesimal fields,
  (3) regular expressions written from the manual / xs:double, python float()/int() as value reference,
      over ALL strings up to a length over a 9-letter alphabet,
  (4) longdouble hypot/atan2 of the coordinate differences.
Sub-check names used in keys: ellipsoid:, angles:, literal:, bearing:.
"""
import itertools
import json
import math
import os
import re
from fractions import Fraction

import numpy as np

from .. import runner
from ..runner import Check, tier_n

LD = np.longdouble
PI_STR = "3.14159265358979323846264338327950288419716939937510582097494"
PI_LD = LD(PI_STR)
PI_F = Fraction(PI_STR)
PI_D = math.pi
ARCSEC_0018 = 0.0018 / 3600.0 * PI_D / 180.0      # the manual's bound 0.0018'' in radians

# Self-test switch (CONVENTIONS rule 7): VERIF_C18_BREAK=<name> deliberately breaks ONE oracle
# expectation so that the comparison path can be seen to fire.  A run with the switch set is never a pass.
BREAK = os.environ.get("VERIF_C18_BREAK", "")

# Deliberate restriction (stated in the evidence): the manual describes the sexagesimal input format
# only by example and does not say that minutes/seconds >= 60 are refused, so acceptance of such
# fields by deg2gon is measured and reported, not treated as a violation.
STRICT_INPUT_FIELD_RANGE = False

WS = " \t\r\n"


# ---------------------------------------------------------------------------------------------
# talking to libdrv

def esc(s):
    """escape a str (chars < 256) for a libdrv string argument (blank is escaped too: `in >> token`)"""
    if s == "":
        return "\\0"
    out = []
    for ch in s:
        c = ord(ch)
        if c <= 32 or c >= 127 or ch in "\\[]":
            out.append("\\x%02x" % c)
        else:
            out.append(ch)
    return "".join(out)


def unbr(s):
    """reply '[...]' -> string (libdrv escapes only bytes that cannot occur in the formatted angles)"""
    s = s.strip("\n")
    assert s.startswith("[") and s.endswith("]"), s
    return re.sub(r"\\x([0-9a-f]{2})", lambda m: chr(int(m.group(1), 16)), s[1:-1])


def _run_lines(lines, timeout=900):
    exe = runner.binpath("san", "libdrv")
    return runner.run([exe], stdin="\n".join(lines) + "\n", timeout=timeout)


def _bad(rr, n):
    if rr.san or rr.timeout or rr.rc != 0:
        return True
    return rr.out.count("\n") != n


def _first_culprit(lines):
    cur = lines
    while len(cur) > 1:
        h = len(cur) // 2
        rr = _run_lines(cur[:h])
        cur = cur[:h] if _bad(rr, h) else cur[h:]
    return cur[0], _run_lines(cur)


def ask(ck, lines, stage, prefix):
    """Run request lines (split over NCPU processes).  Returns the reply lines, or None after having
    reported the reason (sanitizer report -> violation with the single culprit request as witness)."""
    n = len(lines)
    if n == 0:
        return []
    jobs = max(1, min(runner.NCPU, n // 3000))
    size = (n + jobs - 1) // jobs
    chunks = [lines[i:i + size] for i in range(0, n, size)]
    rrs = runner.pmap(_run_lines, chunks)
    out = []
    for chunk, rr in zip(chunks, rrs):
        if _bad(rr, len(chunk)):
            line, r1 = _first_culprit(chunk)
            wit = dict(stage=stage, request=line, reply=r1.out.strip(), stderr=(r1.err or "")[-600:])
            if not ck.sanitizer(r1, wit, prefix=prefix):
                if ck.sanitizer(rr, dict(stage=stage, request="(batch of %d)" % len(chunk)), prefix=prefix):
                    return None
                raise runner.HarnessError("libdrv failed at stage %s rc=%s timeout=%s: %s" % (
                    stage, rr.rc, rr.timeout, (rr.err or "")[-300:]))
            ck.inconc("batch aborted by sanitizer report: " + stage)
            return None
        rep = rr.out.split("\n")
        rep.pop()
        out.extend(rep)
    return out


# ---------------------------------------------------------------------------------------------
# (1) ellipsoids

def load_table():
    """the documented table of ellipsoids: xml/ellipsoids.xml (the manual's table is generated from it)"""
    p = os.path.join(runner.REPO, "xml", "ellipsoids.xml")
    txt = re.sub(r"<!--.*?-->", "", open(p, encoding="utf-8", errors="replace").read(), flags=re.S)
    ents = []
    for m in re.finditer(r"<ellipsoid\s+([^>]*?)/>", txt, re.S):
        ents.append(dict(re.findall(r'([\w-]+)\s*=\s*"([^"]*)"', m.group(1))))
    return ents


def ref_consts(ent):
    a = LD(ent["a"])
    if "b" in ent:
        b = LD(ent["b"])
    elif "f" in ent:
        b = a * (1 - LD(ent["f"]))
    else:
        b = a * (1 - 1 / LD(ent["f1"]))
    return a, b


def ref_xyz(a, b, B, L, H):
    """manual (xyz2blh.texi): X=(N+H)cosB cosL, Y=(N+H)cosB sinL, Z=(N(1-e2)+H)sinB, N=a/sqrt(1-e2 sin^2 B)"""
    e2 = (a * a - b * b) / (a * a)
    sb, cb = np.sin(B), np.cos(B)
    N = a / np.sqrt(1 - e2 * sb * sb)
    return (N + H) * cb * np.cos(L), (N + H) * cb * np.sin(L), (N * (1 - e2) + H) * sb


HBANDS = ["h<0", "0<=h<=10km", "10km<h<=1000km", "1000km<h<=2a", "h>2a"]


def hband(h, a):
    return np.where(h < 0, 0, np.where(h <= 1e4, 1, np.where(h <= 1e6, 2, np.where(h <= 2 * a, 3, 4))))


def latclass(b):
    ab = np.abs(b)
    hp = PI_D / 2
    return np.where(ab == hp, 0, np.where(hp - ab < 1e-6, 1, np.where(ab == 0, 2, np.where(ab < 1e-6, 3, 4))))


LATC = ["lat=+-90", "90-|lat|<1e-6rad", "lat=0", "0<|lat|<1e-6rad", "lat-general"]


def lonclass(l):
    al = np.abs(l)
    return np.where(al == PI_D, 0, np.where(PI_D - al < 1e-9, 1, np.where(al == 0, 2, np.where(al < 1e-9, 3, 4))))


LONC = ["lon=+-180", "180-|lon|<1e-9rad", "lon=0", "0<|lon|<1e-9rad", "lon-general"]


def sub_ellipsoids(ck, tier, rng):
    doc = load_table()
    rep = ask(ck, ["ELLN"], "ellipsoid table", "ellipsoid:")
    if rep is None:
        return
    n = int(rep[0])
    if n != len(doc):
        ck.violation("ellipsoid:table:count", "gama has %d ellipsoids, the documented table %d" % (n, len(doc)), None)
    n = min(n, len(doc))
    lines = ["ELL %d" % i for i in range(1, n + 1)] + ["ELLID %s" % esc(e["id"]) for e in doc] + \
            ["ELLID nosuchellipsoid", "ELLID WGS84", "ELLID \\0"]
    rep = ask(ck, lines, "ellipsoid table", "ellipsoid:")
    if rep is None:
        return
    names, consts = [], []
    for i in range(1, n + 1):
        m = re.fullmatch(r"(-?\d+) (\S+) (\S+) (\S+) \[(.*?)\] \[(.*)\]", rep[i - 1])
        rc, a, b, f, name, cap = int(m.group(1)), float(m.group(2)), float(m.group(3)), float(m.group(4)), \
            m.group(5), m.group(6)
        ent = doc[i - 1]
        wit = dict(request="ELL %d" % i, reply=rep[i - 1], documented=ent)
        names.append(name)
        ra, rb = ref_consts(ent)
        consts.append((ra, rb))
        deftype = "a,b" if "b" in ent else ("a,f" if "f" in ent else "a,1/f")
        ck.case(("ellipsoid", "table", deftype))
        if rc != 0:
            ck.violation("ellipsoid:table:set-fails", "set(id=%d) returns %d" % (i, rc), wit)
        if name != ent["id"]:
            ck.violation("ellipsoid:table:id", "id %d is '%s' in gama, '%s' in the documented table" % (
                i, name, ent["id"]), wit)
        if cap != ent.get("caption", cap):
            ck.violation("ellipsoid:table:caption", "caption of %s differs: '%s' vs '%s'" % (name, cap, ent["caption"]), wit)
        if a != float(ent["a"]) or abs(b - float(rb)) > 2e-9 or not (0 < b <= a):
            ck.violation("ellipsoid:table:axes", "%s: a=%.17g b=%.17g, documented a=%s b=%.17g" % (
                name, a, b, ent["a"], float(rb)), wit)
        fref = float((ra - rb) / ra)
        ck.ratio("table_f_abs", abs(f - fref), 1e-15)
        ck.ratio("table_f_vs_ab_abs", abs(f - (a - b) / a), 1e-15)
        if abs(f - fref) > 1e-15 or abs(f - (a - b) / a) > 1e-15:
            ck.violation("ellipsoid:table:flattening", "%s: f=%.17g but (a-b)/a=%.17g, documented %.17g" % (
                name, f, (a - b) / a, fref), wit)
    if len(set(names)) != len(names):
        dup = sorted(set(x for x in names if names.count(x) > 1))
        ck.violation("ellipsoid:table:duplicate-id", "duplicate ids %s" % dup, None)
    for k, e in enumerate(doc[:n]):
        got = int(rep[n + k])
        ck.case(("ellipsoid", "lookup-by-name"))
        if got != k + 1:
            ck.violation("ellipsoid:table:lookup", "ellipsoid(\"%s\") = %d, expected %d" % (e["id"], got, k + 1),
                         dict(request=lines[n + k], reply=rep[n + k]))
    for k in range(3):
        ck.case(("ellipsoid", "lookup-unknown-name"))
        if int(rep[n + len(doc) + k]) != 0:
            ck.violation("ellipsoid:table:lookup-unknown", "unknown name resolves to id %s" % rep[n + len(doc) + k],
                         dict(request=lines[n + len(doc) + k]))

    # ---- grids
    hp = PI_D / 2
    d2r = PI_D / 180
    lat_fix = [hp, -hp, hp - 1e-9 * d2r, -(hp - 1e-9 * d2r), hp - 1e-12, -(hp - 1e-12), hp - 1e-7, -(hp - 1e-7),
               hp - 1e-3, 0.0, 1e-12, -1e-12, 1e-7, -1e-7, 45 * d2r, -45 * d2r, 35.26 * d2r, 1.0, -1.2, 89 * d2r, -89.9 * d2r]
    lon_fix = [PI_D, -PI_D, PI_D - 1e-12, -(PI_D - 1e-12), PI_D - 1e-10, -(PI_D - 1e-10), math.nextafter(PI_D, 0),
               -math.nextafter(PI_D, 0), 0.0, 1e-12, -1e-12, hp, -hp, 3.0, -3.0, 1.0, -2.0]
    h_fix = [0.0] + [s * 10.0 ** k for k in range(-3, 5) for s in (1, -1)] + \
            [2.5e4, 1e5, 1e6, 5e6, 1.2e7, 1.27e7, 1.28e7, 1.5e7, 2e7]
    nl, nlo, nh = tier_n(tier, (3, 3, 6), (12, 8, 22))
    if tier == "quick":
        lat_fix = lat_fix[:16]
        lon_fix = lon_fix[:13]
    lines, meta = [], []
    for i in range(1, n + 1):
        lats = np.array(lat_fix + list(rng.uniform(-hp, hp, nl)))
        lons = np.array(lon_fix + list(-rng.uniform(-PI_D, PI_D, nlo)))     # (-pi, pi]
        hs = np.array(h_fix + list(10 ** rng.uniform(-3, math.log10(2e7), nh)) +
                      list(-10 ** rng.uniform(-3, 4, max(2, nh // 3))))
        if tier == "quick" and i % 6 != 1:      # every 6th ellipsoid gets the full height list in quick
            hs = np.concatenate([hs[:1], rng.permutation(hs[1:])[:10], [2e7, -1e4]])
        B, L, H = [x.ravel() for x in np.meshgrid(lats, lons, hs, indexing="ij")]
        meta.append((i, len(lines), len(B), B, L, H))
        lines.extend(["BLH %d %r %r %r" % (i, b, l, h) for b, l, h in zip(B.tolist(), L.tolist(), H.tolist())])
    rep = ask(ck, lines, "ellipsoid blh grid", "ellipsoid:")
    if rep is None:
        return
    nan_total = 0
    maxm = {hb: 0.0 for hb in HBANDS}
    maxdb = {hb: 0.0 for hb in HBANDS}
    wrapped = 0
    for (i, off, cnt, B, L, H) in meta:
        a, b = consts[i - 1]
        ent = doc[i - 1]
        deftype = "a,b" if "b" in ent else ("a,f" if "f" in ent else "a,1/f")
        g = np.array(" ".join(rep[off:off + cnt]).split(), dtype=float).reshape(cnt, 6)
        Bl, Ll, Hl = B.astype(LD), L.astype(LD), H.astype(LD)
        if BREAK == "ell-formula":
            xr, yr, zr = ref_xyz(a + LD("1e-6"), b, Bl, Ll, Hl)
        else:
            xr, yr, zr = ref_xyz(a, b, Bl, Ll, Hl)
        finf = np.isfinite(g[:, :3]).all(axis=1)
        fin = np.isfinite(g).all(axis=1)
        lc, oc = latclass(B), lonclass(L)
        for k in np.nonzero(~finf)[0][:2]:
            ck.violation("ellipsoid:blh2xyz:nonfinite", "non-finite x,y,z", dict(request=lines[off + k], reply=rep[off + k]))
        nanb = finf & ~fin
        nan_total += int(nanb.sum())
        for k in np.nonzero(nanb)[0][:2]:
            ck.violation("ellipsoid:xyz2blh:nan:%s" % ("near-pole" if lc[k] <= 1 else LATC[lc[k]]),
                         "%s: xyz2blh returns NaN for the point blh2xyz produced from (b,l,h)" % ent["id"],
                         dict(request=lines[off + k], reply=rep[off + k]))
        # (a) forward formula
        ef = np.maximum(np.maximum(np.abs(g[:, 0] - xr), np.abs(g[:, 1] - yr)), np.abs(g[:, 2] - zr)).astype(float)
        tolf = 1e-8 + 2e-15 * (float(a) + np.abs(H))
        rf = np.where(finf, ef / tolf, 0.0)
        k = int(np.argmax(rf))
        ck.ratio("blh2xyz_vs_formula", rf[k], 1.0)
        hb = hband(H, float(a))
        if rf[k] > 1:
            kk = np.nonzero(rf > 1)[0]
            for j in kk[:3]:
                ck.violation("ellipsoid:blh2xyz:formula:%s" % HBANDS[hb[j]],
                             "%s: blh2xyz differs from the closed formula by %.3g m (tol %.3g)" % (
                                 ent["id"], ef[j], tolf[j]),
                             dict(request=lines[off + j], reply=rep[off + j],
                                  reference_xyz=[repr(float(xr[j])), repr(float(yr[j])), repr(float(zr[j]))]))
        # (b) round trip, measured as a position: reference xyz of gama's (b2,l2,h2) vs reference xyz of the input
        b2 = g[:, 3].copy()
        if BREAK == "ell-roundtrip":
            b2 = b2 + 2e-11
        x2, y2, z2 = ref_xyz(a, b, b2.astype(LD), g[:, 4].astype(LD), g[:, 5].astype(LD))
        pos = np.sqrt((x2 - xr) ** 2 + (y2 - yr) ** 2 + (z2 - zr) ** 2).astype(float)
        tolr = np.where(H <= 2 * float(a), 1e-4, ARCSEC_0018 * (float(a) + np.abs(H)))
        pos = np.where(fin, pos, 0.0)
        rr_ = pos / tolr
        rng_ok = ((np.abs(g[:, 3]) <= hp) & (np.abs(g[:, 4]) <= PI_D)) | ~fin
        if not rng_ok.all():
            k = int(np.nonzero(~rng_ok)[0][0])
            ck.violation("ellipsoid:roundtrip:angle-range", "latitude/longitude outside [-90,90]/[-180,180]",
                         dict(request=lines[off + k], reply=rep[off + k]))
        for band in range(5):
            m = (hb == band) & fin
            if m.any():
                ck.ratio("roundtrip_pos_" + HBANDS[band], float(rr_[m].max()), 1.0)
                maxm[HBANDS[band]] = max(maxm[HBANDS[band]], float(pos[m].max()))
                gen = m & (lc >= 2)
                if gen.any():
                    maxdb[HBANDS[band]] = max(maxdb[HBANDS[band]],
                                              float(np.abs(g[gen, 3] - B[gen]).max()) * 180 / PI_D * 3600)
        wrapped += int(((np.abs(g[:, 4] - L) > 6) & (oc <= 1)).sum())
        for j in np.nonzero(rr_ > 1)[0][:3]:
            where = ":near-pole" if lc[j] <= 1 else (":antimeridian" if oc[j] <= 1 else "")
            ck.violation("ellipsoid:roundtrip:%s%s" % ("h<=2a" if H[j] <= 2 * float(a) else "h>2a", where),
                         "%s: xyz2blh(blh2xyz(b,l,h)) is %.3g m away from (b,l,h) (bound %.3g m)" % (
                             ent["id"], pos[j], tolr[j]),
                         dict(request=lines[off + j], reply=rep[off + j]))
        code = hb * 25 + lc * 5 + oc
        for c, cn in zip(*np.unique(code, return_counts=True)):
            ck.case(("ellipsoid", "blh", deftype, HBANDS[c // 25], LATC[(c // 5) % 5], LONC[c % 5]), int(cn))
        if i == n:
            ck.sample(dict(request=lines[off + 7], reply=rep[off + 7], position_error_m=float(pos[7])))
    ck.counters["ellipsoid_roundtrip_max_position_error_m"] = maxm
    ck.counters["ellipsoid_roundtrip_max_latitude_error_arcsec(lat not within 1e-6 of pole)"] = maxdb
    ck.counters["ellipsoid_antimeridian_sign_flips(l2=-l, same position)"] = wrapped
    ck.counters["xyz2blh_nan_results_in_blh_grid"] = nan_total

    # ---- XYZ requests: pole branch (x=y=0), equator (z=0), points next to the z-axis, general points
    lines, meta = [], []
    hs = [0.0, 1e-3, -1e-3, 1.0, -1.0, 1e3, -1e4, 1e5, 1e6, 1.2e7, 2e7]
    nrand = tier_n(tier, 20, 300)
    for i in range(1, n + 1):
        a, b = consts[i - 1]
        fa, fb = float(a), float(b)
        for h in hs:
            for s in (1, -1):
                lines.append("XYZ %d 0 0 %r" % (i, s * (fb + h))); meta.append((i, "pole-branch(x=y=0)", h))
            for lon in (0.0, hp, -hp, PI_D, 2.5, -0.7):
                x, y = (fa + h) * math.cos(lon), (fa + h) * math.sin(lon)
                if lon in (hp, -hp):
                    x = 0.0
                if lon == PI_D:
                    y = 0.0
                lines.append("XYZ %d %r %r 0" % (i, x, y)); meta.append((i, "equator(z=0)", h))
            for eps in (1e-9, 1e-6, 1e-3, 1.0):
                lines.append("XYZ %d %r %r %r" % (i, eps, -eps / 3, fb + h)); meta.append((i, "next-to-z-axis", h))
                lines.append("XYZ %d %r 0 %r" % (i, -eps, -(fb + h))); meta.append((i, "next-to-z-axis", h))
        for k_ in range(tier_n(tier, 150, 1500)):      # sweep of the distance from the polar axis, 1e-10 m .. 100 m
            dist = float(10 ** rng.uniform(-10, 2))
            h = 0.0 if k_ % 3 == 0 else float(10 ** rng.uniform(-3, math.log10(2e7)))
            lon = float(rng.uniform(-PI_D, PI_D))
            lines.append("XYZ %d %r %r %r" % (i, dist * math.cos(lon), dist * math.sin(lon), (fb + h) * (1 if k_ % 2 else -1)))
            meta.append((i, "next-to-z-axis", h))
        Br = rng.uniform(-hp, hp, nrand).astype(LD)
        Lr = rng.uniform(-PI_D, PI_D, nrand).astype(LD)
        Hr = np.concatenate([10 ** rng.uniform(-3, math.log10(2e7), nrand - nrand // 4),
                             -10 ** rng.uniform(-3, 4, nrand // 4)])
        xs, ys, zs = ref_xyz(a, b, Br, Lr, Hr.astype(LD))
        for x, y, z, h in zip(xs.astype(float).tolist(), ys.astype(float).tolist(), zs.astype(float).tolist(), Hr.tolist()):
            lines.append("XYZ %d %r %r %r" % (i, x, y, z)); meta.append((i, "general", h))
    rep = ask(ck, lines, "ellipsoid xyz", "ellipsoid:")
    if rep is None:
        return
    g = np.array(" ".join(rep).split(), dtype=float).reshape(len(lines), 6)
    xin = np.array([[float(t) for t in ln.split()[2:5]] for ln in lines])
    ids = np.array([m[0] for m in meta])
    hh = np.array([m[2] for m in meta])
    nan_axis = {}
    for i in range(1, n + 1):
        a, b = consts[i - 1]
        sel = np.nonzero(ids == i)[0]
        x2, y2, z2 = ref_xyz(a, b, g[sel, 0].astype(LD), g[sel, 1].astype(LD), g[sel, 2].astype(LD))
        pos = np.sqrt((x2 - xin[sel, 0].astype(LD)) ** 2 + (y2 - xin[sel, 1].astype(LD)) ** 2 +
                      (z2 - xin[sel, 2].astype(LD)) ** 2).astype(float)
        # gama's own way back (x2 y2 z2 of the reply) must also reproduce the input
        back = np.sqrt(((g[sel, 3:6] - xin[sel]) ** 2).sum(axis=1))
        tol = np.where(hh[sel] <= 2 * float(a), 1e-4, ARCSEC_0018 * (float(a) + np.abs(hh[sel])))
        for j_, j in enumerate(sel):
            kind = meta[j][1]
            band = HBANDS[int(hband(np.array(hh[j]), float(a)))]
            ck.case(("ellipsoid", "xyz", kind, band))
            if not np.isfinite(g[j]).all():
                axd = math.hypot(xin[j, 0], xin[j, 1])
                nearp = axd < 1e-6 * abs(xin[j, 2])
                if nearp:
                    e_ = nan_axis.setdefault(doc[i - 1]["id"], [0, 0.0, ""])
                    e_[0] += 1
                    if axd > e_[1]:
                        e_[1], e_[2] = axd, lines[j]
                ck.violation("ellipsoid:xyz2blh:nan:%s" % ("near-pole" if nearp else kind),
                             "%s: xyz2blh returns NaN for a point %.3g m from the polar axis" % (doc[i - 1]["id"], axd),
                             dict(request=lines[j], reply=rep[j]))
                continue
            r = max(pos[j_], back[j_]) / tol[j_]
            ck.ratio("xyz_roundtrip_" + kind, r, 1.0)
            if not r <= 1:
                ck.violation("ellipsoid:xyz2blh:%s:%s" % (kind, "h<=2a" if hh[j] <= 2 * float(a) else "h>2a"),
                             "%s: blh2xyz(xyz2blh(x,y,z)) is %.3g m (reference formula) / %.3g m (gama) away from (x,y,z)" % (
                                 doc[i - 1]["id"], pos[j_], back[j_]), dict(request=lines[j], reply=rep[j]))
            if kind.startswith("pole") and abs(g[j, 0]) != hp:
                ck.violation("ellipsoid:xyz2blh:pole-branch:latitude", "latitude on the axis is %r" % g[j, 0],
                             dict(request=lines[j], reply=rep[j]))
            if kind.startswith("equator") and abs(g[j, 0]) * float(a) > 1e-9:
                ck.violation("ellipsoid:xyz2blh:equator:latitude", "latitude for z=0 is %r" % g[j, 0],
                             dict(request=lines[j], reply=rep[j]))
    ck.counters["xyz2blh_nan_next_to_polar_axis{ellipsoid: [count, max distance from axis in m, request]}"] = nan_axis


# ---------------------------------------------------------------------------------------------
# (2) angle strings

def parse_dms_output(s, mode):
    """strict parser of the strings gon2deg/latitude print.  mode 0..3 = gon2deg's `sign`, 4 = latlong.
    Returns (neg, d, m, sec_int, frac_digits_str) or a string describing the format error."""
    if mode == 0:
        m = re.fullmatch(r" *()([0-9]+)-([0-9]{2})-([0-9]{2,3})(?:\.([0-9]+))?", s)
    elif mode == 1:
        m = re.fullmatch(r"([ -]) *([0-9]+)-([0-9]{2})-([0-9]{2,3})(?:\.([0-9]+))?", s)
    elif mode in (2, 4):
        m = re.fullmatch(r" *(-?)([0-9]+)-([0-9]{2})-([0-9]{2,3})(?:\.([0-9]+))?", s)
    else:
        m = re.fullmatch(r"(-?)([0-9]+)-([0-9]{2})-([0-9]{2,3})(?:\.([0-9]+))?", s)
    if not m:
        return "does not match the d-mm-ss[.f] layout of sign mode %d" % mode
    return (m.group(1) == "-", int(m.group(2)), int(m.group(3)), int(m.group(4)), m.group(5) or "")


def adversarial_degrees(tier, rng):
    """(degrees as longdouble) whose seconds/minutes round up at some precision 0..6"""
    out = []
    ds = [0, 1, 12, 59, 89, 90, 179, 180, 269, 359, 360, 719] if tier == "thorough" else [0, 12, 89, 179, 359, 360]
    ds = ds + [int(x) for x in rng.integers(0, 360, 2)]
    for p in range(7):
        u = 10.0 ** -p
        for d in ds:
            for m in (0, 1, 29, 58, 59):
                for s in (60 - 0.5 * u, 60 - 0.5 * u * (1 + 1e-7), 60 - 0.5 * u * (1 - 1e-7), 60 - 0.4 * u,
                          60 - 0.6 * u, 59.5, 59.9999999999, 0.0, 0.5 * u, 0.5 * u * (1 - 1e-7), 29.5, 59.0):
                    out.append(LD(d) + LD(m) / 60 + LD(s) / 3600)
    return out


def check_printed(ck, fn, reqs, reps, raw, true_units, modes, precs, back_scale):
    """Common oracle for gon2deg / rad2deg_str / latitude / longitude.
    true_units[k]: |input| in arc seconds (longdouble); returns the D2G requests for the parse-back test."""
    back = []
    n60 = 0
    expect_neg = [x < 0 for x in raw]
    for k, (req, s) in enumerate(zip(reqs, reps)):
        mode, p = modes[k], precs[k]
        tag = "sign=%d" % mode if mode < 4 else "latlong"
        T = true_units[k] * LD(10) ** p                    # in units of the last printed digit
        sec_true = float(true_units[k] % 60)
        carry = "plain"
        if sec_true >= 60 - 0.5 * 10.0 ** -p:
            carry = "seconds-round-up-to-60"
            if int(true_units[k] // 60) % 60 == 59:
                carry = "seconds-and-minutes-round-up"
        ck.case(("angles", fn, tag, "prec=%d" % p, "neg" if expect_neg[k] else "nonneg", carry))
        wit = dict(request=req, reply="[" + s + "]")
        r = parse_dms_output(s, mode)
        if isinstance(r, str):
            if raw[k] == 0 and math.copysign(1.0, raw[k]) < 0:
                ck.violation("angles:%s:format:negative-zero" % fn, "for the input -0.0 %s prints '%s'" % (fn, s), wit)
            else:
                ck.violation("angles:%s:format:%s:prec=%d" % (fn, tag, p), "printed '%s' %s" % (s, r), wit)
            continue
        neg, d, mi, si, frs = r
        if len(frs) != p:
            ck.violation("angles:%s:format:fraction-digits:prec=%d" % (fn, p),
                         "printed '%s' has %d fraction digits" % (s, len(frs)), wit)
            continue
        if len(str(si)) > 2 or (p > 0 and len(s.rsplit("-", 1)[1].split(".")[0]) != 2):
            ck.violation("angles:%s:format:seconds-width:prec=%d" % (fn, p), "printed '%s'" % s, wit)
            continue
        if p == 0 and len(s.rsplit("-", 1)[1]) == 3:
            ck.count("angles_prec0_seconds_printed_with_3_digits(e.g. 4-02-060)")
        U = ((d * 60 + mi) * 60 + si) * 10 ** p + (int(frs) if frs else 0)
        # field ranges as printed
        bad_field = False
        if mi >= 60:
            ck.violation("angles:%s:minutes-field-out-of-range:prec=%d" % (fn, p), "printed '%s'" % s, wit)
            bad_field = True
        sec_units = si * 10 ** p + (int(frs) if frs else 0)
        if sec_units == 60 * 10 ** p:
            n60 += 1
            ck.violation("angles:%s:seconds-field-60:prec=%d" % (fn, p),
                         "%s prints the seconds field as 60: '%s' (should carry into minutes/degrees)" % (fn, s), wit)
            bad_field = True
        elif sec_units > 60 * 10 ** p:
            ck.violation("angles:%s:seconds-field-out-of-range:prec=%d" % (fn, p), "printed '%s'" % s, wit)
            bad_field = True
        # value within half a unit of the last printed digit (+ floating-point slack of gama's few operations)
        err = float(abs(LD(U) - T))
        tol = 0.5 + max(0.01, 8e-16 * float(T))
        if BREAK == "angle-value":
            tol = 0.25
        ck.ratio("printed_value_" + fn, err, tol)
        if err > tol:
            ck.violation("angles:%s:value:prec=%d" % (fn, p),
                         "printed '%s' is %.4g units of the last digit away from the input" % (s, err), wit)
            continue
        # sign
        if mode != 0:
            if U != 0 and neg != expect_neg[k]:       # a value that prints as zero may carry either sign
                ck.violation("angles:%s:sign:%s" % (fn, tag), "printed '%s' for a %s input" % (
                    s, "negative" if expect_neg[k] else "non-negative"), wit)
                continue
        elif neg:
            ck.violation("angles:%s:sign:%s" % (fn, tag), "sign printed in unsigned mode: '%s'" % s, wit)
        if not bad_field:
            t = s.strip(" ")
            if mode == 1:
                t = t.replace(" ", "")          # 'sign left-padded' is a table layout: padding removed
            sgn = -1.0 if (neg and mode != 0) else 1.0
            back.append((k, "D2G " + esc(t), sgn * U / 10.0 ** p / 3600.0 * back_scale, 0.5 * 10.0 ** -p / 3600.0 * back_scale, s))
    return back


def sub_angles(ck, tier, rng):
    # ---------------- gon2deg / rad2deg_str
    adv = adversarial_degrees(tier, rng)
    nr = tier_n(tier, 1500, 20000)
    rnd = [LD(x) for x in rng.uniform(0, 360, nr)] + [LD(x) for x in 10 ** rng.uniform(-9, 0, nr // 10)] + \
          [LD(x) for x in rng.uniform(360, 3600, nr // 10)] + [LD(0), LD(360), LD(359.99999999999), LD(90), LD(1) / 3600]
    # a few readable witnesses first: 12-34-59.6, 12-34-59.96, ... print as 12-34-60[.0...]
    canon = [LD(12) + LD(34) / 60 + (60 - LD(4) / 10 * LD(10) ** -p) / 3600 for p in (2, 0, 1, 3, 4, 5, 6)]
    canon += [LD(359) + LD(59) / 60 + (60 - LD(4) / 10 * LD(10) ** -2) / 3600]
    degs = canon + adv + rnd
    gons = []
    for i, dg in enumerate(degs):
        g = float(dg / LD("0.9"))
        gons.append(g)
        gons.append(-g)
    cg = [float(dg / LD("0.9")) for dg in canon]
    gons = cg + sorted(set(gons) - set(cg), key=lambda v: (abs(v), v)) + [-0.0]
    combos = [(m, p) for m in range(4) for p in range(7)]
    reqs, modes, precs, vals = [], [], [], []
    for j, g in enumerate(gons):
        cs = combos if (tier == "thorough" or j % 4 == 0 or j < len(cg)) else [combos[(j * 5 + t * 11) % 28] for t in range(7)]
        for (m, p) in cs:
            reqs.append("G2D %r %d %d" % (g, m, p)); modes.append(m); precs.append(p); vals.append(g)
    reps = ask(ck, reqs, "gon2deg", "angles:gon2deg:")
    if reps is not None:
        reps = [unbr(x) for x in reps]
        v = np.array(vals)
        tu = np.abs(v).astype(LD) * LD("0.9") * 3600
        back = check_printed(ck, "gon2deg", reqs, reps, vals, tu, modes, precs, 1 / 0.9)
        ck.sample(dict(request=reqs[len(reqs) // 2], reply=reps[len(reqs) // 2]))
        _parse_back(ck, "gon2deg", back, reqs)

    rads = [float(LD(g) * PI_LD / 200) for g in gons[::3]] + [-0.0]
    reqs, modes, precs, vals = [], [], [], []
    for j, r in enumerate(rads):
        cs = combos if (tier == "thorough" or j < 3) else [combos[(j * 5 + t * 11) % 28] for t in range(5)]
        for (m, p) in cs:
            reqs.append("R2D %r %d %d" % (r, m, p)); modes.append(m); precs.append(p); vals.append(r)
    reps = ask(ck, reqs, "rad2deg_str", "angles:rad2deg_str:")
    if reps is not None:
        reps = [unbr(x) for x in reps]
        v = np.array(vals)
        tu = np.abs(v).astype(LD) * 648000 / PI_LD
        back = check_printed(ck, "rad2deg_str", reqs, reps, vals, tu, modes, precs, 1 / 0.9)
        _parse_back(ck, "rad2deg_str", back, reqs)

    # ---------------- latitude / longitude strings
    lrad = [float(dg * PI_LD / 180) for dg in degs if dg <= 360]
    lrad = [x for x in lrad[::2] if x != 0] + [-x for x in lrad[1::2] if x <= PI_D and x != 0] + [0.0, -0.0]
    reqs, precs, vals = [], [], []
    for j, r in enumerate(lrad):
        for p in ([0, 1, 2, 3, 4, 5, 6, 7, 8] if (tier == "thorough" or j < 4) else [(j + t * 4) % 9 for t in range(3)]):
            reqs.append("LAT %r %d" % (r, p)); precs.append(p); vals.append(r)
    reps = ask(ck, reqs, "latitude/longitude", "angles:latlong:")
    if reps is not None:
        v = np.array(vals)
        tu = np.abs(v).astype(LD) * 648000 / PI_LD
        la = []
        for req, x in zip(reqs, reps):
            m = re.fullmatch(r"(\[.*?\]) (\[.*?\])", x)
            la.append(unbr(m.group(1)))
            if m.group(1) != m.group(2):
                ck.violation("angles:latlong:latitude-longitude-differ", "latitude() and longitude() print different strings",
                             dict(request=req, reply=x))
        # latitude() and longitude() are one function (latlong); the latitude string is judged
        back = check_printed(ck, "latlong", reqs, la, vals, tu, [4] * len(reqs), precs, 1 / 0.9)
        _parse_back(ck, "latlong", back, reqs)

    # ---------------- deg2gon on generated valid strings [+-]d-m-s[.fff]
    nv = tier_n(tier, 5000, 100000)
    reqs, exp, strs = [], [], []
    for k in range(nv):
        d = int(rng.integers(0, 400)) if k % 7 else int(rng.integers(0, 2 ** 31 - 1) if k % 14 else 0)
        mi = int(rng.integers(0, 60)) if k % 5 else int(rng.choice([0, 59]))
        si = int(rng.integers(0, 60)) if k % 3 else int(rng.choice([0, 59]))
        nf = int(rng.integers(0, 9))
        frac = "".join(str(int(c)) for c in rng.integers(0, 10, nf))
        sg = ["", "+", "-"][int(rng.integers(0, 3))]
        ds_ = ("%d" % d) if k % 11 else ("%03d" % d)
        ms_ = ("%d" % mi) if k % 2 else ("%02d" % mi)
        ss_ = ("%d" % si) if k % 4 == 1 else ("%02d" % si)
        s = sg + ds_ + "-" + ms_ + "-" + ss_ + ("." + frac if nf else "")
        pad = [("", ""), (" ", ""), ("", "  "), ("\t", "\n"), (" \r\n", " ")][int(rng.integers(0, 5))] if k % 6 == 0 else ("", "")
        full = pad[0] + s + pad[1]
        val = (Fraction(d) + Fraction(mi, 60) + Fraction(ss_ + ("." + frac if nf else "")) / 3600) * Fraction(10, 9)
        if sg == "-":
            val = -val
        reqs.append("D2G " + esc(full)); exp.append(float(val)); strs.append(full)
        ck.case(("angles", "deg2gon", "valid-string", "sign='%s'" % sg, "fraction-digits=%d" % nf,
                 "padded" if pad != ("", "") else "bare"))
    reps = ask(ck, reqs, "deg2gon valid strings", "angles:deg2gon:")
    if reps is not None:
        for req, rep, e, s in zip(reqs, reps, exp, strs):
            ok, val = rep.split()
            if ok != "1":
                ck.violation("angles:deg2gon:rejects:valid-d-m-s", "deg2gon refuses the documented form %r" % s,
                             dict(request=req, reply=rep))
                continue
            val = float(val)
            tol = 8e-16 * max(abs(e), 1e-300)
            if BREAK == "deg2gon-value":
                e = e * (1 + 1e-12)
            ck.ratio("deg2gon_value_rel", abs(val - e), tol if tol > 0 else 1e-300)
            if abs(val - e) > tol:
                ck.violation("angles:deg2gon:value", "deg2gon(%r) = %.17g, expected %.17g" % (s, val, e),
                             dict(request=req, reply=rep))
        ck.sample(dict(request=reqs[3], reply=reps[3], expected_gon=exp[3]))

    # ---------------- dms2rad / rad2dms (format d.mmss as a double)
    sub_dms(ck, tier, rng, degs)


def _parse_back(ck, fn, back, reqs):
    if not back:
        return
    lines = [b[1] for b in back]
    reps = ask(ck, lines, "deg2gon(" + fn + " output)", "angles:deg2gon:")
    if reps is None:
        return
    for (k, line, expv, half, s), rep in zip(back, reps):
        ok, val = rep.split()
        ck.case(("angles", "deg2gon(%s output)" % fn))
        if ok != "1":
            ck.violation("angles:roundtrip:deg2gon-refuses-%s-output" % fn,
                         "deg2gon refuses '%s' printed by %s" % (s, fn), dict(request=line, reply=rep, printed_by=reqs[k]))
            continue
        err = abs(float(val) - expv)
        tol = 1e-3 * half + 2e-15 * abs(expv)          # the printed value itself must come back (to rounding)
        ck.ratio("parse_back_" + fn, err, tol)
        if err > tol:
            ck.violation("angles:roundtrip:deg2gon(%s):value" % fn,
                         "deg2gon('%s') = %s gon, the printed value is %.17g gon" % (s, val, expv),
                         dict(request=line, reply=rep, printed_by=reqs[k]))


def decode_dmmss(x):
    """robust reference decoder of a d.mmss double (tolerant to representation error): -> degrees (longdouble), m, s"""
    X = LD(abs(x))
    d = np.floor(X + LD("5e-11"))
    r = (X - d) * 100
    m = np.floor(r + LD("5e-9"))
    s = (r - m) * 100
    return d + m / 60 + s / 3600, float(m), float(s)


def sub_dms(ck, tier, rng, degs):
    TOL = 5e-13                      # rad = 1e-7'': conditioning of the d.mmss encoding at 360 (ulp*1e4'' = 6e-10'')
    twopi = 2 * PI_LD
    # dms2rad on d.mmss literals built from valid fields
    n = tier_n(tier, 4000, 60000)
    reqs, exp, cls = [], [], []
    for k in range(n):
        d = int(rng.integers(0, 360))
        mi = int(rng.integers(0, 60)) if k % 4 else int(rng.choice([0, 1, 30, 59]))
        si = int(rng.integers(0, 60)) if k % 3 else 0
        nf = int(rng.integers(0, 7)) if (k % 3 and k % 5) else 0
        frac = "".join(str(int(c)) for c in rng.integers(0, 10, nf))
        neg = (k % 9 == 0)
        if k == 0:
            d, mi, si, frac, neg = 12, 34, 0, "", False          # readable witness: 12.34 = 12 deg 34 min
        lit = "%d.%02d%02d%s" % (d, mi, si, frac)
        x = float(lit)
        val = (Fraction(d) + Fraction(mi, 60) + Fraction("%d.%s" % (si, frac or "0")) / 3600) * PI_F / 180
        if neg:
            x, val = -x, -val
        val = val % (2 * PI_F)
        reqs.append("DMS2RAD %r" % x); exp.append(float(val))
        c = "whole-degree" if (mi == 0 and si == 0 and not frac.strip("0")) else (
            "whole-minute" if (si == 0 and not frac.strip("0")) else "general")
        cls.append(c)
        ck.case(("angles", "dms2rad", c, "neg" if neg else "nonneg"))
    reps = ask(ck, reqs, "dms2rad", "angles:dms2rad:")
    nbad = 0
    if reps is not None:
        for req, rep, e, c in zip(reqs, reps, exp, cls):
            v = float(rep)
            err = abs(v - e)
            err = min(err, abs(err - 2 * PI_D))
            if BREAK == "dms2rad" and c == "general":
                err += 1e-12
            if c != "whole-minute":
                ck.ratio("dms2rad_abs(general and whole-degree inputs)", err, TOL)
            if not (0 <= v < 2 * PI_D + 1e-15):
                ck.violation("angles:dms2rad:range", "dms2rad result %r outside [0,2pi)" % v, dict(request=req, reply=rep))
            if err > TOL:
                nbad += 1
                ck.violation("angles:dms2rad:wrong-value:%s-input" % c,
                             "dms2rad(%s) = %.15g rad, the angle is %.15g rad (error %.3g'')" % (
                                 req.split()[1], v, e, err * 180 / PI_D * 3600), dict(request=req, reply=rep))
        ck.counters["dms2rad_wrong_values"] = nbad
        ck.sample(dict(request=reqs[1], reply=reps[1], expected_rad=exp[1]))
    # rad2dms on [0,2pi), negatives, >= 2pi; and back through dms2rad
    rads = [float(dg * PI_LD / 180) for dg in degs[::2] if dg < 360] + rng.uniform(0, 2 * PI_D, tier_n(tier, 2000, 30000)).tolist()
    rads += [-r for r in rads[::5]] + [r + 2 * PI_D for r in rads[::7]] + [0.0, 2 * PI_D, math.nextafter(2 * PI_D, 0),
                                                                                -1e-18, -1e-12, 1e-18]
    reqs = ["RAD2DMS %r" % r for r in rads]
    reps = ask(ck, reqs, "rad2dms", "angles:rad2dms:")
    if reps is None:
        return
    back, bexp = [], []
    for req, rep, r in zip(reqs, reps, rads):
        x = float(rep)
        if x == 360.0:            # tiny negative input + 360 rounds to 360.0: same angle as 0, counted not judged
            ck.count("rad2dms_returns_360.0(for a tiny negative angle; equals 0 mod 360)")
            x = 0.0
        dec, m, s = decode_dmmss(x)
        true = (LD(r) % twopi) * 180 / PI_LD
        err = float(abs(dec - true)) * 3600
        err = min(err, abs(err - 360 * 3600))
        klass = "in[0,2pi)" if 0 <= r < 2 * PI_D else ("negative" if r < 0 else ">=2pi")
        ck.case(("angles", "rad2dms", klass))
        ck.ratio("rad2dms_arcsec", err, 1e-7)
        wit = dict(request=req, reply=rep)
        if not (0 <= x < 360) or m > 59 or not (-1e-6 <= s < 60 + 1e-6):
            ck.violation("angles:rad2dms:field-range", "rad2dms(%r) = %r: fields d=%d m=%d s=%.9g" % (r, x, int(x), m, s), wit)
        elif err > 1e-7:
            ck.violation("angles:rad2dms:value:" + klass, "rad2dms(%r) = %r decodes to %.12g deg, the angle is %.12g deg" % (
                r, x, float(dec), float(true)), wit)
        else:
            back.append("DMS2RAD %r" % x); bexp.append((float(LD(r) % twopi), r, x, s))
    reps = ask(ck, back, "dms2rad(rad2dms)", "angles:dms2rad:")
    if reps is None:
        return
    nb = 0
    for req, rep, (e, r, x, s) in zip(back, reps, bexp):
        v = float(rep)
        err = abs(v - e)
        err = min(err, abs(err - 2 * PI_D))
        near = (s < 1e-6 or s > 60 - 1e-6)
        ck.case(("angles", "dms2rad(rad2dms)", "seconds-within-1e-6-of-whole-minute" if near else "general"))
        if not near:
            ck.ratio("dms_roundtrip_abs(general)", err, TOL)
        if err > TOL:
            nb += 1
            ck.violation("angles:dms2rad:%s" % ("wrong-value:whole-minute-input" if near else "roundtrip:general"),
                         "dms2rad(rad2dms(%r)=%r) = %.15g rad, expected %.15g (error %.3g'')" % (
                             r, x, v, e, err * 180 / PI_D * 3600), dict(request=req, reply=rep, rad=r))
    ck.counters["dms_roundtrip_wrong_values"] = nb


# ---------------------------------------------------------------------------------------------
# (3) literal recognisers, exhaustive

ALPHA_A = "01.eE+- x"
ALPHA_B = "0159-+. e"
RX_FLOAT = re.compile(r"[ \t\r\n]*[+-]?(?:[0-9]+(?:\.[0-9]*)?|\.[0-9]+)(?:[eE][+-]?[0-9]+)?[ \t\r\n]*")
RX_INT = re.compile(r"[ \t\r\n]*[+-]?[0-9]+[ \t\r\n]*")
RX_IDX = re.compile(r"[ \t\r\n]*[0-9]+[ \t\r\n]*")
# documented: "degrees (57), minutes (32) and seconds (28.428) are separated by dashes (-) with optional
# leading sign. Spaces are not allowed inside the string."
RX_DMS_MUST = re.compile(r"[ \t\r\n]*([+-]?)([0-9]+)-([0-9]+)-([0-9]+(?:\.[0-9]+)?)[ \t\r\n]*")
# tolerated superset (DESIGN C18): the seconds field read as a C++ floating literal that starts with a digit
RX_DMS_MAY = re.compile(r"[ \t\r\n]*([+-]?)([0-9]+)-([0-9]+)-([0-9]+\.?[0-9]*(?:[eE][+-]?[0-9]+)?)[ \t\r\n]*")
if BREAK == "lit-float":
    RX_FLOAT = re.compile(r"[ \t\r\n]*[+-]?(?:[0-9]+(?:\.[0-9]+)?|\.[0-9]+)(?:[eE][+-]?[0-9]+)?[ \t\r\n]*")
if BREAK == "lit-dms":
    RX_DMS_MAY = RX_DMS_MUST


def shape(s):
    out, prev = [], None
    for ch in s:
        c = "d" if ch in "0123456789" else "_" if ch in WS else "e" if ch in "eE" else ch if ch in "+-." else "x"
        if c in "d_" and c == prev:
            continue
        out.append(c)
        prev = c
    return "".join(out)


def klass_int(s):
    t = s.strip(WS)
    return "sign-without-digits" if t in ("+", "-") else "shape=" + shape(s)


def klass_dms(s):
    t = s.strip(WS)
    if t[:1] in ("+", "-"):
        r = t[1:]
        if r[:1] in tuple(WS):
            return "blank-after-sign"
        if r[:1] in ("+", "-"):
            return "double-sign"
    return "shape=" + shape(s)


class Acc:
    """picklable result of a literal job"""

    def __init__(self):
        self.n = 0
        self.classes = {}
        self.viol = {}        # key -> [what, witness, count]
        self.counters = {}
        self.ratio = {}
        self.fail = None

    def cls(self, c, n=1):
        self.classes[c] = self.classes.get(c, 0) + n

    def v(self, key, what, wit):
        if key in self.viol:
            self.viol[key][2] += 1
        else:
            self.viol[key] = [what, wit, 1]

    def cnt(self, k, n=1):
        self.counters[k] = self.counters.get(k, 0) + n


def _dms_ref(m):
    d, mi, sec = int(m.group(2)), int(m.group(3)), float(m.group(4))
    v = (d + mi / 60.0 + sec / 3600.0) / 0.9
    return (-v if (m.group(1) == "-" and v) else v), mi, sec


def _judge_A(acc, s, lit, idx, req):
    L = "len=%d" % len(s)
    isf, isi, okd, dv, oki, iv = lit.split()
    wit = dict(request=req, reply=lit, string=s)
    rf = RX_FLOAT.fullmatch(s) is not None
    ri = RX_INT.fullmatch(s) is not None
    t = s.strip(WS)
    for fn, got in (("IsFloat", isf == "1"), ("toDouble", okd == "1")):
        if got and not rf:
            acc.v("literal:%s:accepts:shape=%s" % (fn, shape(s)), "%s accepts %r, not a documented float literal" % (fn, s), wit)
        elif rf and not got:
            if fn == "toDouble" and math.isinf(float(t)):
                # a literal of the documented form whose value no double can hold: toDouble() refuses it (a
                # coordinate 'inf' cannot be adjusted; C11 demands the refusal), IsFloat() still recognises the form
                acc.cnt("float_literals_overflowing_double(refused by toDouble)")
                continue
            acc.v("literal:%s:rejects:shape=%s" % (fn, shape(s)), "%s refuses the valid literal %r" % (fn, s), wit)
    for fn, got in (("IsInteger", isi == "1"), ("toInteger", oki == "1")):
        if got and not ri:
            acc.v("literal:%s:accepts:%s" % (fn, klass_int(s)), "%s accepts %r, not an integer literal" % (fn, s), wit)
        elif ri and not got:
            acc.v("literal:%s:rejects:shape=%s" % (fn, shape(s)), "%s refuses the valid literal %r" % (fn, s), wit)
    if rf and okd == "1":
        ref = float(t)
        got = float(dv)
        if not (got == ref or (got != got and ref != ref)):
            acc.v("literal:toDouble:value:shape=%s" % shape(s), "toDouble(%r) = %s, expected %r" % (s, dv, ref), wit)
        if math.isinf(ref):
            acc.cnt("float_literals_overflowing_to_inf(accepted, value inf = reference)")
    if ri and oki == "1":
        ref = int(t)
        if -2 ** 31 <= ref < 2 ** 31:
            if int(iv) != ref:
                acc.v("literal:toInteger:value:shape=%s" % shape(s), "toInteger(%r) = %s, expected %d" % (s, iv, ref), wit)
        elif int(iv) != ref:
            acc.v("literal:toInteger:value:int-overflow", "toInteger(%r) returns true with value %s" % (s, iv), wit)
    acc.cls("literal/recognisers/%s/%s" % (L, "float+int" if (rf and ri) else "float" if rf else "neither"))
    if idx is not None:
        ok, xv = idx.split()
        rx = RX_IDX.fullmatch(s) is not None
        wit = dict(request="IDX " + req.split(" ", 1)[1], reply=idx, string=s)
        if ok == "1" and not rx:
            acc.v("literal:toIndex:accepts:shape=%s" % shape(s), "toIndex accepts %r" % s, wit)
        elif rx and ok != "1":
            acc.v("literal:toIndex:rejects:shape=%s" % shape(s), "toIndex refuses %r" % s, wit)
        elif rx and int(xv) != int(t):
            acc.v("literal:toIndex:value", "toIndex(%r) = %s" % (s, xv), wit)
        acc.cls("literal/toIndex/%s/%s" % (L, "index" if rx else "not-index"))
    acc.n += 1 + (idx is not None)


def _judge_B(acc, s, rep, req):
    ok, val = rep.split()
    ok = ok == "1"
    wit = dict(request=req, reply=rep, string=s)
    must = RX_DMS_MUST.fullmatch(s)
    may = must or RX_DMS_MAY.fullmatch(s)
    L = "len=%d" % len(s)
    if ok and not may:
        acc.v("literal:deg2gon:accepts:%s" % klass_dms(s),
              "deg2gon accepts %r (= %s gon), which is not of the documented form [+-]d-m-s[.f]" % (s, val), wit)
        acc.cls("literal/deg2gon/%s/accepted-undocumented" % L)
    elif must and not ok:
        ref, mi, sec = _dms_ref(must)
        if mi >= 60 or sec >= 60:
            acc.cnt("deg2gon_refuses_minutes_or_seconds>=60")
        else:
            acc.v("literal:deg2gon:rejects:shape=%s" % shape(s), "deg2gon refuses the documented form %r" % s, wit)
    elif ok:
        ref, mi, sec = _dms_ref(may)
        if not abs(float(val) - ref) <= 4e-15 * abs(ref):
            acc.v("literal:deg2gon:value:shape=%s" % shape(s), "deg2gon(%r) = %s, expected %.17g" % (s, val, ref), wit)
        if not must:
            acc.cnt("deg2gon_accepts_tolerated_superset(seconds with exponent or trailing dot)")
        if mi >= 60 or sec >= 60:
            acc.cnt("deg2gon_accepts_minutes_or_seconds>=60(measured, not judged)")
            if STRICT_INPUT_FIELD_RANGE:
                acc.v("literal:deg2gon:accepts:field>=60", "deg2gon accepts %r" % s, wit)
        acc.cls("literal/deg2gon/%s/%s" % (L, "documented" if must else "tolerated-superset"))
    else:
        acc.cls("literal/deg2gon/%s/refused" % L)
    acc.n += 1


def _lit_job(job):
    """job = (kind 'A'|'B', [strings]) -> Acc.  Top-level so that it can run in a process pool."""
    kind, prefixes, alpha, k = job
    acc = Acc()
    strs = []
    for pre in prefixes:
        if k == 0:
            strs.append(pre)
        else:
            strs.extend(pre + "".join(t) for t in itertools.product(alpha, repeat=k))
    if kind == "A":
        lines = []
        for s in strs:
            e = esc(s)
            lines.append("LIT " + e)
            lines.append("IDX " + e)
    else:
        lines = ["D2G " + esc(s) for s in strs]
    rr = _run_lines(lines)
    if _bad(rr, len(lines)):
        line, r1 = _first_culprit(lines)
        acc.fail = dict(request=line, san=r1.san, rc=r1.rc, timeout=r1.timeout, err=(r1.err or "")[-600:],
                        batch_rc=rr.rc, batch_san=rr.san)
        return acc
    rep = rr.out.split("\n")
    if kind == "A":
        for i, s in enumerate(strs):
            _judge_A(acc, s, rep[2 * i], rep[2 * i + 1], lines[2 * i])
    else:
        for i, s in enumerate(strs):
            _judge_B(acc, s, rep[i], lines[i])
    return acc


def _merge(ck, acc, stage):
    if acc.fail:
        f = acc.fail
        san = f["san"] or f["batch_san"]
        if san:
            ck.violation("literal:" + san["key"], "sanitizer report " + san["kind"],
                         dict(stage=stage, request=f["request"], stderr=f["err"]))
            ck.inconc("batch aborted by sanitizer report: " + stage)
            return
        raise runner.HarnessError("libdrv failed in %s: %s" % (stage, f))
    ck.evaluations += acc.n
    for c, n in acc.classes.items():
        ck.cls(c, n)
    for k, n in acc.counters.items():
        ck.count(k, n)
    for key, (what, wit, n) in acc.viol.items():
        ck.counters["violating_strings:" + key] = ck.counters.get("violating_strings:" + key, 0) + n
        ck.violation(key, what, wit)


def sub_literals(ck, tier, rng):
    maxlen = tier_n(tier, 7, 8)
    suffix = 5
    jobs = []
    for kind, alpha in (("A", ALPHA_A), ("B", ALPHA_B)):
        small = []
        for n in range(0, min(maxlen, suffix) + 1):
            small.extend("".join(t) for t in itertools.product(alpha, repeat=n))
        for i in range(0, len(small), 20000):
            jobs.append((kind, small[i:i + 20000], alpha, 0))
        for n in range(suffix + 1, maxlen + 1):
            for pre in itertools.product(alpha, repeat=n - suffix):
                jobs.append((kind, ["".join(pre)], alpha, suffix))
    total = sum(9 ** n for n in range(maxlen + 1))
    res = runner.pmap_proc(_lit_job, jobs)
    for job, acc in zip(jobs, res):
        _merge(ck, acc, "exhaustive literals " + job[0])
    ck.counters["exhaustive_strings_per_alphabet"] = total
    ck.counters["exhaustive_alphabets"] = [ALPHA_A, ALPHA_B]
    ck.counters["exhaustive_max_length"] = maxlen

    # hand-written strings outside the two alphabets
    extra = ["\t1\n", "\r\n 1.5e3 \t", "+ +1-2-3", "- -1-2-3", "-+1-2-3", "+-1-2-3", "1-2-3-4", "1--2-3", "1-2--3", "1- 2-3",
             "1 -2-3", "1-2-3 4", "0x10", "0x1p3", "1e5L", "1d5", "1f", "1,5", "INF", "-INF", "NaN", "inf", "nan",
             "infinity", "1e", "1e+", "1.e1", ".e1", "..1", "1..", "+.1", "-.1e-1", "1_0", "\xb2", "\xe9", "1\xa0", "\xa01",
             "57-32-28.428", "-57-32-28.428", "+57-32-28.428", " 57-32-28.428 ", "57-32-28,428", "57:32:28.428",
             "57-32", "57", "57-32-28.428e0", "1-2-3.", "1-2-.5", "1-2-3e", "1-2-3e+", "1-2-0x3", "1-2-inf", "1-2-nan",
             "400-0-0", "0-0-0", "-0-0-0", "00012-05-07.5", "2147483647-0-0", "2147483647", "-2147483648", "0000000012",
             "123456789", "1e308", "1e-320", "4.9e-324", "1.7976931348623157e308", "0.1", "12345678901234567890.5"]
    lines = []
    for s in extra:
        lines.append("LIT " + esc(s)); lines.append("IDX " + esc(s)); lines.append("D2G " + esc(s))
    rep = ask(ck, lines, "hand-written literals", "literal:")
    if rep is not None:
        acc = Acc()
        for i, s in enumerate(extra):
            _judge_A(acc, s, rep[3 * i], rep[3 * i + 1], lines[3 * i])
            _judge_B(acc, s, rep[3 * i + 2], lines[3 * i + 2])
        _merge(ck, acc, "hand-written literals")
        ck.sample(dict(request=lines[0], reply=rep[0]))

    # huge values: one process per request because float->int conversion out of range is undefined behaviour
    huge = ["2147483647", "2147483648", "99999999999", "4294967297", "1" + "0" * 30, "9" * 72, "-99999999999"]
    reqs = ["IDX " + esc(s) for s in huge] + ["LIT " + esc(s) for s in huge]
    rrs = runner.pmap(lambda ln: _run_lines([ln], timeout=60), reqs)
    for ln, rr in zip(reqs, rrs):
        fn = "toIndex" if ln.startswith("IDX") else "toInteger"
        s = ln.split()[1]
        ck.case(("literal", fn, "huge-value", "digits=%d" % len(s.lstrip("-"))))
        wit = dict(request=ln, reply=rr.out.strip(), stderr=(rr.err or "")[:400])
        if ck.sanitizer(rr, wit, prefix="literal:%s:" % fn):
            continue
        if rr.timeout or rr.rc != 0:
            raise runner.HarnessError("libdrv failed on %s" % ln)
        f = rr.out.split()
        ok, val = (f[0], f[1]) if fn == "toIndex" else (f[4], f[5])
        ref = int(s)
        accept_ref = (RX_IDX if fn == "toIndex" else RX_INT).fullmatch(s) is not None
        if ok == "1" and accept_ref and int(val) != ref:
            ck.violation("literal:%s:value:int-overflow" % fn,
                         "%s(\"%s\") returns true with the value %s" % (fn, s, val), wit)


# ---------------------------------------------------------------------------------------------
# (4) bearing / distance

def sub_bearing(ck, tier, rng):
    n = tier_n(tier, 20000, 400000)
    ya = rng.uniform(-7e6, 7e6, n)
    xa = rng.uniform(-7e6, 7e6, n)
    small = rng.random(n) < 0.3
    ya[small] = rng.uniform(-1e3, 1e3, small.sum()); xa[small] = rng.uniform(-1e3, 1e3, small.sum())
    d = 10 ** rng.uniform(-3, 5, n)
    az = rng.uniform(0, 2 * PI_D, n)
    k = np.arange(n) % 10
    az[k == 0] = np.round(az[k == 0] / (PI_D / 2)) * (PI_D / 2)
    dx, dy = d * np.cos(az), d * np.sin(az)
    ax_ = np.round(az / (PI_D / 2)).astype(int) % 4
    dx[(k == 0) & (ax_ % 2 == 1)] = 0.0          # exactly on an axis
    dy[(k == 0) & (ax_ % 2 == 0)] = 0.0
    tiny = k == 1                                 # bearing just below 2pi / just above 0 / around pi
    dy[tiny] = rng.choice([-1.0, 1.0], tiny.sum()) * 10 ** rng.uniform(-16, -9, tiny.sum()) * d[tiny]
    dx[tiny] = rng.choice([-1.0, 1.0], tiny.sum()) * d[tiny]
    orig = tiny & (np.arange(n) % 20 == 1)
    ya[orig] = 0.0; xa[orig] = 0.0
    yb, xb = ya + dy, xa + dx
    close = np.arange(n) % 97 == 5
    yb[close] = ya[close] + rng.uniform(-5e-7, 5e-7, close.sum()); xb[close] = xa[close] + rng.uniform(-5e-7, 5e-7, close.sum())
    reqs = []
    ya_, xa_, yb_, xb_ = ya.tolist(), xa.tolist(), yb.tolist(), xb.tolist()
    for i in range(n):
        reqs.append("BD %r %r %r %r" % (ya_[i], xa_[i], yb_[i], xb_[i]))
        reqs.append("BD %r %r %r %r" % (yb_[i], xb_[i], ya_[i], xa_[i]))
    rep = ask(ck, reqs, "bearing_distance", "bearing:")
    if rep is None:
        return
    g = np.array(" ".join(rep).split(), dtype=float).reshape(n, 2, 7)
    DY = yb.astype(LD) - ya.astype(LD)
    DX = xb.astype(LD) - xa.astype(LD)
    D = np.sqrt(DY * DY + DX * DX)
    BR = np.arctan2(DY, DX)
    BR = np.where(BR < 0, BR + 2 * PI_LD, BR)
    Df = D.astype(float)
    coinc = Df < 1e-6 * (1 - 1e-9)
    border = (~coinc) & (Df < 1e-6 * (1 + 1e-9))
    ok = ~(coinc | border)
    ab, ba = g[:, 0, :], g[:, 1, :]
    twopi = 2 * PI_D
    if BREAK == "bearing":
        ab = ab.copy(); ab[:, 0] += 1e-9
    quad = np.where(DX == 0, np.where(DY > 0, "axis+y", "axis-y"),
                    np.where(DY == 0, np.where(DX > 0, "axis+x", "axis-x"),
                             np.where(DX > 0, np.where(DY > 0, "Q1", "Q4"), np.where(DY > 0, "Q2", "Q3"))))
    dec = np.floor(np.log10(np.maximum(Df, 1e-30))).astype(int)

    def report(mask, key, what):
        idx = np.nonzero(mask & ok)[0]
        for i in idx[:3]:
            ck.violation("%s:%s" % (key, quad[i]), what + " (A->B reply: %s)" % rep[2 * i],
                         dict(request=reqs[2 * i], reply=rep[2 * i], reverse_request=reqs[2 * i + 1], reverse_reply=rep[2 * i + 1]))

    fin = np.isfinite(g).all(axis=(1, 2))
    report(~fin, "bearing:nonfinite", "non-finite result")
    # range [0, 2pi): 2*M_PI as a double is < 2pi, so b <= 2*M_PI is inside the mathematical interval
    b0 = ab[:, 0]
    report((b0 < 0) | (b0 > twopi), "bearing:range", "bearing outside [0,2pi)")
    ck.counters["bearing_equal_to_double(2*M_PI)(mathematically < 2pi)"] = int(((b0 == twopi) & ok).sum() + ((ba[:, 0] == twopi) & ok).sum())
    # distance = hypot of differences, symmetric
    e = np.abs(ab[:, 1].astype(LD) - D).astype(float) / np.maximum(Df, 1e-300)
    ck.ratio("distance_rel", float(e[ok].max()), 1e-15)
    report(e > 1e-15, "bearing:distance:value", "distance differs from hypot(dx,dy) by more than 1e-15 relative")
    e = np.abs(ab[:, 1] - ba[:, 1]) / np.maximum(Df, 1e-300)
    ck.ratio("distance_symmetry_rel", float(e[ok].max()), 1e-15)
    report(e > 1e-15, "bearing:distance:symmetry", "d(A,B) != d(B,A)")
    # bearing = atan2(dy,dx) mod 2pi
    e = np.abs(b0.astype(LD) - BR).astype(float)
    e = np.minimum(e, np.abs(e - twopi))
    ck.ratio("bearing_abs", float(e[ok].max()), 1e-12)
    report(e > 1e-12, "bearing:value", "bearing differs from atan2(dy,dx)")
    # antisymmetry
    e = np.abs(np.mod(b0 - ba[:, 0], twopi) - PI_D)
    ck.ratio("antisymmetry_abs", float(e[ok].max()), 1e-12)
    report(e > 1e-12, "bearing:antisymmetry", "b(A,B) - b(B,A) != pi (mod 2pi)")
    # consistency with the differences
    ex = np.abs(ab[:, 1] * np.cos(b0) - DX.astype(float)) / np.maximum(Df, 1e-300)
    ey = np.abs(ab[:, 1] * np.sin(b0) - DY.astype(float)) / np.maximum(Df, 1e-300)
    e = np.maximum(ex, ey)
    ck.ratio("consistency_rel", float(e[ok].max()), 1e-12)
    report(e > 1e-12, "bearing:consistency", "d*cos(b), d*sin(b) do not reproduce dx, dy")
    # overloads agree
    for side in (ab, ba):
        e1 = np.max(np.abs(side[:, [2, 3, 5]] - side[:, [0]]), axis=1)
        e2 = np.max(np.abs(side[:, [4, 6]] - side[:, [1]]), axis=1) / np.maximum(Df, 1e-300)
        report((e1 > 0) | (e2 > 4e-16), "bearing:overloads-disagree", "the overloads of bearing/distance disagree")
    # coincident points (< 1e-6 m): by design bearing = distance = 0
    nz = coinc & (ab[:, :6] != 0).any(axis=1)
    for i in np.nonzero(nz)[0][:2]:
        ck.violation("bearing:coincident-points", "points closer than 1e-6 m do not give (0,0): %s" % rep[2 * i],
                     dict(request=reqs[2 * i], reply=rep[2 * i]))
    ck.counters["bearing_pairs_closer_than_1e-6m(recorded separately)"] = int(coinc.sum())
    ck.counters["bearing_pairs_at_the_1e-6m_threshold(not judged)"] = int(border.sum())
    cl = np.char.add(np.char.add(quad.astype(str), "/d~1e"), dec.astype(str))
    cl = np.where(coinc, "coincident(<1e-6m)", cl)
    for c, cn in zip(*np.unique(cl, return_counts=True)):
        ck.case(("bearing", c), int(cn) * 2)
    ck.sample(dict(request=reqs[0], reply=rep[0], reference_bearing=float(BR[0]), reference_distance=float(D[0])))


# ---------------------------------------------------------------------------------------------

RULE = ("class = (sub-check, function, measured input class): ellipsoid definition type x height band x latitude class x "
        "longitude class; angle function x sign mode x precision x sign x measured carry class (true seconds round up to "
        "60 / minutes too / plain); literal family x string length x reference verdict; bearing quadrant-or-axis x distance "
        "decade.  Every counted case was executed by gama (libdrv, ASan+UBSan) and compared with the independent oracle.")


def run(tier, seed):
    runner.build("san", targets=["libdrv"])
    ck = Check("C18", tier, seed, RULE)
    import time
    walls = {}
    for name, fn, stream in (("ellipsoid", sub_ellipsoids, 181), ("angles", sub_angles, 182),
                             ("literal", sub_literals, 183), ("bearing", sub_bearing, 184)):
        t0 = time.time()
        e0 = ck.evaluations
        fn(ck, tier, np.random.default_rng([stream, seed]))
        walls[name] = dict(wall_s=round(time.time() - t0, 1), evaluations=ck.evaluations - e0)
    ck.counters["per_subcheck"] = walls
    ck.assumptions += [
        "numpy longdouble (64-bit mantissa) evaluation of the manual's closed formula is the true (X,Y,Z); the documented "
        "ellipsoid constants are those of /repo/xml/ellipsoids.xml",
        "round trip is measured as the distance between the reference positions of the returned and the starting (b,l,h): "
        "< 0.1 mm for h <= 2a, < 0.0018'' * (a+h) above (manual, xyz2blh.texi); longitude at the poles is therefore free",
        "printed angles: value within 0.5 unit of the last printed digit (+0.01 unit floating-point slack), minutes < 60 and "
        "seconds < 60 as printed; the 3-digit seconds field gon2deg prints for prec=0 ('4-02-060') is counted, not judged",
        "parse-back feeds the trimmed printed string to deg2gon (for sign mode 1, 'sign left-padded', the padding between "
        "sign and digits is removed first); strings with an out-of-range field are not fed back",
        "documented float literal = xs:double without INF/NaN with optional surrounding blanks; integer = [+-]?digits; "
        "index = digits; value reference python float()/int() (correctly rounded)",
        "documented sexagesimal literal (manual, 'Angular units'): [+-]?d-m-s[.f], no blanks inside; tolerated superset: "
        "seconds written with a trailing dot or an exponent (DESIGN C18); minutes/seconds >= 60 on input are measured, not "
        "judged (the manual states no range)",
        "bearing range is judged mathematically: the double 2*M_PI is < 2pi; pairs closer than 1e-6 m return (0,0) by design",
        "d.mmss doubles: tolerance 1e-7'' (5e-13 rad) from the conditioning of the encoding",
    ]
    if BREAK:
        ck.inconc("self-test switch VERIF_C18_BREAK=%s active" % BREAK)
        ck.violation("selftest:switch-active", "oracle deliberately broken (%s); not a statement about gama" % BREAK, None)
    ck.minimum = dict(evaluations=tier_n(tier, 15000000, 140000000), distinct=300)
    # one witness per key *family* first (the runner writes replay files for the first 20 distinct keys only)
    fam_seen, first, rest = set(), [], []
    for v in ck.violations:
        fam = re.sub(r":prec=\d+$", "", v["key"])
        (rest if fam in fam_seen else first).append(v)
        fam_seen.add(fam)
    ck.violations = first + rest
    if os.environ.get("VERIF_C18_DEBUG"):
        seen = set()
        for v in ck.violations:
            if v["key"] not in seen:
                seen.add(v["key"])
                print("DEBUG", v["key"], "|", v["what"], "|", json.dumps(v["witness"], default=str)[:400])
    return ck.finish()


def replay(path):
    w = json.load(open(path))
    wit = w.get("witness") or {}
    req = wit.get("request")
    print("replay of", w.get("key"))
    if not req or not (req.split()[0].isupper()):
        print("witness has no single libdrv request; re-running the quick tier")
        return run("quick", w.get("seed", 1))
    runner.build("san", targets=["libdrv"])
    rr = _run_lines([req], timeout=60)
    print("request:", req)
    print("reply  :", rr.out.strip(), ("| stderr: " + rr.err.strip()[:300]) if rr.err else "")
    old = str(wit.get("reply", "")).strip()
    same = (old.strip("[]") == rr.out.strip().strip("[]")) or bool(rr.san)
    print("recorded reply:", old, "->", "still reproduces" if same else "differs now")
    return 1 if same else 0

