"""C01 — every solver returns the weighted least-squares minimiser.
Reference-model monitor: each (x, v, sum of squares, defect) returned by gama's solvers (general class Adj
and the bare solver objects driven the way LocalNetwork drives them; the local-network entry point itself is
monitored through the `adjust` trace events in netlevel.py) is checked against the defining equations
evaluated with numpy on the *original* problem."""
import json
import numpy as np

from .. import runner, lsq, solver
from ..runner import Check, tier_n

CMDS = ["X", "R", "SS", "DEF"]


def check_solution(ck, P, ref, kind, alg, reps, tag):
    """Evaluate the defining equations for one (kind, alg) answer set. Returns list of (key, what)."""
    bad = []
    meta = P["meta"]
    zc = ":zero-column" if meta.get("zero_col") else ""
    for rp, c in zip(reps, CMDS):
        if rp[0] != "OK":
            bad.append(("%s:%s:%s:%s%s" % (kind, alg, c, rp[0], zc),
                        "%s on %s/%s answered %r (defect %d, subset %s)" % (c, kind, alg, rp[1], ref.defect, meta.get("subset"))))
            return bad
    x = solver.vec(reps[0]); v = solver.vec(reps[1]); ss = solver.scalar(reps[2]); d = int(solver.scalar(reps[3]))
    A, b = ref.A, ref.b
    homog = (kind == "base" and alg != "envelope")     # bare full solvers work on the whitened system
    Au, bu = (ref.Aw, ref.bw) if homog else (A, b)
    if len(x) != ref.n or len(v) != ref.m:
        bad.append(("%s:%s:dims" % (kind, alg), "x has %d, v has %d entries for a %dx%d problem" % (len(x), len(v), ref.m, ref.n)))
        return bad
    if not (np.all(np.isfinite(x)) and np.all(np.isfinite(v)) and np.isfinite(ss)):
        bad.append(("%s:%s:nonfinite%s" % (kind, alg, zc), "non-finite x / v / sum of squares"))
        return bad
    if d != ref.defect:
        bad.append(("%s:%s:defect%s" % (kind, alg, zc), "defect %d reported, n - rank = %d" % (d, ref.defect)))
    # v = A x - b
    sc = float(np.max(np.abs(Au) @ np.abs(x) + np.abs(bu))) if ref.m else 1.0
    e = float(np.max(np.abs(v - (Au @ x - bu)))) if ref.m else 0.0
    if ck.ratio("v=Ax-b", e, ref.tol(sc, False)) > 1:
        bad.append(("%s:%s:v=Ax-b%s" % (kind, alg, zc), "max |v-(Ax-b)| = %.3g (scale %.3g)" % (e, sc)))
    # normal equations A' P v = 0 evaluated on the residual implied by x (so a wrong v cannot hide a wrong x)
    vw = ref.Aw @ x - ref.bw
    g = ref.Aw.T @ vw
    nA = np.linalg.norm(ref.Aw, 2)
    scg = nA * (nA * np.linalg.norm(x) + np.linalg.norm(ref.bw)) + 1e-300
    e = float(np.linalg.norm(g))
    if ck.ratio("A'Pv=0", e, ref.tol(scg)) > 1:
        bad.append(("%s:%s:normal-equations%s" % (kind, alg, zc), "|A'P(Ax-b)| = %.3g (scale %.3g, kappa %.3g)" % (e, scg, ref.kappa)))
    # sum of squares
    ssr = float(vw @ vw)
    e = abs(ss - ssr)
    if ck.ratio("ss=v'Pv", e, ref.tol(max(ssr, float(ref.bw @ ref.bw) * 1e-6, 1e-12))) > 1:
        bad.append(("%s:%s:sum-of-squares%s" % (kind, alg, zc), "reported %.12g, v'Pv = %.12g" % (ss, ssr)))
    # minimum norm over the selected subset
    if ref.defect and ref.subset_ok:
        t = ref.Gs.T @ x
        scx = max(np.linalg.norm(x), np.linalg.norm(ref.xp), 1e-12)
        e = float(np.linalg.norm(t))
        if ck.ratio("minnorm", e, ref.tol(scx) * 10) > 1:
            bad.append(("%s:%s:min-norm:%s%s" % (kind, alg, meta.get("subset"), zc),
                        "x is not the minimiser with smallest sum of squares over the subset: |Gs'x| = %.3g, "
                        "|x-x_ref| = %.3g" % (e, float(np.linalg.norm(x - ref.x)))))
    return bad


def cases(seed, n, tier):
    for i in range(n):
        rng = np.random.default_rng([seed, i, 101])
        force = {}
        if i % 7 == 3:
            force["defect"] = int(rng.integers(1, 5))
        if tier == "thorough" and i % 11 == 5:
            force["n"] = int(rng.integers(20, 26))
        yield i, lsq.gen_problem(rng, force=force)


def run(tier, seed, only=None):
    runner.build("san", targets=["adjdrv"])
    ck = Check("C01", tier, seed,
               "random adjustment problems (m<=40, n<=25, exact rank defect 0..4, diagonal/banded/full covariance "
               "blocks, optional regularisation subset) x 4 algorithms x {Adj, bare solver}; class = (entry, "
               "algorithm, defect>0, covariance kind, subset kind, pattern); a case is non-trivial when the "
               "reference admits it (rank numerically unambiguous) and all five defining equations were evaluated")
    n = tier_n(tier, 400, 20000)
    items, info = [], []
    for i, P in cases(seed, n, tier):
        if only is not None and i != only:
            continue
        ref = lsq.Reference(P)
        if not ref.ok or not ref.subset_ok:
            ck.inconc("not admitted (rank ambiguous / scale)")
            continue
        for kind in ("adj", "base"):
            for alg in lsq.ALGS:
                items.append((P, ["NEW %s %s" % (kind, alg)] + CMDS))
                info.append((i, P, ref, kind, alg))
    res = solver.run_scripts(items)
    for (i, P, ref, kind, alg), r in zip(info, res):
        meta = P["meta"]
        wit = dict(seed=seed, index=i, kind=kind, alg=alg, meta=meta)
        if r["crash"] is not None:
            rr = r["crash"]
            if not ck.sanitizer(rr, wit, prefix="%s:%s:" % (kind, alg)):
                if rr.timeout:
                    ck.inconc("timeout")
                else:
                    ck.violation("%s:%s:driver-died" % (kind, alg), "rc=%s at %s: %s" % (rr.rc, r["crash_cmd"], rr.err[-300:]), wit)
            continue
        bad = check_solution(ck, P, ref, kind, alg, r["replies"][1:], i)
        for key, what in bad:
            ck.violation(key, what + " [case %d: m=%d n=%d defect=%d cov=%s pattern=%s]" % (
                i, ref.m, ref.n, ref.defect, meta["cov"], meta["pattern"]), wit)
        ck.case((kind, alg, "singular" if ref.defect else "regular", meta["cov"], meta.get("subset"), meta["pattern"]))
        if i < 3 and kind == "adj" and alg == "envelope":
            ck.sample(dict(index=i, meta=meta, A_first_rows=P["A"][:2].tolist(), minx=P["minx"]))
    # lindep(i): what LocalNetwork::null_space() relies on -- every unknown a solver names must take part in the null
    # space, and the unknowns it does not name must be linearly independent
    ld_items, ld_info = [], []
    for (i, P, ref, kind, alg) in info:
        if kind == "base" and ref.defect and len(ld_info) < tier_n(tier, 160, 2000):
            ld_items.append((P, ["NEW base %s" % alg, "X", "LINDEPALL"]))
            ld_info.append((i, P, ref, alg))
    for (i, P, ref, alg), r in zip(ld_info, solver.run_scripts(ld_items) if ld_items else []):
        reps = r["replies"]
        if r["crash"] is not None or len(reps) < 3 or reps[2][0] != "OK":
            continue
        flags = [int(v) for v in reps[2][1][1:]]
        if len(flags) != ref.n:
            continue
        D = [j for j, f in enumerate(flags) if f]
        part = np.linalg.norm(ref.G, axis=1) if ref.defect else np.zeros(ref.n)
        wit = dict(seed=seed, index=i, kind="base", alg=alg, meta=P["meta"], flagged=[j + 1 for j in D])
        ck.case(("lindep", alg, P["meta"]["pattern"], "zero-col" if P["meta"].get("zero_col") else "-"))
        wrong = [j + 1 for j in D if part[j] < 1e-6]
        if wrong:
            ck.violation("base:%s:lindep:names-determined-unknown" % alg,
                         "lindep() names unknowns %s, which take no part in the null space (defect %d) [case %d]" % (
                             wrong, ref.defect, i), wit)
            continue
        rest = [j for j in range(ref.n) if j not in D]
        if rest:
            sv = np.linalg.svd(ref.Aw[:, rest], compute_uv=False)
            if len(sv) < len(rest) or sv[-1] < 1e-8 * max(sv[0], 1e-300):
                ck.violation("base:%s:lindep:rest-still-dependent" % alg,
                             "the unknowns lindep() does not name (%d of %d) are still linearly dependent (defect %d, "
                             "named %s) [case %d]" % (len(rest), ref.n, ref.defect, [j + 1 for j in D], i), wit)
    if only is None:
        from .. import netlevel
        runner.build("san", targets=["gama-local"])
        netlevel.solver_events_workload(ck, tier, seed, 30, 1000)
    ck.assumptions += ["numpy SVD/pinv on the original (A,b,C) is the reference",
                       "admitted problems: singular values split >=1e-3*smax / <=1e-12*smax, smin>=1e-2, smax<=1e4 "
                       "(gama's solvers use absolute pivot tolerances 1.5e-8 / 2.2e-11)"]
    ck.minimum = dict(evaluations=tier_n(tier, 1000, 50000), distinct=40)
    return ck.finish()


def replay(path):
    w = json.load(open(path))
    wit = w["witness"]
    return run(w["tier"], wit["seed"], only=wit["index"])
