"""C20 — ill-posed networks are diagnosed, identically for every algorithm.
netgen plants rank deficiencies of known kinds into otherwise well-determined networks; the expected outcome
follows from the construction (and is cross-checked with the numpy reference on the recorded system); the
four algorithms must behave identically, name only truly indeterminable unknowns, adjust the determinable
rest exactly as if the indeterminable part had not been there, and never print non-finite numbers."""
import json
import math
import re
import numpy as np

from .. import runner, netgen, xmlout, netlevel, lsq
from ..runner import Check, tier_n

NONFINITE = re.compile(rb"(?<![A-Za-z])[-+]?(nan|inf)(?![A-Za-z])", re.I)


def relabel(net, prefix, shift):
    for q in list(net.points.values()):
        q.id = prefix + q.id
        q.E += shift
    net.points = {q.id: q for q in net.points.values()}
    for cl in net.clusters:
        if cl.station:
            cl.station = prefix + cl.station
        for o in cl.obs:
            for a in ("frm", "to", "bs", "fs"):
                v = getattr(o, a)
                if v is not None:
                    setattr(o, a, prefix + v)
        for v in cl.vecs:
            v[0], v[1] = prefix + v[0], prefix + v[1]
        for c in cl.cpoints:
            c[0] = prefix + c[0]


def plant(seed, i):
    """-> (kind, ill net, clean net or None, set of point ids that are truly indeterminable,
           expected: 'refuse' | 'remove')"""
    rng = np.random.default_rng([seed, i, 2020])
    kind = ["few-constraints", "non-spanning", "disconnected", "single-element", "single-direction-point",
            "combo", "random-sub-survey", "dangling-station", "dangling-chain"][i % 9]
    if kind == "random-sub-survey":
        # an error-free survey with ~45 % of its observations dropped at random and no approximate coordinates for
        # the unknown points: possibly determined, possibly not -- whatever it is, the four algorithms must agree
        # and nothing non-finite may be printed
        dim = int(rng.choice([2, 3]))
        feats = tuple(f for f, pr in (("angles", 0.5), ("azimuths", 0.4), ("hdiff", 0.5), ("vectors", 0.3)) if rng.uniform() < pr)
        net = netgen.gen_net(rng, dim=dim, datum="fixed", noise=True, features=feats)
        for cl in net.clusters:
            if cl.kind in ("obs", "hdiff"):
                keep = [k for k in range(len(cl.obs)) if rng.uniform() > 0.45]
                cl.obs = [cl.obs[k] for k in keep]
                cl.cov = None
        net.clusters = [c for c in net.clusters if c.obs or c.vecs or c.cpoints]
        for q in net.points.values():
            if q.xy == "free":
                q.give_xy = False
            if q.z == "free":
                q.give_z = False
        return kind, net, None, set(), "unknown"
    if kind == "few-constraints":
        dim = int(rng.choice([1, 2, 3]))
        net = netgen.gen_net(rng, dim=dim, datum="free", noise=True)
        # defect: 1 (1D), 3 (2D with distances), 4 (3D): constrain fewer coordinates than that
        ids = list(net.points)
        keep = 0 if dim == 1 else 1
        for k, q in enumerate(net.points.values()):
            if q.xy == "constrained":
                q.xy = "constrained" if (k < keep and dim == 2) else "free"
            if q.z == "constrained":
                q.z = "free"
        if dim == 3:
            first = net.points[ids[0]]
            first.xy = "constrained"      # 2 < 4
        return kind, net, None, set(ids), "refuse"
    if kind == "non-spanning":
        # 3D free network with horizontal constraints only: heights float although enough coordinates are constrained
        net = netgen.gen_net(rng, dim=3, datum="free", noise=True)
        n_con = 0
        for q in net.points.values():
            q.z = "free"
            if n_con < 3:
                q.xy = "constrained"; n_con += 1
        net.clusters = [c for c in net.clusters if c.kind != "hdiff"]
        return kind, net, None, set(net.points), "refuse"
    if kind == "disconnected":
        dim = int(rng.choice([1, 2]))
        good = netgen.gen_net(rng, dim=dim, datum="fixed", noise=True)
        clean = good.clone()
        loose = netgen.gen_net(rng, dim=dim, datum="free", noise=True)
        for q in loose.points.values():
            if q.xy == "constrained":
                q.xy = "free"
            if q.z == "constrained":
                q.z = "free"
        relabel(loose, "L", 20000.0)
        ids = set(loose.points)
        good.points.update(loose.points)
        good.clusters += loose.clusters
        good.kind += "+loose"
        return kind, good, clean, ids, "remove"
    if kind == "dangling-station":
        # a stand-point that sights two points of the network and that nobody observes: two directions for three
        # unknowns (x, y, orientation) -- it can slide along a circle.  In a free network the constraints on the other
        # points cannot resolve that, in a fixed one nothing has to
        datum = str(rng.choice(["fixed", "free", "free"]))
        net = netgen.gen_net(rng, dim=2, datum=datum, noise=True)
        clean = net.clone()
        tg = [str(x) for x in rng.choice(list(net.points), 2, replace=False)]
        net.points["S1"] = netgen.Pt("S1", float(rng.uniform(-300, 300)), float(rng.uniform(-300, 300)), 0.0, "free", "none")
        st = netgen.Cluster("obs", "S1")
        st.zero = float(rng.uniform(0, 400))
        for t in tg:
            o = netgen.Obs("direction", "S1", t, stdev=10.0)
            st.obs.append(o)
        net.clusters.append(st)
        for o in st.obs:
            o.true = netgen.model_value(net, st, o); o.val = o.true
        net.kind += "+dangling"
        return kind + "-" + datum, net, clean, {"S1"}, "remove"
    if kind == "dangling-chain":
        # two new points hung between two network points by three distances (a four-bar linkage: one degree of
        # freedom), in a free network whose other points are constrained or not: the two points are indeterminable,
        # the unknowns are renumbered after their removal and the regularisation list changes on the live solver
        net = netgen.gen_net(rng, dim=2, datum="free", noise=True)
        clean = net.clone()
        a_, d_ = [str(x) for x in rng.choice(list(net.points), 2, replace=False)]
        A_, D_ = net.points[a_], net.points[d_]
        # names that sort before the network's own points, so that their unknowns come first
        net.points = dict([("A1", netgen.Pt("A1", A_.E - 400.0, A_.N + 300.0, 0.0, "free", "none")),
                           ("A2", netgen.Pt("A2", D_.E - 500.0, D_.N - 200.0, 0.0, "free", "none"))] + list(net.points.items()))
        for (f, t) in ((a_, "A1"), ("A1", "A2"), ("A2", d_)):
            st = netgen.Cluster("obs", f)
            o = netgen.Obs("distance", f, t, stdev=5.0)
            st.obs.append(o)
            net.clusters.insert(0, st)
            o.true = netgen.model_value(net, st, o); o.val = o.true
        net.kind += "+chain"
        return kind, net, clean, {"A1", "A2"}, "remove"
    if kind in ("single-element", "single-direction-point", "combo"):
        net = netgen.gen_net(rng, dim=2, datum=str(rng.choice(["fixed", "mixed"])), noise=True)
        clean = net.clone()
        ids = set()
        for k in range(1 if kind != "combo" else 2):
            pid = "S%d" % (k + 1)
            st = [c for c in net.clusters if c.kind == "obs"][k]
            E, N = float(rng.uniform(-300, 300)), float(rng.uniform(-300, 300))
            net.points[pid] = netgen.Pt(pid, E, N, 0.0, "free", "none")
            typ = "distance" if (kind == "single-element" or (kind == "combo" and k == 0)) else "direction"
            o = netgen.Obs(typ, st.station, pid, stdev=5.0 if typ == "distance" else 10.0)
            o.true = netgen.model_value(net, st, o)
            o.val = o.true
            if st.cov is not None:
                C = np.array(st.cov["C"]); n0 = C.shape[0]
                C2 = np.zeros((n0 + 1, n0 + 1)); C2[:n0, :n0] = C; C2[n0, n0] = o.stdev ** 2
                st.cov = dict(band=st.cov["band"], C=C2)
            st.obs.append(o)
            ids.add(pid)
        return kind, net, clean, ids, "remove"
    raise AssertionError


def nonfinite_in(g):
    out = []
    for name, data in g.files.items():
        m = NONFINITE.search(data)
        if m:
            out.append((name, data[max(0, m.start() - 40):m.end() + 20].decode(errors="replace")))
    return out


def run(tier, seed, only=None):
    runner.build("san", targets=["gama-local"])
    ck = Check("C20", tier, seed,
               "generated networks with planted rank deficiencies {too few constrained coordinates, constraints that do "
               "not span the defect (no height constrained in 3D), disconnected free part next to a fixed network, "
               "points with a single determining element (one distance / one direction), a stand-point with two directions that "
               "nobody observes (fixed and free networks), combinations, random sub-surveys "
               "without approximate coordinates} x 4 algorithms; "
               "class = (planted kind, network kind, algorithm, outcome)")
    n = tier_n(tier, 192, 1200)
    fr = netgen.Frame()
    items = []
    for i in range(n):
        if only is not None and i != only:
            continue
        kind, net, clean, ids, expect = plant(seed, i)
        items.append((i, kind, net, clean, ids, expect))

    def work(it):
        i, kind, net, clean, ids, expect = it
        txt = netgen.to_gkf(net, fr)
        runs = netlevel.run4(txt, ck.tmp, "i%d" % i, outputs=("xml", "text"), trace=True)
        cl = None
        if clean is not None:
            cl = xmlout.run_gama_local(netgen.to_gkf(clean, fr), ck.tmp, "i%d-clean" % i, args=["--algorithm", "gso"])
        return it, runs, cl, txt

    for (i, kind, net, clean, ids, expect), runs, cl, txt in runner.pmap(work, items, jobs=max(1, runner.NCPU // 4)):
        wit = dict(seed=seed, index=i, planted=kind, kind=net.kind, indeterminable=sorted(ids),
                   input=txt if len(ck.violations) < 6 else None)
        dead = False
        for alg, g in runs.items():
            if ck.sanitizer(g.rr, dict(wit, alg=alg), prefix="gama-local:%s:" % alg):
                dead = True
            elif g.rr.timeout:
                ck.inconc("timeout"); dead = True
        if dead:
            continue
        summary = {}
        for alg, g in runs.items():
            oc = netlevel.outcome(g)
            removed = sorted({e["id"] for e in g.trace if e.get("kind") == "rm_point"})
            txt_out = g.files.get("text", b"").decode("utf-8", errors="replace")
            diagnosed = ("can not be adjusted" in txt_out) or ("cannot be adjusted" in txt_out)
            if oc == "adjusted":
                cls = "adjusted"
            elif oc.startswith("error:"):
                cls = "error-document"
            elif diagnosed:
                cls = "diagnosis-text"
            else:
                cls = oc
            summary[alg] = dict(outcome=cls, removed=removed, rc=g.rc)
            ck.case((kind, net.kind, alg, cls))
            for name, ctx in nonfinite_in(g):
                ck.violation("non-finite:%s:%s" % (name, kind), "%s output of %s contains a non-finite number: ...%s..." % (
                    name, alg, ctx), dict(wit, alg=alg))
            adjusted_ids = {}
            if cls == "adjusted":
                for pid, v in g.xml["adjusted"].items():
                    adjusted_ids[pid] = {k.lower() for k in v}
            # an adjustment must never be printed for coordinates whose datum cannot be fixed
            if expect == "refuse" and cls == "adjusted":
                if kind == "non-spanning":
                    # heights float; the horizontal network is determined: adjusting x,y only (all heights removed
                    # and listed) is a legitimate answer, an adjusted height is not
                    zs = sorted(p for p, ks in adjusted_ids.items() if "z" in ks)
                    if zs:
                        ck.violation("adjustment-printed:%s:%s" % (kind, alg),
                                     "no height is constrained or fixed, yet %s printed adjusted heights for %s "
                                     "(removed: %s)" % (alg, zs, removed), dict(wit, alg=alg))
                else:
                    ck.violation("adjustment-printed:%s:%s" % (kind, alg),
                                 "the datum of this network cannot be fixed (%s) but %s printed an adjustment with %d "
                                 "adjusted points (removed: %s)" % (kind, alg, len(g.xml["adjusted"]), removed), dict(wit, alg=alg))
            # only truly indeterminable points may be removed, and all of them when the rest is adjusted
            if expect == "remove":
                wrong = [p for p in removed if p not in ids]
                if wrong:
                    ck.violation("determined-point-removed:%s:%s" % (kind, alg),
                                 "%s removed %s although these points are determined (indeterminable by construction: %s)" % (
                                     alg, wrong, sorted(ids)), dict(wit, alg=alg))
                if cls == "adjusted":
                    missing = [p for p in ids if p in adjusted_ids]
                    if missing:
                        ck.violation("indeterminable-point-adjusted:%s:%s" % (kind, alg),
                                     "%s adjusted although %s cannot be determined" % (alg, missing), dict(wit, alg=alg))
                    elif cl is not None and cl.xml is not None and cl.xml["kind"] == "adjustment" and not wrong:
                        A = netlevel.physical_result(cl.xml, fr)
                        B = netlevel.physical_result(g.xml, fr)
                        bad = netlevel.compare_physical(A, B, rel=netlevel.rel_between_linearisation_points(net), what=("points", "obs", "stats"))
                        corr = netlevel.correlated_obs_keys(net)
                        for key, msg, okey in bad[:2]:
                            if okey is not None and okey in corr and key.split(":")[1] in ("stdev", "qrr", "f"):
                                continue
                            ck.violation("rest-differs:%s:%s:%s" % (kind, alg, key),
                                         "results for the determinable rest differ from the network without the "
                                         "indeterminable part: %s" % msg, dict(wit, alg=alg))
                elif expect == "remove" and cls != "adjusted":
                    ck.count("determinable rest not adjusted (%s, %s)" % (kind, cls))
        # identical behaviour of the four algorithms
        # what the user sees: the outcome class and, for an adjustment, which coordinates were adjusted
        sig = {}
        for alg, s in summary.items():
            g = runs[alg]
            adj = ()
            if s["outcome"] == "adjusted":
                adj = tuple(sorted((p, tuple(sorted(k.lower() for k in v))) for p, v in g.xml["adjusted"].items()))
            sig[alg] = (s["outcome"], adj)
        if len(set(sig.values())) != 1:
            what = "outcome" if len({s[0] for s in sig.values()}) > 1 else "adjusted-point-set"
            ck.violation("algorithm-dependent:%s:%s" % (kind, what),
                         "the four algorithms treat the same ill-posed input differently: %s" % (
                             {a: dict(outcome=s[0], adjusted_points=len(s[1]), removed=summary[a]["removed"][:8]) for a, s in sig.items()}), wit)
        elif all(s[0] == "adjusted" for s in sig.values()):
            P = {alg: netlevel.physical_result(g.xml, fr) for alg, g in runs.items()}
            for a in netlevel.ALGS[1:]:
                bad = netlevel.compare_physical(P["envelope"], P[a])
                for key, msg, okey in bad[:1]:
                    ck.violation("algorithm-dependent:%s:results:%s" % (kind, key), "envelope vs %s: %s" % (a, msg), wit)
        if i < 3:
            ck.sample(dict(index=i, planted=kind, kind=net.kind, indeterminable=sorted(ids), behaviour=summary))
    ck.assumptions += ["what is indeterminable follows from the construction of the planted deficiency",
                       "'says so' = an error document, or the text diagnosis 'network configuration can not be adjusted'"]
    ck.minimum = dict(evaluations=tier_n(tier, 100, 3000), distinct=15)
    return ck.finish()


def replay(path):
    w = json.load(open(path))
    return run(w["tier"], w["witness"]["seed"], only=w["witness"]["index"])
