"""C11 — any input is either adjusted or refused with a located diagnostic, safely.

Runtime monitor for robustness / memory safety of gama-local, GKFparser, DataParser and the adjustment-result
readers.  Everything gama executes here runs in the `san` build (gcc ASan+UBSan); libFuzzer (clang) only *finds*
inputs, its artifacts are re-judged with the same oracles on the `san` binaries; thorough adds a valgrind
memcheck sample on the `plain` build.

Events that refute C11 (nothing more is demanded):
  * sanitizer report / abnormal termination (signal, uncaught exception)      key: <stage>:<kind>|<top gama frames>
  * reproducible budget overrun of a small input (re-run alone, SIGABRT stack)  key: hang:<stage>:<frames>
  * refusal of the *parse stage* that names no line of the input                key: no-line:<stage>:<category>
  * rejection of a document of the documented grammar (own generator only)      key: reject-valid:<feature>
  * silent acceptance: the parser recorded an error that never reached the caller, or a document with a
    lexically invalid numeric/angle attribute, a missing mandatory attribute, an element the grammar does not
    allow there, observations after <cov-mat>, or a cov-mat whose dim differs from the number of observations is
    accepted and adjusted                                                       key: silent-accept:<what>
  * chunked delivery changes the outcome                                        key: chunked:<difference>
  * a command-line option set makes an accepted document crash / produce nan    key: pipeline:<options>:<outcome>
Documented or tolerated extras never alarm: root <gama-xml>, attribute version, to/rs on <angle>, empty optional
attributes, dms latitude, seconds field with exponent (C18's tolerated superset), unknown encoding names,
min/max-occurs deviations (empty clusters, two <network>), unknown enumeration values.  They are counted.

Reference recognisers are written from xml/gama-local.xsd and doc/gama-local-input.texi, not from gama's code.

libFuzzer runs in the clang `fuzz` flavour of vf/runner.py (pointer-overflow check off, as in `san`).
"""
import base64
import itertools
import json
import math
import os
import re
import signal
import subprocess
import time
import xml.parsers.expat as pyexpat

import numpy as np

from .. import runner, netgen, xmlout
from ..runner import Check, tier_n

BREAK = os.environ.get("VERIF_C11_BREAK", "")       # sensitivity self-test of the oracles (never set in the gate)
ONLY = [w for w in os.environ.get("VERIF_C11_ONLY", "").split(",") if w]     # development: run these workloads only
WATCHDOG = 20.0             # s; a gama-local run takes ~30 ms
PARSE_WATCHDOG = 10.0       # s; a parse takes ~0.1 ms
CORPUS = os.path.join(runner.ROOT, "corpus")
XMLNS = "http://www.gnu.org/software/gama/gama-local"

# ------------------------------------------------------------------------------------------------------------
# reference recognisers (same documented formats as C18; written from the XSD / manual)

WSX = r"[ \t\r\n]*"
RX_FLOAT = re.compile(WSX + r"[+-]?(?:[0-9]+(?:\.[0-9]*)?|\.[0-9]+)(?:[eE][+-]?[0-9]+)?" + WSX)   # xs:double w/o INF/NaN
RX_INT = re.compile(WSX + r"[+-]?[0-9]+" + WSX)
RX_IDX = re.compile(WSX + r"[0-9]+" + WSX)
# manual: "degrees (57), minutes (32) and seconds (28.428) are separated by dashes (-) with optional leading sign.
# Spaces are not allowed inside the string."
RX_DMS_MUST = re.compile(WSX + r"([+-]?)([0-9]+)-([0-9]+)-([0-9]+(?:\.[0-9]+)?)" + WSX)
# tolerated superset (see C18): seconds read as a floating literal that starts with a digit
RX_DMS_MAY = re.compile(WSX + r"([+-]?)([0-9]+)-([0-9]+)-([0-9]+\.?[0-9]*(?:[eE][+-]?[0-9]+)?)" + WSX)
if BREAK == "float-strict":
    RX_FLOAT = re.compile(WSX + r"[+-]?[0-9]+\.[0-9]+" + WSX)


def lex_ok(typ, s):
    """may a value of this documented type be accepted?  (None: type carries no lexical rule)"""
    if typ == "double":
        return RX_FLOAT.fullmatch(s) is not None
    if typ == "angle":
        return RX_FLOAT.fullmatch(s) is not None or RX_DMS_MAY.fullmatch(s) is not None
    if typ == "index":
        return RX_IDX.fullmatch(s) is not None
    if typ == "int":
        return RX_INT.fullmatch(s) is not None
    if typ == "dstdev":
        t = s.split()
        return 1 <= len(t) <= 3 and all(RX_FLOAT.fullmatch(x) for x in t)
    return None


def _finite(s):
    try:
        return math.isfinite(float(s))
    except ValueError:
        return False


def lex_must(typ, s):
    """must a value of this type be accepted as far as its lexical form goes?  (a literal such as 1e999, which denotes
    no finite double, may be refused: INF is outside the documented format)"""
    if typ in ("double", "angle") and RX_FLOAT.fullmatch(s):
        return _finite(s) and abs(float(s)) <= 1e300         # pi * 1e308 is not a finite double any more
    if typ == "angle":
        m = RX_DMS_MUST.fullmatch(s)
        return bool(m) and int(m.group(3)) < 60 and float(m.group(4)) < 60.0 and len(m.group(2)) < 9
    return bool(lex_ok(typ, s))


OBS6 = ("direction", "distance", "angle", "s-distance", "z-angle", "azimuth")
ENUM_AXES = ("ne", "sw", "es", "wn", "en", "nw", "se", "ws")
ENUM_FIX = ("xy", "XY", "z", "Z", "xyz", "XYZ", "XYz", "xyZ")
_OBSATTR = {"from": "token", "to": "token", "val": "double", "stdev": "double", "from_dh": "double", "to_dh": "double",
            "extern": "token"}
ATTRS = {      # element -> attribute -> documented type   (xml/gama-local.xsd)
    "gama-local": {}, "gama-xml": {},
    "network": {"axes-xy": ENUM_AXES, "angles": ("left-handed", "right-handed"), "epoch": "double"},
    "description": {},
    "parameters": {"sigma-apr": "double", "conf-pr": "double", "tol-abs": "double",
                   "sigma-act": ("aposteriori", "apriori"), "algorithm": ("gso", "svd", "cholesky", "envelope"),
                   "language": ("en", "ca", "cz", "du", "es", "fi", "fr", "hu", "ru", "ua", "zh"),
                   "encoding": ("utf-8", "iso-8859-2", "iso-8859-2-flat", "cp-1250", "cp-1251"),
                   "angular": ("400", "360"), "angles": ("400", "360"), "latitude": "angle",
                   "ellipsoid": "string", "cov-band": "int"},
    "points-observations": {"distance-stdev": "dstdev", "direction-stdev": "double", "angle-stdev": "double",
                            "zenith-angle-stdev": "double", "azimuth-stdev": "double"},
    "point": {"id": "token", "x": "double", "y": "double", "z": "double", "fix": ENUM_FIX, "adj": ENUM_FIX},
    "obs": {"from": "token", "orientation": "double", "from_dh": "double"},
    "cov-mat": {"dim": "index", "band": "index"},
    "direction": dict(_OBSATTR, val="angle"), "distance": dict(_OBSATTR), "s-distance": dict(_OBSATTR),
    "z-angle": dict(_OBSATTR, val="angle"), "azimuth": dict(_OBSATTR, val="angle"),
    "angle": {"from": "token", "bs": "token", "fs": "token", "val": "angle", "stdev": "double", "from_dh": "double",
              "bs_dh": "double", "fs_dh": "double", "extern": "token"},
    "height-differences": {}, "dh": {"from": "token", "to": "token", "val": "double", "stdev": "double",
                                     "dist": "double", "extern": "token"},
    "coordinates": {"extern": "token"}, "vectors": {},
    "vec": {"from": "token", "to": "token", "dx": "double", "dy": "double", "dz": "double", "from_dh": "double",
            "to_dh": "double", "extern": "token"},
}
del ATTRS["direction"]["from"]          # manual: the stand point of directions is given by <obs from=...> only
REQUIRED = {"point": ("id",), "cov-mat": ("dim", "band"), "direction": ("to", "val"), "distance": ("to", "val"),
            "s-distance": ("to", "val"), "z-angle": ("to", "val"), "azimuth": ("to", "val"),
            "angle": ("bs", "fs", "val"), "dh": ("to", "val"), "vec": ("to", "dx", "dy", "dz")}
# tolerated extras that gama documents in its sources ("undocumented feature for backward compatibility")
TOLERATED_ATTRS = {("gama-local", "xmlns"), ("gama-xml", "xmlns"), ("gama-local", "version"), ("gama-xml", "version"),
                   ("angle", "to"), ("angle", "rs")}
CHILDREN = {None: ("gama-local", "gama-xml"), "gama-local": ("network",), "gama-xml": ("network",),
            "network": ("description", "parameters", "points-observations"),
            "points-observations": ("point", "obs", "coordinates", "height-differences", "vectors"),
            "obs": OBS6 + ("cov-mat",), "height-differences": ("dh", "cov-mat"), "coordinates": ("point", "cov-mat"),
            "vectors": ("vec", "cov-mat")}
CLUSTERS = ("obs", "height-differences", "coordinates", "vectors")
TEXT_OK = ("description", "cov-mat")


class Lint:
    """Independent reading of a gama-local input with python's expat: clear-cut violations of the documented
    grammar (`hard`), deviations that are tolerated either way (`soft`), and where each element starts."""

    def __init__(self, doc):
        self.wf, self.err, self.hard, self.soft, self.where = True, None, [], [], {}
        self.nlines = len(re.findall(rb"\r\n|\r|\n", doc)) + 1
        self.nel = 0
        p = pyexpat.ParserCreate()
        p.ordered_attributes = True
        stack = []          # [tag, dict(obs=count, cov=bool, covspec=(dim,band)|None, text=[])]
        self._stack = stack

        def start(tag, at):
            self.nel += 1
            parent = stack[-1][0] if stack else None
            self.where.setdefault(p.CurrentLineNumber, (parent, tag))
            names = at[0::2]
            A = dict(zip(names, at[1::2]))
            if tag not in ATTRS:
                self.hard.append(("structure:%s/%s" % (parent, "unknown-element"), p.CurrentLineNumber))
            elif parent is not None and parent not in ATTRS:
                pass                                     # below an unknown element: already reported
            elif tag not in CHILDREN.get(parent, ()):
                self.hard.append(("structure:%s/%s" % (parent, tag), p.CurrentLineNumber))
            elif parent in CLUSTERS and stack[-1][1]["cov"]:
                self.hard.append(("after-cov-mat:%s" % parent, p.CurrentLineNumber))
            if tag in ATTRS:
                for k, v in A.items():
                    typ = ATTRS[tag].get(k)
                    if typ is None:
                        if (tag, k) not in TOLERATED_ATTRS:
                            self.soft.append("unknown-attribute:%s@%s" % (tag, k))
                        continue
                    if isinstance(typ, tuple):
                        if v not in typ:
                            self.soft.append("bad-enum:%s@%s" % (tag, k))
                        continue
                    ok = lex_ok(typ, v)
                    if ok is False:
                        if v.strip(" \t\r\n") == "" and k not in REQUIRED.get(tag, ()):
                            self.soft.append("empty-optional:%s@%s" % (tag, k))
                        else:
                            self.hard.append(("bad-number:%s@%s" % (tag, k), p.CurrentLineNumber))
                for k in REQUIRED.get(tag, ()):
                    if k not in A or A[k] == "":
                        if tag == "angle" and {"bs": "to", "fs": "rs"}.get(k) in A:
                            continue
                        self.hard.append(("missing-required:%s@%s" % (tag, k), p.CurrentLineNumber))
                if tag == "point" and ("x" in A) != ("y" in A):
                    self.soft.append("point-x-without-y")
            if stack and parent in CLUSTERS:
                st = stack[-1][1]
                if tag in OBS6 or tag == "dh":
                    st["obs"] += 1
                elif tag == "vec":
                    st["obs"] += 3
                elif tag == "point":
                    st["obs"] += (2 if ("x" in A and "y" in A) else 0) + (1 if "z" in A else 0)
                elif tag == "cov-mat":
                    st["cov"] = True
            st = dict(obs=0, cov=False, text=[], line=p.CurrentLineNumber, attrs=A)
            stack.append([tag, st])

        def end(tag):
            t, st = stack.pop()
            parent = stack[-1][0] if stack else None
            if t == "cov-mat" and parent in CLUSTERS:
                A = st["attrs"]
                d, b = A.get("dim", ""), A.get("band", "")
                if RX_IDX.fullmatch(d) and RX_IDX.fullmatch(b):
                    dim, band = int(d), int(b)
                    nobs = stack[-1][1]["obs"]
                    if dim != nobs:
                        self.hard.append(("cov-mat-dim-mismatch:%s" % parent, st["line"]))
                    toks = "".join(st["text"]).split()
                    if band >= dim or dim < 1:
                        self.hard.append(("cov-mat-band:%s" % parent, st["line"]))
                    elif len(toks) != dim * (band + 1) - band * (band + 1) // 2 or \
                            not all(RX_FLOAT.fullmatch(x) for x in toks):
                        self.hard.append(("cov-mat-elements:%s" % parent, st["line"]))
            if t in CLUSTERS and st["obs"] == 0:
                self.soft.append("min-occurs:%s" % t)
            if t in ("coordinates", "vectors") and not st["cov"]:
                self.soft.append("min-occurs:%s/cov-mat" % t)
            if t in ("gama-local", "gama-xml") and st.get("net", 0) != 1:
                self.soft.append("occurs:network")
            if t == "network" and stack:
                stack[-1][1]["net"] = stack[-1][1].get("net", 0) + 1

        def text(s):
            if not stack:
                return
            if stack[-1][0] in TEXT_OK:
                stack[-1][1]["text"].append(s)
            elif s.strip(" \t\r\n") and stack[-1][0] in ATTRS:
                self.hard.append(("illegal-text:%s" % stack[-1][0], p.CurrentLineNumber))

        p.StartElementHandler, p.EndElementHandler, p.CharacterDataHandler = start, end, text
        try:
            p.Parse(doc, True)
        except pyexpat.ExpatError as e:
            self.wf, self.err = False, str(e)
        except (LookupError, ValueError, UnicodeError) as e:      # encoding python does not know
            self.wf, self.err = False, "python: %s" % e
        self.root = None
        for ln in sorted(self.where):
            if self.where[ln][0] is None:
                self.root = self.where[ln][1]
                break
        if self.root == "gama-xml":
            self.soft.append("root-gama-xml")

    def categories(self):
        seen, out = set(), []
        for c, ln in self.hard:
            if c not in seen:
                seen.add(c)
                out.append((c, ln))
        return out


# ------------------------------------------------------------------------------------------------------------
# findings store: one violation per key, smallest witness

def b64(doc):
    return base64.b64encode(doc).decode()


def mkwit(stage, doc, **kw):
    w = dict(stage=stage, bytes=len(doc), doc_b64=b64(doc))
    try:
        t = doc.decode("utf-8")
        if len(t) <= 6000 and all(c >= " " or c in "\n\t\r" for c in t):
            w["doc"] = t
    except UnicodeDecodeError:
        pass
    w.update(kw)
    return w


class Findings:
    def __init__(self, ck):
        self.ck, self.best, self.hits = ck, {}, {}

    def add(self, key, what, wit):
        self.hits[key] = self.hits.get(key, 0) + 1
        size = (wit or {}).get("bytes", 10 ** 9) + 50 * len((wit or {}).get("args", []) or [])
        if key not in self.best or size < self.best[key][0]:
            self.best[key] = (size, what, wit)

    def flush(self):
        for key in sorted(self.best):
            size, what, wit = self.best[key]
            wit = dict(wit or {})
            wit["times_seen"] = self.hits[key]
            self.ck.violation(key, what, wit)
        self.ck.counters["distinct violation keys"] = len(self.best)
        self.ck.counters["distinct sanitizer keys"] = sum(1 for k in self.best if re.search(r"(asan|ubsan|abort):", k))


def san_key(rr):
    """key/what of a sanitizer report or abnormal termination, the same format ck.sanitizer() uses"""
    if rr.san:
        return rr.san["key"].replace(":-nan is outside", ":nan is outside"), "sanitizer report " + rr.san["kind"]
    if rr.timeout:
        return None, None
    if rr.signaled or rr.rc in (134, 139):
        err = rr.err if isinstance(rr.err, str) else ""
        m = re.search(r"terminate called after throwing an instance of '([^']+)'", err)
        return "abort:" + (m.group(1) if m else "signal%s" % rr.rc), "abnormal termination rc=%s %s" % (rr.rc, err[-300:])
    return None, None


def run_abrt(cmd, timeout, cwd=None, stdin=None, env=None):
    """like runner.run, but a watchdog overrun sends SIGABRT first so that ASan (handle_abort=1) prints where the
    process was; returns a RunResult with .timeout set"""
    e = dict(os.environ)
    e.update(runner.SAN_ENV)
    e.pop("GAMA_VERIF_TRACE", None)
    if env:
        e.update(env)
    t0 = time.time()
    p = subprocess.Popen(cmd, stdin=subprocess.PIPE if stdin is not None else subprocess.DEVNULL,
                         stdout=subprocess.PIPE, stderr=subprocess.PIPE, cwd=cwd, env=e)
    try:
        out, err = p.communicate(stdin, timeout=timeout)
        to = False
    except subprocess.TimeoutExpired:
        to = True
        p.send_signal(signal.SIGABRT)
        try:
            out, err = p.communicate(timeout=10)
        except subprocess.TimeoutExpired:
            p.kill()
            out, err = p.communicate()
    rr = runner.RunResult(p.returncode, out.decode(errors="replace"), err.decode(errors="replace"), to,
                          time.time() - t0)
    return rr


def stack_frames(err):
    """all gama frames (function names, innermost first) of the first stack in a sanitizer / SIGABRT report"""
    out = []
    for fm in runner._FRAME.finditer(err or ""):
        func, path = fm.group(1), fm.group(2)
        if ("/lib/" in path or "/src/" in path) and "/usr/" not in path and "libsanitizer" not in path:
            f = re.sub(r"<.*?>", "", re.sub(r"\(.*", "", func)).strip()
            if not out or out[-1] != f:
                out.append(f)
        elif "/harness/" in path or "libc_start" in func:
            if out:
                break
    return out


def hang_frames(*rrs):
    """Where a process was when the watchdog fired.  A loop is interrupted at an arbitrary depth below the function that
    contains it, so the key is taken from what two samples have in common: the innermost (up to three) frames of the
    longest common outer part of the stacks."""
    stacks = [stack_frames(rr.err) for rr in rrs if rr is not None and rr.timeout]
    stacks = [s for s in stacks if s]
    if not stacks:
        return "unknown-location"
    common = stacks[0]
    for st in stacks[1:]:
        k = 0
        while k < min(len(common), len(st)) and common[-1 - k] == st[-1 - k]:
            k += 1
        common = common[len(common) - k:] if k else common[-1:]
    return ">".join(common[:3])


# ------------------------------------------------------------------------------------------------------------
# parsedrv

class Rec:
    __slots__ = ("id", "kind", "mode", "doc", "meta", "cost")

    def __init__(self, id, kind, mode, doc, meta=None):
        self.id, self.kind, self.mode, self.doc, self.meta = id, kind, mode, doc, meta
        self.cost = (len(doc) + 3) * max(1, len(doc) // 400) if mode == "every" else 1 + len(doc) // 1000


class Out:
    __slots__ = ("kind", "digest", "left", "rec", "cls", "line", "code", "chunk", "msg", "n", "diffs", "first", "base",
                 "raw")

    def __init__(self):
        for s in self.__slots__:
            setattr(self, s, None)

    @property
    def accepted(self):
        return self.kind == "accepted"


_RX_ACC = re.compile(r"accepted digest=(\w+) left=(\d+)(?: (rec=.*))?")
_RX_REF = re.compile(r"refused class=(\S+) line=(-?\d+) code=(-?\d+) chunk=(-?\d+) left=(\d+) msg=\[(.*)\]")
_RX_EVERY = re.compile(r"every n=(\d+) base=\{(.*?)\} diffs=(\d+)(?: first=(.*))?")


def parse_outcome(s):
    o = Out()
    o.raw = s
    m = _RX_EVERY.fullmatch(s)
    if m:
        o.kind, o.n, o.diffs, o.first = "every", int(m.group(1)), int(m.group(3)), m.group(4)
        o.base = parse_outcome(m.group(2))
        return o
    m = _RX_ACC.fullmatch(s)
    if m:
        o.kind, o.digest, o.left, o.rec = "accepted", m.group(1), int(m.group(2)), m.group(3)
        return o
    m = _RX_REF.fullmatch(s)
    if m:
        o.kind, o.cls, o.line, o.code, o.chunk, o.left, o.msg = "refused", m.group(1), int(m.group(2)), \
            int(m.group(3)), int(m.group(4)), int(m.group(5)), m.group(6)
        return o
    o.kind = "unparsable"
    return o


class Drv:
    """runs batches of documents through parsedrv; a process that dies or hangs is attributed to the document it had
    started, which is then re-run alone"""

    def __init__(self, ck, F):
        self.ck, self.F = ck, F
        self.exe = runner.binpath("san", "parsedrv")
        self.trans = {}
        self.seq = itertools.count(1)
        self.hang_keys = {}     # key -> count

    def _stream(self, recs):
        path = os.path.join(self.ck.tmp, "stream%d.bin" % next(self.seq))
        with open(path, "wb") as f:
            for r in recs:
                f.write(("@ %s %s %d %s\n" % (r.id, r.kind, len(r.doc), r.mode)).encode())
                f.write(r.doc)
                f.write(b"\n")
        return path

    def _parse(self, text, results, trans):
        started = None
        for line in text.split("\n"):
            if line.startswith("> "):
                started = line[2:]
            elif line.startswith("< "):
                i, _, rest = line[2:].partition(" ")
                results[i] = parse_outcome(rest)
                if started == i:
                    started = None
            elif line.startswith("T "):
                t = line.split(" ")
                k = (int(t[1]), t[2], int(t[3]))
                trans[k] = trans.get(k, 0) + int(t[4])
        return started

    def _batch(self, recs):
        results, trans, incidents = {}, {}, []
        pending = list(recs)
        guard = 0
        env = {"ASAN_OPTIONS": runner.SAN_ENV["ASAN_OPTIONS"] + ":alloc_dealloc_mismatch=1"}
        while pending and guard < 60:
            guard += 1
            path = self._stream(pending)
            budget = PARSE_WATCHDOG + sum(r.cost for r in pending) / 1500.0
            rr = run_abrt([self.exe, "-t", path], budget, env=env)
            started = self._parse(rr.out, results, trans)
            os.unlink(path)
            if started is None:
                if rr.rc != 0 and not (rr.timeout and all(r.id in results for r in pending)):
                    incidents.append((None, rr, None, None))     # died outside a document (e.g. in a destructor at exit)
                break
            idx = next((k for k, r in enumerate(pending) if r.id == started), None)
            if idx is None:
                incidents.append((None, rr, None, None))
                break
            rec = pending[idx]
            # re-run the culprit alone (reproducibility, precise report); a hang whose stack has been confirmed twice
            # already is not re-run again
            hk = "hang:parse:%s:%s" % (rec.kind, hang_frames(rr)) if rr.timeout else None
            if hk and self.hang_keys.get(hk, 0) >= 2:
                rr1, res1 = rr, None
            else:
                rr1, res1 = self.solo(rec)
            incidents.append((rec, rr, rr1, res1))
            if rr1.timeout:
                k2 = "hang:parse:%s:%s" % (rec.kind, hang_frames(rr, rr1))
                self.hang_keys[k2] = self.hang_keys.get(k2, 0) + 1
            pending = pending[idx + 1:]
        return results, trans, incidents

    def solo(self, rec, timeout=PARSE_WATCHDOG):
        path = self._stream([rec])
        rr = run_abrt([self.exe, path], timeout, env={"ASAN_OPTIONS": runner.SAN_ENV["ASAN_OPTIONS"] +
                                                       ":alloc_dealloc_mismatch=1"})
        os.unlink(path)
        res = {}
        self._parse(rr.out, res, {})
        return rr, res.get(rec.id)

    def run(self, recs, label):
        """-> {id: Out}; documents that killed the driver get Out.kind == 'died' / 'hang'"""
        recs = list(recs)
        if not recs:
            return {}
        nb = max(1, min(len(recs), runner.NCPU * 3))
        total = sum(r.cost for r in recs)
        batches, cur, acc = [], [], 0
        for r in recs:
            cur.append(r)
            acc += r.cost
            if acc >= total / nb:
                batches.append(cur)
                cur, acc = [], 0
        if cur:
            batches.append(cur)
        results = {}
        for res, trans, incidents in runner.pmap(self._batch, batches):
            results.update(res)
            for k, v in trans.items():
                self.trans[k] = self.trans.get(k, 0) + v
            for rec, rr, rr1, res1 in incidents:
                if rec is None:
                    raise runner.HarnessError("parsedrv failed outside a document (%s): rc=%s %s" % (
                        label, rr.rc, (rr.err or "")[-400:]))
                self._incident(rec, rr, rr1, res1, label, results)
        self.ck.count("parsedrv documents [%s]" % label, len(recs))
        return results

    def _incident(self, rec, rr, rr1, res1, label, results):
        o = Out()
        results[rec.id] = o
        wit = mkwit("parse", rec.doc, kind=rec.kind, mode=rec.mode, label=label, meta=rec.meta)
        if rr1.timeout:
            o.kind = "hang"
            key = "hang:parse:%s:%s" % (rec.kind, hang_frames(rr, rr1))
            self.ck.count("watchdog overruns while parsing (each re-run alone until its stack was confirmed twice)")
            self.F.add(key, "parsing a %d-byte document did not finish within %.0f s, in a batch and alone; SIGABRT stack: %s" % (
                len(rec.doc), PARSE_WATCHDOG, ">".join(stack_frames(rr1.err)[:6])), wit)
            return
        key, what = san_key(rr1)
        if key:
            o.kind = "died"
            self.F.add("parse:%s:%s" % (rec.kind, key), what, wit)
            return
        if rr.timeout:
            self.ck.inconc("watchdog overrun in a batch not reproduced alone")
        else:
            self.ck.inconc("driver death in a batch not reproduced alone")
        self.ck.sample(dict(not_reproduced_alone=label, kind=rec.kind, mode=rec.mode, meta=rec.meta, rc=rr.rc, bytes=len(rec.doc),
                            doc_b64=b64(rec.doc[:4000]), stderr=(rr.err or "")[:1200]), limit=10)
        if res1 is not None:
            results[rec.id] = res1
        else:
            o.kind = "unparsable"


_RX_NL = re.compile(rb"\r\n|\r|\n")


def nlines(doc):
    """number of lines as an XML processor counts them (CR, LF and CRLF all end a line)"""
    return len(_RX_NL.findall(doc)) + 1


def elem_at_line(doc, line, lint=None):
    """(parent, tag) of the element that starts on this line"""
    if lint is not None and line in lint.where:
        return lint.where[line]
    ls = doc.split(b"\n")
    if 1 <= line <= len(ls):
        m = re.search(rb"<([A-Za-z][\w.-]*)", ls[line - 1])
        if m:
            return ("?", m.group(1).decode())
    return ("?", "?")


def slug(msg, n=6):
    msg = re.sub(r"\\x[0-9a-f]{2}", "", msg or "")
    msg = re.sub(r"\"[^\"]*\"|'[^']*'|=.*$|[-+]?\d[\d.eE+-]*", " ", msg)
    w = [x[:16] for x in re.findall(r"[A-Za-z_]+", msg)]
    return "-".join(w[:n]).lower() or "empty-message"


def judge_parse(ck, F, rec, o, stage="parse", lint=None, expect=None):
    """Oracle for one parser outcome.  expect: None | 'valid' (document of the documented grammar).
    Returns a short class string for the evidence."""
    doc = rec.doc
    wit = lambda **kw: mkwit(stage, doc, kind=rec.kind, mode=rec.mode, meta=rec.meta, outcome=o.raw, **kw)
    if o.kind in ("died", "hang"):
        return o.kind
    if o.kind == "unparsable" or o.kind is None:
        ck.inconc("driver reply not understood")
        return "unparsable"
    if o.kind == "refused":
        # read_xml() feeds "line" + "\n" for every getline(): a document without a final newline gains one
        located = o.cls == "parser" and 1 <= o.line <= nlines(doc) + (1 if rec.kind == "adjxml" or rec.mode == "g3lines" else 0)
        if BREAK == "line-strict":
            located = located and o.line < nlines(doc) - 1
        if not located:
            cat = slug(o.msg) if o.cls == "parser" else "exception-" + re.sub(r"\W+", "-", o.cls)
            F.add("no-line:%s:%s:%s" % (stage, rec.kind, cat),
                  "refused by %s (message [%s]) with line %d of a %d-line document" % (o.cls, o.msg, o.line, nlines(doc)),
                  wit())
            return "refused-without-line"
        if expect == "valid":
            return "refused-valid"
        return "refused-with-line"
    # accepted
    if o.rec:
        L = lint or Lint(doc)
        m = re.match(r"rec=(-?\d+)@(\d+):\[(.*)\]", o.rec)
        ln = int(m.group(2)) if m else 0
        par, tag = elem_at_line(doc, ln, L)
        F.add("silent-accept:recorded-error-not-thrown:%s:%s/%s" % (rec.kind, par, tag),
              "the parser recorded the error [%s] on line %d but xml_parse() returned normally; %d handler calls ran "
              "outside the error state afterwards" % (m.group(3) if m else o.rec, ln, o.left), wit())
        return "accepted-with-recorded-error"
    return "accepted"


# ------------------------------------------------------------------------------------------------------------
# gama-local

GL_OUT = ("text", "xml", "html", "octave", "svg", "export", "obs")
PARSE_ERR_EN = "GNU Gama - error on reading XML input configuration file!"
RX_NAN = re.compile(rb"(?<![A-Za-z0-9_])[-+]?(nan|inf|infinity)(?![A-Za-z0-9_])", re.I)


class GL:
    """one gama-local run: argv built from `args`; tokens '@kind' are replaced by a fresh output file name"""

    def __init__(self, ck):
        self.ck = ck
        self.exe = runner.binpath("san", "gama-local")
        self.n = itertools.count(1)
        self.min_cache = {}

    def run(self, doc, args, stdin=False, timeout=WATCHDOG, missing_input=False):
        d = os.path.join(self.ck.tmp, "gl%d" % next(self.n))
        os.makedirs(d, exist_ok=True)
        inp = os.path.join(d, "in.gkf")
        if not missing_input:
            with open(inp, "wb") as f:
                f.write(doc)
        files, argv = {}, []
        for a in args:
            if isinstance(a, str) and a.startswith("@") and a != "@@":
                k = a[1:]
                p = os.path.join(d, "out%d.%s" % (len(files), k))
                files.setdefault(k, p)
                argv.append(p)
            else:
                argv.append(a)
        cmd = [self.exe] + [("-" if stdin else inp) if a == "@@" else a for a in argv]
        env = {"ASAN_OPTIONS": runner.SAN_ENV["ASAN_OPTIONS"] + ":alloc_dealloc_mismatch=1"}
        rr = run_abrt(cmd, timeout, cwd=d, stdin=doc if stdin else None, env=env)
        g = xmlout.GamaRun()
        g.rr, g.rc, g.out, g.err, g.cmd, g.dir = rr, rr.rc, rr.out, rr.err, cmd, d
        g.files = {}
        for k, p in files.items():
            if os.path.exists(p):
                with open(p, "rb") as f:
                    g.files[k] = f.read()
        g.args = [a for a in args]
        g.stdin = stdin
        try:
            for fn in os.listdir(d):
                os.unlink(os.path.join(d, fn))
            os.rmdir(d)
        except OSError:
            pass
        return g


def gl_xml_text(g):
    """the adjustment/error XML of a run, wherever it went (file, stdout by default or by --xml -)"""
    if "xml" in g.files:
        return g.files["xml"].decode("utf-8", errors="replace")
    m = re.search(r"<\?xml[^>]*\?>\s*<gama-local-adjustment.*?</gama-local-adjustment>", g.out or "", re.S)
    return m.group(0) if m else None


def gl_outcome(g):
    """-> (class, line|None, detail)
    class: timeout | crash | help | parse-error | parse-exception | late-refusal:<category> | adjusted |
           not-adjustable | ok-no-xml | bad-exit"""
    rr = g.rr
    if rr.timeout:
        return "timeout", None, ""
    if rr.san or rr.signaled or rr.rc in (134, 139):
        return "crash", None, ""
    if rr.rc not in (0, 1, 2, 3):
        return "bad-exit", None, "rc=%s" % rr.rc
    if "Usage: gama-local" in (g.out or ""):
        return "help", None, ""
    x = gl_xml_text(g)
    if x is not None:
        m = re.search(r'<error category="([^"]*)">(.*?)</error>', x, re.S)
        if m:
            cat, body = m.group(1), m.group(2)
            desc = re.findall(r"<description>(.*?)</description>", body, re.S)
            ln = re.search(r"<lineNumber>(-?\d+)</lineNumber>", body)
            if cat == "gamaLocalParserError":
                return "parse-error", (int(ln.group(1)) if ln else None), " | ".join(desc)
            if desc and desc[0].strip() == PARSE_ERR_EN:
                return "parse-exception", None, cat + ": " + " | ".join(desc[1:])
            return "late-refusal:" + cat, None, " | ".join(desc)
        if "<network-processing-summary>" in x or "<coordinates>" in x:
            return "adjusted", None, ""
    if rr.rc == 3:
        m = re.search(r"(-?\d+) : (.*)", g.err or "")
        return "parse-error", (int(m.group(1)) if m else None), (m.group(2) if m else (g.err or "")[-200:])
    if rr.rc == 2 and PARSE_ERR_EN in (g.err or ""):
        return "parse-exception", None, (g.err or "")[-200:]
    if rr.rc == 1:
        return "not-adjustable", None, ((g.err or "") + (g.out or ""))[-200:]
    return "ok-no-xml", None, ""


def is_opt(a):
    return isinstance(a, str) and re.fullmatch(r"--?[a-z][a-z-]*", a) is not None


def optkey(args):
    """stable name of an option set for violation keys"""
    names = [a.lstrip("-") for a in args if is_opt(a)]
    k = "+".join(sorted(set(names))) or "default"
    if "@@" not in args:
        k = "no-input-file" + ("" if k == "default" else "+" + k)
    return k


def judge_gl(ck, F, GLr, doc, g, label, expect=None, meta=None, minimise_opts=True):
    """Oracle for one gama-local run.  Returns the outcome class."""
    cls, line, detail = gl_outcome(g)
    args = list(g.args)
    stdin = getattr(g, "stdin", False)
    wit = lambda **kw: mkwit("pipeline", doc, args=args, stdin=stdin, label=label, meta=meta, rc=g.rc, **kw)
    if cls == "timeout":
        g2 = GLr.run(doc, args, stdin=stdin)
        if g2.rr.timeout:
            F.add("hang:gama-local:%s" % hang_frames(g.rr, g2.rr),
                  "gama-local did not finish within %.0f s (twice) on a %d-byte input; SIGABRT stack: %s" % (
                      WATCHDOG, len(doc), ">".join(stack_frames(g2.err)[:6])), wit(stack=(g2.err or "")[:1500]))
            return "hang"
        ck.inconc("gama-local watchdog overrun not reproduced")
        return "timeout-once"
    if cls == "crash":
        key, what = san_key(g.rr)
        opts = args
        if minimise_opts:
            if key in GLr.min_cache:
                opts = GLr.min_cache[key]
                if san_key(GLr.run(doc, opts, stdin=stdin).rr)[0] != key:
                    opts = minimise_args(GLr, doc, args, stdin, lambda g2: san_key(g2.rr)[0] == key)
            else:
                opts = minimise_args(GLr, doc, args, stdin, lambda g2: san_key(g2.rr)[0] == key)
                GLr.min_cache[key] = opts
        pk = "gama-local:" + key if not _has_real_options(opts) else "pipeline:%s:%s" % (optkey(opts), key)
        F.add(pk, what + " (gama-local %s)" % " ".join(str(a) for a in opts),
              mkwit("pipeline", doc, args=opts, stdin=stdin, label=label, meta=meta, rc=g.rc, stderr=(g.err or "")[:1500]))
        return "crash"
    if cls == "bad-exit":
        F.add("pipeline:%s:exit-%s" % (optkey(args), g.rc), "gama-local exit status %s" % g.rc, wit())
        return cls
    if cls == "parse-error":
        if line is None or not (1 <= line <= nlines(doc)):
            F.add("no-line:gama-local:%s" % slug(detail.split("|")[-1]),
                  "parse error without a line of the input: line=%s of %d, [%s]" % (line, nlines(doc), detail), wit())
            return "parse-error-without-line"
        return "parse-error"
    if cls == "parse-exception":
        F.add("no-line:gama-local:exception:%s" % slug(detail.split(":", 1)[-1]),
              "reading the input ended with an exception that names no line: %s" % detail, wit())
        return cls
    return cls


def _has_real_options(args):
    """anything beyond the input file and plain output files?"""
    plain = {"text", "xml"}
    return "@@" not in args or any(is_opt(a) and a.lstrip("-") not in plain for a in args)


def minimise_args(GLr, doc, args, stdin, still):
    """drop option groups while still(run) holds"""
    groups, i = [], 0
    args = list(args)
    while i < len(args):
        a = args[i]
        if is_opt(a) and i + 1 < len(args) and not is_opt(args[i + 1]) and args[i + 1] != "@@":
            groups.append([a, args[i + 1]])
            i += 2
        else:
            groups.append([a])
            i += 1
    changed = True
    runs = 0
    while changed and runs < 40:
        changed = False
        for k in range(len(groups)):
            trial = [x for j, gr in enumerate(groups) if j != k for x in gr]
            if groups[k] == ["@@"] and stdin:
                continue
            g = GLr.run(doc, trial, stdin=stdin)
            runs += 1
            if still(g):
                groups.pop(k)
                changed = True
                break
    return [x for gr in groups for x in gr]


# ------------------------------------------------------------------------------------------------------------
# (1) grammar-derived valid documents: netgen's serialisation re-expressed with everything the documented
#     grammar allows (the survey itself is untouched, so the document stays adjustable)

class Node:
    __slots__ = ("tag", "attrs", "kids", "text")

    def __init__(self, tag, attrs=None, kids=None, text=None):
        self.tag, self.attrs, self.kids, self.text = tag, attrs or [], kids or [], text

    def get(self, k, d=None):
        for a, v in self.attrs:
            if a == k:
                return v
        return d

    def set(self, k, v):
        for i, (a, _) in enumerate(self.attrs):
            if a == k:
                self.attrs[i] = (k, v)
                return
        self.attrs.append((k, v))

    def drop(self, k):
        self.attrs = [(a, v) for a, v in self.attrs if a != k]


def to_tree(text):
    p = pyexpat.ParserCreate()
    p.ordered_attributes = True
    root, stack = [], []

    def start(tag, at):
        n = Node(tag, list(zip(at[0::2], at[1::2])))
        (stack[-1].kids if stack else root).append(n)
        stack.append(n)

    def end(tag):
        stack.pop()

    def cdata(s):
        if stack and stack[-1].tag in TEXT_OK:
            stack[-1].text = (stack[-1].text or "") + s

    p.StartElementHandler, p.EndElementHandler, p.CharacterDataHandler = start, end, cdata
    p.Parse(text, True)
    return root[0]


def numform(rng, s, plain=False):
    """another xs:double lexical form of the same value"""
    v = float(s)
    if plain or not math.isfinite(v):
        return s
    k = int(rng.integers(0, 12))
    r = repr(v)
    if "e" in r or "E" in r or "inf" in r or "nan" in r:
        cands = [r, r.upper(), "%.17e" % v]
    else:
        ip, _, fp = r.lstrip("-").partition(".")
        sg = "-" if r.startswith("-") else ""
        cands = [r, ("+" + r) if v >= 0 and not r.startswith("-") else r, "%.17e" % v, ("%.17E" % v),
                 sg + "000" + ip + "." + fp, sg + ip + "." + fp + "000",
                 (sg + "." + fp) if ip == "0" and fp not in ("", "0") else r,
                 (sg + ip + ".") if fp in ("", "0") else r, (sg + ip) if fp in ("", "0") else r,
                 " " + r + " ", "%se0" % r, "%sE+00" % r]
    c = cands[k % len(cands)]
    try:
        if float(c.strip()) != v:
            c = r
    except ValueError:
        c = r
    if not RX_FLOAT.fullmatch(c):
        c = r
    return c


def dmsform(rng, gon):
    """sexagesimal form of a non-negative gon value (documented d-m-s)"""
    s = netgen.gon_to_dms(gon % 400.0, prec=int(rng.choice([4, 6, 9])))
    d, m, sec = s.split("-")
    k = int(rng.integers(0, 6))
    if k == 1:
        d = "+" + d
    elif k == 2:
        d = "00" + d
    elif k == 3 and m.startswith("0"):
        m = m[1:]
    elif k == 4 and float(sec) == int(float(sec)):
        sec = "%d" % int(float(sec))
    elif k == 5:
        sec = sec.rstrip("0").rstrip(".") if "." in sec else sec
        if sec == "":
            sec = "0"
    return "%s-%s-%s" % (d, m, sec)


ANG_TAGS = ("direction", "angle", "z-angle", "azimuth")
TXT = {   # non-ASCII sample text per declared encoding: (python codec, text for description, id suffix)
    None: ("utf-8", "síť Žižkov — 点", "Ž"), "UTF-8": ("utf-8", "Δ-network ñandú", "ñ"), "utf-8": ("utf-8", "réseau", "é"),
    "ISO-8859-1": ("latin-1", "Ölberg café", "Ö"), "US-ASCII": ("ascii", "plain", ""),
    "iso-8859-2": ("iso8859-2", "Žižkov Čížek", "Č"), "windows-1250": ("cp1250", "Šárka ťuk", "Š"),
    "cp-1250": ("cp1250", "Žluťoučký", "ž"), "windows-1251": ("cp1251", "Пункт сети", "П"),
    "cp-1251": ("cp1251", "сеть", "я"), "UTF-16": ("utf-16", "síť 点 Δ", "点"),
}


def gen_valid(seed, i, avoid=()):
    """-> (bytes, meta).  meta['features'] = what of the documented grammar this document exercises;
    meta['parse_only'] = True when adjustability is not part of the claim (orientation attribute, see DESIGN §5 #17)"""
    rng = np.random.default_rng([seed, i, 1101])
    dim = int(rng.choice([1, 2, 2, 3, 3]))
    feats = [f for f, p in (("angles", .5), ("azimuths", .4), ("cov", .5), ("vectors", .4), ("coords", .35),
                            ("hdiff", .5), ("dh-heights", .4)) if rng.uniform() < p]
    net = netgen.gen_net(rng, dim=dim, noise=True, features=tuple(feats))
    fr = netgen.Frame(axes=str(rng.choice(netgen.AXES_ALL)), angles=str(rng.choice(["left-handed", "right-handed"])))
    root = to_tree(netgen.to_gkf(net, fr))
    F = set(["dim%d" % dim] + feats)
    meta = dict(index=i, kind=net.kind, parse_only=False)
    network = root.kids[0]
    po = [k for k in network.kids if k.tag == "points-observations"][0]
    par = [k for k in network.kids if k.tag == "parameters"][0]
    desc = [k for k in network.kids if k.tag == "description"][0]

    # ---- angular values in sexagesimal form (stdev x 0.324, covariance rows/columns scaled)
    dms_mode = str(rng.choice(["gon", "gon", "dms", "mixed"]))
    for cl in po.kids:
        if cl.tag != "obs":
            continue
        obs = [k for k in cl.kids if k.tag in OBS6]
        flags = []
        for o in obs:
            deg = o.tag in ANG_TAGS and (dms_mode == "dms" or (dms_mode == "mixed" and rng.uniform() < 0.5))
            flags.append(deg)
            if deg:
                o.set("val", dmsform(rng, float(o.get("val"))))
                if o.get("stdev") is not None:
                    o.set("stdev", repr(float(o.get("stdev")) * 0.324))
                F.add("dms")
        cov = [k for k in cl.kids if k.tag == "cov-mat"]
        if cov and any(flags):
            c = cov[0]
            n, band = int(c.get("dim")), int(c.get("band"))
            vals = [float(x) for x in c.text.split()]
            out, k = [], 0
            for r in range(n):
                row = []
                for col in range(r, min(n, r + band + 1)):
                    row.append(repr(vals[k] * (0.324 if flags[r] else 1.0) * (0.324 if flags[col] else 1.0)))
                    k += 1
                out.append(" ".join(row))
            c.text = "\n".join(out)
    # ---- implicit standard deviations: <points-observations x-stdev=...> replaces equal explicit stdev attributes
    if rng.uniform() < 0.5:
        for tag, att in (("direction", "direction-stdev"), ("angle", "angle-stdev"), ("z-angle", "zenith-angle-stdev"),
                         ("azimuth", "azimuth-stdev"), ("distance", "distance-stdev")):
            tags = (tag, "s-distance") if tag == "distance" else (tag,)
            obs = [o for cl in po.kids if cl.tag == "obs" and not any(k.tag == "cov-mat" for k in cl.kids)
                   for o in cl.kids if o.tag in tags and o.get("stdev") is not None
                   and RX_FLOAT.fullmatch(o.get("stdev")) and not RX_DMS_MUST.fullmatch(o.get("val"))]
            if not obs:
                continue
            common = obs[0].get("stdev")
            if tag == "distance":
                po.set(att, str(rng.choice([common, common + " 0", common + " 0 1", " " + common + "  0.0  2 "])))
            else:
                po.set(att, common)
            for o in obs:
                if o.get("stdev") == common and rng.uniform() < 0.7:
                    o.drop("stdev")
            F.add(att)
    # ---- implicit stand point: from= on <obs> serves distances, angles, ... of the same station
    if rng.uniform() < 0.6:
        for cl in po.kids:
            if cl.tag == "obs" and cl.get("from") is not None:
                for o in cl.kids:
                    if o.tag in OBS6 and o.tag != "direction" and o.get("from") == cl.get("from") and rng.uniform() < 0.7:
                        o.drop("from")
                        F.add("implicit-from")
    # ---- optional attributes that leave the survey unchanged
    if rng.uniform() < 0.5:
        n = 0
        for cl in po.kids:
            for o in cl.kids:
                if o.tag in OBS6 + ("dh", "vec") and rng.uniform() < 0.4:
                    n += 1
                    o.set("extern", str(rng.choice(["key-%d" % n, "%d" % (1000 + n), "db:%d/%d" % (i, n), "a.b_c"])))
            if cl.tag == "coordinates" and rng.uniform() < 0.5:
                cl.set("extern", "coords-%d" % i)
        F.add("extern")
    if dim == 2 and rng.uniform() < 0.4:
        for cl in po.kids:
            if cl.tag == "obs":
                if rng.uniform() < 0.3:
                    cl.set("from_dh", str(rng.choice(["0", "0.0", "0e0"])))
                for o in cl.kids:
                    if o.tag in ("direction", "distance", "azimuth") and rng.uniform() < 0.3:
                        o.set(str(rng.choice(["from_dh", "to_dh"])), "0")
                    if o.tag == "angle" and rng.uniform() < 0.3:
                        o.set(str(rng.choice(["from_dh", "bs_dh", "fs_dh"])), "0.000")
        F.add("zero-dh")
    if rng.uniform() < 0.3:
        network.set("epoch", str(rng.choice(["2024.5", "0.0", "1999", "2.0245e3"])))
        F.add("epoch")
    if rng.uniform() < 0.12:
        cand = [cl for cl in po.kids if cl.tag == "obs" and any(o.tag == "direction" for o in cl.kids)]
        if cand:
            cand[int(rng.integers(len(cand)))].set("orientation", repr(float(rng.uniform(0, 6.28))))
            F.add("orientation")
            meta["parse_only"] = True
    # parameters: every attribute of the XSD
    opt = [("algorithm", ["gso", "svd", "cholesky", "envelope"]), ("angular", ["400", "360"]), ("angles", ["400", "360"]),
           ("latitude", ["50", "48.5", "-33.9", "50.0e0"]), ("ellipsoid", ["wgs84", "bessel", "grs80"]),
           ("cov-band", ["-1", "0", "1", "5", "+3"]), ("language", ["en", "cz", "fr", "zh"]),
           ("encoding", ["utf-8", "iso-8859-2", "cp-1250"])]
    for k, vals in opt:
        if rng.uniform() < 0.22:
            v = str(rng.choice(vals))
            if (k == "angles" and par.get("angular") is not None) or ("parameters@" + k) in avoid:
                continue
            par.set(k, v)
            F.add("parameters@" + k)
    if par.get("ellipsoid") is not None and par.get("latitude") is None and rng.uniform() < 0.5:
        par.set("latitude", "49.9")
    if rng.uniform() < 0.2:
        for k in ("sigma-apr", "conf-pr", "tol-abs", "sigma-act"):
            if rng.uniform() < 0.5:
                par.drop(k)                # all four have documented defaults
        F.add("parameter-defaults")
    elif rng.uniform() < 0.3:
        par.set("sigma-act", str(rng.choice(["apriori", "aposteriori"])))
        par.set("conf-pr", str(rng.choice(["0.95", "0.99", ".9", "9.0e-1"])))
    # ---- sections in any order, repeated (manual: "may be presented in any order and may be repeated")
    sect = str(rng.choice(["std", "std", "params-last", "split", "desc-twice", "no-desc", "no-params"]))
    kids = [desc, par, po]
    if sect == "params-last":
        kids = [desc, po, par] if not any(o.tag == "dh" and o.get("stdev") is None for cl in po.kids for o in cl.kids) \
            else kids
    elif sect == "split":
        cut = [k for k, c in enumerate(po.kids) if c.tag != "point"]
        if len(cut) >= 2:
            at = cut[len(cut) // 2]
            po2 = Node("points-observations", list(po.attrs), po.kids[at:])
            po.kids = po.kids[:at]
            kids = [desc, par, po, Node("parameters"), po2] if rng.uniform() < 0.5 else [par, po, desc, po2]
    elif sect == "desc-twice":
        kids = [desc, par, Node("description", text=" (continued) "), po]
    elif sect == "no-desc":
        kids = [par, po]
    elif sect == "no-params" and not any(k in F for k in ()) and len(par.attrs) <= 4:
        pass
    network.kids = kids
    F.add("sections:" + sect)
    # ---- encoding and text
    enc = [None, None, "UTF-8", "utf-8", "ISO-8859-1", "US-ASCII", "iso-8859-2", "windows-1250", "cp-1250",
           "windows-1251", "cp-1251", "UTF-16"][int(rng.integers(0, 12))]
    codec, sample, _ = TXT[enc]
    if rng.uniform() < 0.6:
        desc.text = (desc.text or "") + " " + sample + " & <tags> \"quoted\" 'single'"
        F.add("description-text")
    F.add("encoding:" + (enc or "none"))
    style = dict(shuffle=rng.uniform() < 0.6, quotes=rng.uniform() < 0.5, ws=rng.uniform() < 0.5,
                 comments=rng.uniform() < 0.5, pair=rng.uniform() < 0.4, numforms=rng.uniform() < 0.7,
                 cdata=rng.uniform() < 0.3, charref=rng.uniform() < 0.3)
    for k, v in style.items():
        if v:
            F.add("style:" + k)
    body = render(rng, root, style)
    decl = {None: "", "UTF-8": '<?xml version="1.0" encoding="UTF-8"?>\n'}.get(
        enc, "<?xml version='1.0' encoding='%s'%s?>\n" % (enc, str(rng.choice(["", " standalone='yes'", " "]))))
    if enc is None and rng.uniform() < 0.5:
        decl = str(rng.choice(['<?xml version="1.0" ?>\n', '<?xml version="1.0"?>', "<?xml version='1.0' standalone=\"no\" ?>\n\n"]))
    if style["comments"]:
        decl += "<!-- generated: case %d -->\n" % i
    doc = (decl + body + ("\n" if rng.uniform() < 0.8 else "")).encode(codec)
    meta["features"] = sorted(F)
    return doc, meta


def esc_attr(v, q):
    v = v.replace("&", "&amp;").replace("<", "&lt;")
    return v.replace('"', "&quot;") if q == '"' else v.replace("'", "&apos;")


def render(rng, n, st, depth=0):
    attrs = list(n.attrs)
    if st["shuffle"] and len(attrs) > 1:
        attrs = [attrs[int(k)] for k in rng.permutation(len(attrs))]
    typ = ATTRS.get(n.tag, {})
    s = "<" + n.tag
    for k, v in attrs:
        t = typ.get(k)
        if st["numforms"] and t in ("double", "angle") and RX_FLOAT.fullmatch(v) and "e" not in v.lower():
            v = numform(rng, v.strip())
        q = "'" if st["quotes"] and rng.uniform() < 0.5 else '"'
        sep = str(rng.choice([" ", "  ", "\n    ", "\t"])) if st["ws"] else " "
        eq = str(rng.choice(["=", " = ", "= ", " ="])) if st["ws"] else "="
        ev = esc_attr(v, q)
        if st["charref"] and t == "token" and ev and rng.uniform() < 0.2 and ev[0] not in "&":
            ev = "&#%d;" % ord(ev[0]) + ev[1:] if rng.uniform() < 0.5 else "&#x%x;" % ord(ev[0]) + ev[1:]
        s += "%s%s%s%s%s%s" % (sep, k, eq, q, ev, q)
    if st["ws"] and rng.uniform() < 0.3:
        s += str(rng.choice([" ", "\n", "  "]))
    ind = "\n" + (" " * depth if st["ws"] else "")
    if not n.kids and n.text is None:
        if st["pair"] and rng.uniform() < 0.5:
            return s + "></%s>" % n.tag
        return s + str(rng.choice(["/>", " />"]))
    s += ">"
    if n.text is not None:
        if n.tag == "cov-mat":
            toks = n.text.split()
            if st["numforms"]:
                toks = [numform(rng, t) if "e" not in t.lower() else t for t in toks]
            sep = [" ", "\n", "  ", "\t", " \n "]
            t = "".join(tk + str(rng.choice(sep)) if st["ws"] else tk + " " for tk in toks)
            if st["comments"] and rng.uniform() < 0.3 and len(toks) > 1:
                half = len(t) // 2
                cut = t.find(" ", half)
                if cut > 0:
                    t = t[:cut] + " <!-- band --> " + t[cut:]
            s += ("\n" if rng.uniform() < 0.5 else " ") + t
        else:
            t = n.text
            if st["cdata"] and "]]>" not in t and rng.uniform() < 0.5:
                s += "<![CDATA[" + t + "]]>"
            else:
                s += t.replace("&", "&amp;").replace("<", "&lt;").replace(">", "&gt;")
    for k in n.kids:
        if st["comments"] and rng.uniform() < 0.15:
            s += ind + "<!-- %s -->" % str(rng.choice(["note", "x=\"1\" <point/>", "cov-mat dim=3", "- -"]))
        s += ind + render(rng, k, st, depth + 1)
    s += ("\n" if n.kids else "") + "</%s%s>" % (n.tag, " " if st["ws"] and rng.uniform() < 0.2 else "")
    return s


# ------------------------------------------------------------------------------------------------------------
# (2) bounded-exhaustive tag-event sequences and their reference acceptor (XSD content model)

SEQ_TAGS = ("gama-local", "network", "description", "parameters", "points-observations", "point", "obs", "cov-mat",
            "direction", "distance", "angle", "s-distance", "z-angle", "height-differences", "dh", "coordinates",
            "vectors", "vec", "azimuth", "zzz")
CLOSE = "/"
_MIN = {"gama-local": ' xmlns="%s"' % XMLNS, "obs": ' from="A"',
        "direction": ' to="B" val="%(n)d0.5" stdev="10"', "distance": ' from="A" to="B" val="10%(n)d.25" stdev="5"',
        "angle": ' from="A" bs="B" fs="C" val="5%(n)d.5" stdev="10"', "s-distance": ' from="A" to="B" val="10%(n)d.5" stdev="5"',
        "z-angle": ' from="A" to="B" val="9%(n)d.5" stdev="10"', "azimuth": ' from="A" to="B" val="3%(n)d.25" stdev="10"',
        "dh": ' from="A" to="B" val="1.%(n)d" stdev="2"', "vec": ' from="A" to="B" dx="1%(n)d" dy="2" dz="3"',
        "point": ' id="P%(n)d" x="1%(n)d" y="2%(n)d.5"'}
_OBSN = {"direction": 1, "distance": 1, "angle": 1, "s-distance": 1, "z-angle": 1, "azimuth": 1, "dh": 1, "vec": 3,
         "point": 2}


def ser_events(ev):
    """-> (prefix text, closing text).  One event per line; cov-mat gets dim = number of observations written so far
    in its parent (1 if none) and a unit diagonal."""
    lines, stack = [], []            # stack of [tag, nobs]
    for n, e in enumerate(ev):
        if e == CLOSE:
            t, _ = stack.pop()
            lines.append("</%s>" % t)
            continue
        a = _MIN.get(e, "") % dict(n=n % 10)
        if e == "cov-mat":
            d = stack[-1][1] if stack and stack[-1][1] > 0 else 1
            lines.append('<cov-mat dim="%d" band="0">%s' % (d, "1 " * d))
        else:
            lines.append("<%s%s>" % (e, a))
        if stack and stack[-1][0] in CLUSTERS:
            stack[-1][1] += _OBSN.get(e, 0)
        stack.append([e, 0])
    closing = "".join("</%s>\n" % t for t, _ in reversed(stack))
    return "\n".join(lines) + "\n", closing


def ref_events(ev):
    """Reference acceptor from the XSD.  -> (hard, soft): hard = None | (event index, category): the sequence is not
    of the documented grammar (element not allowed there, element after cov-mat, cov-mat dimension != number of
    observations); soft = deviations in occurrence counts only (either outcome is fine)."""
    stack, soft, roots = [], set(), 0
    for k, e in enumerate(ev):
        if e == CLOSE:
            t, st = stack.pop()
            if t in CLUSTERS and st["obs"] == 0:
                soft.add("min-occurs")        # XSD: at least one dh / point / vec; an <obs> without observations is
            if t in ("coordinates", "vectors") and not st["cov"]:      # formally allowed but describes nothing: not judged
                soft.add("min-occurs")
            if t == "gama-local" and st["net"] != 1:
                soft.add("occurs:network")
            continue
        parent = stack[-1][0] if stack else None
        if parent is None:
            roots += 1
            if roots > 1:
                return (k, "xml:second-root"), soft
        if e not in ATTRS:
            return (k, "structure:%s/unknown-element" % parent), soft
        if e not in CHILDREN.get(parent, ()):
            return (k, "structure:%s/%s" % (parent, e)), soft
        if parent in CLUSTERS:
            st = stack[-1][1]
            if st["cov"]:
                return (k, "after-cov-mat:%s" % parent), soft
            if e == "cov-mat":
                st["cov"] = True
                if st["obs"] == 0:
                    return (k, "cov-mat-dim-mismatch:%s" % parent), soft
            st["obs"] += _OBSN.get(e, 0)
        if e == "network":
            stack[-1][1]["net"] += 1
        stack.append([e, dict(obs=0, cov=False, net=0)])
    if stack:
        for t, st in stack:          # what closing the open elements will reveal
            if t in CLUSTERS and (st["obs"] == 0 or (t in ("coordinates", "vectors") and not st["cov"])):
                soft.add("min-occurs")
            if t == "gama-local" and st["net"] != 1:
                soft.add("occurs:network")
    if roots == 0:
        return (0, "xml:empty"), soft
    return None, soft


def all_sequences(maxlen):
    """all prefix-balanced event sequences of length 1..maxlen"""
    out = []

    def rec(seq, depth):
        if seq:
            out.append(tuple(seq))
        if len(seq) == maxlen:
            return
        for t in SEQ_TAGS:
            seq.append(t)
            rec(seq, depth + 1)
            seq.pop()
        if depth > 0:
            seq.append(CLOSE)
            rec(seq, depth - 1)
            seq.pop()

    rec([], 0)
    return out


# ------------------------------------------------------------------------------------------------------------
# (3)/(4) mutations of valid files

HOSTILE_NUM = ["1e30", "-1e30", "1e999", "-1e999", "1e-999", "0", "-0", "-1", "nan", "NaN", "inf", "-inf", "INF", "1e", "1e+",
               "--1", "1..2", "1,5", "0x10", "١٢", "", " ", "1 2", "99999999999999999999", "1.7976931348623157e308",
               "4.9e-324", "2147483647", "2147483648", "-2147483649", "12-34", "12-34-", "1-2-3-4", "400", "399.99999999999",
               "-0.0001", "0-0-60", "0-60-0", "360-00-00", "-10-20-30", "10-20-30.5e1", "+", ".", "e5", "1e5", "1E+5", "٣", "1 ",
               "1e15", "1e18", "1e22", "1e100", "1e308", "-1e308", "5e-324"]
HOSTILE_ID = ["", " ", "A" * 300, "A" * 20000, "&amp;", "&lt;x&gt;", "a b", "Žižkov", "0", "-1", "id\twith\ttab", "%s%n%d"]
RX_ATTR = re.compile(rb'([ \t\r\n])([A-Za-z_][\w.-]*)(\s*=\s*)("([^"<]*)"|\'([^\'<]*)\')')


def attr_sites(doc):
    """[(start, end, name, value bytes, (vstart, vend))] of the attributes of a document (lexical scan)"""
    out = []
    for m in RX_ATTR.finditer(doc):
        g = 5 if m.group(5) is not None else 6
        out.append((m.start(2), m.end(4), m.group(2).decode(), m.group(g), m.span(g)))
    return out


def elem_of(doc, pos):
    m = None
    for m in re.finditer(rb"<([A-Za-z][\w.-]*)", doc[:pos]):
        pass
    return m.group(1).decode() if m else "?"


def mutations(seed, name, doc, n_tok, n_flip, n_elem):
    """yield (label, mutated bytes).  label = (mutation kind, element@attr or position class)"""
    rng = np.random.default_rng([seed, 1103, sum(doc) % 9973, len(doc)])
    sites = attr_sites(doc)
    # token level
    for _ in range(n_tok):
        if not sites:
            break
        s0, e0, an, av, (vs, ve) = sites[int(rng.integers(len(sites)))]
        el = elem_of(doc, s0)
        typ = ATTRS.get(el, {}).get(an)
        k = int(rng.integers(0, 10))
        if k <= 4 and typ in ("double", "angle", "index", "int", "dstdev"):
            v = HOSTILE_NUM[int(rng.integers(len(HOSTILE_NUM)))]
            if typ == "index" and rng.uniform() < 0.6:
                try:
                    v = str(int(av) + int(rng.choice([-1, 1, -2, 2, 5])))
                except ValueError:
                    pass
            yield ("number", "%s@%s" % (el, an), v), doc[:vs] + v.encode() + doc[ve:]
        elif k <= 4 and typ == "token":
            v = HOSTILE_ID[int(rng.integers(len(HOSTILE_ID)))]
            if rng.uniform() < 0.3:      # equal ids
                other = [s for s in sites if s[2] in ("from", "to", "bs", "fs", "id") and s[3] != av]
                if other:
                    v = other[int(rng.integers(len(other)))][3].decode(errors="replace")
            yield ("id", "%s@%s" % (el, an), v[:12]), doc[:vs] + v.encode() + doc[ve:]
        elif k == 5:
            yield ("drop-attr", "%s@%s" % (el, an), ""), doc[:s0] + doc[e0:]
        elif k == 6:
            yield ("dup-attr", "%s@%s" % (el, an), ""), doc[:e0] + b" " + doc[s0:e0] + doc[e0:]
        elif k == 7:
            nn = str(rng.choice(["zz", an.upper(), an + "x", "xml:lang", "xmlns:a"]))
            yield ("rename-attr", "%s@%s" % (el, an), nn), doc[:s0] + nn.encode() + doc[s0 + len(an):]
        elif k == 8:
            o = sites[int(rng.integers(len(sites)))]
            yield ("swap-value", "%s@%s" % (el, an), o[2]), doc[:vs] + o[3] + doc[ve:]
        else:
            v = str(rng.choice(["", "\"", "<", "&", "&#0;", "&#x110000;", "&unknown;", "]]>", "\x00", "\xff\xfe"]))
            yield ("xml-special", "%s@%s" % (el, an), v), doc[:vs] + v.encode("latin-1") + doc[ve:]
    # element level
    lines = doc.split(b"\n")
    el_lines = [k for k, l in enumerate(lines) if re.match(rb"\s*<[A-Za-z]", l)]
    for _ in range(n_elem):
        if len(el_lines) < 3:
            break
        k = int(rng.integers(0, 9))
        a = el_lines[int(rng.integers(len(el_lines)))]
        b = el_lines[int(rng.integers(len(el_lines)))]
        L = list(lines)
        tag = re.match(rb"\s*<([\w.-]+)", lines[a]).group(1).decode()
        if k == 0:
            del L[a]
            yield ("delete-line", tag, ""), b"\n".join(L)
        elif k == 1:
            L.insert(a, L[a])
            yield ("duplicate-line", tag, ""), b"\n".join(L)
        elif k == 2:
            x = L.pop(a)
            L.insert(b if b < len(L) else len(L) - 1, x)
            yield ("move-line", tag, ""), b"\n".join(L)
        elif k == 3:
            L.insert(a, str(rng.choice(["<zzz/>", "<dh from='A' to='B' val='1'/>", "<point id='Q' x='abc' y='1'/>",
                                        "<cov-mat dim='1' band='0'>1</cov-mat>", "<obs>", "</obs>", "<network>",
                                        "<direction to='X' val='1e5'/>", "<vec/>", "<coordinates>"])).encode())
            yield ("insert-element", tag, ""), b"\n".join(L)
        elif k == 4:
            L.insert(a, str(rng.choice(["stray text", "12.5", "&amp;", "<![CDATA[x]]>", "<?pi x?>", "<!DOCTYPE a>"])).encode())
            yield ("insert-text", tag, ""), b"\n".join(L)
        elif k == 5:
            cov = [q for q, l in enumerate(lines) if b"<cov-mat" in l]
            if cov:
                q = cov[int(rng.integers(len(cov)))]
                m = re.search(rb'dim\s*=\s*["\'](\d+)["\']', lines[q])
                if m:
                    d = max(0, int(m.group(1)) + int(rng.choice([-1, 1, 1, 2, -2])))
                    L[q] = lines[q][:m.start(1)] + str(d).encode() + lines[q][m.end(1):]
                    yield ("cov-dim", "cov-mat@dim", "%+d" % (d - int(m.group(1)))), b"\n".join(L)
        elif k >= 7:
            # number of observations of a cluster that has a cov-mat: one observation line deleted or repeated
            cov = [q for q, l in enumerate(lines) if b"<cov-mat" in l]
            if cov:
                q = cov[int(rng.integers(len(cov)))]
                z = q - 1
                while z > 0 and not re.match(rb"\s*<(direction|distance|angle|s-distance|z-angle|azimuth|dh|vec|point)\b.*/>\s*$", lines[z]):
                    z -= 1
                if z > 0:
                    ctag = re.match(rb"\s*<([\w-]+)", lines[z]).group(1).decode()
                    if k == 7:
                        del L[z]
                    else:
                        L.insert(z, L[z])
                    yield ("cov-obs-count", ctag, "-1" if k == 7 else "+1"), b"\n".join(L)
        else:
            cov = [q for q, l in enumerate(lines) if b"<cov-mat" in l]
            if cov:
                q = cov[int(rng.integers(len(cov)))]
                e = next((z for z in range(q, len(lines)) if b"</cov-mat>" in lines[z]), None)
                if e is not None and e > q:
                    z = int(rng.integers(q + 1, e + 1)) if e > q + 1 else e
                    L[z] = str(rng.choice(["1e999 ", "x ", "", "1 1 1 1 ", "nan "])).encode() + L[z]
                    yield ("cov-elements", "cov-mat", ""), b"\n".join(L)
    # byte flips
    special = b"<>/\"'=&;- \n\x00\xff09e.\t!?[]"
    for _ in range(n_flip):
        p = int(rng.integers(len(doc)))
        c = special[int(rng.integers(len(special)))] if rng.uniform() < 0.7 else int(rng.integers(256))
        if c == doc[p]:
            c = (c + 1) % 256
        ctx = "markup" if doc[p:p + 1] in b"<>/=\"'" else "digit" if doc[p:p + 1].isdigit() else "name" if doc[p:p + 1].isalpha() else "other"
        yield ("byte-flip", ctx, ""), doc[:p] + bytes([c]) + doc[p + 1:]


# ------------------------------------------------------------------------------------------------------------
# workloads

class Ctx:
    def __init__(self, ck, tier, seed):
        self.ck, self.tier, self.seed = ck, tier, seed
        self.F = Findings(ck)
        self.drv = Drv(ck, self.F)
        self.gl = GL(ck)
        self.valid = []          # (doc, meta) of generated valid documents that were adjusted
        self.accepted_hostile = []   # (doc, label) accepted mutated documents (input to the pipeline)
        self.outputs = dict(xml=[], html=[])     # gama-local's own outputs (seeds for the result readers)
        self.slot_hang = set()   # element@attr slots for which a hang has been reported (literal workload adapts)

    def n(self, quick, thorough):
        return tier_n(self.tier, quick, thorough)


def is_huge(lit):
    return bool(RX_FLOAT.fullmatch(lit)) and abs(float(lit)) >= 1e13


def run_with_probes(X, recs, label, slot_of, lit_of):
    """Runs documents through parsedrv.  Documents that put a huge (>= 1e13, lexically valid) number into a slot are
    run after one probe per slot; when the probe of a slot hangs (violation reported), the remaining huge values of that
    slot are skipped and counted, so that one defect does not cost a watchdog period per document."""
    huge = [r for r in recs if lit_of(r) is not None and is_huge(lit_of(r))]
    probes, seen = [], set(X.slot_hang)
    for r in huge:
        if slot_of(r) not in seen:
            seen.add(slot_of(r))
            probes.append(r)
    res = X.drv.run(probes, label)
    for r in probes:
        if res[r.id].kind == "hang":
            X.slot_hang.add(slot_of(r))
    pid = set(id(r) for r in probes)
    skip = set(id(r) for r in huge if id(r) not in pid and slot_of(r) in X.slot_hang)
    if skip:
        X.ck.count("documents skipped: huge value on a slot whose probe hung (violation reported) [%s]" % label, len(skip))
    rest = [r for r in recs if id(r) not in pid and id(r) not in skip]
    res.update(X.drv.run(rest, label))
    return res, [r for r in recs if id(r) not in skip]


def repo_inputs(maxsize=5000):
    d = os.path.join(runner.REPO, "tests", "gama-local", "input")
    out = []
    for fn in sorted(os.listdir(d)):
        p = os.path.join(d, fn)
        if fn.endswith(".gkf") and os.path.getsize(p) and os.path.getsize(p) <= maxsize:
            with open(p, "rb") as f:
                out.append((fn, f.read()))
    return out


def w0_regress(X):
    """witness documents of repaired pipeline defects (corpus/regress): every algorithm, every output, both angular units"""
    ck, F = X.ck, X.F
    d = os.path.join(CORPUS, "regress")
    jobs = []
    for fn in sorted(os.listdir(d)) if os.path.isdir(d) else []:
        with open(os.path.join(d, fn), "rb") as f:
            doc = f.read()
        for alg in ALGS:
            for ang in ("400", "360"):
                jobs.append((fn, doc, ["@@", "--algorithm", alg, "--angular", ang, "--text", "@text", "--xml", "@xml", "--html", "@html",
                                       "--svg", "@svg", "--octave", "@octave", "--export", "@export"]))
    ck.count("w0 regression witnesses", len(jobs) // 8)
    for (fn, doc, args), g in runner.pmap(lambda j: (j, X.gl.run(j[1], j[2])), jobs):
        c = judge_gl(ck, F, X.gl, doc, g, "w0 regress " + fn, meta=dict(file=fn))
        ck.case(("w0", fn, c.split(":")[0]))


def w1_valid(X):
    """grammar-derived valid documents => accepted by the parser, adjusted by gama-local, finite outputs"""
    ck, F = X.ck, X.F
    n = X.n(160, 2500)
    docs = [gen_valid(X.seed, i) for i in range(n)]
    recs = [Rec("v%d" % i, "gkf", "lines", d, m) for i, (d, m) in enumerate(docs)]
    res = X.drv.run(recs, "w1 valid")
    todo = []
    for r in recs:
        o = res[r.id]
        c = judge_parse(ck, F, r, o, expect="valid")
        ck.count("w1 parser: " + c)
        for f in r.meta["features"]:
            ck.cls(("w1", f, c))
        ck.case()
        if c in ("refused-valid",):
            par, tag = elem_at_line(r.doc, o.line, Lint(r.doc))
            att = next((a for a in ATTRS.get(tag, {}) if re.search(r"(^|\W)%s(\W|$)" % re.escape(a), o.msg or "")), None)
            feat = ("%s@%s" % (tag, att)) if att else (tag if o.code == -1 else "xml:" + slug(o.msg, 4))
            if o.code > 0:
                enc = next((f for f in r.meta["features"] if f.startswith("encoding:")), "")
                feat += ":" + enc
            F.add("reject-valid:%s" % feat, "a document of the documented grammar is refused on line %d: [%s] (features %s)" % (
                o.line, o.msg, r.meta["features"]), mkwit("parse", r.doc, kind="gkf", mode="lines", expect="valid", meta=r.meta))
        elif c == "accepted":
            todo.append(r)
    ck.sample(dict(workload=1, features=docs[0][1]["features"], bytes=len(docs[0][0])))
    # documents refused because of an (already reported) feature are regenerated without it, so that the rest of what
    # they exercise is still observed
    bad = set(k.split(":", 1)[1] for k in F.best if k.startswith("reject-valid:parameters@"))
    if bad:
        again = [Rec(r.id + "b", "gkf", "lines", *gen_valid(X.seed, r.meta["index"], avoid=bad)) for r in recs
                 if res[r.id].kind == "refused" and set(r.meta["features"]) & bad]
        res2 = X.drv.run(again, "w1 valid")
        for r in again:
            c = judge_parse(ck, F, r, res2[r.id], expect="valid")
            ck.count("w1 parser (regenerated without %s): %s" % ("/".join(sorted(bad)), c))
            if c == "accepted":
                todo.append(r)
            elif c == "refused-valid":
                o = res2[r.id]
                par, tag = elem_at_line(r.doc, o.line, Lint(r.doc))
                F.add("reject-valid:%s" % (tag if o.code == -1 else "xml:" + slug(o.msg, 4)), "a document of the documented grammar is "
                      "refused on line %d: [%s] (features %s)" % (o.line, o.msg, r.meta["features"]),
                      mkwit("parse", r.doc, kind="gkf", mode="lines", expect="valid", meta=r.meta))

    def work(r):
        outs = ["--xml", "@xml", "--text", "@text"]
        k = r.meta["index"] % 4
        if k == 1:
            outs += ["--html", "@html", "--svg", "@svg"]
        elif k == 2:
            outs += ["--octave", "@octave", "--export", "@export"]
        return r, X.gl.run(r.doc, ["@@"] + outs)

    for r, g in runner.pmap(work, todo):
        c = judge_gl(ck, F, X.gl, r.doc, g, "w1 valid", meta=r.meta)
        if r.meta["parse_only"]:
            c = "parse-only:" + c
        ck.count("w1 gama-local: " + c)
        ck.case(("w1-pipeline", c))
        if c in ("parse-error", "parse-exception"):
            F.add("reject-valid:gama-local-differs-from-parser", "parsedrv accepted what gama-local refused: %s" % (gl_outcome(g),),
                  mkwit("pipeline", r.doc, args=g.args, meta=r.meta, expect="valid"))
        elif c in ("not-adjustable",) or c.startswith("late-refusal"):
            F.add("reject-valid:not-adjusted:%s" % c.replace("late-refusal:", ""),
                  "a valid, determined, redundant survey was not adjusted: %s" % (gl_outcome(g),),
                  mkwit("pipeline", r.doc, args=g.args, meta=r.meta, expect="adjust"))
        elif c == "adjusted":
            X.valid.append((r.doc, r.meta))
            for k, data in g.files.items():
                m = RX_NAN.search(data)
                if m:
                    F.add("pipeline:default:nan-in-%s" % k, "output %s of a valid survey contains %r" % (k, m.group(0)),
                          mkwit("pipeline", r.doc, args=g.args, meta=r.meta, expect="finite"))
            if "xml" in g.files and len(X.outputs["xml"]) < 40:
                X.outputs["xml"].append(g.files["xml"])
            if "html" in g.files and len(X.outputs["html"]) < 20:
                X.outputs["html"].append(g.files["html"])


def w2_sequences(X):
    """bounded-exhaustive tag-event sequences against the XSD content model"""
    ck, F = X.ck, X.F
    recs, info = [], {}

    def add(ev, truncated):
        pre, clo = ser_events(ev)
        i = "s%d%s" % (len(recs), "t" if truncated else "c")
        doc = (pre if truncated else pre + clo).encode()
        recs.append(Rec(i, "gkf", "at:%d" % len(pre), doc, dict(events=list(ev), truncated=truncated)))
        info[i] = ev

    def judge(results, recs):
        ok_prefixes = []
        for r in recs:
            o = results[r.id]
            ev, trunc = r.meta["events"], r.meta["truncated"]
            hard, soft = ref_events(ev)
            open_left = sum(1 if e != CLOSE else -1 for e in ev)
            c = judge_parse(ck, F, r, o)
            ck.case()
            if o.kind == "refused" and o.chunk >= 1 or o.kind == "accepted":
                ok_prefixes.append(tuple(ev))
            if trunc and open_left > 0:
                if o.kind == "accepted":
                    F.add("silent-accept:truncated-document", "a document with %d open elements is accepted" % open_left,
                          mkwit("parse", r.doc, kind="gkf", mode=r.mode, meta=r.meta))
                cls = ("w2", "truncated", c)
            elif hard is not None:
                cls = ("w2", "invalid:" + hard[1].split(":")[0], c)
                if o.kind == "accepted" and not o.rec:
                    F.add("silent-accept:%s" % hard[1], "event %d (%s) is not allowed by the documented grammar, yet the "
                          "document is accepted" % (hard[0], ev[hard[0]]), mkwit("parse", r.doc, kind="gkf", mode=r.mode, meta=r.meta))
                elif o.kind == "refused":
                    d = o.line - (hard[0] + 1)
                    ck.count("w2 error line vs reference: " + ("same" if d == 0 else "later" if d > 0 else "earlier"))
            elif soft:
                cls = ("w2", "occurrence-deviation", c)
                ck.count("tolerated: occurrence deviation %s" % ("accepted" if o.kind == "accepted" else "refused"))
            else:
                cls = ("w2", "valid", c)
                if o.kind == "refused":
                    tag = ev[o.line - 1] if 1 <= o.line <= len(ev) else "closing"
                    F.add("reject-valid:sequence:%s" % (tag if tag != CLOSE else "close"),
                          "a tag sequence valid by the XSD (minimal valid attributes) is refused on line %d: [%s]" % (o.line, o.msg),
                          mkwit("parse", r.doc, kind="gkf", mode=r.mode, expect="valid", meta=r.meta))
            ck.cls(cls)
        return ok_prefixes

    # exhaustive part (length 5 unpruned would be 4.1 million documents; beyond 4 only prefixes that are still error-free
    # are extended, which loses nothing: once the parser is in its error state every continuation is refused)
    exhaustive = 4
    seqs = all_sequences(exhaustive)
    for k, ev in enumerate(seqs):
        add(ev, False)
        if k % 8 == 0:
            add(ev, True)
    res = X.drv.run(recs, "w2 sequences")
    ok = judge(res, recs)
    ck.count("w2 exhaustive sequences (length <= %d)" % exhaustive, len(seqs))
    # pruned continuation: only prefixes that have not yet errored are extended
    frontier = sorted(set(p for p in ok if len(p) == exhaustive))
    cap = X.n(60000, 1500000)
    level = exhaustive
    while frontier and level < X.n(9, 12):
        level += 1
        recs = []
        nxt = []
        for p in frontier:
            d = sum(1 if e != CLOSE else -1 for e in p)
            for t in SEQ_TAGS + ((CLOSE,) if d > 0 else ()):
                nxt.append(p + (t,))
        if len(nxt) > cap:
            rng = np.random.default_rng([X.seed, 1102, level])
            nxt = [nxt[int(k)] for k in sorted(rng.choice(len(nxt), cap, replace=False))]
            ck.count("w2 level %d sampled" % level, 1)
        for ev in nxt:
            add(ev, False)
        res = X.drv.run(recs, "w2 sequences")
        ok = judge(res, recs)
        ck.count("w2 pruned sequences (length %d)" % level, len(nxt))
        frontier = sorted(set(p for p in ok if len(p) == level))


SMALL_BASES = ("minimal.gkf", "tetrahedron.gkf", "triangle-1.gkf", "mikhail-7.4-cov.gkf", "stroner-levelling-a.gkf",
               "scale-cov-dms.gkf", "skorepa-dusek.gkf", "geodet-pc-123.gkf")


def base_docs(X, k_repo, k_gen):
    reps = dict(repo_inputs(6000))
    out = [(fn, reps[fn]) for fn in SMALL_BASES[:k_repo] if fn in reps]
    j = 0
    i = 0
    want = ["coords", "vectors", "hdiff", "cov"]
    while j < k_gen and i < 400:
        rng = np.random.default_rng([X.seed, i, 1104])
        dim = 3 if j % 2 == 0 else 2
        net = netgen.gen_net(rng, dim=dim, noise=True, features=("angles", "azimuths", "cov", "vectors", "coords", "hdiff"))
        txt = netgen.to_gkf(net, netgen.Frame(digits=4))
        i += 1
        if len(txt) < 9000 and all(("<" + {"coords": "coordinates", "hdiff": "height-differences", "cov": "cov-mat"}.get(w, w)) in txt
                                  for w in (want if dim == 3 else ["cov"])):
            out.append(("gen%d" % j, txt.encode()))
            j += 1
    return out


def hostile_pipeline(X, items, label):
    """everything the parser accepted goes through the real gama-local with several outputs"""
    ck, F = X.ck, X.F

    def work(it):
        doc, lab, lint = it
        k = len(doc) % 3
        outs = ["--text", "@text", "--xml", "@xml"] + (["--html", "@html", "--svg", "@svg"] if k == 1 else
                                                      ["--octave", "@octave", "--export", "@export"] if k == 2 else [])
        return it, X.gl.run(doc, ["@@"] + outs)

    for (doc, lab, lint), g in runner.pmap(work, items):
        c = judge_gl(ck, F, X.gl, doc, g, label, meta=dict(label=lab))
        ck.count("%s gama-local: %s" % (label.split()[0], c.split(":")[0]))
        ck.case((label.split()[0] + "-pipeline", lab[0] if isinstance(lab, tuple) else lab, c.split(":")[0]))
        if c in ("parse-error", "parse-exception"):
            ck.count("%s parsedrv accepted, gama-local refused" % label.split()[0])
        if lint is not None:
            for cat, ln in lint.categories():
                if c in ("adjusted", "ok-no-xml"):
                    F.add("silent-accept:%s" % cat, "line %d violates the documented grammar (%s); the document is accepted and "
                          "adjusted (exit %s)" % (ln, cat, g.rc), mkwit("pipeline", doc, args=g.args, label=lab, lint=cat))
                else:
                    ck.count("invalid document accepted by the parser, then %s" % c.split(":")[0])


def w3_mutations(X):
    """truncations at every byte, byte flips, token- and element-level mutations of valid files"""
    ck, F = X.ck, X.F
    bases = base_docs(X, X.n(4, 8), X.n(2, 6))
    recs = []
    for bi, (name, doc) in enumerate(bases):
        if bi < X.n(3, 8):
            step = 1
            for cut in range(0, len(doc), step):
                recs.append(Rec("t%d_%d" % (bi, cut), "gkf", "lines", doc[:cut], dict(base=name, label=("truncate", "", ""))))
        for k, (lab, m) in enumerate(mutations(X.seed, name, doc, X.n(260, 2500), X.n(200, 2000), X.n(60, 600))):
            recs.append(Rec("m%d_%d" % (bi, k), "gkf", "lines", m, dict(base=name, label=lab)))
    res, recs = run_with_probes(X, recs, "w3 mutations", lambda r: r.meta["label"][1],
                                lambda r: r.meta["label"][2] if r.meta["label"][0] == "number" else None)
    acc = []
    for r in recs:
        o = res[r.id]
        c = judge_parse(ck, F, r, o)
        lab = r.meta["label"]
        ck.case(("w3", lab[0], c))
        ck.count("w3 parser: " + c)
        if c == "accepted" and lab[0] != "truncate":
            L = Lint(r.doc)
            if not L.wf:
                ck.count("accepted although python's expat calls it ill-formed (not judged)")
                L = None
            else:
                for s in set(L.soft):
                    ck.count("tolerated: " + s.split(":")[0])
            acc.append((r.doc, lab, L))
        elif c == "accepted" and lab[0] == "truncate":
            if len(r.doc) < len(dict(bases)[r.meta["base"]].rstrip()):
                F.add("silent-accept:truncated-document", "a truncated file is accepted", mkwit("parse", r.doc, kind="gkf", mode="lines"))
    ck.sample(dict(workload=3, bases=[(n, len(d)) for n, d in bases]))
    hostile_pipeline(X, acc, "w3 mutations")


LIT_ALPHA = "019.eE+- x"
LIT_DMS = "0159-+. e"
LIT_TEMPLATE = """<?xml version="1.0"?>
<gama-local xmlns="http://www.gnu.org/software/gama/gama-local">
<network%(network@epoch)s>
<parameters%(parameters@sigma-apr)s%(parameters@conf-pr)s%(parameters@tol-abs)s%(parameters@cov-band)s%(parameters@latitude)s/>
<points-observations%(points-observations@direction-stdev)s%(points-observations@distance-stdev)s>
<point id="A" x="0" y="0" z="10" fix="xyz"/>
<point id="B" x="100" y="0" z="12" fix="xyz"/>
<point id="C" x="50"%(point@y)s%(point@z)s adj="xyz"/>
<obs from="A"%(obs@from_dh)s>
<direction to="B" val="0" stdev="10"/>
<direction to="C"%(direction@val)s%(direction@stdev)s%(direction@to_dh)s/>
<distance to="C"%(distance@val)s stdev="5"/>
<z-angle to="C"%(z-angle@val)s stdev="10"/>
</obs>
<obs from="B">
<direction to="A" val="0" stdev="10"/>
<direction to="C" val="64.4" stdev="10"/>
<angle bs="A" fs="C"%(angle@val)s stdev="10"/>
<azimuth to="C"%(azimuth@val)s stdev="10"/>
<s-distance to="C"%(s-distance@val)s stdev="5"/>
<cov-mat%(cov-mat@dim)s%(cov-mat@band)s>100 100 100 100 25</cov-mat>
</obs>
<height-differences>
<dh from="A" to="C"%(dh@val)s stdev="3"%(dh@dist)s/>
<dh from="B" to="C" val="-0.97" stdev="3"/>
</height-differences>
<vectors>
<vec from="A" to="C"%(vec@dx)s dy="80.02" dz="1.01"/>
<cov-mat dim="3" band="0">25 25 %(cov-mat#text)s</cov-mat>
</vectors>
</points-observations>
</network>
</gama-local>
"""
LIT_DEFAULT = {"network@epoch": None, "parameters@sigma-apr": "10", "parameters@conf-pr": "0.95", "parameters@tol-abs": "1000",
               "parameters@cov-band": None, "parameters@latitude": None, "points-observations@direction-stdev": None,
               "points-observations@distance-stdev": None, "point@y": "80", "point@z": "11", "obs@from_dh": None,
               "direction@val": "64.4", "direction@stdev": "10", "direction@to_dh": None, "distance@val": "94.34",
               "z-angle@val": "99.3", "angle@val": "64.4", "azimuth@val": "364.4", "s-distance@val": "94.35", "cov-mat@dim": "5",
               "cov-mat@band": "0", "dh@val": "1.02", "dh@dist": None, "vec@dx": "50.01", "cov-mat#text": "25"}
# slots where every real number is semantically fine, so a lexically valid literal must be accepted
LIT_FREE = ("network@epoch", "point@y", "point@z", "obs@from_dh", "direction@to_dh", "dh@val", "vec@dx", "direction@val",
            "angle@val", "azimuth@val")


def lit_doc(slot, s):
    vals = {}
    for k, d in LIT_DEFAULT.items():
        v = s if k == slot else d
        if k == "cov-mat#text":
            vals[k] = v if v is not None else ""
        else:
            vals[k] = "" if v is None else ' %s="%s"' % (k.split("@")[1], v)
    return (LIT_TEMPLATE % vals).encode()


def strings_upto(alpha, n):
    out = [""]
    level = [""]
    for _ in range(n):
        level = [s + c for s in level for c in alpha]
        out += level
    return out


def w4_literals(X):
    """numeric literals as attribute values: exhaustive short strings in every numeric slot of a small document"""
    ck, F = X.ck, X.F
    slots = [k for k in LIT_DEFAULT]
    L3 = strings_upto(LIT_ALPHA, X.n(2, 3))
    L4 = strings_upto(LIT_ALPHA, X.n(3, 4))
    D4 = strings_upto(LIT_DMS, X.n(3, 4))
    D5 = [a + "-" + b + "-" + c for a in ("0", "1", "59", "+1", "-1", "", " 1", "1e1") for b in ("0", "59", "60", "5", "", "-1", "1.5")
          for c in ("0", "59.9", "60", "1e1", "1.", ".5", "", "5 ", "-5", "1.5.5")]
    recs = []
    typ_of = {}
    for s in slots:
        el, _, at = s.partition("@")
        typ = "double" if s == "cov-mat#text" else ATTRS[el][at]
        typ_of[s] = typ
        if s in ("direction@val",):
            lits = L4 + D4 + D5 + HOSTILE_NUM
        elif s in ("point@z",):
            lits = L4 + HOSTILE_NUM
        elif typ == "angle":
            lits = L3 + D5 + HOSTILE_NUM
        else:
            lits = L3 + HOSTILE_NUM
        for k, lit in enumerate(dict.fromkeys(lits)):
            if any(c in lit for c in "<&\""):
                continue
            recs.append(Rec("l%d" % len(recs), "gkf", "lines", lit_doc(s, lit), dict(slot=s, lit=lit)))
    res, recs = run_with_probes(X, recs, "w4 literals", lambda r: r.meta["slot"], lambda r: r.meta["lit"])
    acc = []
    for r in recs:
        o = res[r.id]
        slot, lit, typ = r.meta["slot"], r.meta["lit"], typ_of[r.meta["slot"]]
        c = judge_parse(ck, F, r, o)
        ok, must = lex_ok(typ, lit), lex_must(typ, lit)
        ck.case(("w4", slot, "lexically-valid" if ok else "lexically-invalid", c))
        if c == "accepted":
            optional = slot.split("@")[-1] not in REQUIRED.get(slot.split("@")[0], ()) and "#" not in slot
            if not ok and not (lit.strip() == "" and optional):
                F.add("silent-accept:bad-number:%s" % slot, "%s=%r is not a %s literal of the documented form, yet the document "
                      "is accepted" % (slot, lit, typ), mkwit("parse", r.doc, kind="gkf", mode="lines", slot=slot, literal=lit))
            elif not ok:
                ck.count("tolerated: empty-optional")
            if len(acc) < X.n(600, 6000) and (len(lit) >= 3 or lit in HOSTILE_NUM):
                acc.append((r.doc, ("literal", slot, lit), None))
        elif c == "refused-with-line" and must and slot in LIT_FREE:
            F.add("reject-valid:literal:%s" % slot, "%s=%r is a documented %s literal and any value is meaningful there, yet the "
                  "document is refused: [%s]" % (slot, lit, typ, o.msg), mkwit("parse", r.doc, kind="gkf", mode="lines", expect="valid"))
        elif c == "refused-with-line" and ok:
            ck.count("w4 lexically valid literal refused on a constrained slot (semantic rule, not judged)")
    hostile_pipeline(X, acc, "w4 literals")


def w5_chunked(X):
    """chunked delivery: every two-chunk split, 1-byte chunks and line chunks give the one-shot outcome"""
    ck, F = X.ck, X.F
    docs = []
    for name, d in base_docs(X, X.n(3, 6), X.n(1, 3)):
        if len(d) <= X.n(2200, 4000):
            docs.append(("valid:" + name, d))
    for i in range(X.n(6, 24)):
        d, m = gen_valid(X.seed, 5000 + i)
        if len(d) <= X.n(3000, 5000):
            docs.append(("generated-valid", d))
    rng = np.random.default_rng([X.seed, 1105])
    base = [d for _, d in docs]
    for k, d in enumerate(base[:X.n(6, 20)]):
        ms = list(mutations(X.seed + k, "c", d, 14, 6, 6))
        for lab, m in ms:
            if lab[0] == "number" and is_huge(lab[2]) and lab[1] in X.slot_hang:
                continue               # the hang of this slot is reported already
            if len(m) < 20000:
                docs.append(("mutated:" + lab[0], m))
        cut = int(rng.integers(10, len(d)))
        docs.append(("truncated", d[:cut]))
        # two errors: a gama error early, an XML error later
        lines = d.split(b"\n")
        if len(lines) > 8:
            lines.insert(len(lines) // 2, b"<zzz/>")
            docs.append(("two-errors", b"\n".join(lines)[:-12]))
    recs = [Rec("e%d" % i, "gkf", "every", d, dict(label=lab)) for i, (lab, d) in enumerate(docs)]
    res = X.drv.run(recs, "w5 chunked")
    for r in recs:
        o = res[r.id]
        if o.kind != "every":
            judge_parse(ck, F, r, o)
            continue
        judge_parse(ck, F, r, o.base)
        ck.case(("w5", r.meta["label"].split(":")[0], o.base.kind, "same" if o.diffs == 0 else "differs"), n=o.n)
        ck.count("w5 chunkings compared", o.n)
        if o.diffs:
            m = re.match(r"(\S+?)\{(.*)\}$", o.first or "")
            alt = parse_outcome(re.sub(r"^(accepted|refused)", r"\1", m.group(2))) if m else None
            b = o.base
            diff = "outcome"
            if alt is not None and alt.kind is None:
                alt = None
            a2 = _sig_parse(m.group(2)) if m else {}
            if a2.get("kind") == "refused" and b.kind == "refused":
                if b.code > 0 and a2.get("code") == -1 and a2.get("line", 0) <= b.line:
                    diff = "first-error-overwritten-by-later-xml-error"
                elif a2.get("line") != b.line:
                    diff = "line"
                else:
                    diff = "message"
            elif a2.get("kind") == "accepted" and b.kind == "accepted":
                diff = "model"
            elif a2.get("kind") and a2.get("kind") != b.kind:
                diff = "accepted-vs-refused"
            F.add("chunked:gkf:%s" % diff, "one-shot: {%s}; %s; %d of %d chunkings differ" % (b.raw, o.first, o.diffs, o.n),
                  mkwit("every", r.doc, kind="gkf", mode="every", label=r.meta["label"]))


def _sig_parse(s):
    m = re.match(r"refused class=(\S+) line=(-?\d+) code=(-?\d+)", s)
    if m:
        return dict(kind="refused", cls=m.group(1), line=int(m.group(2)), code=int(m.group(3)))
    if s.startswith("accepted"):
        return dict(kind="accepted")
    return {}


ALGS = ("gso", "svd", "cholesky", "envelope")
LANGS = ("en", "ca", "cs", "cz", "du", "es", "fi", "fr", "hu", "ru", "ua", "zh")
ENCS = ("utf-8", "iso-8859-2", "iso-8859-2-flat", "cp-1250", "cp-1251")
ELLIPSOIDS = ("wgs84", "grs80", "bessel", "krassovski", "airy", "hayford")


BAD_OPT = {"algorithm=foo", "language=xx", "encoding=latin9", "angular=100", "cov-band=-2", "cov-band=x", "cov-band=2x",
           "iterations=-1", "iterations=abc", "latitude=abc", "ellipsoid=nowhere"}


def rand_options(rng):
    """-> (args, stdin, features).  A random, possibly silly, gama-local command line; '@@' is the input."""
    a, feat = [], set()
    outs = [o for o in GL_OUT if rng.uniform() < (0.45 if o != "obs" else 0.15)]
    stdout_used = False
    for o in outs:
        if not stdout_used and rng.uniform() < 0.12:
            a += ["--" + o, "-"]
            stdout_used = True
            feat.add(o + "->stdout")
        else:
            a += ["--" + o, "@" + o]
            feat.add(o)
    pool = [("algorithm", ALGS + ("foo",)), ("language", LANGS + ("xx",)), ("encoding", ENCS + ("latin9",)),
            ("angular", ("400", "360", "100")), ("cov-band", ("-1", "0", "1", "3", "100000", "-2", "x", "2x")),
            ("iterations", ("0", "1", "2", "5", "50", "-1", "abc")), ("latitude", ("50", "-45.5", "49-30-00", "91", "abc")),
            ("ellipsoid", ELLIPSOIDS + ("nowhere",)), ("verbose", ("yes", "no", None))]
    for name, vals in pool:
        if rng.uniform() < 0.3:
            v = vals[int(rng.integers(len(vals)))]
            if ("%s=%s" % (name, v)) in BAD_OPT and rng.uniform() < 0.75:
                v = vals[0]
            a += ["--" + name] + ([v] if v is not None else [])
            feat.add("%s=%s" % (name, "bad" if ("%s=%s" % (name, v)) in BAD_OPT else "ok"))
            if rng.uniform() < 0.08:
                v2 = vals[int(rng.integers(len(vals)))]
                a += ["--" + name] + ([v2] if v2 is not None else [])
                feat.add("repeated")
    stdin = rng.uniform() < 0.15
    order = int(rng.integers(0, 4))
    if order == 0:
        args = ["@@"] + a
    elif order == 1:
        args = a + ["@@"] if not (a and a[-1].startswith("--")) else ["@@"] + a
    elif order == 2:
        args = ["--input-xml", "@@"] + a
        feat.add("input-xml")
    else:
        args = ["@@"] + a
        if rng.uniform() < 0.3:
            args = [x if not x.startswith("--") else x[1:] for x in args]       # single dash is accepted too
            feat.add("single-dash")
    if rng.uniform() < 0.08:
        args = args + ["--" + str(rng.choice(["xml", "algorithm", "cov-band", "text", "latitude", "encoding"]))]    # value missing
        feat.add("missing-value")
    if stdin:
        feat.add("stdin")
    return args, stdin, feat


def w6_options(X):
    """whole pipeline with random option sets on accepted documents"""
    ck, F = X.ck, X.F
    docs = list(X.valid)
    if len(docs) < 10:
        cand = [gen_valid(X.seed, 7000 + i) for i in range(40)]
        recs = [Rec("f%d" % i, "gkf", "lines", d, m) for i, (d, m) in enumerate(cand)]
        res = X.drv.run(recs, "w6 fallback documents")
        docs += [(r.doc, r.meta) for r in recs if res[r.id].kind == "accepted" and not r.meta["parse_only"]]
    for name, d in repo_inputs(5000):
        docs.append((d, dict(features=["repo:" + name], repo=name)))
    n = X.n(420, 6000)
    jobs = []
    for i in range(n):
        rng = np.random.default_rng([X.seed, i, 1106])
        doc, meta = docs[int(rng.integers(len(docs)))]
        args, stdin, feat = rand_options(rng)
        jobs.append((i, doc, meta, args, stdin, feat))
    # a few fixed corner cases
    d0 = docs[0][0]
    for extra in (["@@", "--obs", "@obs"], ["@@", "--obs", "@obs", "--algorithm", "gso"], ["--help"], ["--version"], ["@@", "@@"],
                  ["@@", "--text"], ["--text", "@text"], ["@@", "--xml", "@xml", "--xml", "@xml"], ["@@", "--iterations", "0", "--xml", "@xml"],
                  ["@@", "--cov-band", "0", "--xml", "@xml", "--html", "@html"], ["@@", "--angular", "360", "--text", "@text", "--html", "@html", "--xml", "@xml"]):
        jobs.append((len(jobs), d0, docs[0][1], extra, False, {"fixed:" + optkey(extra)}))

    refused_min = []

    def work(j):
        i, doc, meta, args, stdin, feat = j
        return j, X.gl.run(doc, args, stdin=stdin)

    for (i, doc, meta, args, stdin, feat), g in runner.pmap(work, jobs):
        g.stdin = stdin
        c = judge_gl(ck, F, X.gl, doc, g, "w6 options", meta=dict(features=sorted(feat)))
        ck.case()
        for f in feat:
            ck.cls(("w6", f, c.split(":")[0]))
        ck.count("w6 gama-local: " + c.split(":")[0])
        if c in ("parse-error", "parse-exception") and args.count("@@") == 1 and len(refused_min) < 12:
            opts = minimise_args(X.gl, doc, args, stdin, lambda g2: gl_outcome(g2)[0] in ("parse-error", "parse-exception"))
            refused_min.append(opts)
            if _has_real_options(opts):
                F.add("pipeline:%s:valid-input-refused" % optkey(opts), "a document that is adjusted without options is refused with "
                      "these: %s" % (gl_outcome(g),), mkwit("pipeline", doc, args=opts, stdin=stdin))
            else:
                ck.inconc("w6 document refused without options")
        if c == "adjusted" or c == "ok-no-xml":
            for k, data in g.files.items():
                m = RX_NAN.search(data)
                if m and "repo" not in meta:
                    F.add("pipeline:%s:nan-in-%s" % (optkey(args), k), "output %s of a valid survey contains %r" % (k, m.group(0)),
                          mkwit("pipeline", doc, args=args, stdin=stdin, expect="finite"))
            english = not any(f.startswith(("language=", "encoding=")) for f in feat)     # the readers know gama's English output
            if english and "xml" in g.files and len(X.outputs["xml"]) < 60:
                X.outputs["xml"].append(g.files["xml"])
            if english and "html" in g.files and len(X.outputs["html"]) < 40:
                X.outputs["html"].append(g.files["html"])


# ------------------------------------------------------------------------------------------------------------
# (7) the other parsers

def mutations_generic(seed, doc, n):
    """mutations for element-content XML (gnu-gama-data, adjustment results, xhtml)"""
    rng = np.random.default_rng([seed, 1107, len(doc), sum(doc[:200])])
    nums = [m.span(1) for m in re.finditer(rb">\s*([-+]?[0-9][-+0-9.eE]*)\s*<", doc)]
    tags = [m.span(1) for m in re.finditer(rb"</?([A-Za-z][\w.-]*)", doc)]
    lines = doc.split(b"\n")
    special = b"<>/\"'=&;- \n\x00\xff09e.\t!?[]"
    for _ in range(n):
        k = int(rng.integers(0, 8))
        if k <= 1 and nums:
            a, b = nums[int(rng.integers(len(nums)))]
            v = HOSTILE_NUM[int(rng.integers(len(HOSTILE_NUM)))]
            yield ("number", v), doc[:a] + v.encode() + doc[b:]
        elif k == 2 and tags:
            a, b = tags[int(rng.integers(len(tags)))]
            c, d = tags[int(rng.integers(len(tags)))]
            yield ("rename-tag", ""), doc[:a] + (doc[c:d] if rng.uniform() < 0.7 else b"zzz") + doc[b:]
        elif k == 3 and len(lines) > 3:
            L = list(lines)
            del L[int(rng.integers(len(L)))]
            yield ("delete-line", ""), b"\n".join(L)
        elif k == 4 and len(lines) > 3:
            L = list(lines)
            a = int(rng.integers(len(L)))
            L.insert(int(rng.integers(len(L))), L[a])
            yield ("duplicate-line", ""), b"\n".join(L)
        elif k == 5:
            yield ("truncate", ""), doc[:int(rng.integers(len(doc)))]
        elif k == 6 and nums:
            a, b = nums[int(rng.integers(len(nums)))]
            yield ("empty-number", ""), doc[:a] + doc[b:]
        else:
            p = int(rng.integers(len(doc)))
            c = special[int(rng.integers(len(special)))] if rng.uniform() < 0.7 else int(rng.integers(256))
            yield ("byte-flip", ""), doc[:p] + bytes([c if c != doc[p] else (c + 1) % 256]) + doc[p + 1:]


def g3_seeds(X):
    """gama-g3 inputs of the repository and what gama-g3 writes for them (results, adjustment input data)"""
    d = os.path.join(runner.REPO, "tests", "gama-g3", "input")
    seeds = []
    for fn in sorted(os.listdir(d)):
        p = os.path.join(d, fn)
        if fn.endswith(".xml") and os.path.getsize(p):
            with open(p, "rb") as f:
                seeds.append(("repo:" + fn, f.read()))
    # documented alternatives no repository input uses (ellipsoid given by a and b / a and 1/f)
    cd = os.path.join(CORPUS, "fuzz_dataparser")
    for fn in sorted(os.listdir(cd)):
        if fn.startswith("g3-model-ellipsoid"):
            with open(os.path.join(cd, fn), "rb") as f:
                seeds.append(("corpus:" + fn, f.read()))
    exe = runner.binpath("san", "gama-g3")

    def work(item):
        name, doc = item
        if name.endswith("-adj.xml"):
            return []
        w = os.path.join(X.ck.tmp, "g3-" + re.sub(r"\W", "_", name))
        os.makedirs(w, exist_ok=True)
        with open(os.path.join(w, "in.xml"), "wb") as f:
            f.write(doc)
        rr = runner.run([exe, "--project-equations", "pe.xml", "in.xml", "out.xml"], cwd=w, timeout=120)
        out = []
        for fn, lab in (("out.xml", "g3-results:"), ("pe.xml", "g3-adj-input:")):
            p = os.path.join(w, fn)
            if os.path.exists(p) and os.path.getsize(p):
                with open(p, "rb") as f:
                    out.append((lab + name, f.read()))
        if not out:
            X.ck.count("w7 gama-g3 produced no output for a seed (not judged here)")
        return out

    for extra in runner.pmap(work, list(seeds)):
        seeds += extra
    return seeds


def w7_other_parsers(X):
    ck, F = X.ck, X.F
    # ---- DataParser
    seeds = g3_seeds(X)
    recs = []
    for i, (name, doc) in enumerate(seeds):
        recs.append(Rec("g%d" % i, "datax", "g3lines", doc, dict(seed=name, label=("seed", ""), expect="valid")))
        if len(doc) <= X.n(2500, 6000):
            recs.append(Rec("ge%d" % i, "data", "every", doc, dict(seed=name, label=("seed-chunked", ""))))
        for k, (lab, m) in enumerate(mutations_generic(X.seed + i, doc, X.n(150, 1500))):
            recs.append(Rec("gm%d_%d" % (i, k), "data", "g3lines", m, dict(seed=name, label=lab)))
        if len(doc) <= 2500 and i < X.n(2, 6):
            for cut in range(0, len(doc)):
                recs.append(Rec("gt%d_%d" % (i, cut), "data", "g3lines", doc[:cut], dict(seed=name, label=("truncate", ""))))
    res = X.drv.run(recs, "w7 DataParser")
    for r in recs:
        o = res[r.id]
        if o.kind == "every":
            judge_parse(ck, F, r, o.base, stage="parse")
            ck.case(("w7-data", "chunked", "same" if o.diffs == 0 else "differs"), n=o.n)
            if o.diffs:
                F.add("chunked:data:%s" % ("outcome" if _sig_parse(o.first.split("{", 1)[1]).get("kind") != o.base.kind else "detail"),
                      "one-shot: {%s}; %s; %d of %d chunkings differ" % (o.base.raw, o.first, o.diffs, o.n),
                      mkwit("every", r.doc, kind="data", mode="every", meta=r.meta))
            continue
        c = judge_parse(ck, F, r, o, expect=r.meta.get("expect"))
        ck.case(("w7-data", r.meta["label"][0], c))
        ck.count("w7 DataParser: " + c)
        if c == "refused-valid":
            F.add("reject-valid:data:%s" % r.meta["seed"].split(":")[0], "DataParser refuses %s on line %d: [%s]" % (r.meta["seed"], o.line, o.msg),
                  mkwit("parse", r.doc, kind="datax", mode="g3lines", expect="valid", meta=r.meta))
    # ---- adjustment-result readers, seeded with gama-local's own outputs
    xmls = [("own-output", d) for d in X.outputs["xml"][:X.n(12, 60)]]
    htmls = [("own-output", d) for d in X.outputs["html"][:X.n(8, 40)]]
    d = os.path.join(runner.REPO, "tests", "gama-local", "input")
    for fn in sorted(os.listdir(d)):
        p = os.path.join(d, fn)
        if fn.endswith(".xml") and 0 < os.path.getsize(p) < 60000 and len(xmls) < X.n(20, 90):
            with open(p, "rb") as f:
                xmls.append(("repo:" + fn, f.read()))
    if not X.outputs["xml"] or not X.outputs["html"]:
        ck.inconc("no gama-local outputs available as seeds for the result readers")
    recs = []
    for kind, pool in (("adjxml", xmls), ("adjhtml", htmls)):
        for i, (name, doc) in enumerate(pool):
            recs.append(Rec("%s%d" % (kind, i), kind, "one", doc, dict(seed=name, label=("seed", ""), expect="valid")))
            for k, (lab, m) in enumerate(mutations_generic(X.seed + 31 * i, doc, X.n(60, 500))):
                recs.append(Rec("%sm%d_%d" % (kind, i, k), kind, "one", m, dict(seed=name, label=lab)))
    # an error document is a legitimate input of read_xml, too
    err = b'<?xml version="1.0"?>\n<gama-local-adjustment xmlns="http://www.gnu.org/software/gama/gama-local-adjustment">\n\n' \
          b'<error category="gamaLocalParserError">\n<description>x</description>\n<lineNumber>7</lineNumber>\n</error>\n\n</gama-local-adjustment>\n'
    recs.append(Rec("adjxmlerr", "adjxml", "one", err, dict(seed="error-document", label=("seed", ""), expect="valid")))
    res = X.drv.run(recs, "w7 result readers")
    for r in recs:
        o = res[r.id]
        c = judge_parse(ck, F, r, o, expect=r.meta.get("expect"))
        ck.case(("w7-" + r.kind, r.meta["label"][0], c))
        ck.count("w7 %s: %s" % (r.kind, c))
        if c == "refused-valid":
            F.add("reject-valid:%s:%s" % (r.kind, r.meta["seed"].split(":")[0]),
                  "%s refuses gama-local's own output (%s) on line %d: [%s]" % (r.kind, r.meta["seed"], o.line, o.msg),
                  mkwit("parse", r.doc, kind=r.kind, mode="one", expect="valid", meta=r.meta))


# ------------------------------------------------------------------------------------------------------------
# (8) libFuzzer

FUZZ = (("fuzz_gkf", "gkf", "gkf.dict", 4096), ("fuzz_dataparser", "data", "data.dict", 12288),
        ("fuzz_adjresults", "adj", "adj.dict", 12288))


def judge_artifact(X, kind, data, label):
    """re-judge an input found by the fuzzer with the oracles of this module on the san binaries; True if reported"""
    ck, F = X.ck, X.F
    before = dict(X.F.hits)
    if kind == "gkf":
        r = Rec("a", "gkf", "lines", data, dict(label=label))
        o = X.drv.run([r], "w8 artifacts")["a"]
        c = judge_parse(ck, F, r, o)
        if c == "accepted":
            L = Lint(data)
            args = ["@@", "--text", "@text", "--xml", "@xml", "--html", "@html", "--svg", "@svg", "--octave", "@octave",
                    "--export", "@export", "--algorithm", ("envelope", "gso", "svd", "cholesky")[len(data) % 4]]
            if len(data) & 4:
                args += ["--angular", "360"]
            for a in (["@@"], args):
                g = X.gl.run(data, a)
                c2 = judge_gl(ck, F, X.gl, data, g, label)
                if c2 in ("crash", "hang"):
                    break
                if c2 == "adjusted" and L.wf:
                    for cat, ln in L.categories():
                        F.add("silent-accept:%s" % cat, "line %d violates the documented grammar (%s); accepted and adjusted" % (ln, cat),
                              mkwit("pipeline", data, args=a, label=label, lint=cat))
    elif kind == "data":
        r = Rec("a", "data", "g3lines", data, dict(label=label))
        judge_parse(ck, F, r, X.drv.run([r], "w8 artifacts")["a"])
    else:
        html = data[:1] == b"H"
        r = Rec("a", "adjhtml" if html else "adjxml", "one", data[1:] if html else data, dict(label=label))
        judge_parse(ck, F, r, X.drv.run([r], "w8 artifacts")["a"])
    return X.F.hits != before


def w8_fuzz(X, build_thread):
    ck, F = X.ck, X.F
    build_thread.join()
    if build_thread.error:
        raise build_thread.error
    env = dict(runner.SAN_ENV)
    jobs = []
    for target, kind, dic, maxlen in FUZZ:
        exe = runner.binpath("fuzz", target)
        seeds = os.path.join(CORPUS, target)
        nseed = len(os.listdir(seeds)) if os.path.isdir(seeds) else 0
        ck.count("w8 committed corpus files [%s]" % target, nseed)
        if nseed == 0:
            ck.inconc("no committed corpus for " + target)
        nj = X.n(5, 16) if kind == "gkf" else X.n(3, 8)
        runs = X.n(25000, 400000) if kind == "gkf" else X.n(60000, 400000 if kind == "data" else 800000)
        for j in range(nj):
            jobs.append((target, kind, dic, maxlen, exe, seeds, j, runs))

    def work(job):
        target, kind, dic, maxlen, exe, seeds, j, runs = job
        w = os.path.join(ck.tmp, "fz-%s-%d" % (target, j))
        os.makedirs(os.path.join(w, "corpus"), exist_ok=True)
        os.makedirs(os.path.join(w, "art"), exist_ok=True)
        cmd = [exe, "-runs=%d" % runs, "-seed=%d" % (X.seed * 1000 + j + 1), "-max_len=%d" % maxlen, "-timeout=%d" % int(WATCHDOG + 5),
               "-rss_limit_mb=4096", "-malloc_limit_mb=2048", "-print_final_stats=1", "-artifact_prefix=" + os.path.join(w, "art") + "/",
               "-dict=" + os.path.join(CORPUS, dic), os.path.join(w, "corpus"), seeds]
        rr = runner.run(cmd, cwd=w, timeout=X.n(170, 1300), env=env)
        arts = []
        for fn in sorted(os.listdir(os.path.join(w, "art"))):
            with open(os.path.join(w, "art", fn), "rb") as f:
                arts.append((fn, f.read()))
        new = []
        for fn in sorted(os.listdir(os.path.join(w, "corpus"))):
            p = os.path.join(w, "corpus", fn)
            if os.path.getsize(p) <= maxlen:
                with open(p, "rb") as f:
                    new.append(f.read())
        m = re.search(r"stat::number_of_executed_units:\s*(\d+)", rr.err or "")
        cov = re.findall(r"cov: (\d+)", rr.err or "")
        return job, rr, arts, new, int(m.group(1)) if m else 0, int(cov[-1]) if cov else 0

    corpus_new = {}
    for job, rr, arts, new, execs, cov in runner.pmap(work, jobs):
        target, kind = job[0], job[1]
        ck.count("w8 executions [%s]" % target, execs)
        ck.count("w8 new corpus entries [%s]" % target, len(new))
        ck.counters["w8 coverage edges [%s]" % target] = max(ck.counters.get("w8 coverage edges [%s]" % target, 0), cov)
        ck.case(("w8", target, "finished" if not arts else "artifact"), n=max(1, execs))
        corpus_new.setdefault(kind, []).extend(new)
        if rr.timeout:
            ck.inconc("libFuzzer job exceeded its wall budget (%s)" % target)
        if execs == 0 and not arts:
            ck.inconc("libFuzzer job reported no executions (%s): %s" % (target, (rr.err or "")[-200:]))
        for fn, data in arts:
            what = fn.split("-")[0]
            ck.count("w8 artifacts [%s] %s" % (target, what))
            if not judge_artifact(X, kind, data, "libFuzzer %s %s" % (target, what)):
                ck.count("w8 artifacts not reproduced on the san binaries [%s] %s" % (target, what))
                ck.sample(dict(workload=8, unreproduced_artifact=fn, target=target, bytes=len(data), doc_b64=b64(data[:6000]),
                               stderr_tail=(rr.err or "")[-1500:]), limit=8)
    # the grown corpus goes through the real pipeline: whatever the parser accepts must be adjusted or refused normally
    rng = np.random.default_rng([X.seed, 1108])
    grown = corpus_new.get("gkf", [])
    if grown:
        pick = [grown[int(k)] for k in rng.choice(len(grown), min(len(grown), X.n(250, 4000)), replace=False)]
        recs = [Rec("c%d" % i, "gkf", "lines", d, dict(label=("fuzz-corpus", "", ""))) for i, d in enumerate(pick)]
        res = X.drv.run(recs, "w8 corpus")
        acc = []
        for r in recs:
            c = judge_parse(ck, F, r, res[r.id])
            ck.case(("w8-corpus", c))
            if c == "accepted":
                L = Lint(r.doc)
                acc.append((r.doc, ("fuzz-corpus", "", ""), L if L.wf else None))
        hostile_pipeline(X, acc, "w8 corpus")


class BuildThread:
    def __init__(self, flavour, targets):
        import threading
        self.error = None

        def go():
            try:
                runner.build(flavour, targets=targets)
            except Exception as e:       # re-raised by the consumer
                self.error = e

        self.t = threading.Thread(target=go)
        self.t.start()

    def join(self):
        self.t.join()


# ------------------------------------------------------------------------------------------------------------
# valgrind memcheck sample (thorough): uninitialised-value use, which ASan does not see

def w9_memcheck(X, build_thread):
    ck, F = X.ck, X.F
    build_thread.join()
    if build_thread.error:
        raise build_thread.error
    import shutil
    vg = shutil.which("valgrind")
    if not vg:
        ck.inconc("valgrind not available")
        return
    pd, gl = runner.binpath("plain", "parsedrv"), runner.binpath("plain", "gama-local")
    docs = [d for d, m in X.valid[:60]] + [d for d, lab, l in X.accepted_hostile[:200]] + [d for _, d in repo_inputs(6000)]
    docs = docs[:300]
    opts = ["-q", "--error-exitcode=97", "--track-origins=no", "--errors-for-leak-kinds=none", "--leak-check=no"]

    def frames(err):
        fr = []
        for m in re.finditer(r"==\d+==\s+(?:at|by) 0x[0-9A-F]+: (.*) \(([^()]+)\)\s*$", err, re.M):
            func, loc = m.group(1), m.group(2)
            if not re.search(r"\.(cpp|h):\d+$", loc) or loc.startswith("parsedrv.cpp") or \
                    func.startswith(("std::", "__", "non-virtual thunk")):
                continue
            func = re.sub(r"^\(anonymous namespace\)::", "", func)
            fr.append(re.sub(r"<.*?>", "", re.sub(r"\(.*", "", func)).strip())
            if len(fr) >= 3:
                break
        return ">".join(fr)

    def work(item):
        i, doc = item
        w = os.path.join(ck.tmp, "vg%d" % i)
        os.makedirs(w, exist_ok=True)
        p = os.path.join(w, "in.gkf")
        with open(p, "wb") as f:
            f.write(doc)
        outs = []
        rr = runner.run([vg] + opts + [pd, "-f", "gkf", "lines", p], cwd=w, timeout=300)
        outs.append(("parsedrv", rr))
        if " accepted " in (rr.out or ""):
            rr2 = runner.run([vg] + opts + [gl, p, "--text", "o.txt", "--xml", "o.xml", "--html", "o.html", "--svg", "o.svg",
                                            "--octave", "o.m", "--export", "o.gkf"], cwd=w, timeout=600)
            outs.append(("gama-local", rr2))
        return doc, outs

    for doc, outs in runner.pmap(work, list(enumerate(docs))):
        for stage, rr in outs:
            ck.case(("w9-memcheck", stage, "clean" if rr.rc != 97 else "error"))
            if rr.timeout:
                ck.inconc("valgrind run exceeded its budget")
            elif rr.rc == 97 or rr.rc < 0:
                m = re.search(r"==\d+== ([A-Z][^\n]*)", rr.err or "")
                kind = re.sub(r"\d+", "N", m.group(1))[:60] if m else "error"
                F.add("memcheck:%s:%s|%s" % (stage, kind, frames(rr.err or "")), "valgrind memcheck: %s" % (m.group(1) if m else rr.rc),
                      mkwit("memcheck", doc, tool=stage, stderr=(rr.err or "")[:1500]))


# ------------------------------------------------------------------------------------------------------------

WORKLOADS = ("w0", "w1", "w2", "w3", "w4", "w5", "w6", "w7", "w8", "w9")


def run(tier, seed):
    t0 = time.time()
    runner.build("san", targets=["parsedrv", "gama-local", "gama-g3"])
    want = lambda w: (not ONLY or w in ONLY)
    fz = BuildThread("fuzz", [t for t, _, _, _ in FUZZ]) if want("w8") else None
    pl = BuildThread("plain", ["parsedrv", "gama-local"]) if (tier == "thorough" and want("w9")) else None
    ck = Check("C11", tier, seed,
               "san build (gcc ASan+UBSan, alloc_dealloc_mismatch on): (0) witness documents of repaired pipeline defects x 4 "
               "algorithms x 2 angular units x all outputs; (1) grammar-derived valid documents; (2) all tag-event "
               "sequences up to length 4 + pruned continuation, against the XSD content model; (3) truncation at every byte, byte "
               "flips, token/element mutations of valid files, everything accepted run through gama-local; (4) all short literal "
               "strings in every numeric slot; (5) every two-chunk split / 1-byte / line chunking vs one-shot; (6) random command "
               "lines; (7) DataParser and the adjustment-result readers on gama's own outputs and their mutations; (8) libFuzzer "
               "(clang) corpus replay + bounded runs, artifacts re-judged on the san binaries; thorough: (9) valgrind memcheck "
               "sample.  class = (workload, feature / mutation kind / slot, outcome)")
    X = Ctx(ck, tier, seed)
    steps = (("w0", w0_regress), ("w1", w1_valid), ("w2", w2_sequences), ("w3", w3_mutations), ("w4", w4_literals), ("w5", w5_chunked),
             ("w6", w6_options), ("w7", w7_other_parsers))
    for name, fn in steps:
        if want(name):
            t1 = time.time()
            fn(X)
            ck.counters["wall %s [s]" % name] = round(time.time() - t1, 1)
    if fz is not None:
        t1 = time.time()
        w8_fuzz(X, fz)
        ck.counters["wall w8 [s]" % ()] = round(time.time() - t1, 1)
    if pl is not None:
        t1 = time.time()
        w9_memcheck(X, pl)
        ck.counters["wall w9 [s]"] = round(time.time() - t1, 1)
    # parser automaton coverage (observed through a probe subclass in parsedrv)
    tr = X.drv.trans
    ck.counters["gkf automaton: distinct (state, event, next state) transitions"] = len(tr)
    ck.counters["gkf automaton: distinct (state, event) pairs of 31 x 22"] = len(set((s, t) for s, t, n in tr))
    ck.counters["gkf automaton: states entered"] = len(set(n for s, t, n in tr))
    X.F.flush()
    ck.assumptions += [
        "a refusal is 'located' when the exception is Exception::parser with 1 <= line <= number of lines of the document "
        "(gama-local: <lineNumber> / 'line N' on stderr)",
        "clear-cut invalidity = lexically invalid numeric/angle attribute (xs:double without INF/NaN, integer, d-m-s), missing "
        "mandatory attribute, element not allowed by the XSD in that parent, element after cov-mat, cov-mat dim != number of "
        "observations, stray text; occurrence counts, enumerations and unknown attributes are not judged",
        "libFuzzer artifacts count only when the san binaries reproduce a refuting event on the same input",
        "termination is bounded progress: watchdog %.0f s per parse batch / %.0f s per gama-local run, reproduced alone" % (PARSE_WATCHDOG, WATCHDOG)]
    if not ONLY:
        ck.minimum = dict(evaluations=tier_n(tier, 150000, 1000000), distinct=120)
        ck.minimum["parsedrv documents [w2 sequences]"] = 190000
        ck.minimum["parsedrv documents [w3 mutations]"] = tier_n(tier, 3000, 40000)
        ck.minimum["parsedrv documents [w4 literals]"] = tier_n(tier, 5000, 40000)
        ck.minimum["w5 chunkings compared"] = tier_n(tier, 20000, 200000)
        ck.minimum["w8 executions [fuzz_gkf]"] = tier_n(tier, 20000, 1000000)
    else:
        ck.minimum = dict(evaluations=1, distinct=1)
    return ck.finish()


def replay(path):
    """re-runs the witness document of a violation through the stage that reported it"""
    w = json.load(open(path))
    wit = w["witness"]
    doc = base64.b64decode(wit["doc_b64"])
    runner.build("san", targets=["parsedrv", "gama-local", "gama-g3"])
    ck = Check("C11", w.get("tier", "quick"), w.get("seed", 1), "replay of %s" % w["key"])
    X = Ctx(ck, ck.tier, ck.seed)
    stage = wit.get("stage")
    if stage in ("parse", "every"):
        r = Rec("r", wit.get("kind", "gkf"), wit.get("mode", "lines"), doc, wit.get("meta"))
        o = X.drv.run([r], "replay")["r"]
        if o.kind == "every":
            print("outcome:", o.raw)
            if o.diffs:
                X.F.add(w["key"], "chunked delivery differs: %s" % o.first, wit)
            o = o.base
        print("outcome:", o.raw if o.raw else o.kind)
        c = judge_parse(ck, X.F, r, o, expect=wit.get("expect"))
        if c == "refused-valid" or (wit.get("expect") == "valid" and c != "accepted"):
            X.F.add(w["key"], "valid document refused: %s" % o.raw, wit)
        if c == "accepted" and w["key"].startswith("silent-accept:") and r.kind == "gkf":
            L = Lint(doc)
            slot = wit.get("slot")
            if slot and not lex_ok("double" if slot == "cov-mat#text" else ATTRS[slot.split("@")[0]][slot.split("@")[1]], wit.get("literal", "")):
                X.F.add(w["key"], "still accepted", wit)
            for cat, ln in L.categories():
                X.F.add("silent-accept:%s" % cat, "line %d: %s, accepted by the parser" % (ln, cat), wit)
    elif stage == "pipeline":
        g = X.gl.run(doc, wit.get("args") or ["@@"], stdin=bool(wit.get("stdin")))
        c = judge_gl(ck, X.F, X.gl, doc, g, "replay", minimise_opts=False)
        print("gama-local:", c, gl_outcome(g), "rc=%s" % g.rc)
        if w["key"].startswith("silent-accept:") and c in ("adjusted", "ok-no-xml"):
            L = Lint(doc)
            for cat, ln in L.categories():
                X.F.add("silent-accept:%s" % cat, "line %d: %s, accepted and adjusted" % (ln, cat), wit)
        if w["key"].startswith("reject-valid:") and c != "adjusted":
            X.F.add(w["key"], "valid document not adjusted: %s" % (gl_outcome(g),), wit)
        if ":nan-in-" in w["key"]:
            for k, data in g.files.items():
                if RX_NAN.search(data):
                    X.F.add(w["key"], "nan/inf in output %s" % k, wit)
    else:
        print("witness of stage %r cannot be replayed automatically" % stage)
        return 2
    ck.case(("replay", stage))
    ck.cls(("replay", "x"))
    X.F.flush()
    ck.minimum = dict(evaluations=1, distinct=1)
    evp = os.path.join(getattr(ck, "out_root", runner.ROOT), "evidence", "C11.json")
    keep = open(evp).read() if os.path.exists(evp) else None
    rc = ck.finish()
    if keep is not None:
        with open(evp, "w") as f:
            f.write(keep)
    return rc
