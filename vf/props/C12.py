"""C12 — the XML result is a faithful, well-formed serialisation of the adjustment.

Runtime monitor on the real (sanitized) binaries.  For every generated network one gama-local run writes
--xml --text --html --octave --svg; the oracles are
 (1) independent parsers (python expat) for well-formedness of XML / XHTML / SVG and for the strings carried,
 (2) gama's own readers (harness/readdrv.cpp: LocalNetworkAdjustmentResults::read_xml / read_html) against the
     independent reader, to printed precision,
 (3) independent scrapers of the text, HTML and Octave outputs against the XML (each format's printed precision),
     the text output in other languages / encodings against python's codecs and the same numbers,
 (4) the consumers compare-xyz and gama-local-deformation against differences / summed covariances computed here
     from the two XML files.
Nothing here is derived from gama's code except the *layout* of the outputs that are scraped."""
import html.entities
import json
import math
import os
import re
import xml.etree.ElementTree as ET

import numpy as np

from .. import runner, netgen, xmlout
from ..runner import Check, tier_n

LANGS = ("en", "ca", "cz", "du", "es", "fi", "fr", "hu", "ru", "ua", "zh")
ENCS = ("utf-8", "iso-8859-2", "iso-8859-2-flat", "cp-1250", "cp-1251")
PYCODEC = {"utf-8": "utf-8", "iso-8859-2": "iso8859_2", "iso-8859-2-flat": "ascii", "cp-1250": "cp1250",
           "cp-1251": "cp1251"}
SPECIAL = (("amp", "&"), ("lt", "<"), ("gt", ">"), ("quot", '"'), ("apos", "'"))
SPECIAL_NAME = {c: n for n, c in SPECIAL}
ANGULAR_TAGS = ("direction", "angle", "azimuth", "zenith-angle")
SS = 0.324              # arc seconds per cc (centesimal second)

# ------------------------------------------------------------------------------------------- hostile strings

UTF8 = {"utf8-2": ["Žižkov", "Ölberg", "ñandú", "ÅÄÖ", "Šárka", "Δθ", "Ђорђе", "Łódź"],
        "utf8-3": ["点A", "測量点", "€uro", "→x", "กข", "あい", "한글", "ḃ"],
        "utf8-4": ["😀", "𝛑r", "𐍈x", "🛰sat", "𠀋", "a😀b", "𝔸", "🧭"],
        # representable in ISO-8859-2 and cp-1250: exercises the recoding of ids in the text output
        "latin2": ["Žižkov", "Ölberg", "Šárka", "Łódź", "Příbram", "Győr", "Čadca", "Úvaly"]}
NUMLIKE = ["42", "007", "1e5", "3.14", "-1", "+7", "0", "00", "1.", "0x1F", ".5", "12345678901234567890", "1e", "7-7"]
CASEIDS = ["abc", "ABC", "Abc", "aBc", "abC", "ABc", "aBC", "AbC"]


def norm_id(s):
    """gama's documented identity of point ids: leading/trailing white space dropped, inner runs are one blank"""
    return re.sub(r"[ \t\n\r\f\v]+", " ", s).strip(" ")


def hostile_strings(rng, cls, n, what):
    """n distinct strings of class cls for `what` in ('id', 'extern', 'description')"""
    out = []
    if cls == "plain":
        out = ["%s%d" % ("P" if what == "id" else "ext", k + 1) for k in range(n)]
    elif cls.startswith("special-"):
        ch = dict(SPECIAL)[cls.split("-", 1)[1]]
        forms = ["a%s%d", "%s%d", "%d%s", "b %s %d", "%s%s%d", "c%sd%s%d"]
        for k in range(n):
            f = forms[(k + int(rng.integers(0, 6))) % 6]
            out.append(f % tuple(ch if part == "%s" else k + 1 for part in re.findall(r"%[sd]", f)))
    elif cls in UTF8:
        pool = [str(x) for x in rng.permutation(UTF8[cls])]
        out = ["%s%d" % (pool[k % len(pool)], k + 1) for k in range(n)]
    elif cls == "long":
        for k in range(n):
            body = "L" if k % 2 == 0 else "長"
            out.append(body * (300 - 4) + "%04d" % (k + 1))
    elif cls == "blanks":
        forms = ["  lead%d", "trail%d  ", "in  ner %d", "a b c %d", " both %d ", "pt %d", "x   %d", "tab %d"]
        out = [forms[(k + int(rng.integers(0, 8))) % 8] % (k + 1) for k in range(n)]
    elif cls == "numeric":
        out = [str(x) for x in rng.permutation(NUMLIKE)][:n]
    elif cls == "case":
        out = [str(x) for x in rng.permutation(CASEIDS)][:n]
    elif cls == "mixed":
        for k in range(n):
            c = ["utf8-2", "utf8-3", "utf8-4", "blanks", "numeric", "case", "plain"][int(rng.integers(0, 7))]
            out.append(hostile_strings(rng, c, n, what)[k])
    else:
        raise ValueError(cls)
    # distinct under gama's identification of ids
    seen, res = set(), []
    for k, s in enumerate(out):
        while norm_id(s) in seen or norm_id(s) == "":
            s = s + "_%d" % k
        seen.add(norm_id(s))
        res.append(s)
    return res


CLASSES_ID = ["plain", "special-amp", "special-lt", "special-gt", "special-quot", "special-apos", "utf8-2", "utf8-3",
              "utf8-4", "long", "blanks", "numeric", "case", "mixed"]
CLASSES_EXT = ["special-amp", "special-lt", "special-gt", "special-quot", "special-apos", "utf8-2", "utf8-3", "utf8-4",
               "long", "blanks"]
CLASSES_DESC = CLASSES_EXT


def count_dim(net):
    """number of adjusted parameters written to the XML cov-mat: adjusted coordinates + orientations"""
    d = 0
    for q in net.points.values():
        if q.xy in ("free", "constrained"):
            d += 2
        if q.z in ("free", "constrained"):
            d += 1
    for cl in net.clusters:
        if cl.kind == "obs" and any(o.kind == "direction" for o in cl.obs):
            d += 1
    return d


def gen_case(seed, i):
    rng = np.random.default_rng([seed, i, 1212])
    dim = int(rng.choice([1, 2, 2, 3, 3]))
    datum = str(rng.choice(["fixed", "fixed", "free", "mixed"]))
    feats = []
    if rng.uniform() < 0.5:
        feats.append("angles")
    if rng.uniform() < 0.4:
        feats.append("azimuths")
    if rng.uniform() < 0.4:
        feats.append("cov")
    if dim == 3 and rng.uniform() < 0.5:
        feats.append("vectors")
    if dim >= 2 and rng.uniform() < 0.4:
        feats.append("coords")
    if dim == 3 and rng.uniform() < 0.5:
        feats.append("hdiff")
    if dim == 3 and rng.uniform() < 0.3:
        feats.append("dh-heights")
    nrng = np.random.default_rng([seed, i, 1213])
    net = netgen.gen_net(nrng, dim=dim, datum=datum, noise=False, features=tuple(feats))
    # the second epoch: same survey, another noise realisation (and possibly one more fixed point)
    netb = net.clone()
    netgen.add_noise(np.random.default_rng([seed, i, 1214]), net)
    netgen.add_noise(np.random.default_rng([seed, i, 1215]), netb)
    if rng.uniform() < 0.3:
        net.params["sigma_act"] = netb.params["sigma_act"] = "apriori"
    # where the hostile strings go: exactly one place carries the XML special characters of a case
    place = str(rng.choice(["id", "id", "id", "extern", "description"]))
    if place == "id":
        hcls = CLASSES_ID[int(rng.integers(0, len(CLASSES_ID)))] if i >= len(CLASSES_ID) else CLASSES_ID[i]
    elif place == "extern":
        hcls = CLASSES_EXT[int(rng.integers(0, len(CLASSES_EXT)))]
    else:
        hcls = CLASSES_DESC[int(rng.integers(0, len(CLASSES_DESC)))]
    forced = (i % 16 == 15)          # ids, words and encodings that fit together: the byte-level oracle applies
    if forced:
        place, hcls = "id", "latin2"
    benign = ["plain", "utf8-2", "utf8-3", "case", "numeric", "blanks"]
    ids = list(net.points)
    idcls = hcls if place == "id" else benign[int(rng.integers(0, len(benign)))]
    names = hostile_strings(rng, idcls, len(ids), "id")
    if idcls != "plain" and rng.uniform() < 0.5:      # keep some ordinary ids among the hostile ones
        for k in range(0, len(names), 2):
            names[k] = ids[k]
    idmap = dict(zip(ids, names))
    axes = netgen.AXES_ALL[int(rng.integers(0, 8))] if rng.uniform() < 0.5 else "ne"
    angles = "right-handed" if rng.uniform() < 0.3 else "left-handed"
    fr = netgen.Frame(axes=axes, angles=angles, idmap=idmap)
    # extern values
    extcls = hcls if place == "extern" else ("plain" if rng.uniform() < 0.5 else "utf8-2")
    if forced:
        extcls = "plain"
    nobs = sum(len(c.obs) for c in net.clusters) + len(net.clusters)
    exts = hostile_strings(rng, extcls, max(nobs, 1), "extern")
    k = 0
    for n_ in (net, netb):
        k = 0
        for cl in n_.clusters:
            if cl.kind == "coords":
                cl.extern = exts[k]
            if cl.kind == "vectors":          # extern is an attribute of <vec>, which netgen does not write: see gkf()
                cl.vec_extern = [exts[(k + 1 + j) % len(exts)] for j in range(len(cl.vecs))]
            k += 1
            for o in cl.obs:
                if place == "extern" or (k % 3 == 0):
                    o.extern = exts[k]
                k += 1
    desccls = hcls if place == "description" else "plain"
    desc = hostile_strings(rng, desccls, 1, "description")[0]
    if desccls == "plain":
        desc = "generated network %d" % i
    net.description = netb.description = desc
    if rng.uniform() < 0.3:
        b_fixed = [q for q in netb.points.values() if q.xy == "free" or q.z == "free"]
        if len(b_fixed) > 2:      # one unknown point of epoch 1 is fixed in epoch 2: not a common adjusted point
            q = b_fixed[int(rng.integers(0, len(b_fixed)))]
            if q.xy == "free":
                q.xy = "fixed"
            if q.z == "free":
                q.z = "fixed"
    ndim = count_dim(net)
    bands = [("default", None), ("0", 0), ("1", 1), ("2", 2), ("dim-1", ndim - 1), ("dim+5", ndim + 5)]
    band = bands[(i + int(rng.integers(0, 6))) % 6] if i >= 6 else bands[i]
    angular = "360" if rng.uniform() < 0.5 else "400"
    alg = str(rng.choice(["envelope", "envelope", "gso", "svd", "cholesky"]))
    lang = LANGS[(i + seed) % len(LANGS)]
    encs = [ENCS[(i // len(LANGS) + seed + j) % len(ENCS)] for j in (0, 2)]
    if forced:
        lang = ("cz", "hu", "en", "du")[(i // 16 + seed) % 4]
        encs = ["iso-8859-2", "cp-1250"] if (i // 16) % 2 == 0 else ["cp-1250", "iso-8859-2-flat"]
    return dict(index=i, net=net, netb=netb, frame=fr, feats=feats, place=place, hcls=hcls, idcls=idcls, extcls=extcls,
                desccls=desccls, band=band, ndim=ndim, angular=angular, alg=alg, lang=lang, encs=encs, desc=desc)


# ------------------------------------------------------------------------------------------- independent parsers

_ENTITIES = {k: chr(v) for k, v in html.entities.name2codepoint.items()}


def wellformed(data, xhtml=False):
    """-> (root element | None, error | None).  `data` are the bytes written by gama; the XML declaration's
    encoding (default UTF-8) applies, so bytes that are not valid in it are a well-formedness error too.
    For XHTML the entities of the XHTML DTD (nbsp, minus, ...) are declared to the parser."""
    parser = ET.XMLParser()
    if xhtml:
        parser.entity.update(_ENTITIES)
    try:
        parser.feed(data)
        return parser.close(), None
    except ET.ParseError as e:
        return None, str(e)


def _line_of(data, err):
    m = re.search(r"line (\d+), column (\d+)", err or "")
    if not m:
        return ""
    lines = data.split(b"\n")
    ln = int(m.group(1))
    return lines[ln - 1][:200].decode("utf-8", "replace") if 0 < ln <= len(lines) else ""


NUM = r"[-+]?\d+\.\d+(?:[eE][-+]?\d+)?"
DMS = r"-?\d+-\d\d-\d\d(?:\.\d+)?"
_num_or_dms = re.compile(r"^(?:%s|%s)$" % (NUM, DMS))
_num = re.compile(r"^%s$" % NUM)
_dms = re.compile(r"^%s$" % DMS)


def dms2gon(s):
    sign = -1.0 if s.startswith("-") else 1.0
    d, m, sec = s.lstrip("-").split("-")
    return sign * (int(d) + int(m) / 60.0 + float(sec) / 3600.0) / 0.9


def ang_value(s):
    """value of an angular cell in gons + the half unit of its last printed digit (in gons)"""
    if _dms.match(s):
        dec = len(s.split(".")[1]) if "." in s else 0
        return dms2gon(s), 0.5 * 10.0 ** (-dec) / 3240.0
    return float(s), half_ulp(s)


def half_ulp(s):
    """half a unit of the last printed digit of a decimal literal"""
    m = re.match(r"^[-+]?(\d*)(?:\.(\d*))?(?:[eE]([-+]?\d+))?$", s.strip())
    if not m:
        return 0.0
    dec = len(m.group(2) or "")
    ex = int(m.group(3) or 0)
    return 0.5 * 10.0 ** (ex - dec)


def trailing_numeric(tokens):
    k = 0
    while k < len(tokens) and _num_or_dms.match(tokens[-1 - k]):
        k += 1
    return k


class Scrape(dict):
    """numbers scraped from one human-readable output (text or html):
    equations unknowns dof defect pvv m0_apr m0_apo : strings
    coords {index: (adjusted, stdev)}   (strings)    orient {index: (adjusted, stdev)}
    obs [ (observed, adjusted, stdev) ]              res [ (f, v) ]      fixed [ [coordinate strings] ]"""


def split_sections(text):
    lines = text.split("\n")
    starts = [k - 1 for k in range(1, len(lines)) if re.fullmatch(r"\*{3,}", lines[k]) and lines[k - 1].strip()]
    secs = []
    for a, b in zip(starts, starts[1:] + [len(lines)]):
        secs.append(lines[a + 2:b])
    return secs


_COORD_ROW = re.compile(r"^\s*(\d+)\s+([xyzXYZ])(\s+\*)?\s+(%s)\s+(%s)\s+(%s)\s+(%s)\s+(%s)\s*$" % ((NUM,) * 5))


def scrape_text(text, R):
    """Scrape the numbers of gama-local's text output using only its layout (titles underlined with '*', the
    literal '[pvv]', right-aligned numeric columns): words are never looked at.  R: the independent reading of
    the XML of the same run, used only to know which sections exist.  -> Scrape or raises ValueError(reason)."""
    S = Scrape()
    secs = split_sections(text)
    g = [k for k, s in enumerate(secs) if any("[pvv] :" in l for l in s)]
    if len(g) != 1:
        raise ValueError("general section not found (%d candidates)" % len(g))
    g = g[0]
    body = [l for l in secs[g] if l.strip()]
    p = [k for k, l in enumerate(body) if "[pvv] :" in l][0]
    left, right = body[p].split("[pvv] :")
    S["pvv"] = right.split()[0]
    S["m0_apo"] = left.split()[-1]
    S["m0_apr"] = body[p - 1].split()[-1]

    def ints(line):
        return re.findall(r":\s*(-?\d+)(?=\s|$)", line)
    a, b = ints(body[p - 3]), ints(body[p - 2])
    if len(a) != 2 or len(b) != 2:
        raise ValueError("equation counts not found")
    S["equations"], S["unknowns"] = a
    S["dof"], S["defect"] = b
    k = g + 1
    S["fixed"] = []
    if R["fixed"]:
        for l in secs[k]:
            t = l.split()
            if t and set(l.strip()) != {"="} and trailing_numeric(t) >= 1:
                S["fixed"].append(t[-trailing_numeric(t):])       # numbers only: the id is a word
        k += 1
    has_xy = any("x" in {c.lower() for c in v} for v in R["adjusted"].values())
    S["coords"] = {}
    if has_xy:
        for l in secs[k]:
            m = _COORD_ROW.match(l)
            if m:
                S["coords"][int(m.group(1))] = (m.group(6), m.group(7))
    else:
        for l in secs[k]:
            t = l.split()
            if len(t) >= 7 and t[0].isdigit() and trailing_numeric(t) >= 5:
                S["coords"][int(t[0])] = (t[-3], t[-2])
    k += 1
    S["orient"] = {}
    if R["orientations"]:
        for l in secs[k]:
            t = l.split()
            if len(t) >= 7 and t[0].isdigit() and trailing_numeric(t) >= 5:
                S["orient"][int(t[0])] = (t[-3], t[-2])
        k += 1
    if has_xy:
        k += 1                      # error ellipses
    S["obs"] = []
    for l in secs[k]:
        t = l.split()
        if len(t) >= 5 and trailing_numeric(t) >= 4:
            S["obs"].append((t[-4], t[-3], t[-2]))
    k += 1
    S["res"] = []
    for l in secs[k]:
        t = l.split()
        iv = [j for j, x in enumerate(t) if re.fullmatch(r"-?\d+\.\d{3}", x)]
        if not iv:
            continue
        # f[%] (one decimal) is the last such number before v; the type word or a flag may be glued to it
        head = " ".join(t[:iv[-1]])
        f = re.findall(r"(?<![\d.])\d+\.\d(?!\d)", head)
        S["res"].append((f[-1] if f else None, t[iv[-1]]))
    return S


def _cells(tr):
    out = []
    for td in tr:
        out.append("".join(td.itertext()).replace("\xa0", " ").replace("−", "-").strip())
    return out


XH = "{http://www.w3.org/1999/xhtml}"


def scrape_html(root):
    """independent scrape of the XHTML output by table id (element ids are part of the output's structure)"""
    S = Scrape()
    tables = {t.get("id"): t for t in root.iter(XH + "table") if t.get("id")}

    def rows(name):
        t = tables.get(name)
        return [] if t is None else [(tr, _cells(tr)) for tr in t.findall(XH + "tr")]
    pe = [c for _, c in rows("project_equations")]
    if len(pe) < 2:
        raise ValueError("no project_equations table")
    S["equations"], S["unknowns"] = pe[0][1], pe[0][3]
    S["dof"], S["defect"] = pe[1][1], pe[1][3]
    ss = [c for _, c in rows("sum_of_squares")]
    S["m0_apr"], S["m0_apo"], S["pvv"] = ss[0][1], ss[1][1], ss[1][3]
    S["fixed"], S["fixed_ids"] = [], []
    for tr, c in rows("fixed_points"):
        if tr.find(XH + "th") is None and c:
            S["fixed_ids"].append(c[0])
            S["fixed"].append([x for x in c[1:]])
    S["coords"], S["ids"] = {}, []
    for tr, c in rows("adjusted_coordinates"):
        if tr.find(XH + "th") is not None:
            continue
        if len(c) == 8 and c[0].isdigit():
            S["coords"][int(c[0])] = (c[5], c[6])
        elif len(c) == 7 and c[1]:
            S["ids"].append(c[1])
    for tr, c in rows("adjusted_heights"):
        if tr.find(XH + "th") is None and len(c) == 8 and c[0].isdigit():
            S["coords"][int(c[0])] = (c[5], c[6])
            S["ids"].append(c[1])
    S["orient"], S["orient_ids"] = {}, []
    for tr, c in rows("adjusted_orientations"):
        if tr.find(XH + "th") is None and len(c) == 7 and c[0].isdigit():
            S["orient"][int(c[0])] = (c[4], c[5])
            S["orient_ids"].append(c[1])
    S["obs"], S["obs_ids"] = [], []
    cur_from, cur_to = None, None
    for tr, c in rows("adjusted_observations"):
        if tr.find(XH + "th") is not None or not c:
            continue
        if c[0].isdigit():
            if len(c) > 1 and c[1]:
                cur_from = c[1]
            cur_to = c[2] if len(c) > 2 else None
        if len(c) == 8:
            left = None
            if not c[0].isdigit():           # second row of an angle: the foresight
                left, cur_to = cur_to, c[2]
            S["obs"].append((c[4], c[5], c[6]))
            S["obs_ids"].append((cur_from, cur_to, left))
    S["res"] = []
    for tr, c in rows("residuals"):
        if tr.find(XH + "th") is None and len(c) >= 7:
            S["res"].append((c[4], c[6]))
    return S


def parse_octave(text):
    """independent reader of the .m file: scalars, cell arrays of strings, numeric matrices.
    -> (values dict, problems list).  A quoted string is legal if every quote inside it is doubled."""
    V, bad = {}, []
    lines = text.split("\n")
    k = 0
    while k < len(lines):
        l = lines[k]
        m = re.match(r"^(\w+)\s*=\s*(.*)$", l)
        k += 1
        if not m or l.startswith("%"):
            continue
        name, rest = m.group(1), m.group(2).strip()
        if rest == "{":
            items = []
            while k < len(lines) and lines[k].strip() != "};":
                s = lines[k].strip()
                k += 1
                if len(s) >= 2 and s[0] == "'" and s[-1] == "'":
                    inner = s[1:-1]
                    if "'" in inner.replace("''", ""):
                        bad.append((name, s))
                    items.append(inner.replace("''", "'"))
                else:
                    bad.append((name, s))
                    items.append(None)
            V[name] = items
        elif rest.startswith("[") and name in ("FixedXYZ", "Indexes", "Constrained", "XYZ_0", "XYZ", "C_xx"):
            rows, cur = [], []
            while k < len(lines) and lines[k].strip() != "];":
                s = lines[k].strip()
                k += 1
                cont = s.endswith("...")
                s = s[:-3] if cont else s
                end = s.endswith(";")
                s = s[:-1] if end else s
                cur += s.split()
                if name != "C_xx" or end:
                    if cur or name != "C_xx":
                        rows.append(cur)
                    cur = []
            V[name] = [r for r in rows if r]
        elif rest.endswith(";") and re.fullmatch(r"[-+\d.eE]+", rest[:-1].strip() or "x"):
            V[name] = rest[:-1].strip()
    return V, bad


# ------------------------------------------------------------------------------------------- recording (worker side)

class Log:
    """Same recording interface as runner.Check; filled in a worker process and replayed into the Check."""

    def __init__(self):
        self.ev = []

    def case(self, cls=None, n=1):
        self.ev.append(("case", cls, n))

    def cls(self, cls, n=1):
        self.ev.append(("cls", cls, n))

    def count(self, name, n=1):
        self.ev.append(("count", name, n))

    def ratio(self, name, err, tol):
        self.ev.append(("ratio", name, float(err), float(tol)))
        return float(err) / tol if tol > 0 else (0.0 if err == 0 else float("inf"))

    def inconc(self, reason, n=1):
        self.ev.append(("inconc", reason, n))

    def sample(self, obj):
        self.ev.append(("sample", obj))

    def violation(self, key, what, witness=None):
        self.ev.append(("violation", key, what, witness))

    def sanitizer(self, rr, witness, prefix=""):
        if rr.san:
            self.violation(prefix + rr.san["key"], "sanitizer report " + rr.san["kind"], witness)
            return True
        if rr.timeout:
            return False
        if rr.signaled or rr.rc in (134, 139):
            err = rr.err if isinstance(rr.err, str) else (rr.err or b"").decode("utf-8", "replace")
            m = re.search(r"terminate called after throwing an instance of '([^']+)'", err)
            k = "abort:" + (m.group(1) if m else "signal%s" % rr.rc)
            self.violation(prefix + k, "abnormal termination rc=%s %s" % (rr.rc, err[-300:]), witness)
            return True
        return False

    def replay(self, ck, attach):
        for e in self.ev:
            if e[0] == "violation":
                wit = dict(e[3] or {})
                if len(ck.violations) < 12 or not any(v["key"] == e[1] for v in ck.violations):
                    wit.update(attach)
                ck.violation(e[1], e[2], wit)
            elif e[0] == "ratio":
                ck.ratio(e[1], e[2], e[3])
            else:
                getattr(ck, e[0])(*e[1:])


def check_close(L, viol, key, name, a, b, tol, what, unit=""):
    """|a-b| <= tol ?  records the ratio under `name`; one violation per key and case"""
    err = abs(a - b)
    L.ratio(name, err, tol)
    if not err <= tol:
        viol(key, "%s: %.12g vs %.12g (difference %.3g%s, tolerance %.3g)" % (what, a, b, err, unit, tol))
        return False
    return True


def wrap400(d):
    return (d + 200.0) % 400.0 - 200.0


def sig_tol(s, digits):
    """half a unit of the `digits`-th significant digit of the %g-printed literal s"""
    v = abs(float(s))
    if v == 0.0:
        return 10.0 ** (-digits)
    return 0.5 * 10.0 ** (math.floor(math.log10(v)) - digits + 1)


def unknown_table(R):
    """{adjustment index: dict(kind x|y|z|r, id, value, var)} from the independent reading of the XML:
    row k of cov-mat <-> k-th entry of <original-index> <-> k-th adjusted coordinate / orientation"""
    lab = xmlout.cov_labels(R)
    oi = R["original_index"]
    if len(lab) != len(oi) or len(lab) != R.get("cov_dim", -1):
        raise ValueError("cov-mat dim %s, %d original indexes, %d adjusted parameters" % (
            R.get("cov_dim"), len(oi), len(lab)))
    C = xmlout.cov_matrix(R)
    T = {}
    for k, (pid, ax) in enumerate(lab):
        if pid == "orientation":
            o = R["orientations"][ax]
            T[oi[k]] = dict(kind="r", id=o[0], value=o[2], var=C[k, k], row=k)
        else:
            v = R["adjusted"][pid]
            T[oi[k]] = dict(kind=ax, id=pid, value=v[ax] if ax in v else v[ax.upper()], var=C[k, k], row=k)
    return T, C


# ------------------------------------------------------------------------------------------- oracles

def cmp_scrape(L, viol, fmt, S, R, T, angular, ys="+1"):
    """numbers scraped from the text / HTML output against the XML of the same run"""
    P = "cross:%s:" % fmt
    deg = (angular == "360")
    asc = SS if deg else 1.0
    n = 0
    for k, xk in (("equations", "equations"), ("unknowns", "unknowns"), ("dof", "dof"), ("defect", "defect")):
        n += 1
        if int(S[k]) != R[xk]:
            viol(P + k, "%s %s in the %s output, %s in the XML" % (k, S[k], fmt, R[xk]))
    check_close(L, viol, P + "sum-of-squares", fmt + ": [pvv] / printed precision", float(S["pvv"]), R["sum_of_squares"],
                half_ulp(S["pvv"]) + 1e-7 * abs(R["sum_of_squares"]), "sum of squares")
    check_close(L, viol, P + "m0-aposteriori", fmt + ": m0 / printed precision", float(S["m0_apo"]), R["aposteriori"],
                half_ulp(S["m0_apo"]) + 1e-7 * R["aposteriori"] + 1e-12, "a posteriori m0")
    check_close(L, viol, P + "m0-apriori", fmt + ": m0 / printed precision", float(S["m0_apr"]), R["apriori"],
                half_ulp(S["m0_apr"]) + 1e-7 * R["apriori"], "a priori m0")
    n += 3
    # fixed points, in the order of the XML
    fx = list(R["fixed"].items())
    if len(S["fixed"]) != len(fx):
        viol(P + "fixed:count", "%d fixed points in the %s output, %d in the XML" % (len(S["fixed"]), fmt, len(fx)))
    else:
        for row, (pid, v) in zip(S["fixed"], fx):
            vals = [v[a] for a in ("x", "y", "z") if a in v]
            cells = [c for c in row if c != ""][-len(vals):]
            if len(cells) != len(vals) or not all(_num.match(c) for c in cells):
                viol(P + "fixed:row", "fixed point %r: row %r, XML %r" % (pid, row, v))
                continue
            for c, x in zip(cells, vals):
                n += 1
                check_close(L, viol, P + "fixed:coordinate", fmt + ": coordinate / printed precision", float(c), x,
                            half_ulp(c) + 0.5e-6 + 1e-9, "fixed point %r" % pid, " m")
    # adjusted unknowns by adjustment index
    coords = {i: t for i, t in T.items() if t["kind"] != "r"}
    if set(S["coords"]) != set(coords):
        viol(P + "adjusted:indexes", "adjusted coordinates with indexes %s in the %s output, %s in the XML" % (
            sorted(set(S["coords"]) ^ set(coords))[:6], fmt, "original-index"))
    for i in sorted(set(S["coords"]) & set(coords)):
        adj, sd = S["coords"][i]
        t = coords[i]
        n += 2
        check_close(L, viol, P + "adjusted:coordinate", fmt + ": coordinate / printed precision", float(adj), t["value"],
                    half_ulp(adj) + 1e-9, "adjusted %s of %r (index %d)" % (t["kind"], t["id"], i), " m")
        if t["var"] == t["var"]:
            x = math.sqrt(max(t["var"], 0.0))
            check_close(L, viol, P + "adjusted:stdev", fmt + ": std.dev / printed precision", float(sd), x,
                        half_ulp(sd) + 1e-7 * x + 1e-9, "std. deviation of %s of %r" % (t["kind"], t["id"]), " mm")
    ori = {i: t for i, t in T.items() if t["kind"] == "r"}
    if set(S["orient"]) != set(ori):
        viol(P + "orientation:indexes", "orientation indexes differ: %s" % sorted(set(S["orient"]) ^ set(ori))[:6])
    for i in sorted(set(S["orient"]) & set(ori)):
        adj, sd = S["orient"][i]
        t = ori[i]
        v, h = ang_value(adj)
        n += 2
        check_close(L, viol, P + "orientation:value", fmt + ": angle / printed precision", abs(wrap400(v - t["value"])), 0.0,
                    h + 0.5e-6 + 1e-9, "adjusted orientation at %r: %s vs %.6f gon" % (t["id"], adj, t["value"]), " gon")
        if t["var"] == t["var"]:
            x = math.sqrt(max(t["var"], 0.0)) * asc
            check_close(L, viol, P + "orientation:stdev", fmt + ": std.dev / printed precision", float(sd), x,
                        half_ulp(sd) + 1e-7 * x + 1e-9, "std. deviation of the orientation at %r" % t["id"])
    # observations in the order of the XML
    O = R["observations"]
    if len(S["obs"]) != len(O):
        viol(P + "observations:count", "%d adjusted observations in the %s output, %d in the XML" % (
            len(S["obs"]), fmt, len(O)))
    else:
        for k, ((so, sa, sd), o) in enumerate(zip(S["obs"], O)):
            ang = o["tag"] in ANGULAR_TAGS
            n += 3
            ytype = o["tag"] in ("coordinate-y", "dy")
            for cell, x, nm in ((so, o["obs"], "observed"), (sa, o["adj"], "adjusted")):
                if ytype and ys == "-1" and _num.match(cell) and abs(float(cell) + x) <= half_ulp(cell) + 1e-9 < abs(x):
                    viol(P + "obs:%s:y-sign" % nm, "%s value of observation %d (%s) is %s, the XML has %.6f: the sign of y "
                         "is not the one of the coordinates" % (nm, k + 1, o["tag"], cell, x))
                    continue
                if ang:
                    v, h = ang_value(cell)
                    check_close(L, viol, P + "obs:%s:%s" % (nm, "angular"), fmt + ": angle / printed precision",
                                abs(wrap400(v - x)), 0.0, h + 1e-9,
                                "%s value of observation %d (%s): %s vs %.7f gon" % (nm, k + 1, o["tag"], cell, x), " gon")
                else:
                    check_close(L, viol, P + "obs:%s:%s" % (nm, "linear"), fmt + ": coordinate / printed precision",
                                float(cell), x, half_ulp(cell) + 1e-9,
                                "%s value of observation %d (%s)" % (nm, k + 1, o["tag"]), " m")
            x = o["stdev"] * (asc if ang else 1.0)
            az = ":azimuth:360" if (o["tag"] == "azimuth" and deg) else ""
            check_close(L, viol, P + "obs:stdev" + az, fmt + ": std.dev / printed precision", float(sd), x,
                        half_ulp(sd) + 1e-9, "std. deviation of adjusted observation %d (%s)" % (k + 1, o["tag"]))
    if len(S["res"]) != len(O):
        viol(P + "residuals:count", "%d residuals in the %s output, %d observations in the XML" % (
            len(S["res"]), fmt, len(O)))
    else:
        for k, ((f, v), o) in enumerate(zip(S["res"], O)):
            ang = o["tag"] in ANGULAR_TAGS
            r = wrap400(o["adj"] - o["obs"]) * 10000.0 * asc if ang else (o["adj"] - o["obs"]) * 1000.0
            n += 2
            # obs/adj carry 16 decimals of a metre / gon: 1e-12 m -> 1e-9 mm, 1e-12 gon -> 1e-8 cc
            az = ":azimuth:360" if (o["tag"] == "azimuth" and deg) else ""
            if o["tag"] in ("coordinate-y", "dy") and ys == "-1" and abs(float(v) + r) <= half_ulp(v) + 1e-6 < abs(r):
                viol(P + "residual:y-sign", "residual of observation %d (%s) is %s, adjusted - observed is %.3f: sign of "
                     "the residual of a y-type observation in a network with flipped y" % (k + 1, o["tag"], v, r))
                continue
            check_close(L, viol, P + "residual" + az, fmt + ": residual / printed precision", float(v), r,
                        half_ulp(v) + 1e-6, "residual of observation %d (%s)" % (k + 1, o["tag"]))
            if f is not None and f != "":
                check_close(L, viol, P + "f", fmt + ": f / printed precision", float(f), o["f"],
                            half_ulp(f) + 0.5e-3 + 1e-9, "f[%%] of observation %d" % (k + 1))
    L.count("numbers compared: " + fmt, n)


def cmp_own_xml(L, viol, J, R):
    """gama's read_xml (JSON from readdrv) against the independent reader: same decimal strings converted by two
    correctly rounding readers, so equality to a few ulp is demanded"""
    P = "own-reader:"
    nfields = [0]

    def num(field, a, b):
        nfields[0] += 1
        if isinstance(a, str) or a is None or b is None:
            viol(P + field, "%s: own reader %r, independent reader %r" % (field, a, b))
            return
        tol = 4e-16 * max(abs(a), abs(b)) + 1e-300
        L.ratio("own reader (xml) / 4 ulp", abs(a - b), tol)
        if abs(a - b) > tol:
            viol(P + field, "%s: own reader %.17g, independent reader %.17g" % (field, a, b))

    def same(field, a, b, idlike=False):
        nfields[0] += 1
        if a != b:
            sfx = ""
            if idlike and isinstance(b, str):
                sfx = ":inner-blank" if " " in b.strip() else (":outer-blank" if b != b.strip() else "")
            viol(P + field + sfx, "%s: own reader %r, independent reader %r" % (field, a, b))
    same("description", J["description"], R["description"] or "")
    for k, v in R["general"].items():
        same("general-parameters", J["general"].get(k), v)
    for grp in ("adjusted", "constrained", "fixed"):
        for c in ("xyz", "xy", "z"):
            same("coordinates-summary", J["coordinates_summary"][grp][c], R["coordinates_summary"][grp]["count-" + c])
    for k, v in R["observations_summary"].items():
        same("observations-summary", J["observations_summary"].get(k), v)
    pe = J["project_equations"]
    for k, xk in (("equations", "equations"), ("unknowns", "unknowns"), ("dof", "dof"), ("defect", "defect"),
                  ("connected", "connected"), ("iterations", "iterations")):
        same("project-equations:" + k, pe[k], R[xk])
    num("sum-of-squares", pe["sum_of_squares"], R["sum_of_squares"])
    sd = J["standard_deviation"]
    for k in ("apriori", "aposteriori", "probability", "ratio", "lower", "upper"):
        num("standard-deviation:" + k, sd[k], R[k])
    num("standard-deviation:confidence-scale", sd["confidence_scale"], R["confidence_scale"])
    same("standard-deviation:used", sd["using_aposteriori"], R["used"] == "aposteriori")
    same("standard-deviation:test", sd["status"], R["test"])
    ind = 0
    for sec in ("fixed", "approximate", "adjusted"):
        exp = list(R[sec].items())
        got = J[sec]
        if len(exp) != len(got):
            viol(P + sec + ":count", "%d %s points read, %d in the file" % (len(got), sec, len(exp)))
            continue
        for p, (pid, v) in zip(got, exp):
            same(sec + ":id", p["id"], pid, idlike=True)
            kv = {k.lower(): x for k, x in v.items()}
            same(sec + ":has-xy", p["hxy"], "x" in kv)
            same(sec + ":has-z", p["hz"], "z" in kv)
            same(sec + ":constrained-xy", p["cxy"], "X" in v)
            same(sec + ":constrained-z", p["cz"], "Z" in v)
            for a in ("x", "y", "z"):
                if a in kv:
                    num(sec + ":coordinate", p[a], kv[a])
            if sec == "adjusted":
                for a, n_ in (("x", "indx"), ("y", "indy"), ("z", "indz")):
                    if a in kv:
                        ind += 1
                        same("adjusted:index", p[n_], ind)
                    else:
                        same("adjusted:index", p[n_], 0)
    exp = list(R["ellipses"].items())
    if len(exp) != len(J["ellipses"]):
        viol(P + "ellipses:count", "%d ellipses read, %d in the file" % (len(J["ellipses"]), len(exp)))
    else:
        for e, (pid, (a, b, al)) in zip(J["ellipses"], exp):
            same("ellipse:id", e["id"], pid, idlike=True)
            num("ellipse:major", e["major"], a)
            num("ellipse:minor", e["minor"], b)
            num("ellipse:alpha", e["alpha"], al)
    if len(R["orientations"]) != len(J["orientations"]):
        viol(P + "orientations:count", "%d orientations read, %d in the file" % (
            len(J["orientations"]), len(R["orientations"])))
    else:
        for o, (pid, ap, ad) in zip(J["orientations"], R["orientations"]):
            ind += 1
            same("orientation:id", o["id"], pid, idlike=True)
            num("orientation:approx", o["approx"], ap)
            num("orientation:adj", o["adj"], ad)
            same("orientation:index", o["index"], ind)
    same("cov-mat:dim", J["cov"]["dim"], R["cov_dim"])
    same("cov-mat:band", J["cov"]["band"], R["cov_band"])
    if len(J["cov"]["flt"]) != len(R["cov_flt"]):
        viol(P + "cov-mat:count", "%d covariances read, %d in the file" % (len(J["cov"]["flt"]), len(R["cov_flt"])))
    else:
        for a, b in zip(J["cov"]["flt"], R["cov_flt"]):
            num("cov-mat:value", a, b)
    same("original-index", J["original_index"][1:], R["original_index"])
    if len(J["observations"]) != len(R["observations"]):
        viol(P + "observations:count", "%d observations read, %d in the file" % (
            len(J["observations"]), len(R["observations"])))
    else:
        for k, (a, b) in enumerate(zip(J["observations"], R["observations"])):
            same("obs:tag", a["tag"], b["tag"])
            same("obs:from", a["from"], b.get("from", b.get("id")), idlike=True)
            same("obs:to", a["to"], b.get("to", ""), idlike=True)
            same("obs:left", a["left"], b.get("left", ""), idlike=True)
            same("obs:right", a["right"], b.get("right", ""), idlike=True)
            for f in ("obs", "adj", "stdev", "qrr", "f"):
                num("obs:" + f, a[f], b[f])
            num("obs:std-residual", a["std_residual"], b.get("std-residual", 0.0))
            for f, g_ in (("err_obs", "err-obs"), ("err_adj", "err-adj")):
                if g_ in b:
                    try:
                        num("obs:" + g_, float(a[f]), b[g_])
                    except ValueError:
                        viol(P + "obs:" + g_, "observation %d: %s read as %r, file has %r" % (k + 1, g_, a[f], b[g_]))
                else:
                    same("obs:" + g_, a[f], "")
            r = wrap400(b["adj"] - b["obs"]) * 10000.0 if b["tag"] in ANGULAR_TAGS else (b["adj"] - b["obs"]) * 1000.0
            nfields[0] += 1
            L.ratio("own reader residual() [mm|cc] / 1e-6", abs(a["residual"] - r), 1e-6)
            if abs(a["residual"] - r) > 1e-6:
                viol(P + "obs:residual():" + b["tag"], "observation %d (%s): Observation::residual() = %.6f, adj - obs = "
                     "%.6f (obs %.10f adj %.10f)" % (k + 1, b["tag"], a["residual"], r, b["obs"], b["adj"]))
    L.count("fields compared: own reader xml", nfields[0])


def cmp_own_html(L, viol, J, R, T, angular, ys="+1"):
    """gama's read_html against the XML of the same run, for the quantities the HTML carries, to the HTML's printed
    precision (coordinates 5 decimals, angles 6 decimals of a gon or 0.01", standard deviations / f / studentized
    residuals 1 decimal, [pvv] 6 significant digits, m0 2 decimals, test bounds 3 decimals)"""
    P = "own-reader-html:"
    deg = (angular == "360")
    hang = (0.005 / 3240.0 if deg else 0.5e-6)
    n = [0]

    def sfx(b):
        if not isinstance(b, str):
            return ""
        for c, nm in SPECIAL_NAME.items():
            if c in b:
                return ":" + nm
        return ":inner-blank" if " " in b.strip() else ""

    def same(field, a, b, idlike=False):
        n[0] += 1
        if a != b:
            viol(P + field + (sfx(b) if idlike else ""), "%s: read_html %r, XML %r" % (field, a, b))

    def close(field, name, a, b, tol, what):
        n[0] += 1
        if isinstance(a, str):
            viol(P + field, "%s: read_html delivers %s" % (what, a))
            return
        check_close(L, viol, P + field, "read_html: " + name, a, b, tol, what)
    for grp in ("adjusted", "constrained", "fixed"):
        for c in ("xyz", "xy", "z"):
            same("coordinates-summary", J["coordinates_summary"][grp][c], R["coordinates_summary"][grp]["count-" + c])
    for k, v in R["observations_summary"].items():
        same("observations-summary:" + k, J["observations_summary"].get(k), v)
    pe = J["project_equations"]
    for k, xk in (("equations", "equations"), ("unknowns", "unknowns"), ("dof", "dof"), ("defect", "defect"),
                  ("connected", "connected")):
        same("project-equations:" + k, pe[k], R[xk])
    close("sum-of-squares", "[pvv] / printed precision", pe["sum_of_squares"], R["sum_of_squares"],
          0.5e-5 * 10 ** math.floor(math.log10(max(R["sum_of_squares"], 1e-300))) * 1.0000001 + 1e-7 * R["sum_of_squares"],
          "sum of squares")
    sd = J["standard_deviation"]
    close("apriori", "m0 / printed precision", sd["apriori"], R["apriori"], 0.005 + 1e-7 * R["apriori"], "a priori m0")
    close("aposteriori", "m0 / printed precision", sd["aposteriori"], R["aposteriori"], 0.005 + 1e-7 * R["aposteriori"],
          "a posteriori m0")
    same("used", sd["using_aposteriori"], R["used"] == "aposteriori")
    close("probability", "probability / printed precision", sd["probability"], R["probability"], 0.005 + 0.0005,
          "confidence probability")
    if R["dof"] > 0:
        for k in ("ratio", "lower", "upper"):
            close("test:" + k, "test bounds / printed precision", sd[k], R[k], 0.0005 + 0.0005 + 1e-9, "m0 test " + k)
        close("confidence-scale", "test bounds / printed precision", sd["confidence_scale"], R["confidence_scale"],
              0.0005 + 1e-6, "confidence scale")
        same("test:status", sd["status"], R["test"])
    exp = list(R["fixed"].items())
    if len(exp) != len(J["fixed"]):
        viol(P + "fixed:count" + sfx("".join(R["fixed"])), "%d fixed points read, %d in the XML" % (len(J["fixed"]), len(exp)))
    else:
        for p, (pid, v) in zip(J["fixed"], exp):
            same("fixed:id", p["id"], pid, idlike=True)
            same("fixed:has-xy", p["hxy"], "x" in v)
            same("fixed:has-z", p["hz"], "z" in v)
            for a in ("x", "y", "z"):
                if a in v:
                    close("fixed:coordinate", "coordinate / printed precision", p[a], v[a], 0.5e-5 + 0.5e-6 + 1e-9,
                          "fixed %s of %r" % (a, pid))
    exp = [(pid, R["adjusted"][pid]) for pid in R["adjusted_order"]]
    allids = "".join(R["adjusted_order"])
    if len(exp) != len(J["adjusted"]) or len(exp) != len(J["approximate"]):
        viol(P + "adjusted:count" + sfx(allids), "%d adjusted / %d approximate points read, %d in the XML" % (
            len(J["adjusted"]), len(J["approximate"]), len(exp)))
    else:
        ind = 0
        for p, q, (pid, v) in zip(J["adjusted"], J["approximate"], exp):
            kv = {k.lower(): x for k, x in v.items()}
            same("adjusted:id", p["id"], pid, idlike=True)
            same("approximate:id", q["id"], pid, idlike=True)
            same("adjusted:has-xy", p["hxy"], "x" in kv)
            same("adjusted:has-z", p["hz"], "z" in kv)
            same("adjusted:constrained-xy", p["cxy"], "X" in v)
            same("adjusted:constrained-z", p["cz"], "Z" in v)
            for a in ("x", "y", "z"):
                if a in kv:
                    close("adjusted:coordinate", "coordinate / printed precision", p[a], kv[a], 0.5e-5 + 1e-9,
                          "adjusted %s of %r" % (a, pid))
    same("original-index", J["original_index"][1:], R["original_index"])
    C = J["cov"]
    if C["dim"] != R["cov_dim"] or C["band"] != 0 or len(C["flt"]) != R["cov_dim"]:
        viol(P + "cov-mat:dim", "read_html: cov dim %s band %s, XML dim %s" % (C["dim"], C["band"], R["cov_dim"]))
    else:
        rows = {t["row"]: t for t in T.values()}
        for k, var in enumerate(C["flt"]):
            t = rows[k]
            if t["var"] != t["var"] or isinstance(var, str):
                continue
            x = math.sqrt(max(t["var"], 0.0))
            unit = (0.05 / SS if (deg and t["kind"] == "r") else 0.05)
            close("cov-mat:diagonal:" + ("orientation" if t["kind"] == "r" else "coordinate"),
                  "std.dev / printed precision", math.sqrt(max(var, 0.0)), x, unit * 1.000001 + 1e-7 * x + 1e-9,
                  "sqrt of the variance of %s at %r" % (t["kind"], t["id"]))
    if len(R["orientations"]) != len(J["orientations"]):
        viol(P + "orientations:count", "%d orientations read, %d in the XML" % (len(J["orientations"]), len(R["orientations"])))
    else:
        for o, (pid, ap, ad) in zip(J["orientations"], R["orientations"]):
            same("orientation:id", o["id"], pid, idlike=True)
            if isinstance(o["adj"], str) or isinstance(o["approx"], str):
                viol(P + "orientation:value", "orientation at %r read as %r / %r" % (pid, o["approx"], o["adj"]))
                continue
            close("orientation:adj", "angle / printed precision", abs(wrap400(o["adj"] - ad)), 0.0, hang + 0.5e-6 + 1e-9,
                  "adjusted orientation at %r (%.7f vs %.6f)" % (pid, o["adj"], ad))
            close("orientation:approx", "angle / printed precision", abs(wrap400(o["approx"] - ap)), 0.0,
                  hang + 0.5e-6 + 1e-9, "approximate orientation at %r (%.7f vs %.6f)" % (pid, o["approx"], ap))
    O = R["observations"]
    if len(J["observations"]) != len(O):
        viol(P + "observations:count", "%d observations read, %d in the XML" % (len(J["observations"]), len(O)))
    else:
        for k, (a, b) in enumerate(zip(J["observations"], O)):
            ang = b["tag"] in ANGULAR_TAGS
            same("obs:tag", a["tag"], b["tag"])
            same("obs:from", a["from"], b.get("from", b.get("id")), idlike=True)
            if b["tag"].startswith("coordinate-"):
                pass                    # the HTML has no target for an observed coordinate
            else:
                same("obs:to", a["to"], b.get("to", ""), idlike=True)
            same("obs:left", a["left"], b.get("left", ""), idlike=True)
            same("obs:right", a["right"], b.get("right", ""), idlike=True)
            kind = "angular" if ang else "linear"
            for f in ("obs", "adj"):
                if isinstance(a[f], str):
                    viol(P + "obs:%s:%s" % (f, kind), "observation %d (%s): %s read as %s" % (k + 1, b["tag"], f, a[f]))
                elif ang:
                    close("obs:%s:angular" % f, "angle / printed precision", abs(wrap400(a[f] - b[f])), 0.0, hang + 1e-9,
                          "%s of observation %d (%s): %.7f vs %.7f gon" % (f, k + 1, b["tag"], a[f], b[f]))
                elif (b["tag"] in ("coordinate-y", "dy") and ys == "-1" and abs(a[f] + b[f]) <= 0.5e-5 + 1e-9 < abs(b[f])):
                    viol(P + "obs:%s:y-sign" % f, "%s of observation %d (%s): read_html %.5f, XML %.5f (the HTML lists this y "
                         "with the internal sign)" % (f, k + 1, b["tag"], a[f], b[f]))
                else:
                    close("obs:%s:linear" % f, "coordinate / printed precision", a[f], b[f], 0.5e-5 + 1e-9,
                          "%s of observation %d (%s)" % (f, k + 1, b["tag"]))
            # read_xml delivers the standard deviation in mm / cc; the same class filled by read_html must too
            unit = 0.05 / SS if (ang and deg) else 0.05
            close("obs:stdev:%s:%s" % (kind, angular), "std.dev / printed precision", a["stdev"], b["stdev"],
                  unit * 1.000001 + 1e-9, "std. deviation of observation %d (%s) [mm|cc]" % (k + 1, b["tag"]))
            close("obs:f", "f / printed precision", a["f"], b["f"], 0.05 + 0.0005 + 1e-9, "f of observation %d" % (k + 1))
            if "std-residual" in b:
                close("obs:std-residual", "f / printed precision", a["std_residual"], b["std-residual"],
                      0.05 + 0.0005 + 1e-9, "studentized residual of observation %d" % (k + 1))
    L.count("fields compared: own reader html", n[0])


def cmp_octave(L, viol, V, bad, R, T, C, c):
    P = "cross:octave:"
    n = 0
    for name, s in bad[:3]:
        ch = [nm for ch_, nm in SPECIAL_NAME.items() if ch_ in s[1:-1]]
        viol(P + "ill-formed-string:%s" % (ch[0] if ch else "other"),
             "%s holds %s, which is not an Octave string literal" % (name, s[:80]))
    need = ("unknowns", "observations", "network_defect", "m_0_apriori", "m_0_aposteriori", "sum_of_squares",
            "FixedPoints", "FixedXYZ", "Points", "Indexes", "XYZ", "C_xx")
    miss = [k for k in need if k not in V]
    if miss:
        viol(P + "structure", "the .m file does not define %s" % miss)
        return
    for k, x in (("unknowns", R["unknowns"]), ("observations", R["equations"]), ("network_defect", R["defect"])):
        n += 1
        if int(V[k]) != x:
            viol(P + k, "%s = %s in the .m file, %s in the XML" % (k, V[k], x))
    cs = R["coordinates_summary"]
    for grp in ("adjusted", "constrained", "fixed"):
        for cc in ("xyz", "xy", "z"):
            n += 1
            if int(V["%s_%s" % (grp, cc)]) != cs[grp]["count-" + cc]:
                viol(P + "coordinates-summary", "%s_%s = %s, XML %s" % (grp, cc, V["%s_%s" % (grp, cc)], cs[grp]))
    check_close(L, viol, P + "m_0_apriori", "octave: scalar / 6 significant digits", float(V["m_0_apriori"]), R["apriori"],
                sig_tol(V["m_0_apriori"], 6) + 1e-7 * R["apriori"], "m_0_apriori")
    check_close(L, viol, P + "sum_of_squares", "octave: scalar / 6 significant digits", float(V["sum_of_squares"]),
                R["sum_of_squares"], sig_tol(V["sum_of_squares"], 6) + 1e-7 * R["sum_of_squares"], "sum_of_squares")
    check_close(L, viol, P + "m_0_aposteriori:sigma-act=" + R["used"], "octave: scalar / 6 significant digits",
                float(V["m_0_aposteriori"]), R["aposteriori"], sig_tol(V["m_0_aposteriori"], 6) + 1e-7 * R["aposteriori"],
                "m_0_aposteriori (standard deviation in use: %s, a priori %s)" % (R["used"], R["apriori"]))
    n += 3
    fx = list(R["fixed"].items())
    if not bad and [p for p, _ in fx] != V["FixedPoints"]:
        viol(P + "FixedPoints", "FixedPoints = %r, XML fixed points %r" % (V["FixedPoints"][:5], [p for p, _ in fx][:5]))
    if len(V["FixedXYZ"]) != len(fx):
        viol(P + "FixedXYZ:rows", "%d rows, %d fixed points" % (len(V["FixedXYZ"]), len(fx)))
    else:
        for row, (pid, v) in zip(V["FixedXYZ"], fx):
            if (row[0] == "1") != ("x" in v) or (row[1] == "1") != ("z" in v):
                viol(P + "FixedXYZ:flags", "%r: flags %s, XML %s" % (pid, row[:2], sorted(v)))
            for a, cell in zip(("x", "y", "z"), row[2:]):
                if a in v:
                    n += 1
                    if a == "y" and ysign(c["frame"]) == "-1" and abs(float(cell) + v[a]) <= 1e-6 < abs(v[a]):
                        viol(P + "FixedXYZ:y-sign", "fixed y of %r is %s, the XML (and XYZ of the same file) use the "
                             "opposite sign: %.6f" % (pid, cell, v[a]))
                        continue
                    check_close(L, viol, P + "FixedXYZ:" + a, "octave: coordinate / printed precision", float(cell), v[a],
                                half_ulp(cell) + 0.5e-6 + 1e-9, "fixed %s of %r" % (a, pid), " m")
    exp = [(pid, R["adjusted"][pid]) for pid in R["adjusted_order"]]
    if not bad and [p for p, _ in exp] != V["Points"]:
        viol(P + "Points", "Points = %r, XML adjusted points %r" % (V["Points"][:5], [p for p, _ in exp][:5]))
    byid = {}
    for i, t in T.items():
        if t["kind"] != "r":
            byid[(t["id"], t["kind"])] = i
    if len(V["XYZ"]) != len(exp) or len(V["Indexes"]) != len(exp):
        viol(P + "XYZ:rows", "%d rows of XYZ, %d of Indexes, %d adjusted points" % (len(V["XYZ"]), len(V["Indexes"]), len(exp)))
    else:
        for row, irow, (pid, v) in zip(V["XYZ"], V["Indexes"], exp):
            kv = {k.lower(): x for k, x in v.items()}
            for a, cell, ic in zip(("x", "y", "z"), row, irow):
                n += 1
                if int(ic) != byid.get((pid, a), 0):
                    viol(P + "Indexes", "%r %s: index %s, XML original-index %s" % (pid, a, ic, byid.get((pid, a), 0)))
                if a in kv:
                    check_close(L, viol, P + "XYZ:" + a, "octave: coordinate / printed precision", float(cell), kv[a],
                                half_ulp(cell) + 1e-9, "adjusted %s of %r" % (a, pid), " m")
    if "XYZ_0" in V and len(V["XYZ_0"]) == len(exp) == len(V["XYZ"]):
        for r0, r1, (pid, v) in zip(V["XYZ_0"], V["XYZ"], exp):
            if has(v, "y") and abs(float(r1[1])) > 2.0 and abs(float(r0[1]) + float(r1[1])) < 1.0:
                viol(P + "XYZ_0:y-sign", "approximate y of %r is %s, adjusted y %s: opposite signs in one file" % (pid, r0[1], r1[1]))
                break
    nc = sum(1 for t in T.values() if t["kind"] != "r")
    M = V["C_xx"]
    if len(M) != nc or any(len(r) != nc for r in M):
        viol(P + "C_xx:dim", "C_xx has %d rows (%s columns), %d adjusted coordinates" % (
            len(M), sorted({len(r) for r in M})[:3], nc))
    else:
        for i in range(nc):
            for j in range(i, nc):
                x = C[i, j]
                if x != x:
                    continue
                n += 1
                a = float(M[i][j])
                tol = 1.1e-7 * max(abs(a), abs(x)) + 1e-10 * math.sqrt(abs(C[i, i] * C[j, j])) + 1e-300
                kind = "diagonal" if i == j else "off-diagonal"
                if ysign(c["frame"]) == "-1" and abs(a + x) <= tol < abs(x):
                    viol(P + "C_xx:y-sign", "C_xx(%d,%d) = %s, cov-mat of the XML %.8g: the covariances of y keep the "
                         "internal sign while XYZ lists y with the sign of the input" % (i + 1, j + 1, M[i][j], x))
                    continue
                check_close(L, viol, P + "C_xx:" + kind, "octave: C_xx / 8 significant digits", a, x, tol,
                            "C_xx(%d,%d) vs cov-mat" % (i + 1, j + 1))
                a2 = float(M[j][i])
                if a2 != a:
                    L.ratio("octave: C_xx / 8 significant digits", abs(a2 - a), tol)
                    if abs(a2 - a) > tol:
                        viol(P + "C_xx:symmetry", "C_xx(%d,%d)=%s, C_xx(%d,%d)=%s" % (i + 1, j + 1, M[i][j], j + 1, i + 1, M[j][i]))
    L.count("numbers compared: octave", n)


# ------------------------------------------------------------------------------------------- consumers

def _sorted_ids(ids):
    return sorted(ids, key=lambda s: s.encode("utf-8"))       # std::map<std::string>: byte order


def has(v, a):
    return a in v or a.upper() in v


def val(v, a):
    return v[a] if a in v else v[a.upper()]


def check_compare_xyz(L, viol, out, rc, RA, RB, selfcmp, blank):
    P = "compare-xyz:" + ("self:" if selfcmp else "")
    sfx = ":id-inner-blank" if blank else ""
    lines = [l for l in out.split("\n")]
    body, k = [], 0
    while k < len(lines) and (lines[k].startswith("# gama-local") or not lines[k].strip()):
        k += 1
    while k < len(lines) and lines[k].strip() and not lines[k].startswith("max "):
        body.append(lines[k])
        k += 1
    rest = [l for l in lines[k:] if l.strip()]
    common = [p for p in _sorted_ids(RA["adjusted"]) if p in RB["adjusted"]
              and all(has(RA["adjusted"][p], a) and has(RB["adjusted"][p], a) for a in ("x", "z"))]
    got = []
    for j in range(0, len(body) - 1, 2):
        t = body[j].rsplit(None, 4)
        d = body[j + 1].split()
        if len(t) != 5 or len(d) != 3:
            viol(P + "format" + sfx, "unexpected output lines %r / %r" % (body[j][:120], body[j + 1][:120]))
            return
        got.append((t[0], t[1], [float(x) for x in t[2:]], [float(x) for x in d]))
    if [g[0] for g in got] != common or len(body) % 2:
        viol(P + "points" + sfx, "points compared: %r, common xyz points of the two <adjusted> lists: %r" % (
            [g[0] for g in got][:8], common[:8]))
        return
    DX = [0.0, 0.0, 0.0]
    for pid, dim, xyz, dif in got:
        a, b = RA["adjusted"][pid], RB["adjusted"][pid]
        for j, ax in enumerate("xyz"):
            e = val(b, ax) - val(a, ax)
            if abs(e) > abs(DX[j]):
                DX[j] = e
            if selfcmp:
                if dif[j] != 0.0:
                    viol(P + "difference", "difference %g of %r with itself" % (dif[j], pid))
            else:
                check_close(L, viol, P + "difference", "compare-xyz: difference / printed precision", dif[j], e,
                            0.5e-14 + 4e-16 * (abs(val(a, ax)) + abs(val(b, ax))) + 1e-300, "%s difference of %r" % (ax, pid), " m")
            check_close(L, viol, P + "coordinate", "compare-xyz: coordinate / printed precision", xyz[j], val(a, ax),
                        0.5e-14 + 4e-16 * abs(val(a, ax)), "%s of %r" % (ax, pid), " m")
    if not rest or not rest[0].startswith("max"):
        viol(P + "format", "no 'max' line")
        return
    mx = [float(x) for x in rest[0].split()[1:]]
    for j in range(3):
        check_close(L, viol, P + "max", "compare-xyz: difference / printed precision", mx[j], DX[j],
                    0.5e-14 + 1e-15 * (1 + abs(DX[j])) * 1e3, "max difference in %s" % "xyz"[j], " m")
    passed = max(abs(x) for x in DX) <= 1e-5
    verdict = rest[1].split()[0] if len(rest) > 1 else "?"
    if abs(max(abs(x) for x in DX) - 1e-5) > 1e-12 and ((verdict == "Passed") != passed or (rc == 0) != passed):
        viol(P + "verdict", "verdict %s, exit code %s, largest difference %.3g m (tolerance 1e-5)" % (
            verdict, rc, max(abs(x) for x in DX)))
    L.count("compare-xyz points", len(got))


def check_deformation(L, viol, out, RA, RB, selfcmp, blank):
    P = "deformation:" + ("self:" if selfcmp else "")
    sfx = ":id-inner-blank" if blank else ""
    lines = out.split("\n")
    pts, k = [], 0
    while k < len(lines) and (lines[k].startswith("#") or not lines[k].strip()):
        k += 1
    while k < len(lines) and lines[k].strip():
        pts.append(lines[k])
        k += 1
    while k < len(lines) and (lines[k].startswith("#") or not lines[k].strip()):
        k += 1
    mat = [l.split() for l in lines[k:] if l.strip()]
    exp = []
    for p in _sorted_ids(RA["adjusted"]):
        if p not in RB["adjusted"]:
            continue
        a, b = RA["adjusted"][p], RB["adjusted"][p]
        axes = (["x", "y"] if has(a, "x") and has(b, "x") else []) + (["z"] if has(a, "z") and has(b, "z") else [])
        if axes:
            exp.append((p, axes))
    got = []
    for l in pts:
        t = l.rsplit(None, 9)
        if len(t) != 10:
            viol(P + "format" + sfx, "unexpected line %r" % l[:160])
            return
        got.append((t[0].strip(), [int(x) for x in t[1:4]], [float(x) for x in t[4:7]], [float(x) for x in t[7:10]]))
    if [g[0] for g in got] != [e[0] for e in exp]:
        viol(P + "points" + sfx, "points listed %r, common adjusted points of the two epochs %r" % (
            [g[0] for g in got][:8], [e[0] for e in exp][:8]))
        return
    labA = {lab: r for r, lab in enumerate(xmlout.cov_labels(RA))}
    labB = {lab: r for r, lab in enumerate(xmlout.cov_labels(RB))}
    CA, CB = xmlout.cov_matrix(RA), xmlout.cov_matrix(RB)
    rows, idx = [], 0
    for (pid, ind, dif, xyz2), (_, axes) in zip(got, exp):
        a, b = RA["adjusted"][pid], RB["adjusted"][pid]
        want = [0, 0, 0]
        for ax in axes:
            idx += 1
            want["xyz".index(ax)] = idx
            rows.append((labA[(pid, ax)], labB[(pid, ax)]))
            j = "xyz".index(ax)
            e = val(b, ax) - val(a, ax)
            if selfcmp and dif[j] != 0.0:
                viol(P + "shift", "shift %g of %r between a result and itself" % (dif[j], pid))
            check_close(L, viol, P + "shift", "deformation: shift / printed precision", dif[j], e, 0.5e-5 + 1e-9,
                        "%s shift of %r" % (ax, pid), " m")
            check_close(L, viol, P + "epoch2", "deformation: coordinate / printed precision", xyz2[j], val(b, ax),
                        0.5e-5 + 1e-9, "epoch 2 %s of %r" % (ax, pid), " m")
        if ind != want:
            viol(P + "indexes", "covariance indexes %s of %r, expected %s" % (ind, pid, want))
    if not mat or len(mat[0]) != 2 or int(mat[0][0]) != idx:
        viol(P + "covariance:dim", "covariance matrix header %r, %d shifts listed" % (mat[:1], idx))
        return
    if len(mat) - 1 != idx or any(len(mat[1 + i]) != idx - i for i in range(idx)):
        viol(P + "covariance:dim", "covariance matrix rows do not form the upper triangle of dim %d" % idx)
        return
    ncmp = 0
    for i in range(idx):
        for j in range(i, idx):
            e = CA[rows[i][0], rows[j][0]] + CB[rows[i][1], rows[j][1]]
            if e != e:
                continue                      # outside the band written to one of the XML files: nothing to compare with
            g = float(mat[1 + i][j - i])
            ncmp += 1
            check_close(L, viol, P + "covariance", "deformation: covariance / printed precision", g, e,
                        0.5e-5 + 1.1e-7 * (abs(CA[rows[i][0], rows[j][0]]) + abs(CB[rows[i][1], rows[j][1]])) + 1e-9,
                        "covariance (%d,%d) of the shifts" % (i + 1, j + 1))
    L.count("deformation covariances compared", ncmp)
    L.count("deformation points", len(got))


# ------------------------------------------------------------------------------------------- one case

def short(cls):
    return cls.split("-", 1)[1] if cls.startswith("special-") else cls


def _cause(c, where=None):
    """(place, character class) to which a failure on hostile strings is attributed: a case carries XML special
    characters in exactly one place"""
    cls = c["hcls"]
    return "%s:%s" % (c["place"], short(cls))


def gkf(net, fr):
    """netgen's serialisation + the extern attribute of <vec> elements"""
    txt = netgen.to_gkf(net, fr)
    vex = [e for cl in net.clusters if cl.kind == "vectors" for e in getattr(cl, "vec_extern", [])]
    if vex:
        out, k = [], 0
        for l in txt.split("\n"):
            if l.startswith("<vec ") and l.endswith(" />") and k < len(vex):
                l = l[:-3] + ' extern="%s" />' % netgen.esc(vex[k])
                k += 1
            out.append(l)
        txt = "\n".join(out)
    return txt


def expected_strings(c):
    """ids as gama identifies them; extern values as tokens (the XSD types extern as xs:token)"""
    net, fr = c["net"], c["frame"]
    ids = {norm_id(fr.pid(p)) for p in net.points}
    ext, must = set(), set()
    for cl in net.clusters:
        if cl.extern is not None and cl.kind == "coords":
            ext.add(norm_id(cl.extern))
        for e in getattr(cl, "vec_extern", []):
            ext.add(norm_id(e))
            must.add(norm_id(e))
        for o in cl.obs:
            if o.extern is not None:
                ext.add(norm_id(o.extern))
                must.add(norm_id(o.extern))
    return ids, ext, must


def xml_strings(R):
    ids = set()
    for sec in ("fixed", "approximate", "adjusted", "ellipses"):
        ids |= set(R[sec])
    ids |= {o[0] for o in R["orientations"]}
    ext = set()
    for o in R["observations"]:
        for k in ("from", "to", "left", "right", "id"):
            if k in o:
                ids.add(o[k])
        if o.get("extern") is not None:
            ext.add(o["extern"])
    return ids, ext


def readdrv(mode, path):
    rr = runner.run([runner.binpath("san", "readdrv"), mode, path], timeout=120)
    J = None
    if rr.rc == 0 and rr.out:
        try:
            J = json.loads(rr.out)
        except ValueError as e:
            J = dict(exception="unparsable", what=str(e)[:200])
    return rr, J


def run_case(args):
    seed, i, tier, tmp = args
    L = Log()
    try:
        _run_case(L, seed, i, tier, tmp)
    except Exception as e:                                   # a bug of the check, never a verdict about gama
        import traceback
        L.inconc("check-exception:%s" % type(e).__name__)
        L.ev.append(("note", "case %d: %s" % (i, traceback.format_exc()[-1500:])))
    return i, L


def _run_case(L, seed, i, tier, tmp):
    c = gen_case(seed, i)
    net, fr = c["net"], c["frame"]
    cause = _cause(c)
    kind = net.kind
    bandname, band = c["band"]
    base = dict(seed=seed, index=i, kind=kind, hostile=cause, idclass=c["idcls"], band=bandname, angular=c["angular"],
                alg=c["alg"], axes=fr.axes, angles=fr.angles)
    seen = set()

    def viol(key, what, extra=None):
        if key in seen:
            return
        seen.add(key)
        w = dict(base)
        if extra:
            w.update(extra)
        L.violation(key, what + " [case %d, %s, hostile %s]" % (i, kind, cause), w)
    txtA = gkf(net, fr)
    txtB = gkf(c["netb"], fr)
    args = ["--algorithm", c["alg"], "--angular", c["angular"]]
    if band is not None:
        args += ["--cov-band", str(band)]
    name = "c%d" % i
    gA = xmlout.run_gama_local(txtA, tmp, name + "a", args=args, outputs=("xml", "text", "html", "octave", "svg"))
    dimtag = "%dd" % net.dim
    if gA.rr.timeout:
        L.inconc("timeout")
        return
    if L.sanitizer(gA.rr, dict(base, run="main"), prefix="gama-local:"):
        return
    xmlA = gA.files.get("xml")
    if xmlA is None:
        viol("gama-local:no-xml", "no XML written, rc=%s %s" % (gA.rc, gA.out[-200:]))
        return
    # ---- (1) well-formedness of the XML, strings carried
    L.case(("xml", dimtag, "hostile " + cause))
    L.cls(("run", kind, "band " + bandname, "angular " + c["angular"]))
    root, err = wellformed(xmlA)
    if err:
        viol("xml:ill-formed:" + cause, "the adjustment XML is not well-formed: %s | %s" % (err, _line_of(xmlA, err)))
    R = None
    if not err:
        try:
            R = xmlout.parse_adjustment(xmlA.decode("utf-8"))
        except xmlout.ParseFailure as e:
            viol("xml:structure", "independent reader: %s" % e)
    if R is not None and R["kind"] == "error":
        L.inconc("input refused: %s" % R["category"])
        return
    T = C = None
    if R is not None:
        eids, eext, emust = expected_strings(c)
        xids, xext = xml_strings(R)
        padj = {norm_id(fr.pid(p)) for p, q in net.points.items()
                if q.xy in ("free", "constrained") or q.z in ("free", "constrained")}
        if not xids <= eids or set(R["adjusted"]) != padj:
            odd = sorted(xids - eids)[:4] or sorted(set(R["adjusted"]) ^ padj)[:4]
            viol("xml:content:id:" + (cause.split(":")[1] if c["place"] == "id" else short(c["idcls"])),
                 "point ids in the XML that are not ids of the input: %r" % odd)
        xext = {norm_id(x) for x in xext}
        if not xext <= eext or not emust <= xext:
            odd = sorted(xext - eext)[:3] or sorted(emust - xext)[:3]
            viol("xml:content:extern:" + (cause.split(":")[1] if c["place"] == "extern" else short(c["extcls"])),
                 "extern values differ from the input's: %r" % [x[:60] for x in odd])
        if (R["description"] or "").strip() != c["desc"].strip():
            viol("xml:content:description:" + (cause.split(":")[1] if c["place"] == "description" else short(c["desccls"])),
                 "description %r, input %r" % ((R["description"] or "")[:80], c["desc"][:80]))
        try:
            T, C = unknown_table(R)
        except (ValueError, xmlout.ParseFailure) as e:
            viol("xml:cov-mat:layout", str(e))
        dim = R.get("cov_dim")
        if dim is not None:
            want = dim - 1 if (band is None or band > dim - 1) else band
            if dim and R["cov_band"] != want:
                viol("xml:cov-mat:band", "--cov-band %s, dim %d: band %s written" % (bandname, dim, R["cov_band"]))
            L.cls(("cov-band", bandname, "band written < dim-1" if R["cov_band"] < dim - 1 else "full"))
    ok = R is not None and T is not None
    # ---- (2) gama's own reader of the XML
    if ok:
        rr, J = readdrv("xml", os.path.join(tmp, name + "a.out.xml"))
        L.case(("own-reader-xml", "hostile " + cause, "band " + bandname))
        if not L.sanitizer(rr, dict(base, run="readdrv xml"), prefix="readdrv:xml:"):
            if J is None:
                viol("own-reader:no-answer", "readdrv rc=%s %s" % (rr.rc, rr.err[-200:]))
            elif "exception" in J:
                viol("own-reader:refused:" + cause, "read_xml refuses the well-formed XML written by gama-local: %s" % J)
            else:
                cmp_own_xml(L, viol, J, R)
    # ---- HTML: well-formed XHTML, independent scrape, own reader
    htmlA = gA.files.get("html")
    if htmlA is None:
        viol("html:missing", "no HTML written")
    else:
        L.case(("html", "hostile " + cause, "angular " + c["angular"]))
        hroot, herr = wellformed(htmlA, xhtml=True)
        if herr:
            hc = cause
            if c["place"] == "description" and c["desc"].lstrip().startswith("<"):
                hc = "description:leading-lt"     # html.cpp copies a description that begins with '<' as HTML markup
            viol("html:ill-formed:" + hc, "the XHTML output is not well-formed: %s | %s" % (herr, _line_of(htmlA, herr)))
        elif ok:
            try:
                H = scrape_html(hroot)
            except (ValueError, IndexError, KeyError) as e:
                H = None
                viol("cross:html:structure", "tables not found: %r" % e)
            if H is not None:
                cmp_scrape(L, viol, "html", H, R, T, c["angular"], ysign(fr))
                exp_ids = R["adjusted_order"]
                for got, exp, nm in ((H["ids"], exp_ids, "adjusted"), (H["fixed_ids"], list(R["fixed"]), "fixed"),
                                     (H["orient_ids"], [o[0] for o in R["orientations"]], "orientation")):
                    if got != exp:
                        bad = [(a, b) for a, b in zip(got, exp) if a != b][:2]
                        ch = [nm_ for ch_, nm_ in SPECIAL_NAME.items() if any(ch_ in b for _, b in bad)]
                        viol("cross:html:id:" + (ch[0] if ch else short(c["idcls"])),
                             "%s point ids in the HTML differ from the XML's: %r" % (nm, bad or (len(got), len(exp))))
            rr, J = readdrv("html", os.path.join(tmp, name + "a.out.html"))
            L.case(("own-reader-html", dimtag, "hostile " + cause, "angular " + c["angular"]))
            if not L.sanitizer(rr, dict(base, run="readdrv html"), prefix="readdrv:html:"):
                if J is None:
                    viol("own-reader-html:no-answer", "readdrv rc=%s %s" % (rr.rc, rr.err[-200:]))
                elif "exception" in J:
                    viol("own-reader-html:refused:" + cause, "read_html refuses gama-local's HTML: %s" % J)
                else:
                    cmp_own_html(L, viol, J, R, T, c["angular"], ysign(fr))
    # ---- SVG
    svgA = gA.files.get("svg")
    if svgA is not None and net.dim >= 2:
        L.case(("svg", "hostile " + cause))
        sroot, serr = wellformed(svgA)
        if serr:
            viol("svg:ill-formed:" + cause, "the SVG output is not well-formed: %s | %s" % (serr, _line_of(svgA, serr)))
        elif ok:
            texts = {"".join(t.itertext()) for t in sroot.iter("{http://www.w3.org/2000/svg}text")}
            pts = {p for sec in ("fixed", "adjusted") for p, v in R[sec].items() if has(v, "x")}
            if not pts <= texts:
                viol("svg:content:id:" + short(c["idcls"]), "point labels missing in the SVG: %r" % sorted(pts - texts)[:4])
    # ---- text of the main run
    S = None
    textA = gA.files.get("text")
    if textA is not None and ok:
        L.case(("text", kind, "angular " + c["angular"], "en/utf-8"))
        try:
            tx = textA.decode("utf-8")
        except UnicodeDecodeError as e:
            tx = None
            viol("text:utf-8:undecodable", "text output is not UTF-8: %s" % e)
        if tx is not None:
            try:
                S = scrape_text(tx, R)
            except (ValueError, IndexError) as e:
                L.inconc("text layout not recognised")
                L.ev.append(("note", "case %d: text layout: %r" % (i, e)))
            if S is not None:
                cmp_scrape(L, viol, "text", S, R, T, c["angular"], ysign(fr))
    # ---- octave
    octA = gA.files.get("octave")
    if octA is not None and ok:
        L.case(("octave", dimtag, c["alg"], "y-sign " + ysign(fr), "sigma-act " + net.params["sigma_act"]))
        try:
            V, bad = parse_octave(octA.decode("utf-8"))
            cmp_octave(L, viol, V, bad, R, T, C, c)
        except UnicodeDecodeError as e:
            viol("cross:octave:undecodable", str(e))
    # ---- (4) consumers
    if ok:
        consumers(L, viol, c, base, tmp, name, txtB, args, R)
    # ---- other languages / encodings of the text output
    if ok and S is not None:
        languages(L, viol, c, base, tmp, name, txtA, args, R, S)
    if i < 3:
        L.sample(dict(index=i, kind=kind, hostile=cause, ids=[fr.pid(p) for p in net.points][:4], band=bandname,
                      angular=c["angular"], observations=R["equations"] if R else None, lang=c["lang"], encs=c["encs"]))


def _sq(t):
    """runs of blanks -> one blank (str or bytes): column padding of translated words is computed from byte lengths and
    differs between encodings; that is layout, not content"""
    return re.sub(rb" +", b" ", t) if isinstance(t, bytes) else re.sub(r" +", " ", t)


def ysign(fr):
    left = fr.axes in netgen.AXES_LEFT
    return "+1" if left == (fr.angles == "left-handed") else "-1"


def consumers(L, viol, c, base, tmp, name, txtB, args, RA):
    kind = c["net"].kind
    gB = xmlout.run_gama_local(txtB, tmp, name + "b", args=args, outputs=("xml",))
    if L.sanitizer(gB.rr, dict(base, run="epoch 2"), prefix="gama-local:") or gB.rr.timeout:
        return
    RB = gB.xml
    if RB is None or RB["kind"] != "adjustment":
        L.inconc("second epoch not adjusted")
        return
    fa, fb = os.path.join(tmp, name + "a.out.xml"), os.path.join(tmp, name + "b.out.xml")
    blank = any(" " in p for p in list(RA["adjusted"]) + list(RB["adjusted"]))
    full = RA["cov_band"] == RA["cov_dim"] - 1
    for selfcmp, f2, R2 in ((True, fa, RA), (False, fb, RB)):
        rr = runner.run([runner.binpath("san", "compare-xyz"), fa, f2], timeout=120)
        L.case(("compare-xyz", "self" if selfcmp else "two epochs", kind))
        if not L.sanitizer(rr, dict(base, run="compare-xyz"), prefix="compare-xyz:"):
            check_compare_xyz(L, viol, rr.out, rr.rc, RA, R2, selfcmp, blank)
        rr = runner.run([runner.binpath("san", "gama-local-deformation"), fa, f2], timeout=120)
        L.case(("deformation", "self" if selfcmp else "two epochs", "%dd" % c["net"].dim,
                "full cov" if full else "band " + c["band"][0]))
        w = dict(base, run="gama-local-deformation " + ("a a" if selfcmp else "a b"))
        if rr.san or rr.signaled or rr.rc in (134, 139):
            pre = "deformation:" + ("" if full else "cov-band<dim-1:")
            L.sanitizer(rr, w, prefix=pre)
        elif rr.timeout:
            L.inconc("timeout")
        elif rr.rc != 0 and not full and "####" in rr.err:
            L.count("deformation refused a band-limited covariance matrix with a message")
        else:
            check_deformation(L, viol, rr.out, RA, R2, selfcmp, blank)


def languages(L, viol, c, base, tmp, name, txtA, args, R, S):
    lang = c["lang"]
    ref = xmlout.run_gama_local(txtA, tmp, name + "l", args=args + ["--language", lang, "--encoding", "utf-8"],
                                outputs=("text", "html"))
    L.case(("text-lang", lang, "utf-8", "representable"))
    if L.sanitizer(ref.rr, dict(base, run="language " + lang), prefix="gama-local:"):
        return
    tb = ref.files.get("text")
    if tb is None:
        viol("text:utf-8:missing", "no text output for --language %s" % lang)
        return
    hb = ref.files.get("html")
    if hb is not None:
        _, herr = wellformed(hb, xhtml=True)
        if herr and c["place"] != "description":
            viol("html:ill-formed:language:%s:%s" % (lang, _cause(c)), "XHTML (--language %s) not well-formed: %s | %s" % (
                lang, herr, _line_of(hb, herr)))
    try:
        tu = tb.decode("utf-8")
    except UnicodeDecodeError as e:
        viol("text:utf-8:undecodable:" + lang, "text output (--language %s) is not UTF-8: %s" % (lang, e))
        return
    try:
        Su = scrape_text(tu, R)
    except (ValueError, IndexError) as e:
        viol("text:utf-8:structure:" + lang, "layout of the text output not recognised for --language %s: %r" % (lang, e))
        return
    dif = [k for k in S if S[k] != Su.get(k)]
    if dif:
        viol("text:utf-8:numbers:" + lang, "numbers differ from the English output in %s" % dif[:4])
    for enc in c["encs"]:
        if enc == "utf-8":
            continue
        g = xmlout.run_gama_local(txtA, tmp, name + "e" + enc, args=args + ["--language", lang, "--encoding", enc],
                                  outputs=("text",))
        if L.sanitizer(g.rr, dict(base, run="%s/%s" % (lang, enc)), prefix="gama-local:"):
            continue
        eb = g.files.get("text")
        if eb is None:
            viol("text:%s:missing" % enc, "no text output")
            continue
        codec = PYCODEC[enc]
        if enc == "iso-8859-2-flat":
            try:
                tu.encode("iso8859_2")
                representable = True
            except UnicodeEncodeError:
                representable = False
        else:
            try:
                want = tu.encode(codec)
                representable = True
            except UnicodeEncodeError:
                representable = False
        L.case(("text-lang", lang, enc, "representable" if representable else "not representable in the encoding"))
        if not representable:
            # the user asked for an encoding that cannot express the words / ids: only "runs and still carries
            # the numbers where they can be located" is demanded
            try:
                Se = scrape_text(eb.decode("latin-1"), R)
                if any(Se[k] != S[k] for k in ("equations", "unknowns", "dof", "defect", "pvv", "coords")):
                    L.count("unrepresentable text: numbers differ")
                else:
                    L.count("unrepresentable text: numbers found")
            except (ValueError, IndexError):
                L.count("unrepresentable text: layout lost")
            continue
        if enc == "iso-8859-2-flat":
            try:
                te = eb.decode("ascii")
            except UnicodeDecodeError as e:
                raw = eb[e.start:e.start + 4]
                ok8 = any(raw[:n].decode("utf-8", "ignore") for n in (2, 3, 4))
                viol("text:%s:%s" % (enc, "not-recoded" if ok8 else "undecodable"), "flat output is not ASCII (--language %s): "
                     "%s%s" % (lang, e, "; the bytes are raw UTF-8" if ok8 else ""))
                continue
            if len(_sq(te)) != len(_sq(tu)):
                viol("text:%s:length" % enc, "flat output has %d characters, UTF-8 output %d, runs of blanks counted once "
                     "(--language %s)" % (len(_sq(te)), len(_sq(tu)), lang))
        else:
            eb_, want = _sq(eb), _sq(want)
            if eb_ != want:
                tw = _sq(tu)
                kb = next((j for j in range(min(len(eb_), len(want))) if eb_[j] != want[j]), min(len(eb_), len(want)))
                u8 = tw[kb].encode("utf-8") if kb < len(tw) else b""
                if len(u8) > 1 and eb_[kb:kb + len(u8)] == u8:
                    ln = tw[tw.rfind("\n", 0, kb) + 1:kb + 20]
                    viol("text:%s:not-recoded" % enc, "the output mixes encodings: %r is written as raw UTF-8 bytes %r in "
                         "the line %r (--language %s)" % (tw[kb], u8, ln[:80], lang))
                    continue
                try:
                    td = eb_.decode(codec)
                except UnicodeDecodeError as e:
                    viol("text:%s:undecodable" % enc, "output does not decode as %s (--language %s): %s" % (enc, lang, e))
                    continue
                k = next((j for j in range(min(len(td), len(tw))) if td[j] != tw[j]), min(len(td), len(tw)))
                cp = "U+%04X" % ord(tw[k]) if k < len(tw) else "length"
                viol("text:%s:bytes:%s" % (enc, cp), "output is not the %s encoding of the UTF-8 output of the same run: "
                     "character %d is %r, expected %r (context %r; --language %s; runs of blanks counted once)" % (
                         enc, k, td[k:k + 1], tw[k:k + 1], tw[max(0, k - 15):k + 10], lang))
            te = eb.decode(codec, "replace")
        try:
            Se = scrape_text(te, R)
        except (ValueError, IndexError) as e:
            viol("text:%s:structure" % enc, "layout not recognised (--language %s): %r" % (lang, e))
            continue
        dif = [k for k in S if S[k] != Se.get(k)]
        if dif:
            viol("text:%s:numbers" % enc, "numbers differ from the UTF-8 output in %s (--language %s)" % (dif[:4], lang))


# ------------------------------------------------------------------------------------------- entry points

RULE = ("generated 1D/2D/3D networks (fixed/free/mixed datum; directions, distances, angles, azimuths, slope distances, "
        "zenith angles, levelling, vectors, observed coordinates, correlated clusters; 8 axes-xy x 2 handedness; sigma-act "
        "aposteriori/apriori; 4 algorithms) whose point ids / extern attributes / description come from a hostile pool "
        "(one of & < > \" ' in exactly one place per case; 2-,3-,4-byte UTF-8; 300 characters; leading/trailing/inner "
        "blanks; number-like; case-only differences; distinct under gama's identification of ids), --cov-band in "
        "{default,0,1,2,dim-1,dim+5}, --angular 400/360; one run writes xml+text+html+octave+svg, a second epoch (other "
        "noise, sometimes one more fixed point) feeds compare-xyz and gama-local-deformation, 1 language x 3 encodings "
        "of the text output per case (all 11 x 5 over the run). class = (oracle/output, network kind, hostile place:class, "
        "cov-band, angular | language, encoding, representable)")


def run(tier, seed, only=None):
    runner.build("san", targets=["readdrv", "gama-local", "compare-xyz", "gama-local-deformation"])
    ck = Check("C12", tier, seed, RULE)
    n = tier_n(tier, 80, 2000)
    idx = [i for i in range(n) if only is None or i == only]
    jobs = [(seed, i, tier, ck.tmp) for i in idx]
    results = runner.pmap_proc(run_case, jobs) if len(jobs) > 1 else [run_case(j) for j in jobs]
    notes = []
    for i, L in results:
        attach = {}
        if any(e[0] == "violation" for e in L.ev):
            c = gen_case(seed, i)
            attach = dict(input=gkf(c["net"], c["frame"]), input_epoch2=gkf(c["netb"], c["frame"]),
                          tier=tier)
        for e in [e for e in L.ev if e[0] == "note"]:
            notes.append(e[1])
        L.ev = [e for e in L.ev if e[0] != "note"]
        L.replay(ck, attach)
    for t in notes[:5]:
        print("NOTE " + t)
    ck.counters["notes"] = len(notes)
    ck.assumptions += [
        "ids are identified by gama after dropping outer blanks and collapsing inner runs of blanks (PointID); the "
        "generator never uses two ids that gama identifies",
        "the layout of the text output (titles underlined by '*', '[pvv] :', right-aligned numeric columns) and the "
        "table ids of the HTML output are used to locate numbers; words are never compared",
        "tolerances = half a unit of the last printed digit of the less precise side + rounding of the other",
        "a text encoding that cannot represent the language's words or the ids (python codecs decide) is only required "
        "to run; representable ones must equal python's encoding of the UTF-8 output byte for byte"]
    ck.minimum = dict(evaluations=tier_n(tier, 600, 15000), distinct=tier_n(tier, 120, 250))
    return ck.finish()


def replay(path):
    w = json.load(open(path))
    return run(w["tier"], w["witness"]["seed"], only=w["witness"]["index"])
