"""C16 — sparse kernels equal their dense definitions.

Reference-model monitor.  The sanitized driver harness/sparsedrv.cpp contains the generator of sparsity
patterns and the oracle (dense long-double linear algebra, exact integer rank, union-find) and runs gama's
SparseMatrix / SparseVector / SparseMatrixGraph / ReverseCuthillMcKee / Envelope / BlockDiagonal /
Homogenization on every generated pattern.  This module shards the cases over processes, routes sanitizer
reports and aborts through the violation machinery (a crashed shard is resumed; the culprit case is re-run
alone, one sub-check per process), and aggregates the driver's records into the evidence.

Case i is a function of (seed, i) only;  replay:  sparsedrv <subcheck> <seed> <case> 1 --dump
"""
import json
import math
import os

from .. import runner
from ..runner import Check, tier_n

SUBS = ["smatrix", "graph", "rcm", "envelope", "bdiag", "homog"]
MAX_CRASHES_PER_SHARD = 400


def _extra():
    sab = os.environ.get("VERIF_C16_SABOTAGE")       # sensitivity self-test only (CONVENTIONS rule 7)
    return ["--sabotage", sab] if sab else []


def _run(sub, seed, first, n, extra=()):
    exe = runner.binpath("san", "sparsedrv")
    return runner.run([exe, sub, str(seed), str(first), str(n)] + list(extra) + _extra(), timeout=3600)


def _parse(out):
    p = dict(V=[], K={}, N={}, R={}, S=[], X=[], D=[], last=None, done=None)
    for ln in out.splitlines():
        if not ln:
            continue
        t, _, rest = ln.partition(" ")
        if t == "C":
            p["last"] = int(rest)
        elif t == "V":
            parts = rest.split(" | ")
            if len(parts) >= 3:
                w = parts[-1].split()
                p["V"].append((parts[0].strip(), " | ".join(parts[1:-1]),
                               dict(subcheck=w[0], seed=int(w[1]), case=int(w[2]))))
            else:
                p["X"].append("unparsable V line: " + ln)
        elif t in ("K", "N"):
            name, _, val = rest.rpartition(" ")
            p[t][name] = p[t].get(name, 0) + int(val)
        elif t == "R":
            name, _, val = rest.rpartition(" ")
            p["R"][name] = max(p["R"].get(name, 0.0), float(val))
        elif t == "S":
            p["S"].append(rest)
        elif t == "X":
            p["X"].append(rest)
        elif t == "D":
            p["D"].append(rest)
        elif t == "DONE":
            p["done"] = int(rest)
    return p


def _shard(job):
    """Run cases [first, first+n).  Returns dict(parsed=[...], crashes=[(case, sub, RunResult)], notes=[...])."""
    seed, first, n = job
    res = dict(parsed=[], crashes=[], notes=[])
    pos, end, ncrash = first, first + n, 0
    while pos < end:
        rr = _run("all", seed, pos, end - pos)
        p = _parse(rr.out)
        if rr.rc == 0 and not rr.timeout and p["done"] == end - pos:
            res["parsed"].append(p)
            break
        c = p["last"]
        if rr.timeout or c is None:
            res["notes"].append("shard %d+%d: %s" % (pos, end - pos, "timeout" if rr.timeout else
                                                      "died before the first case rc=%s %s" % (rr.rc, rr.err[-300:])))
            break
        # the process died inside case c: the summary records of [pos, c) were lost, run that part again
        if c > pos:
            r2 = _run("all", seed, pos, c - pos)
            p2 = _parse(r2.out)
            if r2.rc == 0 and p2["done"] == c - pos:
                res["parsed"].append(p2)
            else:
                res["notes"].append("cases %d..%d not reproducible after a crash in case %d (rc=%s)" % (pos, c - 1, c, r2.rc))
        # culprit alone, one sub-check per process: precise witness, and the other sub-checks still observe it
        for sub in SUBS:
            r1 = _run(sub, seed, c, 1)
            p1 = _parse(r1.out)
            if r1.rc == 0 and not r1.timeout and p1["done"] == 1:
                res["parsed"].append(p1)
            else:
                res["crashes"].append((c, sub, r1))
        ncrash += 1
        if ncrash > MAX_CRASHES_PER_SHARD:
            res["notes"].append("more than %d crashing cases in one shard; rest of the shard not run" % MAX_CRASHES_PER_SHARD)
            break
        pos = c + 1
    return res


RULE = ("case = one generated sparsity pattern (m<=60 rows, n<=40 columns; kinds: random 5-100 % density, dense, banded, "
        "k disconnected components, empty rows, single column, levelling-type incidence rows, arrow, tiny incl. 0 rows/columns; "
        "modifiers: 0-4 duplicated/linearly combined columns, all-zero columns, explicit zeros, duplicate index in a row, "
        "row weights 2^-3..2^3) run through each sub-check; evaluation = (pattern, sub-check) pair observed by the dense oracle; "
        "class = (sub-check, kind, rank-defect bucket or graph class / block band class, size bucket, admitted|ambiguous)")


def run(tier, seed):
    runner.build("san", targets=["sparsedrv"])
    ck = Check("C16", tier, seed, RULE)
    npat = tier_n(tier, 1024, 30000)
    nshard = tier_n(tier, runner.NCPU, runner.NCPU * 4)
    per = int(math.ceil(npat / float(nshard)))
    jobs = [(seed, f, min(per, npat - f)) for f in range(0, npat, per)]
    results = runner.pmap(_shard, jobs)

    nsamp = 0
    for res in results:
        for note in res["notes"]:
            ck.inconc(note)
        for (c, sub, rr) in res["crashes"]:
            wit = dict(subcheck=sub, seed=seed, case=c,
                       cmd="sparsedrv %s %d %d 1 --dump" % (sub, seed, c))
            ck.count("crashed_subchecks")
            if rr.timeout:
                ck.inconc("timeout in %s case %d" % (sub, c))
            elif not ck.sanitizer(rr, wit, prefix=sub + ":"):
                ck.violation("%s:driver-died:rc=%s" % (sub, rr.rc), "driver ended with rc=%s without a sanitizer report: %s" % (
                    rr.rc, (rr.err or "")[-300:]), wit)
        for p in res["parsed"]:
            if p["X"]:
                raise runner.HarnessError("oracle self-check failed: " + "; ".join(p["X"][:3]))
            for key, what, wit in p["V"]:
                wit = dict(wit, cmd="sparsedrv %s %d %d 1 --dump" % (wit["subcheck"], wit["seed"], wit["case"]))
                ck.violation(key, what, wit)
            for k, n in p["K"].items():
                ck.cls(k, n)
            for k, n in p["N"].items():
                ck.count(k, n)
                if k.endswith("_cases"):
                    ck.case(None, n)
            for k, v in p["R"].items():
                ck.ratio(k, v, 1.0)
            for s in p["S"]:
                if nsamp < 6:
                    ck.sample(s)
                    nsamp += 1
    ck.count("patterns_requested", npat)
    ck.assumptions += [
        "entries of the design matrices are small integers times powers of two, so A'A and the planted linear dependencies are "
        "exact in double; the rank is accepted only when a lower bound (rank modulo two 31-bit primes) meets an upper bound "
        "(structural rank, and n minus the number of exactly verified independent integer null vectors)",
        "envelope factor/solve/inverse comparisons only on numerically unambiguous problems: independent pivots >= 100*sqrt(eps), "
        "dependent pivots with an a-priori double rounding bound <= sqrt(eps)/10, kappa_1(N_II) <= 1e8; tolerance "
        "(1e-12 + 100 eps kappa_1) * scale; the rejected ones are still executed under the sanitizers and counted",
        "for a singular normal matrix Envelope::solve/inverse are compared with the inverse of the sub-block of independent pivots "
        "padded with zeros (what the LDL' convention with zeroed pivots defines)",
        "block-diagonal Cholesky/Homogenization: SPD band blocks with kappa_1 <= 1e8, tolerance (1e-13 + 100 eps kappa_1) * scale",
        "Envelope(const BlockDiagonal&) (called nowhere in gama, outside the statement) is compared with the dense block matrix "
        "for information only: counters envelope_from_blockdiagonal_compared / _mismatch, never a violation",
        "not exercised: Envelope::set with a column index repeated inside one row (not produced by gama's linearisations); "
        "Homogenization with zero observations; upperSolve with start > 1 (never called that way)",
    ]
    q = tier == "quick"
    ck.minimum = dict(evaluations=int(npat * 5.5), distinct=tier_n(tier, 150, 400),
                      envelope_admitted=int(npat * 0.3), envelope_admitted_singular=int(npat * 0.08),
                      connected_false=int(npat * 0.1), connected_true=int(npat * 0.2),
                      bdiag_admitted=int(npat * 0.8), homog_cases=int(npat * 0.8),
                      bdiag_with_indefinite_block=10 if q else 1000)
    return ck.finish()


def replay(path):
    w = json.load(open(path))
    wit = w.get("witness") or {}
    sub, seed, case = wit.get("subcheck", "all"), int(wit.get("seed", w.get("seed", 1))), int(wit.get("case", 0))
    runner.build("san", targets=["sparsedrv"])
    rr = _run(sub, seed, case, 1, ["--dump"])
    print("replay: sparsedrv %s %d %d 1 --dump  (key %s)" % (sub, seed, case, w.get("key")))
    print(rr.out)
    p = _parse(rr.out)
    if rr.san or rr.rc != 0:
        print(rr.err[:3000])
        print("VIOLATION reproduced: %s" % (rr.san["key"] if rr.san else "rc=%s" % rr.rc))
        return 1
    if p["V"]:
        for key, what, _ in p["V"]:
            print("VIOLATION reproduced: %s : %s" % (key, what))
        return 1
    print("not reproduced")
    return 0
